#!/usr/bin/env python3
"""Re-base a stored change (seeded/<id>/patch.diff) on /repo's current HEAD when `git apply` no longer accepts it.
usage: rebase_seed.py <worktree> <seed-id> [...]

Each hunk is cut into change groups; a group is re-applied only when its removed lines together with the nearest
unchanged non-blank line before and after it are found exactly once in the current file (no fuzzy matching: `patch -F3`
misplaced hunks into a licence comment and into a locked region).  The result must build.  The old patch is kept as
patch.orig-<short HEAD of the tree it was made for>.diff and meta.json gets a `patch_rebased` note.  A re-based change
must be re-confirmed with tools/verify_seed.sh afterwards (this tool does not run tests)."""
import json, os, re, subprocess, sys

V = os.path.dirname(os.path.dirname(os.path.abspath(__file__)))


def parse(patch):
    files, cur, hunk = {}, None, None
    for line in open(patch):
        if line.startswith("+++ b/"):
            cur = line[6:].strip()
            files[cur] = []
            continue
        if line.startswith(("diff --git", "index ", "--- ", "new file", "deleted file")):
            continue
        if line.startswith("@@"):
            hunk = []
            files[cur].append(hunk)
            continue
        if hunk is not None and cur:
            hunk.append(line.rstrip("\n"))
    return files


def groups(hunk):
    out, i = [], 0
    while i < len(hunk):
        if hunk[i][:1] not in "+-":
            i += 1
            continue
        j = i
        while j < len(hunk) and hunk[j][:1] in "+-":
            j += 1
        removed = [l[1:] for l in hunk[i:j] if l[:1] == "-"]
        added = [l[1:] for l in hunk[i:j] if l[:1] == "+"]
        before = next((hunk[k][1:] for k in range(i - 1, -1, -1) if hunk[k][:1] == " " and hunk[k].strip()), None)
        after = next((hunk[k][1:] for k in range(j, len(hunk)) if hunk[k][:1] == " " and hunk[k].strip()), None)
        out.append((removed, added, before, after))
        i = j
    return out


def apply_group(lines, removed, added, before, after):
    n, hits = len(removed), []
    for i in range(len(lines) - n + 1):
        if lines[i:i + n] != removed:
            continue
        pb = next((lines[k] for k in range(i - 1, -1, -1) if lines[k].strip()), None)
        pa = next((lines[k] for k in range(i + n, len(lines)) if lines[k].strip()), None)
        if before is not None and pb != before:
            continue
        if after is not None and pa != after:
            continue
        if n == 0 and (before is None or after is None):
            continue
        hits.append(i)
    if n == 0:
        hits = [i for i in hits if i > 0 and (lines[i - 1] == before or not lines[i - 1].strip())]
        # several blank-line positions between the same neighbours are equivalent: take the first
        hits = hits[:1] if hits else hits
    if len(hits) != 1:
        return None
    i = hits[0]
    return lines[:i] + added + lines[i + n:]


def main():
    wt = sys.argv[1]
    env = dict(os.environ, GOFLAGS="-mod=mod", GOPROXY="off", GOSUMDB="off", GOTOOLCHAIN="local")
    head = subprocess.check_output(["git", "-C", wt, "rev-parse", "--short", "HEAD"], text=True).strip()
    for sid in sys.argv[2:]:
        d = os.path.join(V, "seeded", sid)
        subprocess.run(["git", "-C", wt, "checkout", "-q", "--", "."])
        subprocess.run(["git", "-C", wt, "clean", "-fdq"])
        if subprocess.run(["git", "-C", wt, "apply", "--check", os.path.join(d, "patch.diff")], capture_output=True).returncode == 0:
            print(sid, "applies as it is")
            continue
        ok = True
        for f, hunks in parse(os.path.join(d, "patch.diff")).items():
            p = os.path.join(wt, f)
            lines = open(p).read().split("\n")
            for h in hunks:
                for removed, added, before, after in groups(h):
                    lines = apply_group(lines, removed, added, before, after)
                    if lines is None:
                        ok = False
                        break
                if not ok:
                    break
            if not ok:
                break
            open(p, "w").write("\n".join(lines))
        if ok and subprocess.run(["go", "build", "./..."], cwd=wt, capture_output=True, env=env).returncode != 0:
            ok = False
        if not ok:
            subprocess.run(["git", "-C", wt, "checkout", "-q", "--", "."])
            print(sid, "NEEDS MANUAL WORK")
            continue
        diff = subprocess.check_output(["git", "-C", wt, "diff"], text=True)
        subprocess.run(["git", "-C", wt, "checkout", "-q", "--", "."])
        m = json.load(open(os.path.join(d, "meta.json")))
        keep = os.path.join(d, "patch.before-%s.diff" % head)
        if not os.path.exists(keep):
            os.rename(os.path.join(d, "patch.diff"), keep)
        open(os.path.join(d, "patch.diff"), "w").write(diff)
        m["patch_rebased"] = (m.get("patch_rebased", "") + "; " if m.get("patch_rebased") else "") + \
            "onto %s (exact-neighbour re-application of every change group; previous version kept as %s)" % (head, os.path.basename(keep))
        json.dump(m, open(os.path.join(d, "meta.json"), "w"), indent=1)
        print(sid, "re-based")


if __name__ == "__main__":
    main()
