#!/usr/bin/env python3
"""usage: trymutant.py <mutant-name> [worktree]  -- applies one corpus mutant to a scratch worktree, runs the owning
check against it, prints violations, reverts."""
import json, glob, subprocess, sys, os
name = sys.argv[1]; wt = sys.argv[2] if len(sys.argv) > 2 else "/tmp/wt/work"
m = None
for f in glob.glob("/verif/mutants/*.json"):
    for x in json.load(open(f)):
        if x["name"] == name: m = x
if not m: sys.exit("no such mutant")
subprocess.run(["git", "-C", wt, "checkout", "-q", "--", "."])
edits = [{"file": m["file"], "old": m["old"], "new": m["new"]}] + m.get("edits", [])
for e in edits:
    p = os.path.join(wt, e.get("file") or m["file"])
    s = open(p).read()
    assert s.count(e["old"]) == 1, ("anchor count", s.count(e["old"]), e["old"][:60])
    open(p, "w").write(s.replace(e["old"], e["new"]))
env = dict(os.environ, VERIF_DIR="/tmp/seedrun_v")
out = subprocess.run(["/verif/bin/mosverif", "check", m["property"], "-repo", wt], capture_output=True, text=True, env=env).stdout
for l in out.splitlines():
    if "violation [" in l or "undecided [" in l or l.startswith("C") and "tier=" in l: print(l[:500])
subprocess.run(["git", "-C", wt, "checkout", "-q", "--", "."])
