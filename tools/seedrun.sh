#!/bin/bash
# usage: tools/seedrun.sh [seed-name ...]   -- applies each seeded patch to /repo, runs the owning property's
# check (and all checks with ALL=1), reverts /repo. Prints one line per seed.
cd /verif
[ $# -eq 0 ] && set -- $(ls seeded)
for s in "$@"; do
  prop=${s%%-*}
  git -C /repo apply /verif/seeded/$s/patch.diff || { echo "$s applyfail"; git -C /repo checkout -- .; continue; }
  if [ -n "$ALL" ]; then
    out=$(VERIF_DIR=/tmp/seedrun_v bin/mosverif all 2>&1 | grep "^VIOLATION" | sed 's/ replay=.*//' | tr '\n' ' ')
  else
    out=$(VERIF_DIR=/tmp/seedrun_v bin/mosverif check $prop 2>&1 | grep "violation \[\|undecided \[\|^VIOLATION" | sed 's/ replay=.*//' | cut -c1-260)
  fi
  git -C /repo checkout -- .
  echo "== $s: ${out:-MISSED}"
done
rm -rf /tmp/seedrun_v
