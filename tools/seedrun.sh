#!/bin/bash
# usage: tools/seedrun.sh [seed-name ...]   -- applies each seeded patch, runs the owning property's check
# (all checks with ALL=1), reverts. Prints one block per seed. By default the patch is applied to /repo itself
# (and undone straight afterwards); set SEED_REPO=<scratch worktree of /repo> to leave /repo untouched.
cd /verif
R=${SEED_REPO:-/repo}
mkdir -p /tmp/seedrun_v && cp known_findings.txt /tmp/seedrun_v/
[ $# -eq 0 ] && set -- $(ls seeded | grep -v RESULTS)
for s in "$@"; do
  prop=${s#[RW][0-9]-}; prop=${prop#[RW][0-9][0-9]-}; prop=${prop%%-*}
  git -C $R apply /verif/seeded/$s/patch.diff || { echo "== $s: applyfail"; git -C $R checkout -- .; continue; }
  if [ -n "$ALL" ]; then
    out=$(VERIF_DIR=/tmp/seedrun_v bin/mosverif all -repo $R 2>&1 | grep "^VIOLATION" | sed 's/ replay=.*//' | tr '\n' ' ')
  else
    out=$(VERIF_DIR=/tmp/seedrun_v bin/mosverif check $prop -repo $R 2>&1 | grep "violation \[\|undecided \[" | sed 's/^ *//' | cut -c1-260)
  fi
  git -C $R checkout -- . ; git -C $R clean -fdq
  echo "== $s: ${out:-MISSED}"
done
