#!/bin/bash
# usage: verify_seed.sh <seeddir> <worktree>   -- confirms a seeded change: builds, suite passes with it,
# demo fails with it and passes without it. Prints one RESULT line.
export GOFLAGS=-mod=mod GOPROXY=off GOSUMDB=off GOTOOLCHAIN=local
S="$1"; W="$2"
cd "$W" || exit 2
git checkout -q -- . && git clean -fdq
PKG=$(python3 -c "import json;print(json.load(open('$S/meta.json'))['demo_pkg_dir'])")
RUN=$(python3 -c "import json;print(json.load(open('$S/meta.json'))['demo_run'])")
res() { echo "RESULT $S build=$1 suite=$2 demo_with=$3 demo_without=$4"; }
git apply "$S/patch.diff" || { res applyfail - - -; exit 1; }
go build ./... >/dev/null 2>&1 || { res FAIL - - -; git checkout -q -- .; exit 1; }
suite=ok
for try in 1 2 3; do
  out=$(go test -vet=off -count=1 -timeout 10m ./... 2>&1 | grep -v "no test files")
  if echo "$out" | grep -q "^FAIL\|^---"; then suite=FAIL; else suite=ok; break; fi
done
[ "$suite" = FAIL ] && echo "$out" | grep "^FAIL\|^---" | head -5
cp "$S/demo_test.go" "$PKG/zz_seed_demo_test.go"
dw=pass
for try in 1 2 3; do
  if ! timeout 300 bash -c "$RUN" >/tmp/seed_demo_with.log 2>&1; then dw=fail; break; fi
done
git checkout -q -- .
dwo=pass
for try in 1 2 3; do
  if ! timeout 300 bash -c "$RUN" >/tmp/seed_demo_without.log 2>&1; then dwo=fail; tail -5 /tmp/seed_demo_without.log; break; fi
done
git checkout -q -- . && git clean -fdq
res ok $suite $dw $dwo
