#!/bin/bash
# runs the mutant self-test property by property (one process each: a single process for the whole corpus needs > 60 GB)
cd /verif; rc=0
for i in $(seq -w 1 20); do
  out=$(bin/mosverif mutants C$i 2>&1)
  echo "$out" | grep -v "^caught"
  echo "$out" | grep -q "0 not caught" || rc=1
done
exit $rc
