#!/bin/bash
# usage: tools/refrun.sh [refactor-name ...]   -- applies each stored behaviour-preserving change (refactors/<name>/patch.diff)
# to a scratch worktree (REF_REPO, default /tmp/wt/work), runs ALL 20 checks against it and prints which properties'
# checks report it ("silent" is the right answer for every one of them). Patches made for an older base commit that no
# longer apply are reported as APPLYFAIL.
cd /verif
R=${REF_REPO:-/tmp/wt/work}
mkdir -p /tmp/seedrun_v && cp known_findings.txt /tmp/seedrun_v/
[ $# -eq 0 ] && set -- $(ls refactors | grep -v RESULTS)
for s in "$@"; do
  git -C $R checkout -q -- . ; git -C $R clean -fdq
  if ! git -C $R apply /verif/refactors/$s/patch.diff 2>/dev/null; then echo "== $s: APPLYFAIL"; continue; fi
  raw=$(VERIF_DIR=/tmp/seedrun_v bin/mosverif all -repo $R 2>&1)
  if echo "$raw" | grep -q "^load failed"; then
    # the change applies but the tree does not type-check any more (e.g. a fix: commit introduced a use of something the
    # change renames): nothing was analysed — never report that as silent
    git -C $R checkout -q -- . ; git -C $R clean -fdq
    echo "== $s: LOADFAIL"; continue
  fi
  out=$(echo "$raw" | grep "^VIOLATION" | sed 's/ replay=.*//; s/VIOLATION property=//' | tr '\n' ' ')
  git -C $R checkout -q -- . ; git -C $R clean -fdq
  echo "== $s: ${out:-silent}"
done
