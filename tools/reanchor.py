#!/usr/bin/env python3
"""Re-anchor mutants whose `old` text no longer occurs exactly once in /repo (after a fix: commit changed the code
around them).  usage: reanchor.py [mutant-name ...]   (default: every mutant whose anchor fails)

For each edit the old->new difference is cut into change groups (difflib opcodes).  A group is re-applied only if its
removed lines, together with the nearest unchanged line before and after them, are found EXACTLY ONCE, contiguously, in
the current file (pure insertions need both neighbour lines).  Nothing fuzzy: `patch -F3` once put hunks into the
licence comment and into a locked region.  The result must build; mutants that cannot be re-anchored are listed and left
untouched for manual work.  The new old/new texts are the changed region plus 3 lines of current context."""
import difflib, glob, json, os, subprocess, sys

REPO = "/repo"
V = os.path.dirname(os.path.dirname(os.path.abspath(__file__)))


def groups(old, new):
    a, b = old.split("\n"), new.split("\n")
    sm = difflib.SequenceMatcher(None, a, b, autojunk=False)
    out = []
    for tag, i1, i2, j1, j2 in sm.get_opcodes():
        if tag == "equal":
            continue
        before = next((a[i] for i in range(i1 - 1, -1, -1) if a[i].strip()), None)
        after = next((a[i] for i in range(i2, len(a)) if a[i].strip()), None)
        out.append((a[i1:i2], b[j1:j2], before, after))
    return out


def apply_group(lines, removed, added, before, after):
    """returns new lines or None"""
    hits = []
    n = len(removed)
    for i in range(len(lines) - n + 1):
        if lines[i:i + n] != removed:
            continue
        pb = next((lines[k] for k in range(i - 1, -1, -1) if lines[k].strip()), None)
        pa = next((lines[k] for k in range(i + n, len(lines)) if lines[k].strip()), None)
        if (before is None or pb == before) and (after is None or pa == after):
            if n == 0 and (before is None or after is None):
                continue
            hits.append(i)
    if n == 0:
        # insertion: position right after `before` followed (ignoring blanks) by `after`
        hits = [i for i in hits if i > 0 and lines[i - 1] == before] or hits[:0]
    if len(hits) != 1:
        return None
    i = hits[0]
    return lines[:i] + added + lines[i + n:]


def reanchor(m):
    edits = [{"file": m["file"], "old": m["old"], "new": m["new"]}] + [
        {"file": e.get("file", m["file"]), "old": e["old"], "new": e["new"]} for e in m.get("edits", [])]
    cur = {}
    for e in edits:
        path = os.path.join(REPO, e["file"])
        src = cur.get(path) or open(path).read()
        if e["old"] and src.count(e["old"]) == 1:
            cur[path] = src.replace(e["old"], e["new"])
            continue
        lines = src.split("\n")
        for removed, added, before, after in groups(e["old"], e["new"]):
            lines = apply_group(lines, removed, added, before, after)
            if lines is None:
                return None
        cur[path] = "\n".join(lines)
    # new edits: one per changed region, with 3 lines of context
    out = []
    for path, new_src in cur.items():
        old_src = open(path).read()
        a, b = old_src.split("\n"), new_src.split("\n")
        sm = difflib.SequenceMatcher(None, a, b, autojunk=False)
        for grp in sm.get_grouped_opcodes(3):
            i1, i2, j1, j2 = grp[0][1], grp[-1][2], grp[0][3], grp[-1][4]
            o, n = "\n".join(a[i1:i2]) + "\n", "\n".join(b[j1:j2]) + "\n"
            if old_src.count(o) != 1:
                return None
            out.append({"file": os.path.relpath(path, REPO), "old": o, "new": n})
    if not out:
        return None
    return out


def builds(edits):
    import shutil, tempfile
    saved = {}
    try:
        for e in edits:
            p = os.path.join(REPO, e["file"])
            saved.setdefault(p, open(p).read())
        # build in a scratch copy of the touched packages via overlay
        ov = {}
        for e in edits:
            p = os.path.join(REPO, e["file"])
            s = ov.get(p, saved[p])
            ov[p] = s.replace(e["old"], e["new"])
        td = tempfile.mkdtemp()
        repl = {}
        for i, (p, s) in enumerate(ov.items()):
            q = os.path.join(td, "f%d.go" % i)
            open(q, "w").write(s)
            repl[p] = q
        open(os.path.join(td, "overlay.json"), "w").write(json.dumps({"Replace": repl}))
        env = dict(os.environ, GOFLAGS="-mod=mod", GOPROXY="off", GOSUMDB="off", GOTOOLCHAIN="local")
        r = subprocess.run(["go", "build", "-overlay", os.path.join(td, "overlay.json"), "./..."], cwd=REPO,
                           capture_output=True, text=True, env=env)
        shutil.rmtree(td)
        return r.returncode == 0
    finally:
        pass


def main():
    want = set(sys.argv[1:])
    fixed, failed = [], []
    for f in sorted(glob.glob(os.path.join(V, "mutants", "C*.json"))):
        ms = json.load(open(f))
        changed = False
        for m in ms:
            edits = [{"file": m["file"], "old": m["old"]}] + [{"file": e.get("file", m["file"]), "old": e["old"]} for e in m.get("edits", [])]
            broken = any(open(os.path.join(REPO, e["file"])).read().count(e["old"]) != 1 for e in edits)
            if want and m["name"] not in want:
                continue
            if not broken:
                continue
            ne = reanchor(m)
            if ne is None or not builds(ne):
                failed.append(m["name"])
                continue
            m["file"], m["old"], m["new"] = ne[0]["file"], ne[0]["old"], ne[0]["new"]
            if len(ne) > 1:
                m["edits"] = ne[1:]
            else:
                m.pop("edits", None)
            changed = True
            fixed.append(m["name"])
        if changed:
            json.dump(ms, open(f, "w"), indent=1)
    print("re-anchored:", len(fixed), fixed)
    print("need manual work:", len(failed), failed)


if __name__ == "__main__":
    main()
