#!/bin/bash
# runs every property's check (tier $1, default quick) against /repo and rewrites the evidence files
cd /verif; rc=0
for i in $(seq -w 1 20); do ./check.sh C$i ${1:-quick} | tail -1 || rc=1; done
exit $rc
