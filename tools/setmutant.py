import json,glob
R='/repo/'
def setm(name, file, edits, expect=None, note=None, drop=False, prop=None):
    found=False
    for f in glob.glob('/verif/mutants/C*.json'):
        ms=json.load(open(f)); ch=False; out=[]
        for m in ms:
            if m['name']==name:
                ch=True; found=True
                if drop: continue
                src=open(R+file).read()
                for o,n in edits: assert src.count(o)==1,(name,o[:40],src.count(o))
                m2={'name':name,'property':m['property'],'file':file,'old':edits[0][0],'new':edits[0][1],'expect_rule':expect or m['expect_rule']}
                if len(edits)>1: m2['edits']=[{'file':file,'old':o,'new':n} for o,n in edits[1:]]
                if note or m.get('note'): m2['note']=note or m.get('note')
                out.append(m2); continue
            out.append(m)
        if ch: json.dump(out,open(f,'w'),indent=1)
    if not found and prop and not drop:
        f='/verif/mutants/%s.json'%prop; ms=json.load(open(f))
        src=open(R+file).read()
        for o,n in edits: assert src.count(o)==1,(name,o[:40],src.count(o))
        m2={'name':name,'property':prop,'file':file,'old':edits[0][0],'new':edits[0][1],'expect_rule':expect}
        if len(edits)>1: m2['edits']=[{'file':file,'old':o,'new':n} for o,n in edits[1:]]
        if note: m2['note']=note
        ms.append(m2); json.dump(ms,open(f,'w'),indent=1)
