#!/usr/bin/env python3
"""Writes /verif/seeded/RESULTS.md: for every seeded change, what it breaks, what it needs to manifest, what the owning
check reported when the change was FIRST run against it, and what the current checks report (from a seedrun log)."""
import json, os, re, sys

V = os.path.dirname(os.path.dirname(os.path.abspath(__file__)))
log = sys.argv[1] if len(sys.argv) > 1 else "/tmp/seedrun_all.log"
cur = {}
if os.path.exists(log):
    name = None
    for line in open(log):
        m = re.match(r"== (\S+): (.*)", line)
        if m:
            name = m.group(1)
            cur[name] = []
            rules = re.findall(r"\[(C\d+-[A-Z]\d+|C\d+-\w+)\]", m.group(2))
            cur[name] += rules
            if "MISSED" in m.group(2):
                cur[name] = ["MISSED"]
        elif name:
            cur[name] += re.findall(r"\[(C\d+-[A-Z]\d+|C\d+-\w+)\]", line)

rows = []
for d in sorted(os.listdir(os.path.join(V, "seeded"))):
    mp = os.path.join(V, "seeded", d, "meta.json")
    if not os.path.exists(mp):
        continue
    m = json.load(open(mp))
    rnd = m.get("round", 1)
    if isinstance(rnd, str) and rnd.isdigit():
        rnd = int(rnd)
    first = m.get("first_run_of_owning_check", "")
    if rnd == 1:
        first_s = "n/a (round 1 preceded the check; rules were written knowing the change)"
    elif rnd == "5w":
        first_s = "n/a (white-box: delivered because the checker was silent)"
    else:
        fr = sorted(set(re.findall(r"\[(C\d+-[A-Z]\d+)\]", first)))
        first_s = "MISSED" if ("MISSED" in first or not fr) else ", ".join(fr)
    now = sorted(set(cur.get(d, [])))
    if m.get("no_longer_breaks"):
        now = ["harmless on the current tree: " + m["no_longer_breaks"]]
    if m.get("not_reported") and (not now or now == ["MISSED"]):
        now = ["NOT REPORTED (" + m["not_reported"][:120] + " …)"]
    rows.append((d, m.get("breaks_property"), rnd, (m.get("summary") or "").replace("|", "/").replace("\n", " ")[:160],
                 first_s, ", ".join(now) if now else "?"))

with open(os.path.join(V, "seeded", "RESULTS.md"), "w") as f:
    f.write("# Seeded changes: which check reports which change\n\n")
    f.write("Every change below was confirmed by `tools/verify_seed.sh` (builds; whole suite passes with it; its demonstration fails\n"
            "with it and passes without it) on the /repo commit it was made for, and again after every later `fix:` commit that touched\n"
            "the code it edits (patches re-based or re-created, see `patch_rebased` / `demo_adapted` in each meta.json). *first run* = what the owning property's check reported the first time the change was\n"
            "applied (rounds 2, 3, 4, 6, 7, 9, 10, 11, 12, 13 and 14: those changes were produced after the checks existed and without knowledge of them).\n"
            "*now* = rules of the owning check that report it on the committed checker (`tools/seedrun.sh`).\n\n")
    for rnd, label in ((2, "Round 2 (independent, after all checks existed)"), (3, "Round 3 (independent, after the round-2 strengthening)"), (4, "Round 4 (independent, after the round-3 strengthening; agents were told the obvious ideas were used and asked for second-order changes)"), (6, "Round 6 (independent, after the white-box hardening round W5)"), (7, "Round 7 (independent)"), (9, "Round 9 (independent, on the tree repaired by the two audit rounds)"), (10, "Round 10 (independent, on the tree repaired up to D48, after the refactoring rounds F10/F11)"), (11, "Round 11 (independent, after the third shape-tolerance pass: does the tolerance cost detection?)"), (12, "Round 12 (independent, on the tree repaired up to D51)"), (13, "Round 13 (independent, after the round-12 strengthening and the F14 tolerance pass)"), (14, "Round 14 (8 changes on C02, C05, C14, C20 after audit A12)")):
        rr = [r for r in rows if r[2] == rnd]
        if not rr:
            continue
        miss = [r for r in rr if r[4] == "MISSED"]
        f.write(f"{label}: {len(rr)} changes, {len(rr)-len(miss)} reported at first run, {len(miss)} missed at first run; "
                f"after strengthening, {sum(1 for r in rr if r[5] not in ('?', 'MISSED') and not r[5].startswith('harmless') and not r[5].startswith('NOT REPORTED'))} of {len(rr)} are reported, {sum(1 for r in rr if r[5].startswith('harmless'))} became harmless after a later fix in /repo.\n\n")
    w5 = [r for r in rows if r[2] == "5w"]
    if w5:
        f.write(f"Round W5 (white-box red team; not a measurement): {len(w5)} changes the checker did not report when they were made; "
                f"{sum(1 for r in w5 if r[5] not in ('?', 'MISSED'))} of {len(w5)} are reported now (the rest no longer break the property, see DESIGN.md).\n\n")
    f.write("| change | property | round | what was changed | first run | now |\n|---|---|---|---|---|---|\n")
    for r in rows:
        f.write(f"| {r[0]} | {r[1]} | {r[2]} | {r[3]} | {r[4]} | {r[5]} |\n")
print("rows", len(rows))
