#!/usr/bin/env python3
"""usage: patch2mutant.py <patch.diff> <name> <property> <expect_rule>  -> prints one mutant JSON object.
Each hunk becomes one edit: old = context + removed lines, new = context + added lines."""
import json, re, sys
patch, name, prop, rule = sys.argv[1:5]
edits = []
cur = None
old = new = None
def flush():
    global old, new
    if old is not None and (old != new):
        edits.append({"file": cur, "old": "".join(old), "new": "".join(new)})
    old = new = None
for line in open(patch):
    if line.startswith("diff --git"):
        flush(); continue
    if line.startswith("+++ b/"):
        cur = line[6:].strip(); continue
    if line.startswith("--- ") or line.startswith("index ") or line.startswith("new file") or line.startswith("deleted file"):
        continue
    if line.startswith("@@"):
        flush(); old, new = [], []; continue
    if old is None:
        continue
    if line.startswith("+"):
        new.append(line[1:])
    elif line.startswith("-"):
        old.append(line[1:])
    elif line.startswith(" ") or line == "\n":
        old.append(line[1:] if line.startswith(" ") else line); new.append(line[1:] if line.startswith(" ") else line)
    elif line.startswith("\\"):
        pass
flush()
m = {"name": name, "property": prop, "file": edits[0]["file"], "old": edits[0]["old"], "new": edits[0]["new"], "expect_rule": rule}
if len(edits) > 1:
    m["edits"] = edits[1:]
print(json.dumps(m))
