#!/usr/bin/env python3
"""patch2mutant.py <name> <property> <expect_rule> <patch.diff> [note]
Turns a unified diff against /repo into a mutant entry (textual old/new edits, one per hunk) in mutants/<property>.json.
Every hunk's old text must be unique in its file."""
import json,re,sys
name,prop,expect,patch=sys.argv[1:5]
note=sys.argv[5] if len(sys.argv)>5 else None
R='/repo/'
edits=[];cur=None;old=new=None
def flush():
    global old,new
    if old is not None and cur:
        edits.append({'file':cur,'old':''.join(old),'new':''.join(new)})
    old=new=None
for line in open(patch):
    if line.startswith('diff --git'):
        flush();cur=None
    elif line.startswith('+++ '):
        cur=line[4:].strip()
        if cur.startswith('b/'): cur=cur[2:]
    elif line.startswith('--- ') or line.startswith('index ') or line.startswith('new file') or line.startswith('\\'):
        continue
    elif line.startswith('@@'):
        flush();old=[];new=[]
    elif old is not None:
        if line.startswith('-'): old.append(line[1:])
        elif line.startswith('+'): new.append(line[1:])
        else:
            t=line[1:] if line.startswith(' ') else line
            old.append(t);new.append(t)
flush()
for e in edits:
    src=open(R+e['file']).read()
    assert src.count(e['old'])==1,(e['file'],e['old'][:60],src.count(e['old']))
f='/verif/mutants/%s.json'%prop
ms=[m for m in json.load(open(f)) if m['name']!=name]
m={'name':name,'property':prop,'file':edits[0]['file'],'old':edits[0]['old'],'new':edits[0]['new'],'expect_rule':expect}
if len(edits)>1: m['edits']=edits[1:]
if note: m['note']=note
ms.append(m);json.dump(ms,open(f,'w'),indent=1)
print(name,'added with',len(edits),'edit(s)')
