#!/usr/bin/env python3
# usage: mut2patch.py <mutant-name> <out.diff> : apply a mutant's edits in /tmp/wt/work and write git diff
import json,glob,subprocess,sys,os
W='/tmp/wt/work'
name,out=sys.argv[1],sys.argv[2]
subprocess.run(['git','checkout','-q','--','.'],cwd=W); subprocess.run(['git','clean','-fdq'],cwd=W)
for f in glob.glob('/verif/mutants/C*.json'):
    for m in json.load(open(f)):
        if m['name']==name:
            edits=[{'file':m['file'],'old':m['old'],'new':m['new']}]+[{'file':e.get('file',m['file']),'old':e['old'],'new':e['new']} for e in m.get('edits',[])]
            for e in edits:
                p=os.path.join(W,e['file']); s=open(p).read(); assert s.count(e['old'])==1,(e['old'][:50]); open(p,'w').write(s.replace(e['old'],e['new']))
            d=subprocess.run(['git','diff'],cwd=W,capture_output=True,text=True).stdout
            open(out,'w').write(d)
            subprocess.run(['git','checkout','-q','--','.'],cwd=W)
            print(name,len(d)); sys.exit(0)
print("not found",name); sys.exit(1)
