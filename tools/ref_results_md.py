#!/usr/bin/env python3
"""Writes /verif/refactors/RESULTS.md from a tools/refrun.sh log: per stored behaviour-preserving change, what the
checks said the first time (before any tuning on that round) and what they say now."""
import json, os, re, sys
V = os.path.dirname(os.path.dirname(os.path.abspath(__file__)))
log = sys.argv[1] if len(sys.argv) > 1 else "/tmp/refrun_all.log"
now = {}
for line in open(log):
    m = re.match(r"== (\S+): (.*)", line)
    if m:
        now[m.group(1)] = m.group(2).strip()
rows = []
for d in sorted(os.listdir(os.path.join(V, "refactors"))):
    mp = os.path.join(V, "refactors", d, "meta.json")
    if not os.path.exists(mp):
        continue
    m = json.load(open(mp))
    rows.append((d, m["round"], m["anchored_property"], (m.get("kind") or "").replace("|", "/")[:70],
                 (m.get("summary") or "").replace("|", "/").replace("\n", " ")[:150], m.get("first_run", "?"), now.get(d, "?")))
with open(os.path.join(V, "refactors", "RESULTS.md"), "w") as f:
    f.write("# Behaviour-preserving changes: does a check raise a false alarm?\n\n"
            "Every change below was produced by a fresh sub-agent that knew only the property text (nothing of /verif) and was asked\n"
            "for a realistic maintenance change after which the property still holds; each builds, passes `go vet` and the whole\n"
            "suite, and comes with a path-by-path equivalence argument (`why_equivalent`) and usually a differential test\n"
            "(`equiv_test.go`) that passes before and after. The right answer of all 20 checks is *silent*. *first run* = the\n"
            "checker as it stood when the round was produced; *now* = the committed checker (`tools/refrun.sh`).\n\n")
    for rnd in sorted(set(r[1] for r in rows)):
        rr = [r for r in rows if r[1] == rnd]
        usable = [r for r in rr if r[6] != "APPLYFAIL"]
        f.write(f"Round {rnd}: {len(rr)} changes; first run: {sum(1 for r in rr if str(r[5]).startswith('reported'))} reported (false alarms); "
                f"now: {sum(1 for r in usable if r[6] not in ('silent','?'))} of {len(usable)} that still apply are reported.\n\n")
    f.write("| change | anchored in | kind | what was changed | first run | now (properties whose check reports it) |\n|---|---|---|---|---|---|\n")
    for r in rows:
        f.write(f"| {r[0]} | {r[2]} | {r[3]} | {r[4]} | {r[5]} | {r[6]} |\n")
print("rows", len(rows))
