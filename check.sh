#!/bin/sh
# usage: /verif/check.sh <PROPERTY-ID> quick|thorough
# Static check of one property on /repo's current working tree (nothing under /repo is executed).
set -u
ID="$1"; TIER="${2:-quick}"
V="$(cd "$(dirname "$0")" && pwd)"
export GOPROXY=off GOSUMDB=off GOTOOLCHAIN=local GOWORK=off VERIF_DIR="$V"
BIN="$V/bin/mosverif"
if [ ! -x "$BIN" ] || [ -n "$(find "$V/checker" -name '*.go' -newer "$BIN" -not -path '*/vendor/*' 2>/dev/null | head -1)" ]; then
  mkdir -p "$V/bin"
  (cd "$V/checker" && GOFLAGS=-mod=vendor go build -o "$BIN" .) || { echo "cannot build mosverif"; exit 2; }
fi
exec "$BIN" check "$ID" -tier "$TIER" -repo "${VERIF_REPO:-/repo}"
