package main

// Rules added after the third round of independent seeded changes. Each is a structural necessary condition of the
// property it is registered under; shared functions are used by more than one property.

import (
	"go/ast"
	"go/token"
	"go/types"
	"strings"

	"golang.org/x/tools/go/ssa"
)

// localOrigins traces v back inside its own function only (no calls, params, fields).
func localOrigins(p *Prog, v ssa.Value) []ssa.Value {
	tr := p.newTracer()
	tr.throughCalls, tr.throughParams, tr.throughFields = false, false, false
	return tr.origins(v)
}

// checkFreshReplyChan: every reply channel registered for a query (waiter-table insert, single waiter slot store)
// is made by the registering function itself. The readers send after releasing the table lock, so a channel that is
// recycled or shared can receive an earlier query's reply after it was handed to a later query.
func checkFreshReplyChan(c *Ctx, lf *lockFacts) {
	p := c.P
	T := relTransport + "."
	ww := p.whoWrites()
	type site struct {
		w     fieldWrite
		field string
	}
	var sites []site
	for _, fk := range []string{T + "TraditionalDnsConn.queue", T + "reusableConn.waitingResp"} {
		for _, w := range ww.byField[fk] {
			if (w.Kind == "mapupdate" || w.Kind == "store") && w.Val != nil && !isNilConst(w.Val) && isReplyChanType(w.Val.Type()) {
				sites = append(sites, site{w, fk})
			}
		}
	}
	for _, s := range sites {
		key := "fresh-chan@" + funcName(s.w.Fn) + ":" + shortLock(s.field)
		good := true
		why := ""
		os := localOrigins(p, s.w.Val)
		if len(os) == 0 {
			good, why = false, "no origin"
		}
		for _, o := range os {
			if mc, ok := o.(*ssa.MakeChan); ok && mc.Parent() == s.w.Fn {
				continue
			}
			good = false
			why = exprStr(o)
		}
		c.check(good, key, instrPos(s.w.Instr), "the registered reply channel is made by this registration",
			"the reply channel registered for the query comes from "+why+", not from a make in this call: the reader sends after releasing the table lock, so a reply for the channel's previous user can land in it once it serves another query")
	}
}

// lenLowerBound: greatest n such that the guards dominating `at` imply len(x) >= n, where x is the slice value sl
// (or another load of the same address with no intervening store to it).
func lenLowerBound(at ssa.Instruction, sl ssa.Value) int64 {
	same := func(v ssa.Value) bool {
		if v == sl {
			return true
		}
		a, ok1 := v.(*ssa.UnOp)
		b, ok2 := sl.(*ssa.UnOp)
		if ok1 && ok2 && a.Op == token.MUL && b.Op == token.MUL && a.X == b.X {
			// two loads of one pointer: equal unless the pointee is re-assigned in between
			re := false
			eachInstr(at.Parent(), func(in ssa.Instruction) {
				if st, ok := in.(*ssa.Store); ok && st.Addr == a.X {
					re = true
				}
			})
			return !re
		}
		return false
	}
	isLen := func(v ssa.Value) bool {
		cl, ok := v.(*ssa.Call)
		if !ok || callName(cl) != "builtin:len" || len(cl.Call.Args) != 1 {
			return false
		}
		return same(cl.Call.Args[0])
	}
	var lb int64
	for _, g := range guardsOfInstr(at) {
		cm, ok := g.asCmp()
		if !ok {
			continue
		}
		// `m.Unpack(b)` returned nil: miekg/dns refuses anything shorter than the 12-byte header (D48's unpackQuery reads
		// the four section counts of b after a successful Unpack)
		if cm.Op == token.EQL && isNilConst(cm.Y) {
			if cl, isC := cm.X.(*ssa.Call); isC && callName(cl) == "(*github.com/miekg/dns.Msg).Unpack" && len(cl.Call.Args) == 2 && same(cl.Call.Args[1]) {
				if lb < 12 {
					lb = 12
				}
				continue
			}
		}
		op, x, y := cm.Op, cm.X, cm.Y
		if !isLen(x) && isLen(y) {
			op, x, y = flipOp(op), y, x
		}
		if !isLen(x) {
			continue
		}
		n, ok := constInt(y)
		if !ok {
			continue
		}
		switch op {
		case token.GEQ:
			if n > lb {
				lb = n
			}
		case token.GTR:
			if n+1 > lb {
				lb = n + 1
			}
		case token.EQL:
			if n > lb {
				lb = n
			}
		}
	}
	return lb
}

// sliceKnownLen: a lower bound on len(v) known from its construction (array slice, make/GetBuf with a constant).
func sliceKnownLen(v ssa.Value, depth int) int64 {
	if depth > 6 {
		return 0
	}
	switch x := v.(type) {
	case *ssa.Slice:
		if x.Low == nil && x.High == nil {
			if pt, ok := x.X.Type().Underlying().(*types.Pointer); ok {
				if at, ok := pt.Elem().Underlying().(*types.Array); ok {
					return at.Len()
				}
			}
		}
		if x.High != nil {
			hi, ok1 := constInt(x.High)
			lo := int64(0)
			ok2 := true
			if x.Low != nil {
				lo, ok2 = constInt(x.Low)
			}
			if ok1 && ok2 {
				return hi - lo
			}
		}
	case *ssa.MakeSlice:
		if n, ok := constInt(x.Len); ok {
			return n
		}
	case *ssa.UnOp:
		if x.Op == token.MUL {
			if cl, ok := x.X.(*ssa.Call); ok && callName(cl) == poolGet {
				if n, ok := constInt(cl.Call.Args[0]); ok {
					return n
				}
			}
		}
	case *ssa.Convert:
		if cst, ok := x.X.(*ssa.Const); ok && cst.Value != nil {
			return int64(len(cst.Value.ExactString())) - 2
		}
	}
	return 0
}

// checkRawIndexGuarded: in every given function that handles raw message bytes (*[]byte / []byte values), each
// constant-index access of a []byte that is a load of a *[]byte buffer or a []byte parameter is covered by a
// dominating length guard or a known construction length; functions listed in `trusted` (name -> reason) index
// buffers whose source checks a minimum length (C16-R3). One obligation per function.
func checkRawIndexGuarded(c *Ctx, funcs []*ssa.Function, trusted map[string]string) {
	p := c.P
	isBytes := func(t types.Type) bool {
		if pt, ok := t.Underlying().(*types.Pointer); ok {
			t = pt.Elem()
		}
		st, ok := t.Underlying().(*types.Slice)
		if !ok {
			return false
		}
		b, ok := st.Elem().Underlying().(*types.Basic)
		return ok && b.Kind() == types.Uint8
	}
	for _, f := range funcs {
		fn := f
		handles := false
		for _, pa := range f.Params {
			if isBytes(pa.Type()) {
				handles = true
			}
		}
		n, bad, badPos := 0, "", token.NoPos
		eachInstr(f, func(in ssa.Instruction) {
			if v, ok := in.(ssa.Value); ok && v.Type() != nil && isBytes(v.Type()) {
				handles = true
			}
			// (base slice, highest byte touched): x[k], or binary.BigEndian.(Put)Uint16(x[lo:]) touching lo+1
			var base ssa.Value
			var k int64
			switch x := in.(type) {
			case *ssa.IndexAddr:
				if _, ok := x.X.Type().Underlying().(*types.Slice); !ok || !isBytes(x.X.Type()) {
					return
				}
				kk, ok := constInt(x.Index)
				if !ok {
					return
				}
				base, k = x.X, kk
			case *ssa.Call:
				cn := callName(x)
				if cn != binU16 && cn != binPut16 {
					return
				}
				base, k = x.Call.Args[1], 1
				if sl, ok := base.(*ssa.Slice); ok && sl.High == nil {
					lo := int64(0)
					if sl.Low != nil {
						l, ok := constInt(sl.Low)
						if !ok {
							return
						}
						lo = l
					}
					if _, isSl := sl.X.Type().Underlying().(*types.Slice); isSl {
						base, k = sl.X, lo+1
					}
				}
			default:
				return
			}
			switch x := base.(type) {
			case *ssa.UnOp:
				if x.Op != token.MUL {
					return
				}
			case *ssa.Parameter:
			default:
				return
			}
			n++
			lb := lenLowerBound(in, base)
			if kl := sliceKnownLen(base, 0); kl > lb {
				lb = kl
			}
			if ol := minLenByOrigin(p, base, 0); ol > lb {
				lb = ol
			}
			if lb <= k && bad == "" {
				bad = "byte " + itoa(k) + " of " + exprStr(base) + " is accessed while the guards in force only imply len >= " + itoa(lb)
				badPos = instrPos(in)
			}
		})
		if !handles {
			continue
		}
		c.see(fn)
		key := "raw-index@" + funcName(fn)
		if why, ok := trusted[funcName(fn)]; ok {
			c.ok(key, f.Pos(), "%d constant-index accesses, trusted: %s", n, why)
			continue
		}
		if bad == "" {
			c.ok(key, f.Pos(), "%d constant-index accesses of raw buffers, all covered by a length guard or construction length", n)
		} else {
			c.fail(key, badPos, "%s (%s): a shorter buffer panics instead of being treated as garbage", bad, p.pos(badPos))
		}
	}
}

// rawMinLenSources: calls whose result is a raw DNS message of at least this many bytes (the readers' minimum-length
// checks are C16-R1 / C16-R3 obligations), and functions whose []byte parameter is a packed DNS message handed in by
// the caller (dns.Msg.Pack output, >= 12 bytes; replies of the datagram reader for msgTruncated).
var rawMinLenCalls = map[string]int64{
	"(*" + relDoh + ".Upstream).exchange":                 12,
	"(*" + relTransport + ".TraditionalDnsConn).readResp": 12,
	relTransport + ".readMsgUdp":                          12,
	relDnsutils + ".ReadRawMsgFromTCP":                    12,
}
var rawMsgParamFuncs = map[string]bool{
	"ExchangeContext": true, "ExchangeReserved": true, "exchange": true, "writeQuery": true, "msgTruncated": true,
}

// minLenByOrigin: lower bound on the length of the byte slice v from where it comes from.
func minLenByOrigin(p *Prog, v ssa.Value, depth int) int64 {
	if depth > 4 {
		return 0
	}
	if u, ok := v.(*ssa.UnOp); ok && u.Op == token.MUL {
		v = u.X
	}
	tr := p.newTracer()
	tr.throughCalls, tr.throughParams, tr.throughFields, tr.throughChans = false, false, false, true
	os := tr.origins(v)
	if len(os) == 0 {
		return 0
	}
	best := int64(-1)
	for _, o := range os {
		var n int64
		switch x := o.(type) {
		case *ssa.Parameter:
			if x.Parent() != nil && rawMsgParamFuncs[x.Parent().Name()] && inMosdns(x.Parent()) {
				n = 12
			} else if x.Parent() != nil && inMosdns(x.Parent()) && !ast.IsExported(x.Parent().Name()) && x.Parent().Parent() == nil {
				// an unexported helper: what every static call site hands in (an extracted helper sees the same bytes
				// its caller indexed before the extraction)
				n = paramMinLenByCallers(p, x, depth+1)
			}
		case *ssa.Extract:
			if cl, ok := x.Tuple.(*ssa.Call); ok {
				n = minLenOfCall(p, cl, depth)
			}
			if sel, ok := x.Tuple.(*ssa.Select); ok && x.Index >= 2 {
				_ = sel
				if isReplyChanType(types.NewChan(types.SendRecv, x.Type())) {
					n = 12
				}
			}
		case *ssa.Call:
			n = minLenOfCall(p, x, depth)
		case *ssa.UnOp:
			if x.Op == token.ARROW && isReplyChanType(x.X.Type()) {
				n = 12 // what a reader dispatched
			}
		}
		if best < 0 || n < best {
			best = n
		}
	}
	if best < 0 {
		return 0
	}
	return best
}

func minLenOfCall(p *Prog, cl *ssa.Call, depth int) int64 {
	cn := callName(cl)
	if n, ok := rawMinLenCalls[cn]; ok {
		return n
	}
	switch cn {
	case relTransport + ".copyMsg":
		return minLenByOrigin(p, cl.Call.Args[0], depth+1)
	case relTransport + ".copyMsgWithLenHdr":
		return minLenByOrigin(p, cl.Call.Args[0], depth+1) + 2
	case poolGet:
		return lenExprMin(p, cl.Call.Args[0], depth+1)
	}
	return 0
}

// lenExprMin: lower bound of an int expression built from constants, len(x) and +.
func lenExprMin(p *Prog, v ssa.Value, depth int) int64 {
	if depth > 6 {
		return 0
	}
	if n, ok := constInt(v); ok {
		return n
	}
	switch x := v.(type) {
	case *ssa.BinOp:
		if x.Op == token.ADD {
			return lenExprMin(p, x.X, depth+1) + lenExprMin(p, x.Y, depth+1)
		}
	case *ssa.Call:
		if callName(x) == "builtin:len" {
			return minLenByOrigin(p, x.Call.Args[0], depth+1)
		}
	}
	return 0
}

var _ = strings.HasPrefix

// checkReplyBytesUntouched: once a buffer holds bytes received from the peer (it was passed to a Read, returned by a
// frame/datagram reader, or received on a reply channel), the only write into it is the restoration of the caller's
// 16-bit id at offset 0. Every byte store, PutUint16 and copy destination in the given functions is classified.
func checkReplyBytesUntouched(c *Ctx, funcs []*ssa.Function) {
	p := c.P
	isReader := func(cl *ssa.Call) bool {
		cn := callName(cl)
		if _, ok := rawMinLenCalls[cn]; ok {
			return true
		}
		return false
	}
	// does the buffer behind base (a []byte value) hold received bytes?
	received := func(f *ssa.Function, base ssa.Value) (bool, string) {
		ptr := base
		if u, ok := base.(*ssa.UnOp); ok && u.Op == token.MUL {
			ptr = u.X
		}
		if sl, ok := base.(*ssa.Slice); ok {
			ptr = sl.X
			if u, ok := sl.X.(*ssa.UnOp); ok && u.Op == token.MUL {
				ptr = u.X
			}
		}
		tr := p.newTracer()
		tr.throughCalls, tr.throughParams, tr.throughFields, tr.throughChans = false, false, false, true
		for _, o := range tr.origins(ptr) {
			switch x := o.(type) {
			case *ssa.Extract:
				if cl, ok := x.Tuple.(*ssa.Call); ok && isReader(cl) {
					return true, "returned by " + callName(cl)
				}
			case *ssa.Call:
				if isReader(x) {
					return true, "returned by " + callName(x)
				}
			}
			if ch, ok := chanOfRecv(o); ok && isReplyChanType(ch.Type()) {
				return true, "received on a reply channel"
			}
		}
		// passed to a Read in this function?
		hit := ""
		eachInstr(f, func(in ssa.Instruction) {
			cl, ok := in.(*ssa.Call)
			if !ok {
				return
			}
			isRead := (cl.Call.IsInvoke() && cl.Call.Method.Name() == "Read") || callName(cl) == "io.ReadFull" || callName(cl) == "io.ReadAtLeast"
			if !isRead {
				return
			}
			for _, a := range cl.Call.Args {
				if u, ok := a.(*ssa.UnOp); ok && u.Op == token.MUL && u.X == ptr {
					hit = "filled by " + callName(cl)
				}
				if a == ptr {
					hit = "filled by " + callName(cl)
				}
			}
		})
		return hit != "", hit
	}
	for _, f := range funcs {
		fn := f
		eachInstr(f, func(in ssa.Instruction) {
			var base ssa.Value
			what := ""
			idRestore := false
			switch x := in.(type) {
			case *ssa.Store:
				ia, ok := x.Addr.(*ssa.IndexAddr)
				if !ok {
					return
				}
				if st, ok := ia.X.Type().Underlying().(*types.Slice); !ok {
					return
				} else if b, ok := st.Elem().Underlying().(*types.Basic); !ok || b.Kind() != types.Uint8 {
					return
				}
				base, what = ia.X, "byte store at ["+exprStr(ia.Index)+"]"
			case *ssa.Call:
				switch callName(x) {
				case binPut16:
					base, what = x.Call.Args[1], "PutUint16"
					if _, isSlice := base.(*ssa.Slice); !isSlice {
						idRestore = true // offset 0: the id field
					}
				case "builtin:copy":
					base, what = x.Call.Args[0], "copy into"
				default:
					return
				}
			default:
				return
			}
			isRecv, how := received(fn, base)
			if !isRecv {
				return
			}
			c.see(fn)
			key := "reply-write@" + funcName(fn) + ":" + what
			c.check(idRestore, key, instrPos(in), "the only write into the received reply is the id restoration at offset 0",
				what+" modifies a buffer "+how+": header flags (TC, rcode) and content of a received reply must reach the caller as the server sent them")
		})
	}
}

// checkFrameReaderReadFull: the stream frame reader (and every mosdns function it calls) takes bytes from the
// connection only through io.ReadFull. A hand-written read loop has to handle a Read that returns data together with
// an error (n > 0, err != nil) — the last bytes of a reply followed directly by EOF — or those bytes are lost.
func checkFrameReaderReadFull(c *Ctx) {
	rd := c.fn(relDnsutils, "", "ReadRawMsgFromTCP")
	if rd == nil {
		return
	}
	seen := map[*ssa.Function]bool{}
	var visit func(f *ssa.Function)
	full, bad := 0, ""
	var badPos token.Pos
	visit = func(f *ssa.Function) {
		if seen[f] || !inMosdns(f) || f.Blocks == nil {
			return
		}
		seen[f] = true
		c.see(f)
		eachInstr(f, func(in ssa.Instruction) {
			ci, ok := in.(*ssa.Call)
			if !ok {
				return
			}
			cn := callName(ci)
			switch {
			case cn == "io.ReadFull":
				full++
				// from the function's own reader parameter, not from a wrapper created per call (a buffered
				// wrapper reads ahead and its surplus — the next frame — is thrown away with it)
				own := false
				for _, pa := range f.Params {
					if isParamValue(c.P, ci.Call.Args[0], pa) {
						own = true
					}
				}
				if !own && bad == "" {
					bad, badPos = "io.ReadFull on "+exprStr(ci.Call.Args[0])+" (not the reader it was given) in "+funcName(f), instrPos(in)
				}
			case ci.Call.IsInvoke() && ci.Call.Method.Name() == "Read", cn == "io.ReadAtLeast", cn == "io.ReadAll", cn == "io.Copy", cn == "io.CopyN":
				if bad == "" {
					bad, badPos = cn+" in "+funcName(f), instrPos(in)
				}
			}
			if sc := staticCallee(ci); sc != nil && !strings.HasPrefix(cn, "var:") {
				visit(sc)
			}
		})
	}
	visit(rd)
	if bad != "" {
		c.fail("frame-reader:readfull-only", badPos, "the frame reader takes bytes from the connection through %s instead of io.ReadFull: bytes returned together with an error by the last Read (a complete reply directly followed by EOF) are dropped, so a reply that arrived is lost", bad)
		return
	}
	c.check(full >= 2, "frame-reader:readfull-only", rd.Pos(), "header and body are taken from the connection with io.ReadFull only", "the frame reader does not read header and body with io.ReadFull")
	// the reader parameter has no other use than io.ReadFull (no wrapping, no type switch, no hand-off)
	for _, pa := range rd.Params {
		for _, r := range referrers(pa) {
			switch x := r.(type) {
			case *ssa.DebugRef:
			case *ssa.Call:
				if callName(x) == "io.ReadFull" && x.Call.Args[0] == ssa.Value(pa) {
					continue
				}
				c.fail("frame-reader:reader-unwrapped", instrPos(x), "the reader given to the frame reader is handed to %s: bytes it reads ahead are lost to the next frame", callName(x))
				return
			case *ssa.Store:
				// spilled parameter cell: its loads must obey the same rule
				for _, r2 := range referrers(x.Addr) {
					if ld, ok := r2.(*ssa.UnOp); ok && ld.Op == token.MUL {
						for _, r3 := range referrers(ld) {
							if cl, ok := r3.(*ssa.Call); ok && callName(cl) == "io.ReadFull" {
								continue
							}
							if _, ok := r3.(*ssa.DebugRef); ok {
								continue
							}
							c.fail("frame-reader:reader-unwrapped", instrPos(r3.(ssa.Instruction)), "the reader given to the frame reader is used by something other than io.ReadFull")
							return
						}
					}
				}
			default:
				c.fail("frame-reader:reader-unwrapped", instrPos(r), "the reader given to the frame reader is used by %s, not only by io.ReadFull: a wrapper (bufio, LimitReader…) reads ahead and drops the next frame", strings.TrimSpace(r.String()))
				return
			}
		}
	}
	c.ok("frame-reader:reader-unwrapped", rd.Pos(), "the reader parameter flows only into io.ReadFull")
}

// checkLineLoader: a text loader passes to its per-line parser the scanner's line cleaned by a chain of recognised
// steps only (strings.TrimSpace, utils.RemoveComment(s, const)); a step that cuts at blanks is preceded by a step that
// strips leading blanks (otherwise an indented entry is cut to nothing and silently skipped); comments start at '#';
// the parser runs under no other condition than "the cleaned line is not empty", and its error is returned.
func checkLineLoader(c *Ctx, f *ssa.Function, isParser func(*ssa.Call) bool, what string) {
	key := "line-pipeline@" + funcName(f)
	var parse *ssa.Call
	eachInstr(f, func(in ssa.Instruction) {
		if ci, ok := in.(*ssa.Call); ok && isParser(ci) {
			parse = ci
		}
	})
	if parse == nil {
		c.fail(key, f.Pos(), "no per-line parser call found")
		return
	}
	// the line argument: the string-typed argument that derives from scanner.Text()
	var steps []string
	var lineArg ssa.Value
	for _, a := range parse.Call.Args {
		if b, ok := a.Type().Underlying().(*types.Basic); ok && b.Kind() == types.String {
			lineArg = a
		}
	}
	if lineArg == nil {
		c.fail(key, instrPos(parse), "the parser gets no line")
		return
	}
	v := lineArg
	okChain := false
	why := ""
	paramSubst := map[*ssa.Parameter]ssa.Value{}
	for depth := 0; depth < 16; depth++ {
		if prm, isP := v.(*ssa.Parameter); isP {
			if a, has := paramSubst[prm]; has {
				v = a
				continue
			}
		}
		// strings.Cut(s, sym)'s `before` is RemoveComment(s, sym)
		if ex, isEx := v.(*ssa.Extract); isEx && ex.Index == 0 {
			if cc, isC := ex.Tuple.(*ssa.Call); isC && callName(cc) == "strings.Cut" {
				if sym, okS := cc.Call.Args[1].(*ssa.Const); okS && sym.Value != nil {
					steps = append(steps, "cut:"+strings.Trim(sym.Value.ExactString(), `"`))
					v = cc.Call.Args[0]
					continue
				}
			}
		}
		cl, ok := v.(*ssa.Call)
		if !ok {
			why = "the line handed to the parser derives from " + exprStr(v) + ", not from a recognised clean-up of scanner.Text()"
			break
		}
		cn := callName(cl)
		// a clean-up helper of the module: one string parameter, one return whose value is again a chain over that
		// parameter — looked into, so that extracting the steps into a function changes nothing
		if h := cl.Call.StaticCallee(); h != nil && inMosdns(h) && len(h.Blocks) > 0 && cn != "pkg/utils.RemoveComment" && len(h.Params) == 1 && len(cl.Call.Args) == 1 {
			if rets := returnsOf(h); len(rets) == 1 && len(rets[0].Results) == 1 {
				paramSubst[h.Params[0]] = cl.Call.Args[0]
				v = rets[0].Results[0]
				continue
			}
		}
		if cn == "(*bufio.Scanner).Text" {
			okChain = true
			break
		}
		switch cn {
		case "strings.TrimSpace":
			steps = append(steps, "trim")
			v = cl.Call.Args[0]
		case "pkg/utils.RemoveComment":
			sym, ok := cl.Call.Args[1].(*ssa.Const)
			if !ok || sym.Value == nil {
				why = "RemoveComment with a non-constant symbol"
			} else {
				steps = append(steps, "cut:"+strings.Trim(sym.Value.ExactString(), `"`))
			}
			v = cl.Call.Args[0]
		default:
			why = "unrecognised line clean-up step " + cn + ": cannot decide that every entry line reaches the parser intact"
		}
		if why != "" {
			break
		}
	}
	if !okChain {
		if why == "" {
			why = "clean-up chain too long"
		}
		c.fail(key, instrPos(parse), "%s", why)
		return
	}
	// steps are in reverse order (last applied first)
	hasHash := false
	trimmedBefore := false
	for i := len(steps) - 1; i >= 0; i-- {
		st := steps[i]
		switch {
		case st == "trim":
			trimmedBefore = true
		case st == "cut:#":
			hasHash = true
		case strings.HasPrefix(st, "cut:"):
			sym := strings.TrimPrefix(st, "cut:")
			if strings.TrimSpace(sym) == "" || sym == `\t` {
				if !trimmedBefore {
					c.fail(key, instrPos(parse), "the line is cut at the first blank before its leading blanks were stripped: an indented entry becomes empty and is skipped without an error, so %s it lists is silently missing", what)
					return
				}
			}
		}
	}
	hasTrim := false
	for _, st := range steps {
		if st == "trim" {
			hasTrim = true
		}
	}
	if !hasHash || !hasTrim {
		c.fail(key, instrPos(parse), "the line clean-up lacks %s", map[bool]string{true: "whitespace trimming", false: "'#' comment removal"}[hasHash])
		return
	}
	// the parser runs exactly when the cleaned line is non-empty
	condOK := true
	n := 0
	for _, g := range guardsOfInstr(parse) {
		if cm, ok := g.asCmp(); ok {
			if cl, ok := cm.X.(*ssa.Call); ok && callName(cl) == "builtin:len" && cl.Call.Args[0] == lineArg {
				if k, ok := constInt(cm.Y); ok && k == 0 && (cm.Op == token.NEQ || cm.Op == token.GTR) {
					n++
					continue
				}
			}
		}
		// the same test spelled `line != ""`
		if cm, ok := g.asCmp(); ok && cm.Op == token.NEQ && cm.X == lineArg {
			if cs, isC := cm.Y.(*ssa.Const); isC && cs.Value != nil && cs.Value.ExactString() == `""` {
				n++
				continue
			}
		}
		if v, _ := g.asBool(); v != nil {
			if cl, ok := v.(*ssa.Call); ok && callName(cl) == "(*bufio.Scanner).Scan" {
				continue
			}
		}
		if g.Derived {
			continue
		}
		condOK = false
	}
	if !condOK || n != 1 {
		c.fail(key, instrPos(parse), "the per-line parser does not run exactly for the non-empty cleaned lines (extra or missing condition): lines are dropped without an error")
		return
	}
	if ok, w := errCheckedAndReturned(parse); !ok {
		c.fail(key, instrPos(parse), "the parser's error is not reported: %s", w)
		return
	}
	c.ok(key, instrPos(parse), "line = %s(scanner.Text()); parser runs iff the line is non-empty; its error is returned", strings.Join(steps, "∘"))
}

// checkCallerCtxPassedOn: an exchange-path function hands its own context parameter, unchanged, to every inner
// exchange it calls (ExchangeContext / ExchangeReserved / exchange). A derived context with an additional deadline
// makes a caller give up while its reply can still arrive in time.
func checkCallerCtxPassedOn(c *Ctx, funcs []*ssa.Function) {
	p := c.P
	isExchangeName := func(n string) bool {
		return n == "ExchangeContext" || n == "ExchangeReserved" || n == "exchange"
	}
	ctxParam := func(f *ssa.Function) *ssa.Parameter {
		for _, pa := range f.Params {
			if pa.Type().String() == "context.Context" {
				return pa
			}
		}
		return nil
	}
	for _, f := range funcs {
		if !isExchangeName(f.Name()) || f.Parent() != nil {
			continue
		}
		cp := ctxParam(f)
		if cp == nil {
			continue
		}
		fn := f
		eachInstr(f, func(in ssa.Instruction) {
			if sel, ok := in.(*ssa.Select); ok && sel.Blocking {
				for _, st := range sel.States {
					if st.Dir != types.RecvOnly || !isCtxDone(st.Chan) {
						continue
					}
					cv := st.Chan.(*ssa.Call).Call.Value
					c.see(fn)
					c.check(isParamValue(p, cv, cp), "ctx-waited-on@"+funcName(fn), instrPos(in), "the wait watches the caller's own context",
						"the wait watches "+exprStr(cv)+", not the caller's context: the call can give up before the caller's deadline while its reply is on the way")
				}
				return
			}
			ci, ok := in.(*ssa.Call)
			if !ok {
				return
			}
			name := ""
			if ci.Call.IsInvoke() {
				name = ci.Call.Method.Name()
			} else if sc := staticCallee(ci); sc != nil && inMosdns(sc) {
				name = sc.Name()
			}
			if !isExchangeName(name) {
				return
			}
			var ctxArg ssa.Value
			for _, a := range ci.Call.Args {
				if a.Type().String() == "context.Context" {
					ctxArg = a
					break
				}
			}
			if ctxArg == nil {
				return
			}
			c.see(fn)
			key := "ctx-passed-on@" + funcName(fn) + "->" + name
			c.check(isParamValue(p, ctxArg, cp), key, instrPos(in), "the inner exchange runs under the caller's own context",
				"the inner exchange runs under "+exprStr(ctxArg)+", not the caller's context: a deadline added on the way makes the caller give up although its reply arrives before its own deadline")
		})
	}
}

// checkConnHandOverRendezvous: a connection object (or a struct carrying one) changes hands between goroutines only
// over an unbuffered channel: a buffered send succeeds although the receiver has already left, and the connection is
// then owned by nobody (not idle, not closed, never used again).
func checkConnHandOverRendezvous(c *Ctx, funcs []*ssa.Function) {
	p := c.P
	carriesConn := func(t types.Type) bool {
		var walk func(t types.Type, d int) bool
		walk = func(t types.Type, d int) bool {
			if d > 3 {
				return false
			}
			switch u := t.(type) {
			case *types.Pointer:
				return walk(u.Elem(), d+1)
			case *types.Named:
				switch typeKey(u) {
				case relTransport + ".reusableConn", relTransport + ".TraditionalDnsConn", relTransport + ".lazyDnsConn", relTransport + ".DnsConn", "net.Conn":
					return true
				}
				if st, ok := u.Underlying().(*types.Struct); ok && d < 2 {
					for i := 0; i < st.NumFields(); i++ {
						if walk(st.Field(i).Type(), d+1) {
							return true
						}
					}
				}
			case *types.Struct:
				for i := 0; i < u.NumFields(); i++ {
					if walk(u.Field(i).Type(), d+1) {
						return true
					}
				}
			}
			return false
		}
		return walk(t, 0)
	}
	tr := p.newTracer()
	tr.throughParams, tr.throughFields, tr.throughCalls = false, false, false
	check := func(fn *ssa.Function, at ssa.Instruction, ch, val ssa.Value) {
		if !carriesConn(val.Type()) {
			return
		}
		c.see(fn)
		key := "conn-hand-over@" + funcName(fn)
		good := true
		why := ""
		for _, r := range tr.originsNH(ch) {
			mk, ok := r.(*ssa.MakeChan)
			if !ok {
				good, why = false, "the channel's make site is not visible ("+exprStr(r)+")"
				continue
			}
			if n, isC := constInt(mk.Size); !isC || n != 0 {
				good, why = false, "the channel made at "+p.pos(mk.Pos())+" is buffered"
			}
		}
		c.check(good, key, instrPos(at), "the connection is handed over by rendezvous (unbuffered channel)",
			why+": the send succeeds even when the receiver has already given up, and the connection is then owned by nobody — it stays registered but never becomes idle, so capacity is lost and further connections are dialled")
	}
	for _, f := range funcs {
		fn := f
		eachInstr(f, func(in ssa.Instruction) {
			switch x := in.(type) {
			case *ssa.Send:
				check(fn, in, x.Chan, x.X)
			case *ssa.Select:
				for _, st := range x.States {
					if st.Dir == types.SendOnly {
						check(fn, in, st.Chan, st.Send)
					}
				}
			}
		})
	}
}

// checkPackBufferExact: pool.PackBuffer hands out, on every non-nil return, a buffer b = GetBuf(len(wire)) into which
// wire (the result of m.PackBuffer) was copied on every path — never the scratch buffer (the message may not be in
// it: miekg/dns allocates its own slice when the uncompressed size does not fit) and never a slice that is not pooled.
func checkPackBufferExact(c *Ctx) {
	f := c.fn(relPool, "", "PackBuffer")
	if f == nil {
		return
	}
	c.see(f)
	key := "pack-buffer-exact"
	var wire ssa.Value
	eachInstr(f, func(in ssa.Instruction) {
		if ci, ok := in.(*ssa.Call); ok && callName(ci) == "(*github.com/miekg/dns.Msg).PackBuffer" {
			for _, r := range referrers(ci) {
				if ex, ok := r.(*ssa.Extract); ok && ex.Index == 0 {
					wire = ex
				}
			}
		}
	})
	if wire == nil {
		c.fail(key, f.Pos(), "no dns.Msg.PackBuffer call")
		return
	}
	n := 0
	for _, r := range returnsOf(f) {
		rv := returnedValues(r)
		if len(rv) == 0 || isNilConst(rv[0]) {
			continue
		}
		n++
		get, ok := rv[0].(*ssa.Call)
		if !ok || callName(get) != poolGet {
			c.fail(key, instrPos(r), "PackBuffer returns %s, not a pool buffer made for this message: the caller's ReleaseBuf panics on a foreign slice, or the bytes are those of the scratch buffer", exprStr(rv[0]))
			return
		}
		sz, ok := get.Call.Args[0].(*ssa.Call)
		if !ok || callName(sz) != "builtin:len" || sz.Call.Args[0] != wire {
			c.fail(key, instrPos(get), "the returned buffer is %s long, not len(wire)", exprStr(get.Call.Args[0]))
			return
		}
		copied := false
		eachInstr(f, func(in ssa.Instruction) {
			ci, ok := in.(*ssa.Call)
			if !ok || callName(ci) != "builtin:copy" || ci.Call.Args[1] != wire {
				return
			}
			if ld, ok := ci.Call.Args[0].(*ssa.UnOp); ok && ld.X == ssa.Value(get) && instrDominates(ci, r) {
				copied = true
			}
		})
		if !copied {
			c.fail(key, instrPos(r), "the packed message is not copied into the returned buffer on every path")
			return
		}
	}
	c.check(n > 0, key, f.Pos(), "every non-nil result is GetBuf(len(wire)) holding a copy of the packed message", "PackBuffer never returns a buffer")
}

// checkReplyChanConsumers: a reply channel has exactly one kind of consumer: the exchange function that registered it,
// and whatever it receives there is what that exchange returns. Any other receiver (a close path that "drains" the
// queue, a reply case that discards and waits again) takes a delivered reply away from its caller.
func checkReplyChanConsumers(c *Ctx, funcs []*ssa.Function) {
	allowed := map[string]bool{
		"(*" + relTransport + ".TraditionalDnsConn).exchange": true,
		"(*" + relTransport + ".reusableConn).exchange":       true,
	}
	retOnly := func(from *ssa.BasicBlock, v ssa.Value) (bool, string) {
		// every exit reachable from `from` is a return of v; no way back to a wait
		ok, why := true, ""
		seen := map[*ssa.BasicBlock]bool{}
		var walk func(b *ssa.BasicBlock)
		walk = func(b *ssa.BasicBlock) {
			if seen[b] || !ok {
				return
			}
			seen[b] = true
			for _, in := range b.Instrs {
				switch x := in.(type) {
				case *ssa.Return:
					rv := returnedValues(x)
					if len(rv) == 0 || rv[0] != v {
						ok, why = false, "a path after the receive returns "+exprStr(rv[0])+" instead of the received reply"
					}
					return
				case *ssa.Select:
					ok, why = false, "after receiving a reply the function waits again instead of returning it"
					return
				case *ssa.Call:
					if callName(x) == poolRel {
						ok, why = false, "the received reply is released instead of returned"
						return
					}
				}
			}
			for _, s := range b.Succs {
				walk(s)
			}
		}
		walk(from)
		return ok, why
	}
	for _, f := range funcs {
		fn := f
		eachInstr(f, func(in ssa.Instruction) {
			switch x := in.(type) {
			case *ssa.UnOp:
				if x.Op != token.ARROW || !isReplyChanType(x.X.Type()) {
					return
				}
				c.see(fn)
				c.check(false, "reply-consumer@"+funcName(fn), instrPos(in), "", "a plain receive on a reply channel outside the waiting select of an exchange")
			case *ssa.Select:
				cases, _, okd := decodeSelect(x)
				for _, cs := range cases {
					if cs.State.Dir != types.RecvOnly || !isReplyChanType(cs.State.Chan.Type()) {
						continue
					}
					c.see(fn)
					key := "reply-consumer@" + funcName(fn)
					if !allowed[funcName(fn)] && !x.Blocking && chanFromWaiterTable(c.P, cs.State.Chan) && tableHoldsOnlyUnanswered(c.P) {
						// Since D13 the reader takes a waiter out of the table when it delivers its reply: a channel found IN the
						// table is still empty, so a non-blocking receive on it (e.g. a drain on close) takes no reply away.
						c.ok(key, instrPos(in), "non-blocking receive on a channel still in the waiter table (empty by construction)")
						continue
					}
					if !allowed[funcName(fn)] && !x.Blocking {
						// a reply poll helper that only the registered exchanges call, each on the channel it waits on
						if sum := replyPollSummary(fn); sum != nil {
							sites, asValue := callSitesOf(fn)
							okSites := !asValue && len(sites) > 0
							for _, st := range sites {
								par := st.Parent()
								for par.Parent() != nil {
									par = par.Parent()
								}
								if !allowed[funcName(par)] {
									okSites = false
								}
							}
							if okSites && okd && cs.Body != nil && cs.Recv != nil {
								good, why := retOnly(cs.Body, cs.Recv)
								c.check(good, key, instrPos(in), "poll helper of the registered exchange: the received reply is returned on every path", why+": a reply that arrived in time is lost")
								continue
							}
						}
					}
					if !allowed[funcName(fn)] {
						c.fail(key, instrPos(in), "%s receives from a reply channel: only the exchange that registered the channel may take a reply out of it (here a delivered reply is taken away from its waiting caller, who then reports a timeout or the close error)", funcName(fn))
						continue
					}
					if !okd || cs.Body == nil || cs.Recv == nil {
						c.undecided(key, instrPos(in), "cannot decode the receive case")
						continue
					}
					good, why := retOnly(cs.Body, cs.Recv)
					c.check(good, key, instrPos(in), "the received reply is returned on every path", why+": a reply that arrived in time is lost")
				}
			}
		})
	}
}

// checkWaiterLifetime: the waiter registered by an exchange stays registered until that exchange returns: removals
// happen only in deferred calls of the registering function, and the registrar is called once (not on a cycle).
func checkWaiterLifetime(c *Ctx, funcs []*ssa.Function, inserter *ssa.Function) {
	p := c.P
	T := relTransport + "."
	deleters := map[*ssa.Function]bool{}
	for _, w := range p.whoWrites().byField[T+"TraditionalDnsConn.queue"] {
		if w.Kind == "delete" {
			deleters[w.Fn] = true
		}
	}
	// nobody empties or replaces the table of a live connection object: a reply the reader has already read finds no
	// waiter when a writer's close ran in between (round 12: CloseWithErr cleared the table "to drop references")
	for _, w := range p.whoWrites().byField[T+"TraditionalDnsConn.queue"] {
		switch w.Kind {
		case "clear":
			c.fail("table-never-emptied@"+funcName(w.Fn), instrPos(w.Instr), "the waiter table is cleared: the reader, holding a reply it has already read, finds no waiter and drops it (the exchange then returns its write error / the close error although the reply arrived in time)")
		case "store":
			if _, isMake := w.Val.(*ssa.MakeMap); isMake && strings.HasPrefix(w.Fn.Name(), "New") {
				c.ok("table-never-emptied@"+funcName(w.Fn), instrPos(w.Instr), "the table is created by the constructor")
			} else {
				c.fail("table-never-emptied@"+funcName(w.Fn), instrPos(w.Instr), "the waiter table is replaced outside the constructor: registered waiters are lost, replies that arrive in time are dropped")
			}
		}
	}
	// what a (non-taking) remover removes: its delete is unconditional, or happens exactly when the table still holds
	// the channel handed over for that id — the entry of the calling exchange itself (D13)
	for d := range deleters {
		if strings.Contains(d.Name(), "$") {
			continue
		}
		dfn := d
		eachInstr(d, func(x ssa.Instruction) {
			cc, ok := x.(*ssa.Call)
			if !ok || callName(cc) != "builtin:delete" {
				return
			}
			if k, _ := baseFieldOfContainer(cc.Call.Args[0]); k != T+"TraditionalDnsConn.queue" {
				return
			}
			gs := guardsOfInstr(x)
			if len(gs) == 0 {
				c.ok("remove-own-entry@"+funcName(dfn), instrPos(x), "unconditional removal of the given id")
				return
			}
			good := len(gs) == 1
			why := itoa(int64(len(gs))) + " conditions"
			if good {
				g := gs[0]
				if ex, isB := func() (*ssa.Extract, bool) { v, t := g.asBool(); e, ok := v.(*ssa.Extract); return e, ok && t }(); isB {
					// `c, ok := m[k]; if ok { delete }` — the take
					lk, isLk := ex.Tuple.(*ssa.Lookup)
					good = ex.Index == 1 && isLk && sameKeyValue(lk.Index, cc.Call.Args[1])
					why = "guarded by " + guardText(g)
				} else if cm, isC := g.asCmp(); isC {
					lk, isLk := cm.X.(*ssa.Lookup)
					_, isPar := cm.Y.(*ssa.Parameter)
					if !isLk {
						lk, isLk = cm.Y.(*ssa.Lookup)
						_, isPar = cm.X.(*ssa.Parameter)
					}
					good = cm.Op == token.EQL && isLk && isPar && sameKeyValue(lk.Index, cc.Call.Args[1])
					why = "guarded by " + guardText(g)
				} else {
					good = false
					why = "guarded by " + guardText(g)
				}
			}
			c.check(good, "remove-own-entry@"+funcName(dfn), instrPos(x), "removes the id's entry exactly when it is the caller's own channel",
				"the waiter is removed under another condition than 'the table still holds this exchange's channel' ("+why+"): the id stays registered for good (the table fills up, admitted queries fail with 'too many queries') or another query's waiter is removed and its reply dropped")
		})
	}
	for _, f := range funcs {
		fn := f
		eachInstr(f, func(in ssa.Instruction) {
			ci, ok := in.(ssa.CallInstruction)
			if !ok {
				return
			}
			sc := staticCallee(ci)
			if sc == nil {
				return
			}
			if sc == inserter {
				c.see(fn)
				_, cyc := reachAvoiding(in, func(x ssa.Instruction) bool { return x == in }, nil)
				c.check(!cyc, "register-once@"+funcName(fn), instrPos(in), "the waiter is registered once per exchange", "the exchange registers a waiter repeatedly (on a loop): replies to the earlier transmissions, which carry the earlier id, find no waiter and are dropped")
				return
			}
			if !deleters[sc] {
				return
			}
			c.see(fn)
			key := "unregister-only-at-exit@" + funcName(fn)
			_, isDefer := in.(*ssa.Defer)
			if !isDefer {
				// the reader may take the waiter out when (and only when) it hands the reply to that very waiter: the callee
				// returns the entry it removed, and the caller sends on the returned channel (D13: answered queries leave
				// the table at once, so that what is left are the unanswered ones)
				if why := claimingTake(p, sc, in, T+"TraditionalDnsConn.queue"); why == "" {
					c.ok(key+":claim", instrPos(in), "the reader removes the waiter it delivers the reply to")
					return
				} else if why != "not a take" {
					c.fail(key+":claim", instrPos(in), "the reader takes a waiter out of the table but %s: a reply that arrives afterwards — in time for the caller's deadline — finds no waiter and is dropped", why)
					return
				}
			}
			// inside an anonymous function that the registering function defers
			inDeferred := false
			if par := fn.Parent(); par != nil {
				eachInstr(par, func(y ssa.Instruction) {
					if d, ok := y.(*ssa.Defer); ok {
						if mc, ok := d.Call.Value.(*ssa.MakeClosure); ok && mc.Fn == ssa.Value(fn) {
							inDeferred = true
						}
					}
				})
			}
			if inDeferred {
				// and unconditionally inside that deferred closure
				if len(guardsOfInstr(in)) > 0 {
					c.fail(key, instrPos(in), "the deferred removal of the waiter is conditional (%s): on the other paths the wire id stays registered for good, the table fills up and admitted queries fail with 'too many queries'", guardText(guardsOfInstr(in)[0]))
					return
				}
			}
			c.check(isDefer || inDeferred, key, instrPos(in), "the waiter is removed only by a deferred call (at function exit)",
				"the waiter is removed before the exchange returns: a reply that arrives afterwards — in time for the caller's deadline — finds no waiter and is dropped")
		})
	}
}

// claimingTake decides whether the call `in` of the deleter `sc` is a "take": sc looks an entry up (comma-ok), removes
// that entry only when it was found, and returns the looked-up channel on every path; and the caller sends on the
// returned channel. Returns "" when it is, "not a take" when sc has another shape, or what is wrong with the take.
func claimingTake(p *Prog, sc *ssa.Function, in ssa.Instruction, mapKey string) string {
	var lk *ssa.Lookup
	var del *ssa.Call
	nDel := 0
	eachInstr(sc, func(x ssa.Instruction) {
		switch y := x.(type) {
		case *ssa.Lookup:
			if k, _ := baseFieldOfContainer(y.X); k == mapKey && y.CommaOk {
				lk = y
			}
		case *ssa.Call:
			if callName(y) == "builtin:delete" {
				if k, _ := baseFieldOfContainer(y.Call.Args[0]); k == mapKey {
					del = y
					nDel++
				}
			}
		}
	})
	if lk == nil || del == nil || nDel != 1 {
		return "not a take"
	}
	var val ssa.Value
	for _, r := range referrers(lk) {
		if ex, ok := r.(*ssa.Extract); ok && ex.Index == 0 {
			val = ex
		}
	}
	rets := returnsOf(sc)
	if val == nil || len(rets) == 0 {
		return "not a take"
	}
	for _, r := range rets {
		if r.Block().Comment == "recover" {
			continue
		}
		rv := returnedValues(r)
		if len(rv) == 0 {
			return "not a take"
		}
		tr := p.newTracer()
		tr.throughCalls, tr.throughFields, tr.throughParams = false, false, false
		os := tr.origins(rv[0])
		if len(os) != 1 || !(os[0] == val || os[0] == ssa.Value(lk)) {
			return "not a take"
		}
	}
	if !sameKeyValue(lk.Index, del.Call.Args[1]) {
		return "it removes another entry than the one it returns"
	}
	for _, g := range guardsOfInstr(del) {
		v, truth := g.asBool()
		ex, isEx := v.(*ssa.Extract)
		if !isEx || !truth || ex.Index != 1 || ex.Tuple != ssa.Value(lk) {
			return "the removal is conditional on " + guardText(g)
		}
	}
	// the caller: sends on the returned channel
	cv, ok := in.(*ssa.Call)
	if !ok {
		return "the returned channel is dropped"
	}
	sent := false
	eachInstr(in.Parent(), func(x ssa.Instruction) {
		if sel, ok := x.(*ssa.Select); ok {
			for _, st := range sel.States {
				if st.Dir == types.SendOnly && st.Chan == ssa.Value(cv) && instrDominates(in, x) {
					sent = true
				}
			}
		}
		if snd, ok := x.(*ssa.Send); ok && snd.Chan == ssa.Value(cv) && instrDominates(in, x) {
			sent = true
		}
	})
	if !sent {
		return "does not send the reply on the channel it took out"
	}
	return ""
}

// checkAttemptOutcome (C08-R7): a failed attempt on a connection is visible as a non-nil error to the retry loop,
// promptly: (a) every reply wait of the attempt functions also wakes on the connection's close notification,
// (b) the close functions store the close error before they close the notification channel, (c) an attempt never
// returns a nil reply together with an error that may be nil.
func checkAttemptOutcome(c *Ctx) {
	p := c.P
	T := relTransport + "."
	cn := closeNotifyFields(p, relTransport)
	for _, an := range []struct{ recv, name string }{{"TraditionalDnsConn", "exchange"}, {"reusableConn", "exchange"}} {
		f := c.fn(relTransport, an.recv, an.name)
		if f == nil {
			continue
		}
		c.see(f)
		// (a)
		eachInstr(f, func(in ssa.Instruction) {
			sel, ok := in.(*ssa.Select)
			if !ok || !sel.Blocking {
				return
			}
			isWait, wakes := false, false
			for _, st := range sel.States {
				if st.Dir == types.RecvOnly && isReplyChanType(st.Chan.Type()) {
					isWait = true
				}
				if k, ok := loadedField(st.Chan); ok && cn[k] {
					wakes = true
				}
			}
			if isWait {
				c.check(wakes, "attempt-wakes-on-close@"+funcName(f), instrPos(in), "the reply wait also watches the close notification",
					"the reply wait does not watch the connection's close notification: when a reused connection dies the query sits until its own context expires, and the retry then runs with a dead context")
			}
		})
		// (c)
		for _, r := range returnsOf(f) {
			rv := returnedValues(r)
			if len(rv) != 2 || !isNilConst(rv[0]) {
				continue
			}
			okErr := true
			why := ""
			for _, lf := range expandCases(rv[1], nil, 0) {
				v := lf.val
				// an error value tested `!= nil` on this path
				nnGuard := false
				for _, g := range append(lf.guards, guardsOfInstr(r)...) {
					if cm, ok := g.asCmp(); ok && cm.X == v && isNilConst(cm.Y) && cm.Op == token.NEQ {
						nnGuard = true
					}
				}
				if nnGuard {
					continue
				}
				switch x := v.(type) {
				case *ssa.Const:
					if isNilConst(x) {
						okErr, why = false, "a nil error"
					}
				case *ssa.UnOp:
					if k, isF := loadedField(v); isF && (strings.HasSuffix(k, ".closeErr")) {
						continue // non-nil once the notification is closed: clause (b)
					}
					if _, isG := x.X.(*ssa.Global); isG {
						continue // a package-level error value
					}
					okErr, why = false, exprStr(v)
				case *ssa.Call:
					if callName(x) == "context.Cause" {
						continue
					}
					okErr, why = false, exprStr(v)
				default:
					// an error value under `!= nil`
					nn := false
					for _, g := range append(lf.guards, guardsOfInstr(r)...) {
						if cm, ok := g.asCmp(); ok && cm.X == v && isNilConst(cm.Y) && cm.Op == token.NEQ {
							nn = true
						}
					}
					if !nn {
						okErr, why = false, exprStr(v)
					}
				}
			}
			c.check(okErr, "attempt-fails-with-error@"+funcName(f), instrPos(r), "a nil reply comes with a non-nil error", "the attempt can return a nil reply with "+why+": the retry loop takes it for a success and hands the caller nothing")
		}
	}
	// (b)
	for _, cf := range []struct{ recv, name, errField, notify string }{
		{"TraditionalDnsConn", "CloseWithErr", T + "TraditionalDnsConn.closeErr", T + "TraditionalDnsConn.closeNotify"},
		{"reusableConn", "closeWithErr", T + "reusableConn.closeErr", T + "reusableConn.closeNotify"},
	} {
		f := c.fn(relTransport, cf.recv, cf.name)
		if f == nil {
			continue
		}
		good, n := true, 0
		// wherever the notification of this connection type is closed (the close routine may delegate to a sibling)
		seenIn := map[ssa.Instruction]bool{}
		for _, tf := range c.P.funcsIn(relTransport) {
			eachInstrDeep(tf, func(g *ssa.Function, in ssa.Instruction) {
				ci, ok := isCall(in, "builtin:close")
				if !ok || seenIn[in] {
					return
				}
				if k, _ := loadedField(ci.Common().Args[0]); k != cf.notify {
					return
				}
				seenIn[in] = true
				n++
				if !closeErrStoredFor(c.P, g, in, cf.errField) {
					good = false
				}
			})
		}
		c.check(good && n > 0, "close-error-before-notify@"+cf.recv, f.Pos(), "the close error is stored before the notification is closed",
			"the close notification is closed before the close error is stored: a waiter woken by it returns (nil, nil), which the retry loop treats as success")
	}
}

// iterationCanSkip: inside the innermost loop around target, is there a path from the loop head around the loop and
// back to the head that does not execute target? Edges for which allowedSkip returns true are not followed (legitimate
// skips such as "this record is the OPT pseudo-record"). Unlike a comparison of guard sets this also sees skips written
// with && / || (whose merge blocks have several predecessors and carry no single guard).
func iterationCanSkip(target ssa.Instruction, allowedSkip func(iff *ssa.If, truth bool) bool) (bool, *ssa.BasicBlock) {
	hdr := innermostLoopHeader(target.Block())
	if hdr == nil {
		// the loop body was extracted into a new helper that the loop calls (and nobody else): an iteration skips the
		// target when the helper can return without executing it
		if ch := helperLoopHeader(target); ch != nil {
			fn := target.Parent()
			seen := map[*ssa.BasicBlock]bool{}
			skip := false
			var walk func(b *ssa.BasicBlock)
			walk = func(b *ssa.BasicBlock) {
				if skip || seen[b] || b == target.Block() {
					return
				}
				seen[b] = true
				if _, isRet := terminator(b).(*ssa.Return); isRet && b.Comment != "recover" {
					skip = true
					return
				}
				iff, _ := terminator(b).(*ssa.If)
				for si, sb := range b.Succs {
					if iff != nil && allowedSkip != nil && allowedSkip(iff, si == 0) {
						continue
					}
					walk(sb)
				}
			}
			walk(fn.Blocks[0])
			return skip, ch
		}
		return false, nil
	}
	// natural loop body: blocks that reach a back-edge source without passing the head
	body := map[*ssa.BasicBlock]bool{hdr: true}
	var up func(b *ssa.BasicBlock)
	up = func(b *ssa.BasicBlock) {
		if body[b] {
			return
		}
		body[b] = true
		for _, pr := range b.Preds {
			up(pr)
		}
	}
	for _, pr := range hdr.Preds {
		if hdr.Dominates(pr) {
			up(pr)
		}
	}
	seen := map[*ssa.BasicBlock]bool{}
	skip := false
	var walk func(b *ssa.BasicBlock)
	walk = func(b *ssa.BasicBlock) {
		if skip || seen[b] || !body[b] {
			return
		}
		seen[b] = true
		if b == target.Block() {
			return // the target executes on this path
		}
		iff, _ := terminator(b).(*ssa.If)
		for si, s := range b.Succs {
			if iff != nil && allowedSkip != nil && allowedSkip(iff, si == 0) {
				continue
			}
			if s == hdr {
				skip = true
				return
			}
			walk(s)
		}
	}
	iffH, _ := terminator(hdr).(*ssa.If)
	for si, s := range hdr.Succs {
		if iffH != nil && allowedSkip != nil && allowedSkip(iffH, si == 0) {
			continue
		}
		if s == hdr {
			continue
		}
		walk(s)
	}
	return skip, hdr
}

// checkCtxCallsGetCallerCtx: inside the transports' ExchangeContext functions every call of a mosdns function that
// takes a context (dial helpers, reservation, attempts) is given the caller's own context parameter.
func checkCtxCallsGetCallerCtx(c *Ctx, funcs []*ssa.Function) {
	p := c.P
	for _, f := range funcs {
		if f.Name() != "ExchangeContext" || f.Parent() != nil || len(f.Params) < 2 {
			continue
		}
		var cp *ssa.Parameter
		for _, pa := range f.Params {
			if pa.Type().String() == "context.Context" {
				cp = pa
				break
			}
		}
		if cp == nil {
			continue
		}
		fn := f
		eachInstr(f, func(in ssa.Instruction) {
			ci, ok := in.(*ssa.Call)
			if !ok {
				return
			}
			sc := staticCallee(ci)
			if sc == nil || !inMosdns(sc) {
				return
			}
			for _, a := range ci.Call.Args {
				if a.Type().String() != "context.Context" {
					continue
				}
				c.see(fn)
				c.check(isParamValue(p, a, cp), "caller-ctx@"+funcName(fn)+"->"+sc.Name(), instrPos(in), "gets the caller's own context",
					sc.Name()+" runs under "+exprStr(a)+", not the context the caller passed: a deadline added on the way ends the retries (or the dial of the fresh connection) before the caller's context ends")
				break
			}
		})
	}
}

// checkDoneCaseReportsOwnCtx: a select case that fires on X.Done() and returns an error taken from a context
// (context.Cause(Y) / Y.Err()) takes it from X: the error of another, still live context is nil, and the function
// then returns (nil, nil) — its caller dereferences the nil result.
func checkDoneCaseReportsOwnCtx(c *Ctx, funcs []*ssa.Function) {
	p := c.P
	ctxOf := func(v ssa.Value) []ssa.Value {
		tr := p.newTracer()
		tr.throughCalls, tr.throughFields, tr.throughParams = false, false, false
		return tr.origins(v)
	}
	sameCtx := func(a, b ssa.Value) bool {
		ka, oka := loadedField(a)
		kb, okb := loadedField(b)
		if oka || okb {
			return oka && okb && ka == kb
		}
		oa, ob := ctxOf(a), ctxOf(b)
		if len(oa) == 0 || len(ob) == 0 {
			return false
		}
		for _, x := range oa {
			found := false
			for _, y := range ob {
				if x == y {
					found = true
				}
			}
			if !found {
				return false
			}
		}
		return true
	}
	// a context derived from another by WithCancel/WithTimeout/...: the parent's error is non-nil only if ... not in
	// general; but Cause(parent) after child.Done() is what the current tree does in getNewConn (callCtx is cancelled
	// only by the parent or at function exit), so a derivation chain child -> parent is accepted.
	derivedFrom := func(child, parent ssa.Value) bool {
		for _, o := range ctxOf(child) {
			ex, ok := o.(*ssa.Extract)
			if !ok {
				continue
			}
			cl, ok := ex.Tuple.(*ssa.Call)
			if !ok || !strings.HasPrefix(callName(cl), "context.With") || len(cl.Call.Args) == 0 {
				continue
			}
			if sameCtx(cl.Call.Args[0], parent) {
				return true
			}
		}
		return false
	}
	for _, f := range funcs {
		fn := f
		eachInstr(f, func(in ssa.Instruction) {
			sel, ok := in.(*ssa.Select)
			if !ok {
				return
			}
			cases, _, okd := decodeSelect(sel)
			if !okd {
				return
			}
			for _, cs := range cases {
				if cs.State.Dir != types.RecvOnly || !isCtxDone(cs.State.Chan) || cs.Body == nil {
					continue
				}
				fired := cs.State.Chan.(*ssa.Call).Call.Value
				// returns reachable in the case body before leaving it
				seen := map[*ssa.BasicBlock]bool{}
				var walk func(b *ssa.BasicBlock)
				walk = func(b *ssa.BasicBlock) {
					if seen[b] || !cs.Body.Dominates(b) {
						return
					}
					seen[b] = true
					for _, x := range b.Instrs {
						r, isR := x.(*ssa.Return)
						if !isR {
							continue
						}
						for _, rv := range returnedValues(r) {
							if rv.Type().String() != "error" {
								continue
							}
							for _, o := range ctxOf(rv) {
								cl, isC := o.(*ssa.Call)
								if !isC {
									continue
								}
								var src ssa.Value
								switch callName(cl) {
								case "context.Cause":
									src = cl.Call.Args[0]
								case "invoke:(context.Context).Err":
									src = cl.Call.Value
								default:
									continue
								}
								c.see(fn)
								good := sameCtx(src, fired) || derivedFrom(fired, src)
								c.check(good, "done-case-own-error@"+funcName(fn), instrPos(r), "the case reports the error of the context that fired",
									"the case fires on "+exprStr(fired)+".Done() but returns the error of "+exprStr(src)+": when that context is still live the error is nil and the function returns (nil, nil); the caller then uses a nil connection / reply")
							}
						}
					}
					for _, sb := range b.Succs {
						walk(sb)
					}
				}
				walk(cs.Body)
			}
		})
	}
}

// chanFromWaiterTable: v is an element of TraditionalDnsConn.queue obtained by ranging over / indexing the table.
func chanFromWaiterTable(p *Prog, v ssa.Value) bool {
	qk := relTransport + ".TraditionalDnsConn.queue"
	tr := p.newTracer()
	tr.throughCalls, tr.throughFields, tr.throughParams = false, false, false
	os := tr.origins(v)
	if len(os) == 0 {
		return false
	}
	for _, o := range os {
		switch x := o.(type) {
		case *ssa.Extract:
			nx, ok := x.Tuple.(*ssa.Next)
			if !ok {
				return false
			}
			rg, ok := nx.Iter.(*ssa.Range)
			if !ok {
				return false
			}
			if k, okk := loadedField(rg.X); !okk || k != qk {
				return false
			}
		case *ssa.Lookup:
			if k, okk := loadedField(x.X); !okk || k != qk {
				return false
			}
		default:
			return false
		}
	}
	return true
}

// tableHoldsOnlyUnanswered: the reader removes a waiter from the table in the same step in which it obtains its channel
// for delivery (the take idiom, checked in detail by checkWaiterLifetime).
func tableHoldsOnlyUnanswered(p *Prog) bool {
	rl := p.Func(relTransport, "TraditionalDnsConn", "readLoop")
	if rl == nil {
		return false
	}
	found := false
	eachInstr(rl, func(in ssa.Instruction) {
		ci, ok := in.(*ssa.Call)
		if !ok {
			return
		}
		sc := staticCallee(ci)
		if sc == nil {
			return
		}
		if claimingTake(p, sc, in, relTransport+".TraditionalDnsConn.queue") == "" {
			found = true
		}
	})
	return found
}

// paramMinLenByCallers: the least length that every static call site of prm's function guarantees for the argument
// bound to prm (by a dominating length guard, a known construction length or the argument's own origin); 0 when the
// function has no static call site, is used as a value, or a site guarantees nothing.
func paramMinLenByCallers(p *Prog, prm *ssa.Parameter, depth int) int64 {
	fn := prm.Parent()
	idx := -1
	for i, q := range fn.Params {
		if q == prm {
			idx = i
		}
	}
	if idx < 0 || depth > 4 {
		return 0
	}
	best := int64(-1)
	for _, f := range p.Funcs {
		if !inMosdns(f) {
			continue
		}
		bad := false
		eachInstr(f, func(in ssa.Instruction) {
			ci, ok := in.(ssa.CallInstruction)
			if !ok {
				// the function used as a value: unknown callers
				for _, op := range in.Operands(nil) {
					if op != nil && *op == ssa.Value(fn) {
						bad = true
					}
				}
				return
			}
			if ci.Common().StaticCallee() != fn {
				for _, a := range ci.Common().Args {
					if a == ssa.Value(fn) {
						bad = true
					}
				}
				return
			}
			if idx >= len(ci.Common().Args) {
				bad = true
				return
			}
			arg := ci.Common().Args[idx]
			n := lenLowerBound(in, arg)
			if kl := sliceKnownLen(arg, 0); kl > n {
				n = kl
			}
			if ol := minLenByOrigin(p, arg, depth); ol > n {
				n = ol
			}
			if best < 0 || n < best {
				best = n
			}
		})
		if bad {
			return 0
		}
	}
	if best < 0 {
		return 0
	}
	return best
}

// helperLoopHeader: in sits in a new helper (see isNewHelper) without a loop around it, whose single call site lies in
// a loop of its caller — that loop's header; nil otherwise.
func helperLoopHeader(in ssa.Instruction) *ssa.BasicBlock {
	fn := in.Parent()
	if fn == nil || !isNewHelper(fn) {
		return nil
	}
	site := soleCallSite(fn)
	if site == nil {
		return nil
	}
	return innermostLoopHeader(site.Block())
}
