package main

import (
	"fmt"
	"go/token"
	"go/types"
	"strings"

	"golang.org/x/tools/go/ssa"
)

const relQctx = "pkg/query_context"

func init() {
	register(&propDef{
		ID: "C15",
		Explanation: "Decides who may create, carry and modify OPT records: (R1) OPT records are constructed only by the query context's constructor helper; (R2) option lists are written only " +
			"by the two explicit forwarding plugins; (R3) context creation always swaps the client's OPT for a fresh one at the same position (or appends one) and keeps the old one only as the " +
			"read-only client OPT; (R4) the response slot and the upstream OPT are written only by SetResponse (which removes exactly the record it identified as OPT, searching the whole " +
			"additional section) and by context copying; (R5) the response OPT exists iff the client sent one, mirrors DO, is deep-copied with the context, and is appended by the server handler " +
			"only when present; (R6) TTL rewriting loops skip OPT; (R7) the cache's copy helper drops OPT. Messages carrying several OPT records are outside the quantifier.",
		Assumptions: []string{"miekg/dns OPT accessors (Do, UDPSize) as documented"},
		Run:         runC15,
	})
}

func isOPTType(t types.Type) bool {
	n := namedOf(t)
	return n != nil && n.Obj().Name() == "OPT" && n.Obj().Pkg() != nil && n.Obj().Pkg().Path() == "github.com/miekg/dns"
}

func runC15(c *Ctx) {
	p := c.P
	Q := relQctx + ".Context."

	// ---------------------------------------------------------------- R1
	c.rule("R1", "OPT records are constructed only in the context's constructor helper", 1)
	allowedCtor := map[string]bool{relQctx + ".newOpt": true, relHandler + ".newOpt": true}
	for _, f := range p.Funcs {
		if f.Pkg == nil || strings.HasSuffix(f.Pkg.Pkg.Path(), "/tools") {
			continue
		}
		fn := f
		eachInstr(f, func(in ssa.Instruction) {
			al, ok := in.(*ssa.Alloc)
			if !ok {
				return
			}
			pt, ok := al.Type().(*types.Pointer)
			if !ok || !isOPTType(pt.Elem()) {
				return
			}
			if _, isPtr := pt.Elem().(*types.Pointer); isPtr {
				return
			}
			c.see(fn)
			c.check(allowedCtor[funcName(fn)], "opt-constructed@"+funcName(fn), instrPos(in), "OPT constructed by the designated helper",
				"an OPT record is constructed outside the query context's helper: a second OPT can reach the upstream or the client")
		})
	}

	// ---------------------------------------------------------------- R2
	c.rule("R2", "OPT option lists are written only by ecs_handler and forward_edns0opt", 4)
	allowedOptWriters := map[string]bool{"plugin/executable/ecs_handler": true, "plugin/executable/forward_edns0opt": true}
	for _, w := range p.whoWrites().byField["github.com/miekg/dns.OPT.Option"] {
		if w.Fn.Pkg == nil {
			continue
		}
		rel := strings.TrimPrefix(w.Fn.Pkg.Pkg.Path(), modPath+"/")
		c.see(w.Fn)
		c.check(allowedOptWriters[rel], "option-write@"+funcName(w.Fn), instrPos(w.Instr), "explicit EDNS0 forwarding plugin",
			"EDNS0 options are written outside the two forwarding plugins: client or upstream options leak across the proxy")
	}

	// ---------------------------------------------------------------- R3
	c.rule("R3", "NewContext swaps the client's OPT for a fresh one and keeps the old one only as clientOpt", 4)
	nc := c.fn(relQctx, "", "NewContext")
	swap := c.fn(relQctx, "", "addNewAndSwapOldOpt")
	newOpt := c.fn(relQctx, "", "newOpt")
	if nc != nil && swap != nil && newOpt != nil {
		// NewContext: clientOpt = swap(q), query = q
		var swapCall *ssa.Call
		eachInstr(nc, func(in ssa.Instruction) {
			if ci, ok := in.(*ssa.Call); ok && staticCallee(ci) == swap {
				swapCall = ci
			}
		})
		good := false
		if swapCall != nil && swapCall.Call.Args[0] == ssa.Value(nc.Params[0]) {
			qStored, cStored := false, false
			eachInstr(nc, func(in ssa.Instruction) {
				if st, ok := in.(*ssa.Store); ok {
					k, _ := fieldKey(st.Addr)
					if k == Q+"query" && st.Val == ssa.Value(nc.Params[0]) {
						qStored = true
					}
					if k == Q+"clientOpt" && st.Val == ssa.Value(swapCall) {
						cStored = true
					}
				}
			})
			good = qStored && cStored
		}
		c.check(good, "newcontext-swaps", nc.Pos(), "NewContext stores q and clientOpt = addNewAndSwapOldOpt(q)", "NewContext does not swap the client's OPT out of the query it keeps")
		// the swap helper: every return is preceded by a fresh OPT placed into m.Extra
		isFreshOpt := func(v ssa.Value) bool {
			v = stripConv(v)
			cl, ok := v.(*ssa.Call)
			return ok && staticCallee(cl) == newOpt
		}
		for _, r := range returnsOf(swap) {
			rv := returnedValues(r)[0]
			key := "swap-return"
			placed := false
			var placedIdx ssa.Value
			eachInstr(swap, func(in ssa.Instruction) {
				st, ok := in.(*ssa.Store)
				if !ok || !instrDominates(in, r) {
					return
				}
				// element store Extra[i] = newOpt()
				if ia, ok := st.Addr.(*ssa.IndexAddr); ok && isFreshOpt(st.Val) {
					if k, _ := loadedField(ia.X); k == "github.com/miekg/dns.Msg.Extra" {
						placed, placedIdx = true, ia.Index
					}
				}
				// Extra = append(Extra, newOpt())
				if k, _ := fieldKey(st.Addr); k == "github.com/miekg/dns.Msg.Extra" {
					if ap, ok := st.Val.(*ssa.Call); ok && callName(ap) == "builtin:append" {
						// varargs slice holding a fresh OPT
						if sl, ok := ap.Call.Args[1].(*ssa.Slice); ok {
							if arr, ok := sl.X.(*ssa.Alloc); ok {
								for _, rr := range referrers(arr) {
									if ia, ok := rr.(*ssa.IndexAddr); ok {
										for _, r2 := range referrers(ia) {
											if s2, ok := r2.(*ssa.Store); ok && isFreshOpt(s2.Val) {
												placed = true
											}
										}
									}
								}
							}
						}
					}
				}
			})
			if isNilConst(rv) {
				c.check(placed, key+":none", instrPos(r), "no client OPT: a fresh one is appended", "a query without OPT leaves context creation without an OPT")
				continue
			}
			// returned old OPT = type assertion of Extra[i], and the fresh one overwrote index i
			sameIdx := false
			if ex, ok := rv.(*ssa.Extract); ok {
				if ta, ok := ex.Tuple.(*ssa.TypeAssert); ok {
					if ld, ok := ta.X.(*ssa.UnOp); ok {
						if ia, ok := ld.X.(*ssa.IndexAddr); ok && placedIdx != nil && ia.Index == placedIdx {
							sameIdx = true
						}
					}
				}
			}
			c.check(placed && sameIdx, key+":swap", instrPos(r), "the client's OPT is replaced in place by a fresh one and returned",
				"the client's OPT is returned without being replaced at its position: the client's EDNS options travel upstream")
		}
	}
	// clientOpt is stored only by NewContext / CopyTo
	for _, fld := range []string{"clientOpt"} {
		for _, w := range p.whoWrites().byField[Q+fld] {
			if w.Kind == "structstore" {
				continue
			}
			n := w.Fn.Name()
			c.check(n == "NewContext" || n == "CopyTo", "write:"+fld+"@"+funcName(w.Fn), instrPos(w.Instr), "written by the constructor / copy only", "Context."+fld+" is written outside NewContext/CopyTo")
		}
	}

	// ---------------------------------------------------------------- R4
	c.rule("R4", "resp / upstreamOpt are written only by SetResponse (after popOpt) and context copying; popOpt removes exactly the OPT it found", 5)
	for _, fld := range []string{"resp", "upstreamOpt"} {
		for _, w := range p.whoWrites().byField[Q+fld] {
			if w.Kind == "structstore" {
				continue
			}
			n := w.Fn.Name()
			c.check(n == "SetResponse" || n == "CopyTo", "write:"+fld+"@"+funcName(w.Fn), instrPos(w.Instr), "written by SetResponse / CopyTo only", "Context."+fld+" is written outside SetResponse/CopyTo: a response can enter the context with the upstream's OPT still attached")
		}
	}
	pop := c.fn(relQctx, "", "popOpt")
	if sr := c.fn(relQctx, "Context", "SetResponse"); sr != nil && pop != nil {
		good := false
		m := sr.Params[1]
		eachInstr(sr, func(in ssa.Instruction) {
			st, ok := in.(*ssa.Store)
			if !ok {
				return
			}
			if k, _ := fieldKey(st.Addr); k == Q+"upstreamOpt" {
				if cl, ok := st.Val.(*ssa.Call); ok && staticCallee(cl) == pop && cl.Call.Args[0] == ssa.Value(m) {
					// on the non-nil path, and under no other condition
					has, extra := false, false
					for _, g := range guardsOfInstr(in) {
						if cm, ok := g.asCmp(); ok && cm.X == ssa.Value(m) && isNilConst(cm.Y) && cm.Op == token.NEQ {
							has = true
							continue
						}
						if g.Derived {
							continue
						}
						extra = true
					}
					good = has && !extra
				}
			}
		})
		c.check(good, "setresponse-pops", sr.Pos(), "every non-nil response set has its OPT popped into upstreamOpt", "SetResponse does not pop the OPT off the response it stores: the upstream's EDNS options reach the client / the cache")
	}
	if pop != nil {
		// the removed element is the one asserted to *dns.OPT; the search covers the whole section
		key := "popopt-exact"
		var ta *ssa.TypeAssert
		eachInstr(pop, func(in ssa.Instruction) {
			if t, ok := in.(*ssa.TypeAssert); ok && isOPTType(t.AssertedType) {
				ta = t
			}
		})
		good, why := false, "no type assertion to *dns.OPT found"
		if ta != nil {
			if ld, ok := ta.X.(*ssa.UnOp); ok {
				if ia, ok := ld.X.(*ssa.IndexAddr); ok {
					idx := ia.Index
					// append(Extra[:idx], Extra[idx+1:]...)
					eachInstr(pop, func(in ssa.Instruction) {
						ap, ok := in.(*ssa.Call)
						if !ok || callName(ap) != "builtin:append" {
							return
						}
						s1, ok1 := ap.Call.Args[0].(*ssa.Slice)
						s2, ok2 := ap.Call.Args[1].(*ssa.Slice)
						if !ok1 || !ok2 {
							return
						}
						hiOK := s1.High == idx && s1.Low == nil
						loOK := false
						if bo, ok := s2.Low.(*ssa.BinOp); ok && bo.Op == token.ADD && bo.X == idx {
							if n, ok := constInt(bo.Y); ok && n == 1 && s2.High == nil {
								loOK = true
							}
						}
						if hiOK && loOK {
							good = true
						} else {
							why = "the element removed is not the one identified as OPT"
						}
					})
					// loop over all indices: idx is a phi starting at len-1, stepping -1, while >= 0
					if phi, ok := idx.(*ssa.Phi); ok {
						full := false
						for _, e := range phi.Edges {
							if bo, ok := e.(*ssa.BinOp); ok && bo.Op == token.SUB {
								if cl, ok := bo.X.(*ssa.Call); ok && callName(cl) == "builtin:len" {
									if n, ok := constInt(bo.Y); ok && n == 1 {
										full = true
									}
								}
							}
						}
						// the only condition for inspecting index i is i >= 0
						for _, g := range guardsOfInstr(ta) {
							cm, ok := g.asCmp()
							if ok && cm.X == idx && cm.Op == token.GEQ {
								if n, ok := constInt(cm.Y); ok && n == 0 {
									continue
								}
							}
							full = false
						}
						if !full {
							good, why = false, "the search does not start at the last additional record and cover the whole section"
						}
					} else {
						good, why = false, "the OPT is not searched for by index over the additional section"
					}
				}
			}
		}
		c.check(good, key, pop.Pos(), "popOpt searches the whole additional section and removes exactly the OPT it found", why+": an OPT that is not the last additional record survives (and another record is lost)")
	}

	// ---------------------------------------------------------------- R5
	c.rule("R5", "response OPT iff client OPT, DO mirrored, deep-copied with the context, appended by the handler only when present", 6)
	if hh := c.fn(relHandler, "EntryHandler", "Handle"); hh != nil {
		// every reply leaves through the one pack call behind the RespOpt step (no second reply path without it)
		checkSinglePackSite(c, hh)
	}
	inlinedDoStore := map[*ssa.Store]bool{}
	librarySetDo := map[*ssa.Call]bool{}
	if nc != nil {
		respOK, doOK := false, false
		eachInstr(nc, func(in ssa.Instruction) {
			if st, ok := in.(*ssa.Store); ok {
				if k, _ := fieldKey(st.Addr); k == Q+"respOpt" {
					if cl, ok := st.Val.(*ssa.Call); ok && newOpt != nil && staticCallee(cl) == newOpt {
						for _, g := range guardsOfInstr(in) {
							if cm, ok := g.asCmp(); ok && cm.Op == token.NEQ && isNilConst(cm.Y) {
								if k2, _ := loadedField(cm.X); k2 == Q+"clientOpt" {
									respOK = true
								}
							}
						}
					}
				}
			}
			if ci, ok := in.(*ssa.Call); ok && callName(ci) == relQctx+".setDo" {
				// setDo(respOpt, clientOpt.Do()): the flag itself is handed over (setDo only ever sets the bit, and the
				// response OPT is fresh)
				if cl, ok := ci.Call.Args[1].(*ssa.Call); ok && callName(cl) == "(*github.com/miekg/dns.OPT).Do" {
					if k2, _ := loadedField(cl.Call.Args[0]); k2 == Q+"clientOpt" {
						doOK = true
					}
				}
				if b, ok := constBool(ci.Call.Args[1]); ok && b {
					for _, g := range guardsOfInstr(in) {
						v, truth := g.asBool()
						if cl, ok := v.(*ssa.Call); ok && truth && callName(cl) == "(*github.com/miekg/dns.OPT).Do" {
							if k2, _ := loadedField(cl.Call.Args[0]); k2 == Q+"clientOpt" {
								doOK = true
							}
						}
					}
				}
			}
		})
		// fourth form: the whole construction in a NEW helper `newRespOpt(clientOpt)`: nil for a nil client OPT, else a
		// fresh newOpt() with DO set (library setter without arguments, or the inline OR) under clientOpt.Do()
		if !respOK || !doOK {
			eachInstr(nc, func(in ssa.Instruction) {
				st, ok := in.(*ssa.Store)
				if !ok {
					return
				}
				if k, _ := fieldKey(st.Addr); k != Q+"respOpt" {
					return
				}
				cl, ok := st.Val.(*ssa.Call)
				if !ok || len(cl.Call.Args) != 1 {
					return
				}
				h := cl.Call.StaticCallee()
				if !isNewHelper(h) || len(h.Params) != 1 || newOpt == nil {
					return
				}
				if k, _ := loadedField(cl.Call.Args[0]); k != Q+"clientOpt" {
					return
				}
				p0 := ssa.Value(h.Params[0])
				retOK, nRet := true, 0
				var fresh *ssa.Call
				for _, r := range returnsOf(h) {
					rv := returnedValues(r)
					if len(rv) != 1 {
						retOK = false
						continue
					}
					nRet++
					nilGuard, nonNilGuard := false, false
					for _, g := range guardsOfInstr(r) {
						if cm, ok := g.asCmp(); ok && cm.X == p0 && isNilConst(cm.Y) {
							if cm.Op == token.EQL {
								nilGuard = true
							} else if cm.Op == token.NEQ {
								nonNilGuard = true
							}
						}
					}
					if isNilConst(rv[0]) {
						if !nilGuard {
							retOK = false
						}
						continue
					}
					c2, isCall := rv[0].(*ssa.Call)
					if !isCall || staticCallee(c2) != newOpt || !nonNilGuard {
						retOK = false
						continue
					}
					fresh = c2
				}
				if !retOK || nRet < 2 || fresh == nil {
					return
				}
				respOK = true
				eachInstr(h, func(y ssa.Instruction) {
					underDo := false
					for _, g := range guardsOfInstr(y) {
						v, truth := g.asBool()
						if dc, ok := v.(*ssa.Call); ok && truth && callName(dc) == "(*github.com/miekg/dns.OPT).Do" && dc.Call.Args[0] == p0 {
							underDo = true
						}
					}
					if !underDo {
						return
					}
					if sc, ok := y.(*ssa.Call); ok && callName(sc) == "(*github.com/miekg/dns.OPT).SetDo" && len(sc.Call.Args) == 2 && sc.Call.Args[0] == ssa.Value(fresh) && isNilConst(sc.Call.Args[1]) {
						doOK = true
						librarySetDo[sc] = true
					}
					if s2, ok := y.(*ssa.Store); ok {
						if k, _ := fieldKey(s2.Addr); k == "github.com/miekg/dns.RR_Header.Ttl" {
							if bo, ok := s2.Val.(*ssa.BinOp); ok && bo.Op == token.OR {
								if n, ok := constInt(bo.Y); ok && n == 1<<15 {
									if fa, ok := s2.Addr.(*ssa.FieldAddr); ok {
										if hd, ok := fa.X.(*ssa.FieldAddr); ok && hd.X == ssa.Value(fresh) {
											doOK = true
											inlinedDoStore[s2] = true
										}
									}
								}
							}
						}
					}
				})
			})
		}
		// third form: the library's setter, `respOpt.SetDo()` without arguments (sets the bit), under clientOpt.Do()
		if !doOK {
			eachInstr(nc, func(in ssa.Instruction) {
				ci, ok := in.(*ssa.Call)
				if !ok || callName(ci) != "(*github.com/miekg/dns.OPT).SetDo" || len(ci.Call.Args) != 2 {
					return
				}
				if !isNilConst(ci.Call.Args[1]) {
					// a variadic argument list: accept only the empty one (nil slice)
					return
				}
				isResp := false
				if k, _ := loadedField(ci.Call.Args[0]); k == Q+"respOpt" {
					isResp = true
				}
				if cl, isCall := ci.Call.Args[0].(*ssa.Call); isCall && newOpt != nil && staticCallee(cl) == newOpt {
					isResp = true
				}
				if !isResp {
					return
				}
				for _, g := range guardsOfInstr(in) {
					v, truth := g.asBool()
					if cl, ok := v.(*ssa.Call); ok && truth && callName(cl) == "(*github.com/miekg/dns.OPT).Do" {
						if k2, _ := loadedField(cl.Call.Args[0]); k2 == Q+"clientOpt" {
							doOK = true
							librarySetDo[ci] = true
						}
					}
				}
			})
		}
		// second form: the one-use helper inlined — `respOpt.Hdr.Ttl |= 1 << 15` on the fresh response OPT under
		// clientOpt.Do()
		if !doOK {
			eachInstr(nc, func(in ssa.Instruction) {
				st, ok := in.(*ssa.Store)
				if !ok {
					return
				}
				if k, _ := fieldKey(st.Addr); k != "github.com/miekg/dns.RR_Header.Ttl" {
					return
				}
				fa, ok := st.Addr.(*ssa.FieldAddr)
				if !ok {
					return
				}
				hdr, ok := fa.X.(*ssa.FieldAddr)
				if !ok {
					return
				}
				if k, _ := fieldKey(hdr); k != "github.com/miekg/dns.OPT.Hdr" {
					return
				}
				base := hdr.X
				if ld, isLd := base.(*ssa.UnOp); isLd {
					if k, _ := loadedField(ld); k == Q+"respOpt" {
						base = nil // ctx.respOpt itself: made by newOpt just before (respopt-iff-clientopt)
					}
				}
				if base != nil {
					cl, isCall := base.(*ssa.Call)
					if !isCall || newOpt == nil || staticCallee(cl) != newOpt {
						return
					}
					stored := false
					for _, r := range referrers(cl) {
						if s2, ok := r.(*ssa.Store); ok && s2.Val == ssa.Value(cl) {
							if k, _ := fieldKey(s2.Addr); k == Q+"respOpt" {
								stored = true
							}
						}
					}
					if !stored {
						return
					}
				}
				bo, ok := st.Val.(*ssa.BinOp)
				if !ok || bo.Op != token.OR {
					return
				}
				if n, ok := constInt(bo.Y); !ok || n != 1<<15 {
					return
				}
				if ld, ok := bo.X.(*ssa.UnOp); !ok || !sameAddr(ld.X, st.Addr, 0) {
					return
				}
				for _, g := range guardsOfInstr(in) {
					v, truth := g.asBool()
					if cl, ok := v.(*ssa.Call); ok && truth && callName(cl) == "(*github.com/miekg/dns.OPT).Do" {
						if k2, _ := loadedField(cl.Call.Args[0]); k2 == Q+"clientOpt" {
							doOK = true
							inlinedDoStore[st] = true
						}
					}
				}
			})
		}
		c.check(respOK, "respopt-iff-clientopt", nc.Pos(), "respOpt is created exactly when the client sent an OPT", "the response OPT is not created exactly when the client's query had one")
		c.check(doOK, "do-mirrored", nc.Pos(), "DO is copied from the client's OPT", "the client's DO bit is not mirrored into the response OPT")
	}
	if sd := c.P.Func(relQctx, "", "setDo"); sd == nil && len(inlinedDoStore) == 0 && len(librarySetDo) == 0 {
		c.anchorMissing(relQctx + ".setDo")
	} else if sd != nil {
		c.see(sd)
		good := false
		eachInstr(sd, func(in ssa.Instruction) {
			if st, ok := in.(*ssa.Store); ok {
				if k, _ := fieldKey(st.Addr); k == "github.com/miekg/dns.RR_Header.Ttl" {
					if bo, ok := st.Val.(*ssa.BinOp); ok && bo.Op == token.OR {
						if n, ok := constInt(bo.Y); ok && n == 1<<15 {
							good = true
						}
					}
				}
			}
		})
		c.check(good, "do-bit", sd.Pos(), "DO is bit 15 of the OPT TTL field", "setDo does not set bit 15 of the OPT's TTL field")
	}
	if ct := c.fn(relQctx, "Context", "CopyTo"); ct != nil {
		good := false
		n := 0
		eachInstr(ct, func(in ssa.Instruction) {
			st, ok := in.(*ssa.Store)
			if !ok {
				return
			}
			if k, _ := fieldKey(st.Addr); k != Q+"respOpt" {
				return
			}
			n++
			if ta, ok := st.Val.(*ssa.TypeAssert); ok {
				if cl, ok := ta.X.(*ssa.Call); ok && callName(cl) == "github.com/miekg/dns.Copy" {
					good = true
				}
			}
		})
		c.check(good && n == 1, "respopt-deep-copied", ct.Pos(), "a context copy gets its own copy of the response OPT",
			"a copied context shares the response OPT with the original: options appended while a copy runs (lazy refresh, fallback, dual-stack) appear in the client's reply")
	}
	if h := c.fn(relHandler, "EntryHandler", "Handle"); h != nil {
		good := false
		eachInstr(h, func(in ssa.Instruction) {
			ci, ok := in.(*ssa.Call)
			if !ok || callName(ci) != "(*"+relQctx+".Context).RespOpt" {
				return
			}
			// helper form: the value is handed to a NEW helper that appends its parameter exactly under `!= nil`
			for _, r := range referrers(ci) {
				hc, isCall := r.(*ssa.Call)
				if !isCall {
					continue
				}
				for _, a := range hc.Call.Args {
					if a == ssa.Value(ci) {
						continue
					}
					if dec, st, n, why := respOptAppend(h, a, hc); dec == ci && st != nil && n == 1 && why == "" {
						good = true
					}
				}
			}
			// its value is appended to resp.Extra only under != nil
			for _, r := range referrers(ci) {
				if mi, ok := r.(*ssa.MakeInterface); ok {
					for _, r2 := range referrers(mi) {
						if st, ok := r2.(*ssa.Store); ok {
							// exactly under `RespOpt() != nil`: no further condition between the decision and the append
							base := map[string]bool{}
							for _, g := range guardsOfInstr(ci) {
								base[guardKey(g)] = true
							}
							has, extra := false, false
							for _, g := range guardsOfInstr(st) {
								if base[guardKey(g)] {
									continue
								}
								if cm, ok := g.asCmp(); ok && cm.X == ssa.Value(ci) && isNilConst(cm.Y) && cm.Op == token.NEQ {
									has = true
									continue
								}
								if g.Derived {
									continue
								}
								extra = true
							}
							if has && !extra {
								good = true
							}
						}
					}
				}
			}
		})
		c.check(good, "handler-appends-respopt", h.Pos(), "the handler appends RespOpt() only when non-nil", "the server handler does not append the response OPT exactly when there is one")
		// per packed message: the OPT append is the handler's only write to a section of that reply (nothing clears
		// Extra afterwards), and every pack call is dominated by the RespOpt() != nil decision for the message it packs.
		// (D40: besides the primary pack site there is the fallback for a reply that cannot be packed, with its own
		// message and its own append.)
		sites := handlerPackSites(p, h)
		nSec := 0
		eachInstr(h, func(in ssa.Instruction) {
			if st, ok := in.(*ssa.Store); ok {
				if k, _ := fieldKey(st.Addr); k == "github.com/miekg/dns.Msg.Extra" || k == "github.com/miekg/dns.Msg.Answer" || k == "github.com/miekg/dns.Msg.Ns" {
					nSec++
				}
			}
		})
		// section writes inside NEW helpers called with a packed reply count once per call
		if sites.primary != nil {
			for _, ps := range append([]*packSite{sites.primary}, sites.fallbacks...) {
				for _, hs := range helperFieldStores(h, ps.msg) {
					if hs.key == "github.com/miekg/dns.Msg.Extra" || hs.key == "github.com/miekg/dns.Msg.Answer" || hs.key == "github.com/miekg/dns.Msg.Ns" {
						nSec++
					}
				}
			}
		}
		all := sites.primary != nil && sites.problem == ""
		nPack := 0
		keeps := true
		whyKeeps := ""
		if sites.primary != nil {
			for _, st := range append([]*packSite{sites.primary}, sites.fallbacks...) {
				nPack++
				dec, store, n, why := respOptAppend(h, st.msg, st.call)
				if n != 1 || why != "" {
					keeps = false
					whyKeeps = fmt.Sprintf("%d writes to the sections of the reply packed at %s %s", n, p.pos(instrPos(st.call)), why)
				}
				if dec == nil || store == nil || !instrDominates(dec, st.call) {
					all = false
				}
				// no path from the append to the pack call rewrites the section (checked by n == 1), and no path from
				// the decision reaches the pack call of this message around... the append (it is the decision's own edge)
			}
		}
		c.check(keeps && nSec == nPack, "handler-keeps-sections", h.Pos(), "the handler's only write to a reply's sections is the OPT append", fmt.Sprintf("the handler writes the reply's sections %d times for %d packed replies (%s): a later write (e.g. clearing Extra on truncated replies) drops the response OPT the client is owed", nSec, nPack, whyKeeps))
		c.check(all && nPack > 0, "every-reply-passes-respopt", h.Pos(), "every packed reply passed the response-OPT decision",
			"some reply (e.g. the SERVFAIL built on the error path) is packed without passing the response-OPT step: an EDNS client gets a reply without OPT")
	}

	// ---------------------------------------------------------------- R6
	c.rule("R6", "TTL-rewriting loops skip OPT", 4)
	checkTTLLoopsSkipOPT(c)

	// ---------------------------------------------------------------- R7
	c.rule("R7", "the cache's copy helper never copies an OPT", 1)
	if cno := c.fn(relCachePlugin, "", "copyNoOpt"); cno != nil {
		// every dns.Copy of a record taken from m.Extra is guarded by Rrtype != OPT
		n := 0
		good := true
		eachInstrDeep(cno, func(g *ssa.Function, in ssa.Instruction) {
			ci, ok := in.(*ssa.Call)
			if !ok || callName(ci) != "github.com/miekg/dns.Copy" {
				return
			}
			ld, ok := ci.Call.Args[0].(*ssa.UnOp)
			if !ok {
				return
			}
			ia, ok := ld.X.(*ssa.IndexAddr)
			if !ok {
				return
			}
			isExtra := false
			if k, _ := loadedField(ia.X); k == "github.com/miekg/dns.Msg.Extra" {
				isExtra = true
			} else if pa, ok := ia.X.(*ssa.Parameter); ok && g.Parent() == nil && g != cno {
				// a new helper that copies the section it is handed: one of its calls hands it m.Extra
				sites, _ := callSitesOf(g)
				for _, st := range sites {
					args := st.(ssa.CallInstruction).Common().Args
					for i, fp := range g.Params {
						if fp == pa && i < len(args) {
							if k, _ := loadedField(args[i]); k == "github.com/miekg/dns.Msg.Extra" {
								isExtra = true
							}
						}
					}
				}
			}
			if !isExtra {
				return
			}
			n++
			guarded := false
			for _, gd := range guardsOfInstr(in) {
				if cm, ok := gd.asCmp(); ok && cm.Op == token.NEQ {
					if k, _ := loadedField(cm.X); k == "github.com/miekg/dns.RR_Header.Rrtype" {
						if v, ok := constInt(cm.Y); ok && v == 41 {
							guarded = true
						}
					}
				}
				// a predicate `isOpt(r)` (local closure or helper) that is exactly "r's type is OPT", false here
				if v, truth := gd.asBool(); v != nil && !truth {
					if pc, ok := v.(*ssa.Call); ok && isOptPredicate(pc) {
						guarded = true
					}
				}
			}
			if !guarded {
				good = false
			}
		})
		c.check(good && n > 0, "copy-drops-opt", cno.Pos(), "additional records are copied only when they are not OPT", "the cache's copy keeps OPT records: cached answers carry a stale OPT that is then duplicated")
	}
	// ... in every section, and for entries that come from a dump too (D16)
	checkCacheNeverStoresOpt(c)
	if rd := c.fn(relCachePlugin, "Cache", "readDump"); rd != nil {
		checkDumpReaderFields(c, rd)
	}
	// a reply whose rcode needs the OPT is never packed without one (D20)
	c.cur = c.Prop + "-R5"
	checkExtRcodeSendable(c)

	// ---------------------------------------------------------------- R8
	c.rule("R8", "a copy of a query context has its own query message (and so its own upstream OPT): options a plugin adds in one branch do not appear in the others", 2)
	checkContextCopyDeep(c)

	// ---------------------------------------------------------------- R9
	c.rule("R9", "an OPT's header (DO bit, version, extended rcode, UDP size) is written only where the OPT is made (newOpt / setDo); ecs_handler copies an option across the proxy only behind its gates", 5)
	{
		allowedHdr := map[string]bool{"newOpt": true, "setDo": true}
		n := 0
		for _, f := range p.Funcs {
			if f.Pkg == nil || !strings.HasPrefix(f.Pkg.Pkg.Path(), modPath) || strings.HasSuffix(f.Pkg.Pkg.Path(), "/tools") {
				continue
			}
			fn := f
			eachInstr(f, func(in ssa.Instruction) {
				switch x := in.(type) {
				case *ssa.Store:
					fa, ok := x.Addr.(*ssa.FieldAddr)
					if !ok {
						return
					}
					if k, _ := fieldKey(fa); !strings.HasPrefix(k, "github.com/miekg/dns.RR_Header.") {
						return
					}
					inner, ok := fa.X.(*ssa.FieldAddr)
					if !ok {
						return
					}
					if k, _ := fieldKey(inner); k != "github.com/miekg/dns.OPT.Hdr" {
						return
					}
					n++
					if inlinedDoStore[x] {
						c.ok("opt-header-write@"+funcName(fn), instrPos(in), "the DO bit is set on the fresh response OPT where it is made (setDo inlined)")
						return
					}
					c.check(allowedHdr[fn.Name()], "opt-header-write@"+funcName(fn), instrPos(in), "OPT header written where the OPT is made", "an OPT header field is written in "+funcName(fn)+": the DO bit / version / extended rcode the client is shown no longer mirror what NewContext derived from the client's OPT")
				case *ssa.Call:
					cn := callName(x)
					if strings.HasPrefix(cn, "(*github.com/miekg/dns.OPT).Set") {
						n++
						if librarySetDo[x] {
							c.ok("opt-header-write@"+funcName(fn), instrPos(in), "the DO bit is set on the fresh response OPT where it is made (library setter)")
							return
						}
						c.check(allowedHdr[fn.Name()], "opt-header-write@"+funcName(fn), instrPos(in), "OPT header set where the OPT is made", "an OPT header setter ("+cn+") is called in "+funcName(fn))
					}
				}
			})
		}
		if n == 0 {
			c.anchorMissing("writes of OPT header fields")
		}
		// ecs_handler gates
		const relEcs = "plugin/executable/ecs_handler"
		if ex := c.fn(relEcs, "ECSHandler", "Exec"); ex != nil {
			var addCall *ssa.Call
			eachInstr(ex, func(in ssa.Instruction) {
				if ci, ok := in.(*ssa.Call); ok && strings.HasSuffix(callName(ci), ".addECS") {
					addCall = ci
				}
			})
			nW := 0
			for _, w := range p.whoWrites().byField["github.com/miekg/dns.OPT.Option"] {
				if w.Fn != ex {
					continue
				}
				nW++
				gated, coded := false, false
				for _, g := range guardsOfInstr(w.Instr) {
					if v, truth := g.asBool(); addCall != nil && v == ssa.Value(addCall) && truth {
						gated = true
					}
					if cm, ok := g.asCmp(); ok && cm.Op == token.EQL {
						if n, ok := constInt(cm.Y); ok && n == 8 {
							coded = true
						}
					}
				}
				c.check(gated && coded, "ecs-back-to-client-gated", instrPos(w.Instr), "the upstream's ECS goes back to the client only when the client's ECS was forwarded, and only the SUBNET option",
					fmt.Sprintf("the upstream's option is copied into the client's reply without the gate (client ECS was forwarded: %v, option code is SUBNET: %v): upstream EDNS options reach a client that did not send them", gated, coded))
			}
			if nW == 0 {
				c.anchorMissing("append to RespOpt().Option in ECSHandler.Exec")
			}
		}
		if ae := c.fn(relEcs, "ECSHandler", "addECS"); ae != nil {
			// `return true` (client ECS forwarded) only after appending the client's option under args.Forward
			good, nTrue := true, 0
			for _, r := range returnsOf(ae) {
				b, isB := constBool(returnedValues(r)[0])
				if !isB || !b {
					if !isB {
						good = false
					}
					continue
				}
				nTrue++
				fw := false
				for _, g := range guardsOfInstr(r) {
					if v, truth := g.asBool(); truth {
						if k, _ := loadedField(v); strings.HasSuffix(k, ".Args.Forward") {
							fw = true
						}
					}
				}
				if !fw {
					good = false
				}
			}
			c.check(good && nTrue == 1, "ecs-forwarded-flag", ae.Pos(), "addECS reports 'forwarded' only on the path that copied the client's option under args.Forward", "addECS can report that the client's ECS was forwarded on a path that is not gated by the forward option")
		}
	}

}

// isOptPredicate: pc calls a function or closure of the analysed module that takes a record and returns exactly
// `r.Header().Rrtype == dns.TypeOPT` (or a type assertion to *dns.OPT).
func isOptPredicate(pc *ssa.Call) bool {
	var h *ssa.Function
	if sc := pc.Call.StaticCallee(); sc != nil {
		h = sc
	} else if mc, ok := pc.Call.Value.(*ssa.MakeClosure); ok {
		h, _ = mc.Fn.(*ssa.Function)
	}
	if h == nil || len(h.Blocks) == 0 || !inMosdns(h) || len(pc.Call.Args) != 1 {
		return false
	}
	rets := returnsOf(h)
	if len(rets) != 1 || len(rets[0].Results) != 1 {
		return false
	}
	switch x := rets[0].Results[0].(type) {
	case *ssa.BinOp:
		if x.Op != token.EQL {
			return false
		}
		if k, _ := loadedField(x.X); k != "github.com/miekg/dns.RR_Header.Rrtype" {
			return false
		}
		n, ok := constInt(x.Y)
		return ok && n == 41
	case *ssa.Extract:
		if ta, ok := x.Tuple.(*ssa.TypeAssert); ok && x.Index == 1 {
			return strings.HasSuffix(ta.AssertedType.String(), "dns.OPT")
		}
	}
	return false
}
