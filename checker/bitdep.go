package main

import (
	"fmt"
	"go/token"
	"go/types"
	"sort"
	"strings"

	"golang.org/x/tools/go/ssa"
)

// A6: abstract interpretation of integer SSA values as vectors of bits.
//
//	bit kinds: '0', '1', 'w' (wire: exactly bit Idx of input atom Src), 'c' (equals the truth of a
//	condition Src, possibly negated), 'm' (some function of the atoms in Deps)
type abit struct {
	Kind byte
	Src  string
	Idx  int
	Neg  bool
	Deps []string
}

func (b abit) String() string {
	switch b.Kind {
	case '0', '1':
		return string(b.Kind)
	case 'w':
		return fmt.Sprintf("%s[%d]", b.Src, b.Idx)
	case 'c':
		if b.Neg {
			return "!(" + b.Src + ")"
		}
		return "(" + b.Src + ")"
	}
	return "f(" + strings.Join(b.Deps, ",") + ")"
}

func (b abit) deps() []string {
	switch b.Kind {
	case 'w', 'c':
		return []string{b.Src}
	case 'm':
		return b.Deps
	}
	return nil
}

func sameBit(a, b abit) bool {
	return a.String() == b.String()
}

func mixed(bs ...abit) abit {
	set := map[string]bool{}
	for _, b := range bs {
		for _, d := range b.deps() {
			set[d] = true
		}
	}
	var ds []string
	for d := range set {
		ds = append(ds, d)
	}
	sort.Strings(ds)
	if len(ds) == 0 {
		return abit{Kind: 'm', Deps: []string{"?"}}
	}
	return abit{Kind: 'm', Deps: ds}
}

func widthOf(t types.Type) (int, bool) {
	b, ok := t.Underlying().(*types.Basic)
	if !ok {
		return 0, false
	}
	switch b.Kind() {
	case types.Int8:
		return 8, true
	case types.Uint8:
		return 8, false
	case types.Int16:
		return 16, true
	case types.Uint16:
		return 16, false
	case types.Int32:
		return 32, true
	case types.Uint32:
		return 32, false
	case types.Int64, types.Int:
		return 64, true
	case types.Uint64, types.Uint, types.Uintptr:
		return 64, false
	case types.Bool:
		return 1, false
	}
	return 0, false
}

type bitEval struct {
	memo map[ssa.Value][]abit
	// atomOf names an opaque input (returns "" if v is not an atom)
	atomOf func(v ssa.Value) string
	// condName names a branch condition
	condName func(v ssa.Value) string
	depth    int
}

func constBits(n int64, w int) []abit {
	out := make([]abit, w)
	for i := 0; i < w; i++ {
		if i < 64 && (uint64(n)>>uint(i))&1 == 1 {
			out[i] = abit{Kind: '1'}
		} else {
			out[i] = abit{Kind: '0'}
		}
	}
	return out
}

func (e *bitEval) eval(v ssa.Value) []abit {
	if r, ok := e.memo[v]; ok {
		return r
	}
	w, _ := widthOf(v.Type())
	if w == 0 {
		return nil
	}
	// provisional (cycles through phis): opaque
	prov := make([]abit, w)
	for i := range prov {
		prov[i] = abit{Kind: 'm', Deps: []string{"loop"}}
	}
	e.memo[v] = prov
	r := e.eval1(v, w)
	e.memo[v] = r
	return r
}

func (e *bitEval) opaque(v ssa.Value, w int) []abit {
	out := make([]abit, w)
	if a := e.atomOf(v); a != "" {
		for i := range out {
			out[i] = abit{Kind: 'w', Src: a, Idx: i}
		}
		return out
	}
	for i := range out {
		out[i] = abit{Kind: 'm', Deps: []string{"opaque:" + v.Name()}}
	}
	return out
}

func (e *bitEval) eval1(v ssa.Value, w int) []abit {
	if a := e.atomOf(v); a != "" {
		return e.opaque(v, w)
	}
	switch x := v.(type) {
	case *ssa.Const:
		if n, ok := constInt(x); ok {
			return constBits(n, w)
		}
		if b, ok := constBool(x); ok {
			if b {
				return constBits(1, 1)
			}
			return constBits(0, 1)
		}
	case *ssa.Convert:
		sw, signed := widthOf(x.X.Type())
		if sw == 0 {
			return e.opaque(v, w)
		}
		src := e.eval(x.X)
		out := make([]abit, w)
		for i := 0; i < w; i++ {
			switch {
			case i < sw:
				out[i] = src[i]
			case signed:
				out[i] = src[sw-1]
			default:
				out[i] = abit{Kind: '0'}
			}
		}
		return out
	case *ssa.BinOp:
		xs := e.eval(x.X)
		switch x.Op {
		case token.SHR, token.SHL:
			k, ok := constInt(x.Y)
			if !ok || xs == nil {
				return e.allMixed(w, xs, e.eval(x.Y))
			}
			_, signed := widthOf(x.X.Type())
			out := make([]abit, w)
			for i := 0; i < w; i++ {
				var j int
				if x.Op == token.SHR {
					j = i + int(k)
				} else {
					j = i - int(k)
				}
				switch {
				case j >= 0 && j < w:
					out[i] = xs[j]
				case j >= w && signed:
					out[i] = xs[w-1]
				default:
					out[i] = abit{Kind: '0'}
				}
			}
			return out
		case token.AND, token.OR, token.XOR, token.AND_NOT:
			ys := e.eval(x.Y)
			if xs == nil || ys == nil {
				return e.opaque(v, w)
			}
			out := make([]abit, w)
			for i := 0; i < w; i++ {
				a, b := xs[i], ys[i]
				if x.Op == token.AND_NOT {
					switch b.Kind {
					case '0':
						b = abit{Kind: '1'}
					case '1':
						b = abit{Kind: '0'}
					default:
						out[i] = mixed(a, b)
						continue
					}
				}
				op := x.Op
				if op == token.AND_NOT {
					op = token.AND
				}
				out[i] = combine(op, a, b)
			}
			return out
		default:
			return e.allMixed(w, xs, e.eval(x.Y))
		}
	case *ssa.Call:
		// a helper of this repository that computes the value from the caller's own parameters: evaluate
		// its single returned value in place (atoms and conditions are named by type and field, not by variable)
		if callee := x.Call.StaticCallee(); callee != nil && callee.Blocks != nil && callee.Pkg != nil && x.Parent() != nil && callee.Pkg == x.Parent().Pkg && e.depth < 3 {
			rets := returnsOf(callee)
			argsAreParams := true
			for _, a := range x.Call.Args {
				if _, ok := a.(*ssa.Parameter); !ok {
					argsAreParams = false
				}
			}
			if len(rets) == 1 && len(rets[0].Results) == 1 && argsAreParams {
				e.depth++
				r := e.eval(rets[0].Results[0])
				e.depth--
				if len(r) == w {
					return r
				}
			}
		}
	case *ssa.Phi:
		edges := make([][]abit, len(x.Edges))
		for i, ed := range x.Edges {
			edges[i] = e.eval(ed)
			if edges[i] == nil {
				return e.opaque(v, w)
			}
		}
		out := make([]abit, w)
		for i := 0; i < w; i++ {
			same := true
			for j := 1; j < len(edges); j++ {
				if !sameBit(edges[j][i], edges[0][i]) {
					same = false
				}
			}
			if same {
				out[i] = edges[0][i]
				continue
			}
			out[i] = e.phiBit(x, edges, i)
		}
		return out
	}
	return e.opaque(v, w)
}

func (e *bitEval) allMixed(w int, parts ...[]abit) []abit {
	var all []abit
	for _, p := range parts {
		all = append(all, p...)
	}
	m := mixed(all...)
	out := make([]abit, w)
	for i := range out {
		out[i] = m
	}
	return out
}

func combine(op token.Token, a, b abit) abit {
	if a.Kind == '0' || a.Kind == '1' {
		a, b = b, a
	}
	switch op {
	case token.AND:
		if b.Kind == '0' {
			return abit{Kind: '0'}
		}
		if b.Kind == '1' {
			return a
		}
	case token.OR:
		if b.Kind == '1' {
			return abit{Kind: '1'}
		}
		if b.Kind == '0' {
			return a
		}
	case token.XOR:
		if b.Kind == '0' {
			return a
		}
		if b.Kind == '1' {
			switch a.Kind {
			case '0':
				return abit{Kind: '1'}
			case '1':
				return abit{Kind: '0'}
			case 'c':
				a.Neg = !a.Neg
				return a
			}
		}
	}
	if sameBit(a, b) && (op == token.AND || op == token.OR) {
		return a
	}
	return mixed(a, b)
}

// phiBit: the bit differs between incoming edges. If on all edges it is the constant 0 or 1, the bit
// equals "control came through one of the 1-edges"; when exactly one edge carries the minority value,
// that is the conjunction of the branch conditions guarding that predecessor beyond the conditions
// guarding the phi's block.
func (e *bitEval) phiBit(phi *ssa.Phi, edges [][]abit, i int) abit {
	var ones, zeros []int
	var others []abit
	for j := range edges {
		switch edges[j][i].Kind {
		case '1':
			ones = append(ones, j)
		case '0':
			zeros = append(zeros, j)
		default:
			others = append(others, edges[j][i])
		}
	}
	blk := phi.Block()
	if len(others) == 0 && (len(ones) == 1 || len(zeros) == 1) {
		minority, neg := ones, false
		if len(ones) != 1 {
			minority, neg = zeros, true
		}
		pred := blk.Preds[minority[0]]
		base := map[string]bool{}
		for _, g := range guardsOf(blk) {
			base[guardKey(g)] = true
		}
		var names []string
		okAll := true
		for _, g := range guardsOf(pred) {
			if base[guardKey(g)] {
				continue
			}
			n := e.condName(g.Cond)
			if n == "" {
				okAll = false
				break
			}
			if !g.Truth {
				n = "!" + n
			}
			names = append(names, n)
		}
		if pred == blk.Idom() {
			// the minority edge comes straight from the dominating branch: condition is the
			// negation of the other arm; only handle the simple two-edge if/else-less shape
			okAll = false
		}
		if okAll && len(names) > 0 {
			sort.Strings(names)
			return abit{Kind: 'c', Src: strings.Join(names, " && "), Neg: neg}
		}
	}
	// generic: depends on everything involved plus the controlling conditions
	var all []abit
	for j := range edges {
		all = append(all, edges[j][i])
	}
	for _, p := range blk.Preds {
		for _, g := range guardsOf(p) {
			if n := e.condName(g.Cond); n != "" {
				all = append(all, abit{Kind: 'c', Src: n})
			} else {
				all = append(all, abit{Kind: 'm', Deps: []string{"cond?"}})
			}
		}
	}
	return mixed(all...)
}

func guardKey(g guard) string {
	return fmt.Sprintf("%p/%v", g.If, g.Truth)
}
