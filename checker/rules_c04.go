package main

import (
	"fmt"
	"go/token"
	"go/types"
	"strings"

	"golang.org/x/tools/go/ssa"
)

const relCachePlugin = "plugin/executable/cache"
const relCachePkg = "pkg/cache"

func init() {
	register(&propDef{
		ID: "C04",
		Explanation: "Decides that the cache key function is injective in the question: by a bit-level dependency analysis of the key builder, " +
			"every one of the 35 input bits (AD, CD, DO, 16 type bits, 16 class bits) is the sole dependency of at least one bit of a fixed-width header " +
			"written into a freshly made, never pooled buffer, and the complete question name is copied verbatim after the header (R1); the key is non-empty " +
			"only for QR=0, opcode QUERY, exactly one question (R2); lookup and store use the same key value and the backend maps are keyed by the key itself (R3).",
		Assumptions: []string{"miekg/dns field semantics (Msg.IsEdns0, OPT.Do)", "Go map key equality on strings"},
		Run:         runC04,
	})
}

// keyBuilder finds the function of the cache plugin that builds the message key: the function whose
// result flows into the key argument of both the lookup and the store.
func runC04(c *Ctx) {
	c.rule("R1", "key layout: fixed header in which every input bit owns a bit, then the whole name, in a fresh private buffer", 37)
	f, keyRet := checkCacheKeyLayout(c)
	if f == nil || keyRet == nil {
		return
	}
	runC04rest(c, f, keyRet)
}

// checkCacheKeyLayout (C04-R1, C03-R8): bit-level injectivity of the cache key in the question.
func checkCacheKeyLayout(c *Ctx) (*ssa.Function, *ssa.Return) {
	f := c.fn(relCachePlugin, "", "getMsgKey")
	if f == nil {
		return nil, nil
	}
	return f, checkCacheKeyLayoutIn(c, f)
}

func checkCacheKeyLayoutIn(c *Ctx, f *ssa.Function) (result *ssa.Return) {
	p := c.P
	_ = p
	// --- the returned non-empty key: conversion of a freshly made []byte
	var keyRet *ssa.Return
	var buf *ssa.MakeSlice
	for _, r := range returnsOf(f) {
		v := returnedValues(r)[0]
		if s, ok := constString(v); ok && s == "" {
			continue
		}
		if keyRet != nil {
			c.undecided("getMsgKey:return", instrPos(r), "more than one non-empty return; layout analysis handles a single key construction")
			return
		}
		keyRet = r
		var src ssa.Value
		switch x := v.(type) {
		case *ssa.Call:
			n := callName(x)
			if n == "pkg/utils.BytesToStringUnsafe" && len(x.Call.Args) == 1 {
				src = x.Call.Args[0]
			}
		case *ssa.Convert:
			src = x.X
		}
		if src == nil {
			c.undecided("getMsgKey:return", instrPos(r), "returned key %s is not a string conversion of a byte buffer", exprStr(v))
			return
		}
		mk, ok := src.(*ssa.MakeSlice)
		if !ok {
			c.fail("getMsgKey:buffer", valuePos(src), "the key buffer %s is not a freshly made slice of header + len(name) bytes: a shared or pooled buffer can be rewritten while the key string, which may alias it, is in use, and a buffer of fixed size cuts long names (the presentation form of a 255-octet name can take about 1000 characters), so that different names share a key", exprStr(src))
			return
		}
		buf = mk
	}
	if keyRet == nil || buf == nil {
		c.undecided("getMsgKey:return", f.Pos(), "no non-empty key return found")
		return
	}
	// the buffer must not be handed to the pool or stored elsewhere
	escaped := false
	for _, r := range referrers(buf) {
		switch x := r.(type) {
		case *ssa.IndexAddr, *ssa.Slice:
		case *ssa.Call:
			n := callName(x)
			if n != "pkg/utils.BytesToStringUnsafe" && n != "builtin:copy" && n != "builtin:len" {
				escaped = true
			}
		case *ssa.Convert:
		default:
			escaped = true
		}
	}
	c.check(!escaped, "getMsgKey:buffer", valuePos(buf), "key buffer is fresh and private", "key buffer escapes (stored, pooled or passed on) although the returned key may alias it")

	// --- length = H + len(name)
	H := int64(-1)
	var nameLoadKey string
	if bo, ok := buf.Len.(*ssa.BinOp); ok && bo.Op == token.ADD {
		x, y := bo.X, bo.Y
		if _, isC := constInt(y); isC {
			x, y = y, x
		}
		if n, isC := constInt(x); isC {
			if ln, ok := y.(*ssa.Call); ok && callName(ln) == "builtin:len" {
				if k, ok := loadedField(ln.Call.Args[0]); ok && strings.HasSuffix(k, ".Name") {
					H = n
					nameLoadKey = exprStr(ln.Call.Args[0])
				}
			}
		}
	}
	if H < 0 {
		c.undecided("getMsgKey:length", valuePos(buf), "buffer length %s is not <const> + len(question name)", exprStr(buf.Len))
		return
	}
	c.ok("getMsgKey:length", valuePos(buf), "buffer length = %d + len(%s)", H, nameLoadKey)

	// --- header stores at constant offsets, name copied at H
	ev := &bitEval{memo: map[ssa.Value][]abit{}}
	ev.atomOf = func(v ssa.Value) string {
		if _, ok := v.(*ssa.UnOp); ok {
			if k, ok := loadedField(v); ok {
				if w, _ := widthOf(v.Type()); w > 1 {
					return k
				}
			}
		}
		return ""
	}
	ev.condName = func(v ssa.Value) string { return exprStr(v) }
	header := map[int64][]abit{}
	nameCopied := false
	for _, r := range referrers(buf) {
		switch x := r.(type) {
		case *ssa.IndexAddr:
			idx, isC := constInt(x.Index)
			for _, r2 := range referrers(x) {
				st, ok := r2.(*ssa.Store)
				if !ok || st.Addr != ssa.Value(x) {
					continue
				}
				if !isC {
					c.undecided("getMsgKey:header", instrPos(st), "store at a non-constant offset into the key buffer")
					return
				}
				if _, dup := header[idx]; dup {
					c.undecided("getMsgKey:header", instrPos(st), "offset %d is stored more than once", idx)
					return
				}
				if !instrDominates(st, keyRet) {
					c.fail("getMsgKey:header", instrPos(st), "store to key byte %d does not happen on every path to the return", idx)
				}
				header[idx] = ev.eval(st.Val)
			}
		case *ssa.Slice:
			lo, isC := int64(0), true
			if x.Low != nil {
				lo, isC = constInt(x.Low)
			}
			for _, r2 := range referrers(x) {
				cp, ok := r2.(*ssa.Call)
				if ok && isC && (x.High == nil || constIntIs(x.High, func(h int64) bool { return h >= lo+2 })) {
					// binary.BigEndian/LittleEndian.PutUint16(buf[lo:], v): two header bytes at once
					if n := callName(cp); (n == "(encoding/binary.bigEndian).PutUint16" || n == "(encoding/binary.littleEndian).PutUint16") && len(cp.Call.Args) == 3 && cp.Call.Args[1] == ssa.Value(x) {
						bits := ev.eval(cp.Call.Args[2])
						_, d1 := header[lo]
						_, d2 := header[lo+1]
						if len(bits) == 16 && !d1 && !d2 {
							if !instrDominates(cp, keyRet) {
								c.fail("getMsgKey:header", instrPos(cp), "store to key bytes %d..%d does not happen on every path to the return", lo, lo+1)
							}
							hiB, loB := bits[8:16], bits[0:8]
							if strings.Contains(n, "little") {
								hiB, loB = loB, hiB
							}
							header[lo], header[lo+1] = hiB, loB
							continue
						}
					}
				}
				if !ok || callName(cp) != "builtin:copy" || cp.Call.Args[0] != ssa.Value(x) {
					// any other use of a sub-slice of the key buffer (element stores through the alias, further
					// slicing, ranging) can rewrite key bytes after they were laid out
					switch y := r2.(type) {
					case *ssa.DebugRef:
					case *ssa.Call:
						if n := callName(y); n != "pkg/utils.BytesToStringUnsafe" && n != "builtin:len" && n != "builtin:copy" {
							c.fail("getMsgKey:name", instrPos(y), "a sub-slice of the key buffer is passed to %s", n)
						}
					case *ssa.Convert:
					default:
						c.fail("getMsgKey:name", instrPos(r2), "the key bytes are accessed again through a sub-slice of the buffer (%s): bytes of the name can be rewritten after the verbatim copy (e.g. case folding), so names that differ share a key", strings.TrimSpace(r2.String()))
					}
					continue
				}
				srcStr := exprStr(cp.Call.Args[1])
				if isC && lo == H && x.High == nil && srcStr == nameLoadKey && instrDominates(cp, keyRet) {
					nameCopied = true
				} else {
					c.fail("getMsgKey:name", instrPos(cp), "copy into key[%v:] takes %s; the key must end with the verbatim question name (%s) at offset %d", exprStr(x.Low), srcStr, nameLoadKey, H)
				}
			}
		}
	}
	c.check(nameCopied, "getMsgKey:name", valuePos(buf), "whole question name copied verbatim at the end of the key",
		"the question name is not copied verbatim to the end of the key: names that differ share a key or the reply echoes another spelling")
	for i := int64(0); i < H; i++ {
		if _, ok := header[i]; !ok {
			c.fail("getMsgKey:header", valuePos(buf), "header byte %d is never written", i)
		}
	}
	// --- every required input bit is the sole dependency of some header bit
	type need struct{ name, atom string }
	var needs []need
	for i := 0; i < 16; i++ {
		needs = append(needs, need{fmt.Sprintf("Qtype[%d]", i), fmt.Sprintf("github.com/miekg/dns.Question.Qtype[%d]", i)})
	}
	for i := 0; i < 16; i++ {
		needs = append(needs, need{fmt.Sprintf("Qclass[%d]", i), fmt.Sprintf("github.com/miekg/dns.Question.Qclass[%d]", i)})
	}
	have := map[string]string{}
	for off, bits := range header {
		for bi, b := range bits {
			have[b.String()] = fmt.Sprintf("key[%d] bit %d", off, bi)
		}
	}
	for _, n := range needs {
		where, ok := have[n.atom]
		key := "getMsgKey:bit:" + n.name
		if ok {
			c.ok(key, valuePos(buf), "%s is wired to %s", n.name, where)
		} else {
			c.fail(key, valuePos(buf), "no key bit is determined by %s alone: two questions differing only in that bit share a cache entry", n.name)
		}
	}
	flagNeeds := []struct {
		name string
		test func(cond string) bool
	}{
		{"AD", func(s string) bool { return strings.HasSuffix(s, ".AuthenticatedData") && !strings.Contains(s, "&&") }},
		{"CD", func(s string) bool { return strings.HasSuffix(s, ".CheckingDisabled") && !strings.Contains(s, "&&") }},
		{"DO", func(s string) bool {
			parts := strings.Split(s, " && ")
			if len(parts) != 2 {
				return false
			}
			j := strings.Join(parts, "|")
			return strings.Contains(j, "(*github.com/miekg/dns.Msg).IsEdns0(") && strings.Contains(j, "!= nil") && strings.Contains(j, "(*github.com/miekg/dns.OPT).Do(")
		}},
	}
	for _, fn := range flagNeeds {
		found := ""
		for _, bits := range header {
			for _, b := range bits {
				if b.Kind == 'c' && fn.test(b.Src) {
					found = b.String()
				}
			}
		}
		key := "getMsgKey:bit:" + fn.name
		if found != "" {
			c.ok(key, valuePos(buf), "%s flag owns a key bit: %s", fn.name, found)
		} else {
			c.fail(key, valuePos(buf), "no key bit equals the %s flag alone: queries differing only in %s share a cache entry", fn.name, fn.name)
		}
	}

	return keyRet
}

func runC04rest(c *Ctx, f *ssa.Function, keyRet *ssa.Return) {
	p := c.P
	// ---------------------------------------------------------------- R2
	c.rule("R2", "a non-empty key is produced only for QR=0, opcode QUERY, exactly one question (guard in the key builder or at all its call sites)", 3)
	gs := guardsOfInstr(keyRet)
	// guards common to all call sites
	var siteGuards [][]guard
	for _, g := range p.funcsIn(relCachePlugin) {
		eachInstr(g, func(in ssa.Instruction) {
			if ci, ok := in.(*ssa.Call); ok && staticCallee(ci) == f {
				siteGuards = append(siteGuards, guardsOfInstr(in))
			}
		})
	}
	holds := func(test func(g guard) bool) bool {
		for _, g := range gs {
			if test(g) {
				return true
			}
		}
		if len(siteGuards) == 0 {
			return false
		}
		for _, sg := range siteGuards {
			any := false
			for _, g := range sg {
				if test(g) {
					any = true
				}
			}
			if !any {
				return false
			}
		}
		return true
	}
	c.check(holds(func(g guard) bool {
		v, truth := g.asBool()
		k, ok := loadedField(v)
		return ok && strings.HasSuffix(k, "dns.MsgHdr.Response") && !truth
	}), "getMsgKey:guard:QR", instrPos(keyRet), "key only for QR=0", "responses (QR=1) are not excluded from caching")
	c.check(holds(func(g guard) bool {
		cm, ok := g.asCmp()
		if !ok {
			return false
		}
		k, isF := loadedField(cm.X)
		n, isC := constInt(cm.Y)
		return isF && strings.HasSuffix(k, "dns.MsgHdr.Opcode") && isC && n == 0 && cm.Op == token.EQL
	}), "getMsgKey:guard:Opcode", instrPos(keyRet), "key only for opcode QUERY", "messages with opcode != QUERY are not excluded although the opcode is not part of the key")
	c.check(holds(func(g guard) bool {
		cm, ok := g.asCmp()
		if !ok {
			return false
		}
		ln, isCall := cm.X.(*ssa.Call)
		n, isC := constInt(cm.Y)
		if !isCall || callName(ln) != "builtin:len" || !isC || n != 1 || cm.Op != token.EQL {
			return false
		}
		k, isF := loadedField(ln.Call.Args[0])
		return isF && strings.HasSuffix(k, "dns.Msg.Question")
	}), "getMsgKey:guard:Question", instrPos(keyRet), "key only for exactly one question", "the question count is not checked before Question[0] is used as the key")

	// the empty key (uncacheable message) never reaches the backend: every lookup / store / refresh call that takes
	// the key is dominated by `len(key) != 0` (or sits behind the early return for the empty key)
	{
		get0 := c.fn(relCachePlugin, "", "getRespFromCache")
		save0 := c.fn(relCachePlugin, "", "saveRespToCache")
		for _, g := range p.funcsIn(relCachePlugin) {
			if g.Parent() != nil {
				continue // closures inherit the guard of the function that created them
			}
			gg := g
			eachInstr(g, func(in ssa.Instruction) {
				ci, ok := in.(*ssa.Call)
				if !ok {
					return
				}
				sc := staticCallee(ci)
				if sc == nil || (sc != get0 && sc != save0) {
					return
				}
				keyV := ci.Call.Args[0]
				if _, isParam := keyV.(*ssa.Parameter); isParam {
					return // the key is handed down; its guard is at the caller
				}
				nonEmpty := false
				for _, gd := range guardsOfInstr(in) {
					cm, ok := gd.asCmp()
					if !ok {
						continue
					}
					ln, isCall := cm.X.(*ssa.Call)
					n, isC := constInt(cm.Y)
					if isCall && callName(ln) == "builtin:len" && ln.Call.Args[0] == keyV && isC && n == 0 && (cm.Op == token.NEQ || cm.Op == token.GTR) {
						nonEmpty = true
					}
				}
				c.check(nonEmpty, "empty-key-bypass@"+funcName(gg)+"->"+sc.Name(), instrPos(in), "the cache is consulted only with a non-empty key",
					"the cache is consulted with a possibly empty key: all uncacheable messages (other opcode, several questions, QR=1) share the entry \"\" and are answered with each other's replies")
			})
		}
	}

	// ---------------------------------------------------------------- R4
	c.rule("R4", "the refresh that is stored under a key resolves that key's question: it runs on a context copy taken before the live context moves on", 1)
	checkRefreshOnEarlyCopy(c)

	// ---------------------------------------------------------------- R3
	c.rule("R5", "the DNSSEC-relevant flags in the key are the client's: the DO bit the key builder sees is the one the client sent", 1)
	checkClientDoInKey(c)

	c.rule("R3", "lookup and every store of one Exec use the same key value; backend maps are keyed by the key itself", 3)
	get := c.fn(relCachePlugin, "", "getRespFromCache")
	save := c.fn(relCachePlugin, "", "saveRespToCache")
	if get == nil || save == nil {
		return
	}
	tr := p.newTracer()
	tr.throughParams = true
	tr.throughFields = false
	tr.stop = func(v ssa.Value) bool {
		if _, isSlice := v.(*ssa.Slice); isSlice {
			return true // a part of the key is not the key
		}
		cl, ok := v.(*ssa.Call)
		return ok && staticCallee(cl) == f
	}
	keyCalls := map[*ssa.Call]bool{}
	defer func() {
		// all lookups and stores must use the key of ONE getMsgKey call, computed from the query itself
		c.cur = c.Prop + "-R3"
		if len(keyCalls) != 1 {
			var ps []string
			for k := range keyCalls {
				ps = append(ps, p.pos(k.Pos()))
			}
			c.fail("key-source", f.Pos(), "lookups and stores use keys from %d different getMsgKey calls (%s): an answer can be stored under another key than the one it was looked up with", len(keyCalls), strings.Join(ps, ", "))
			return
		}
		for k := range keyCalls {
			arg := k.Call.Args[0]
			cl, ok := arg.(*ssa.Call)
			if ok && callName(cl) == "(*pkg/query_context.Context).Q" {
				c.ok("key-source", k.Pos(), "the single key is computed from qCtx.Q()")
			} else {
				c.fail("key-source", k.Pos(), "the key is computed from %s, not from the query qCtx.Q()", exprStr(arg))
			}
		}
	}()
	for _, g := range p.funcsIn(relCachePlugin) {
		eachInstr(g, func(in ssa.Instruction) {
			ci, ok := in.(*ssa.Call)
			if !ok {
				return
			}
			sc := staticCallee(ci)
			if sc != get && sc != save {
				return
			}
			key := "key-arg@" + funcName(g) + "->" + sc.Name()
			roots := tr.origins(ci.Call.Args[0])
			okAll := len(roots) > 0
			var why []string
			for _, r := range roots {
				cl, isCall := r.(*ssa.Call)
				if !isCall || staticCallee(cl) != f {
					okAll = false
					why = append(why, exprStr(r))
				}
			}
			if okAll {
				for _, r := range roots {
					keyCalls[r.(*ssa.Call)] = true
				}
				c.ok(key, instrPos(in), "key argument originates only from getMsgKey of this query")
			} else {
				c.fail(key, instrPos(in), "key argument has another origin than getMsgKey: %s", strings.Join(why, "; "))
			}
		})
	}
	// in getRespFromCache / saveRespToCache the key reaches backend.Get / backend.Store unchanged (conversion only)
	for _, pair := range []struct {
		fn   *ssa.Function
		meth string
	}{{get, "Get"}, {save, "Store"}} {
		found := false
		allParam := true
		eachInstr(pair.fn, func(in ssa.Instruction) {
			ci, ok := in.(*ssa.Call)
			if !ok || !strings.HasSuffix(callName(ci), "pkg/cache.Cache).Get") && !strings.HasSuffix(callName(ci), "pkg/cache.Cache).Store") {
				return
			}
			defer func() {
				a := ci.Call.Args[1]
				for {
					if cv, ok := a.(*ssa.ChangeType); ok {
						a = cv.X
						continue
					}
					if cv, ok := a.(*ssa.Convert); ok {
						a = cv.X
						continue
					}
					break
				}
				if a != ssa.Value(pair.fn.Params[0]) {
					allParam = false
				}
			}()
			if !strings.HasSuffix(callName(ci), ")."+pair.meth) {
				return
			}
			arg := ci.Call.Args[1]
			for {
				if cv, ok := arg.(*ssa.ChangeType); ok {
					arg = cv.X
					continue
				}
				if cv, ok := arg.(*ssa.Convert); ok {
					arg = cv.X
					continue
				}
				break
			}
			if arg == ssa.Value(pair.fn.Params[0]) {
				found = true
			}
		})
		c.check(found && allParam, "backend-key@"+pair.fn.Name(), pair.fn.Pos(), "every backend access uses the msgKey parameter itself (type conversion only)",
			"the backend is addressed with something other than the msgKey parameter itself (e.g. a second lookup under a derived key): an answer stored for another question can be served")
	}
	// the dump loader stores under the dumped key verbatim (and rebuilds the entry from the dumped fields)
	if rd := c.fn(relCachePlugin, "Cache", "readDump"); rd != nil {
		checkDumpReaderFields(c, rd)
	}
	// ... and the dump writer pairs each key with that entry's own answer
	checkDumpWriterPairing(c)
	// ... and Exec / the lazy refresh store a response only under the key of the question it answers
	checkStoreAnswersQuestion(c)
	// shard maps are Go maps keyed by K: Lookup/MapUpdate use the key parameter itself
	for _, name := range []string{"get", "set"} {
		sf := p.Func("pkg/concurrent_map", "shard", name)
		if sf == nil {
			c.anchorMissing("pkg/concurrent_map.shard." + name)
			continue
		}
		c.see(sf)
		okKey := false
		eachInstr(sf, func(in ssa.Instruction) {
			switch x := in.(type) {
			case *ssa.Lookup:
				if x.Index == ssa.Value(sf.Params[1]) {
					okKey = true
				}
			case *ssa.MapUpdate:
				if x.Key == ssa.Value(sf.Params[1]) {
					okKey = true
				}
			}
		})
		_ = types.Typ
		c.check(okKey, "shard-key@"+name, sf.Pos(), "shard map is indexed by the full key", "shard map is not indexed by the key parameter (hash-only addressing would merge colliding keys)")
	}
}

func constIntIs(v ssa.Value, pred func(int64) bool) bool {
	n, ok := constInt(v)
	return ok && pred(n)
}
