package main

import (
	"sort"
	"strings"

	"golang.org/x/tools/go/ssa"
)

// Lock identity is (struct type, mutex field) — e.g. "pkg/upstream/transport.TraditionalDnsConn.queueMu".
// Instances of one type are not distinguished (stated in DESIGN §10).

type lockMode int

const (
	lockNone lockMode = 0
	lockR    lockMode = 1
	lockW    lockMode = 2
)

type lockset map[string]lockMode

func (l lockset) clone() lockset {
	o := lockset{}
	for k, v := range l {
		o[k] = v
	}
	return o
}

func (l lockset) String() string {
	var ks []string
	for k, v := range l {
		m := "R"
		if v == lockW {
			m = "W"
		}
		ks = append(ks, k+":"+m)
	}
	sort.Strings(ks)
	return "{" + strings.Join(ks, ",") + "}"
}

func meet(a, b lockset) lockset {
	o := lockset{}
	for k, v := range a {
		if w, ok := b[k]; ok {
			if w < v {
				v = w
			}
			if v != lockNone {
				o[k] = v
			}
		}
	}
	return o
}

func equalLS(a, b lockset) bool {
	if len(a) != len(b) {
		return false
	}
	for k, v := range a {
		if b[k] != v {
			return false
		}
	}
	return true
}

// lockOp classifies a call as a mutex operation and returns the lock key.
func lockOp(ci ssa.CallInstruction) (key string, op string, ok bool) {
	n := callName(ci)
	switch n {
	case "(*sync.Mutex).Lock", "(*sync.RWMutex).Lock":
		op = "lock"
	case "(*sync.Mutex).Unlock", "(*sync.RWMutex).Unlock":
		op = "unlock"
	case "(*sync.RWMutex).RLock":
		op = "rlock"
	case "(*sync.RWMutex).RUnlock":
		op = "runlock"
	case "(*sync.Mutex).TryLock", "(*sync.RWMutex).TryLock", "(*sync.RWMutex).TryRLock":
		return "", "", false
	default:
		return "", "", false
	}
	args := ci.Common().Args
	if len(args) == 0 {
		return "", "", false
	}
	recv := args[0]
	if k, isField := fieldKey(recv); isField {
		return k, op, true
	}
	// a mutex that is a plain variable (global or local): key by name
	switch r := recv.(type) {
	case *ssa.Global:
		return "global:" + shortName(r.Pkg.Pkg.Path()) + "." + r.Name(), op, true
	case *ssa.Alloc:
		return "local:" + r.Comment, op, true
	}
	return "?", op, true
}

// lockFacts holds, per instruction, the locks that are certainly held just before it executes.
type lockFacts struct {
	p     *Prog
	entry map[*ssa.Function]lockset
	at    map[ssa.Instruction]lockset
	done  map[*ssa.Function]bool
}

func (p *Prog) newLockFacts() *lockFacts {
	return &lockFacts{p: p, entry: map[*ssa.Function]lockset{}, at: map[ssa.Instruction]lockset{}, done: map[*ssa.Function]bool{}}
}

func transfer(in ssa.Instruction, ls lockset) lockset {
	ci, ok := in.(*ssa.Call)
	if !ok {
		return ls
	}
	k, op, ok := lockOp(ci)
	if !ok {
		return ls
	}
	o := ls.clone()
	switch op {
	case "lock":
		o[k] = lockW
	case "rlock":
		if o[k] < lockR {
			o[k] = lockR
		}
	case "unlock":
		delete(o, k)
	case "runlock":
		if o[k] == lockR {
			delete(o, k)
		}
	}
	return o
}

// analyse computes held-lock facts for f with the given entry lockset.
func (lf *lockFacts) analyse(f *ssa.Function, entry lockset) {
	if f == nil || f.Blocks == nil {
		return
	}
	lf.entry[f] = entry
	in := map[*ssa.BasicBlock]lockset{}
	out := map[*ssa.BasicBlock]lockset{}
	hasIn := map[*ssa.BasicBlock]bool{}
	in[f.Blocks[0]] = entry
	hasIn[f.Blocks[0]] = true
	work := []*ssa.BasicBlock{f.Blocks[0]}
	for _, b := range f.Blocks {
		if b.Comment == "recover" {
			in[b] = lockset{}
			hasIn[b] = true
			work = append(work, b)
		}
	}
	for len(work) > 0 {
		b := work[0]
		work = work[1:]
		ls := in[b]
		for _, ins := range b.Instrs {
			ls = transfer(ins, ls)
		}
		if o, ok := out[b]; ok && equalLS(o, ls) {
			continue
		}
		out[b] = ls
		for _, s := range b.Succs {
			var n lockset
			if hasIn[s] {
				n = meet(in[s], ls)
				if equalLS(n, in[s]) && out[s] != nil {
					continue
				}
			} else {
				n = ls.clone()
				hasIn[s] = true
			}
			in[s] = n
			work = append(work, s)
		}
	}
	for _, b := range f.Blocks {
		ls, ok := in[b]
		if !ok {
			ls = lockset{}
		}
		for _, ins := range b.Instrs {
			lf.at[ins] = ls
			ls = transfer(ins, ls)
		}
	}
	lf.done[f] = true
	// closures invoked synchronously at a known point inherit the lockset there
	for _, b := range f.Blocks {
		for _, ins := range b.Instrs {
			ci, ok := ins.(*ssa.Call)
			if !ok {
				continue
			}
			n := callName(ci)
			held := lf.at[ins]
			if n == "(*sync.Once).Do" && len(ci.Call.Args) == 2 {
				if mc, ok := ci.Call.Args[1].(*ssa.MakeClosure); ok {
					if cf, ok := mc.Fn.(*ssa.Function); ok {
						lf.analyse(cf, held.clone())
					}
				}
			}
			if strings.HasPrefix(n, "closure:") {
				if cf := staticCallee(ci); cf != nil {
					lf.analyse(cf, held.clone())
				}
			}
		}
	}
	for _, a := range f.AnonFuncs {
		if !lf.done[a] {
			lf.analyse(a, lockset{})
		}
	}
}

// analyseWithCallers analyses the given functions; a non-exported function or method that is only
// called statically from within `scope` gets as entry lockset the meet over its call sites.
func (lf *lockFacts) analyseScope(scope []*ssa.Function) {
	top := map[*ssa.Function]bool{}
	inScope := map[*ssa.Function]bool{}
	for _, f := range scope {
		if f.Parent() == nil {
			top[f] = true
		}
		inScope[f] = true
	}
	// address-taken or go/defer'd functions cannot inherit
	escaped := map[*ssa.Function]bool{}
	calls := map[*ssa.Function][]ssa.Instruction{}
	for _, f := range lf.p.Funcs {
		eachInstr(f, func(in ssa.Instruction) {
			for _, op := range in.Operands(nil) {
				raw, ok := (*op).(*ssa.Function)
				if !ok {
					continue
				}
				fn := raw
				if o := raw.Origin(); o != nil {
					fn = o // a call inside a generic body names an instantiation of the callee
				}
				if top[fn] {
					if ci, isCall := in.(ssa.CallInstruction); isCall && ci.Common().Value == ssa.Value(raw) {
						if _, plain := in.(*ssa.Call); plain {
							calls[fn] = append(calls[fn], in)
						} else {
							escaped[fn] = true // go / defer
						}
					} else {
						escaped[fn] = true
					}
				}
			}
		})
	}
	entry := map[*ssa.Function]lockset{}
	inherit := func(f *ssa.Function) bool {
		if escaped[f] || len(calls[f]) == 0 {
			return false
		}
		if f.Object() != nil && f.Object().Exported() {
			return false
		}
		for _, c := range calls[f] {
			if !inScope[c.Parent()] {
				return false
			}
		}
		return true
	}
	for f := range top {
		entry[f] = lockset{}
	}
	for iter := 0; iter < 6; iter++ {
		lf.at = map[ssa.Instruction]lockset{}
		lf.done = map[*ssa.Function]bool{}
		for _, f := range scope {
			if f.Parent() == nil {
				lf.analyse(f, entry[f])
			}
		}
		changed := false
		for f := range top {
			if !inherit(f) {
				continue
			}
			var m lockset
			for i, c := range calls[f] {
				held := lf.at[c]
				if held == nil {
					held = lockset{}
				}
				if i == 0 {
					m = held.clone()
				} else {
					m = meet(m, held)
				}
			}
			if !equalLS(m, entry[f]) {
				entry[f] = m
				changed = true
			}
		}
		if !changed {
			break
		}
	}
}

func (lf *lockFacts) held(in ssa.Instruction) lockset {
	if l, ok := lf.at[in]; ok {
		return l
	}
	return lockset{}
}
