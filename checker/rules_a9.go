package main

// Obligations added after audit round A9 (D38..D44).  Each one states the invariant the repaired code relies on, not the
// shape of the repair; the reverse of every repair is a stored mutant.

import (
	"fmt"
	"go/token"
	"go/types"
	"strings"

	"golang.org/x/tools/go/ssa"
)

// checkWaitingDeadlineArmed (C07-R7, C02-R14; D5, D38): after the query was written, the waiting-reply deadline is armed
// on every path to the wait, with a constant deadline, behind the waitingResp CAS — and (D38) only for a query that is
// still registered, decided in the critical section in which the reader rewrites the flag: a query whose reply was
// taken during the send must not set the flag (nobody would clear it: the next query inherits the old deadline and a
// healthy connection is closed under it).
func checkWaitingDeadlineArmed(c *Ctx, lf *lockFacts, ex *ssa.Function) {
	T := relTransport + "."
	queueK := T + "TraditionalDnsConn.queue"
	muK := T + "TraditionalDnsConn.queueMu"
	key := "waiting-reply-deadline@exchange"

	// the registration of this exchange
	var add *ssa.Call
	var firstWrite ssa.Instruction
	var waits []ssa.Instruction
	eachInstr(ex, func(y ssa.Instruction) {
		if cl, ok := y.(*ssa.Call); ok {
			if sc := staticCallee(cl); sc != nil {
				if sc.Name() == "addQueueC" && add == nil {
					add = cl
				}
				if sc.Name() == "writeQuery" && firstWrite == nil {
					firstWrite = y
				}
			}
		}
	})
	if add == nil || firstWrite == nil {
		c.anchorMissing(key + ": exchange registers with addQueueC and sends with writeQuery")
		return
	}
	isAddResult := func(v ssa.Value, idx int) bool {
		e, ok := v.(*ssa.Extract)
		return ok && e.Tuple == ssa.Value(add) && e.Index == idx
	}
	// the waits for the reply: blocking selects with a receive from the registered channel
	eachInstr(ex, func(y ssa.Instruction) {
		sel, ok := y.(*ssa.Select)
		if !ok || !sel.Blocking || !instrDominates(firstWrite, y) {
			return
		}
		for _, st := range sel.States {
			if st.Dir == types.RecvOnly && isAddResult(st.Chan, 1) && len(sel.States) > 2 {
				waits = append(waits, y)
			}
		}
	})
	if len(waits) == 0 {
		c.anchorMissing(key + ": blocking wait on the registered reply channel")
		return
	}

	// candidate functions: exchange itself and the methods of the connection it calls after the write
	type site struct {
		fn   *ssa.Function
		in   *ssa.Call
		call *ssa.Call // the call in exchange that leads to fn (nil when fn == ex)
	}
	var sites []site
	collect := func(fn *ssa.Function, via *ssa.Call) {
		eachInstr(fn, func(in ssa.Instruction) {
			ci, ok := in.(*ssa.Call)
			if !ok || !ci.Call.IsInvoke() || ci.Call.Method.Name() != "SetReadDeadline" {
				return
			}
			sites = append(sites, site{fn, ci, via})
		})
	}
	collect(ex, nil)
	eachInstr(ex, func(y ssa.Instruction) {
		cl, ok := y.(*ssa.Call)
		if !ok {
			return
		}
		sc := staticCallee(cl)
		if sc == nil || sc == ex || sc.Signature.Recv() == nil || len(sc.Blocks) == 0 || !strings.Contains(sc.String(), "TraditionalDnsConn") {
			return
		}
		if sc.Name() == "writeQuery" || sc.Name() == "addQueueC" || sc.Name() == "CloseWithErr" {
			return
		}
		collect(sc, cl)
	})
	if len(sites) == 0 {
		c.fail(key, ex.Pos(), "no read deadline is armed after sending a query")
		return
	}
	for _, s := range sites {
		c.see(s.fn)
		desc, okD := deadlineConst(s.in.Call.Args[0])
		var casCall *ssa.Call
		var lookup *ssa.Lookup
		var queuedChan ssa.Value
		extra := ""
		for _, g := range guardsOfInstr(s.in) {
			if s.fn == ex && !instrDominates(firstWrite, g.If) {
				continue // established before the query was written
			}
			v, truth := g.asBool()
			if cl, ok := v.(*ssa.Call); ok && truth && callName(cl) == "(*sync/atomic.Bool).CompareAndSwap" {
				if k, _ := fieldKey(cl.Call.Args[0]); k == T+"TraditionalDnsConn.waitingResp" {
					casCall = cl
					continue
				}
			}
			if cm, ok := g.asCmp(); ok {
				if isNilConst(cm.Y) && cm.X.Type().String() == "error" && cm.Op == token.EQL && s.fn == ex {
					continue
				}
				if cm.Op == token.EQL {
					for _, pr := range [][2]ssa.Value{{cm.X, cm.Y}, {cm.Y, cm.X}} {
						if lk, ok := stripChanConv(pr[0]).(*ssa.Lookup); ok && !lk.CommaOk {
							if k, okk := loadedField(lk.X); okk && k == queueK {
								lookup, queuedChan = lk, stripChanConv(pr[1])
							}
						}
					}
					if lookup != nil {
						continue
					}
				}
			}
			if g.Derived {
				continue
			}
			extra += " [extra condition: " + guardText(g) + "]"
		}
		why := ""
		switch {
		case !okD:
			why = "the deadline is " + desc + " (a constant <= 10 s is required): a silent server blocks the call for the whole idle timeout"
		case casCall == nil:
			why = "the deadline is not armed behind the waitingResp CompareAndSwap(false, true): it is pushed forward by every query, a silent server is never detected while queries keep coming"
		case extra != "":
			why = "the deadline is armed only under" + extra + ": some queries wait with the idle deadline only"
		case lookup == nil:
			why = "the flag is set without testing that the query is still registered: a query whose reply was taken during the send sets the flag with nobody waiting, the flag is never cleared, the next query cannot arm its own deadline and the connection is closed under it by what is left of this one (D38)"
		case lf.held(casCall)[muK] != lockW || lf.held(lookup)[muK] != lockW:
			why = "the still-registered test and the CompareAndSwap are not in the waiter table's critical section (held: " + lf.held(casCall).String() + "): the reader can take the reply and rewrite the flag between them (D38)"
		}
		// the tested entry is this exchange's registration
		if why == "" {
			var keyV, chV ssa.Value = lookup.Index, queuedChan
			if s.fn != ex {
				argOf := func(v ssa.Value) ssa.Value {
					for {
						if cv, ok := v.(*ssa.Convert); ok {
							v = cv.X
							continue
						}
						if cv, ok := v.(*ssa.ChangeType); ok {
							v = cv.X
							continue
						}
						break
					}
					for i, prm := range s.fn.Params {
						if v == ssa.Value(prm) && i < len(s.call.Call.Args) {
							return s.call.Call.Args[i]
						}
					}
					return nil
				}
				keyV, chV = argOf(keyV), argOf(chV)
			} else {
				for {
					if cv, ok := keyV.(*ssa.Convert); ok {
						keyV = cv.X
						continue
					}
					break
				}
			}
			if keyV == nil || chV == nil || !isAddResult(keyV, 0) || !isAddResult(stripChanConv(chV), 1) {
				why = "the still-registered test does not compare this exchange's own registration (id and channel returned by addQueueC)"
			}
		}
		// on every path from the write to the wait
		if why == "" {
			var at ssa.Instruction = lookup // the CAS may be short-circuited by the still-registered test
			if s.fn != ex {
				at = s.call
				for _, g := range guardsOfInstr(s.call) {
					if !instrDominates(firstWrite, g.If) {
						continue
					}
					if cm, ok := g.asCmp(); ok && isNilConst(cm.Y) && cm.X.Type().String() == "error" && cm.Op == token.EQL {
						continue
					}
					why = "the arming call runs only under " + guardText(g)
				}
				// inside the helper the test itself is unconditional
				for _, g := range guardsOfInstr(lookup) {
					why = "inside " + funcName(s.fn) + " the still-registered test runs only under " + guardText(g)
				}
			} else if len(guardsAfter(lookup, firstWrite)) > 0 {
				why = "the still-registered test runs only under " + guardText(guardsAfter(lookup, firstWrite)[0])
			}
			for _, w := range waits {
				if why == "" && !instrDominates(at, w) {
					why = "the arming does not run on every path from the write to the wait"
				}
			}
		}
		c.check(why == "", key, instrPos(s.in), "after the send a constant deadline ("+desc+") is armed once per waiting period, for a query that is still registered, in the table's critical section",
			fmt.Sprintf("the waiting-reply deadline is not armed soundly: %s", why))
	}
}

func guardsAfter(in ssa.Instruction, after ssa.Instruction) []guard {
	var out []guard
	for _, g := range guardsOfInstr(in) {
		if instrDominates(after, g.If) {
			if cm, ok := g.asCmp(); ok && isNilConst(cm.Y) && cm.X.Type().String() == "error" {
				continue
			}
			out = append(out, g)
		}
	}
	return out
}

// stripChanConv removes channel direction conversions (chan T -> <-chan T / chan<- T).
func stripChanConv(v ssa.Value) ssa.Value {
	for {
		switch x := v.(type) {
		case *ssa.ChangeType:
			v = x.X
		case *ssa.MakeInterface:
			v = x.X
		default:
			return v
		}
	}
}

// deadlineConst: v is time.Now().Add(D) with D a positive constant of at most 10 s (or the test override field).
func deadlineConst(v ssa.Value) (string, bool) {
	// time.Now().Add(D)
	cl, ok := v.(*ssa.Call)
	if !ok || callName(cl) != "(time.Time).Add" {
		return exprStr(v), false
	}
	if n, ok := callName2(cl.Call.Args[0]); !ok || n != "time.Now" {
		return exprStr(v), false
	}
	d := cl.Call.Args[1]
	okAll := true
	desc := ""
	for _, lfv := range expandCases(d, nil, 0) {
		if n, ok := constInt(lfv.val); ok {
			if n <= 0 || n > 10*1000000000 {
				okAll = false
			}
			desc += fmt.Sprintf("%ds ", n/1000000000)
			continue
		}
		if k, ok := loadedField(lfv.val); ok && strings.HasSuffix(k, ".testWaitRespTimeout") {
			desc += "test-override "
			continue
		}
		okAll = false
		desc += exprStr(lfv.val) + " "
	}
	return strings.TrimSpace(desc), okAll
}

// readerDoneFields: the channel fields that readLoop closes by a defer in its entry block and nobody else closes.
func readerDoneFields(c *Ctx, rl *ssa.Function) map[string]bool {
	done := map[string]bool{}
	for _, in := range rl.Blocks[0].Instrs {
		d, ok := in.(*ssa.Defer)
		if !ok || callNameCommon(&d.Call) != "builtin:close" || len(d.Call.Args) != 1 {
			continue
		}
		if k, ok := loadedField(d.Call.Args[0]); ok {
			done[k] = true
		}
	}
	for k := range done {
		eachInstrDeep2(c.P.funcsIn(relTransport), func(f *ssa.Function, in ssa.Instruction) {
			if f == rl {
				return
			}
			if ci, ok := in.(ssa.CallInstruction); ok && callNameCommon(ci.Common()) == "builtin:close" && len(ci.Common().Args) == 1 {
				if k2, ok := loadedField(ci.Common().Args[0]); ok && k2 == k {
					delete(done, k)
				}
			}
		})
	}
	return done
}

// checkErrorExitWaitsForReader (D39; C02-R14): once the query was written, an exchange reports an error only after it
// has seen that the reader returned (the reader hands over everything it has read before it returns) or that the
// caller's context ended: no path from a write of the query to an error return avoids a blocking select that watches
// the reader's exit or a context.  (The write-error paths used to close the connection and poll the reply channel once:
// a reply that the reader had read and was about to hand over was dropped.)
func checkErrorExitWaitsForReader(c *Ctx) {
	for _, an := range []struct{ recv string }{{"TraditionalDnsConn"}, {"reusableConn"}} {
		ex := c.fn(relTransport, an.recv, "exchange")
		rl := c.fn(relTransport, an.recv, "readLoop")
		if ex == nil || rl == nil {
			continue
		}
		c.see(ex, rl)
		done := readerDoneFields(c, rl)
		var writes []ssa.Instruction
		eachInstr(ex, func(in ssa.Instruction) {
			ci, ok := in.(*ssa.Call)
			if !ok {
				return
			}
			if sc := staticCallee(ci); sc != nil && sc.Name() == "writeQuery" {
				writes = append(writes, in)
			}
			if ci.Call.IsInvoke() && ci.Call.Method.Name() == "Write" {
				writes = append(writes, in)
			}
		})
		if len(writes) == 0 {
			c.anchorMissing("write of the query in " + funcName(ex))
			continue
		}
		obs := readerExitObservations(ex, done, true)
		watches := func(x ssa.Instruction) bool { return obs[x] }
		bad := ""
		n := 0
		for _, r := range returnsOf(ex) {
			rv := returnedValues(r)
			if len(rv) != 2 || !isNilConst(rv[0]) {
				continue
			}
			for _, w := range writes {
				_, reached := reachAvoiding(w, func(x ssa.Instruction) bool { return x == ssa.Instruction(r) }, watches)
				_, any := reachAvoiding(w, func(x ssa.Instruction) bool { return x == ssa.Instruction(r) }, nil)
				if any {
					n++
				}
				if reached {
					bad = c.P.pos(instrPos(w)) + " -> " + c.P.pos(instrPos(r))
				}
			}
		}
		c.check(bad == "" && n > 0, "error-exit-waits-for-reader@"+funcName(ex), ex.Pos(), "after a write every error exit has seen the reader's exit or the end of a context",
			"an error return is reached from a write of the query without waiting for the reader's exit (or the context) ("+bad+"): when the write fails the connection is closed and the reply channel polled at once — a reply that the reader has already read and is about to hand over is dropped, the exchange reports the write error although the server answered in time")
	}
}

// ---------------------------------------------------------------------------------------------------------------------
// pack sites of the entry handler (D40): the reply is packed at one primary place; a second pack call is accepted only
// as the fallback for a reply that cannot be packed — on the primary's error edge, for a fresh SERVFAIL that goes
// through the same steps (RA, response OPT) on its own.

type packSite struct {
	call    *ssa.Call
	msg     ssa.Value
	payload ssa.Value // Extract #0, may be nil
	err     ssa.Value // Extract #1, may be nil
}

type packSites struct {
	primary   *packSite
	fallbacks []*packSite
	problem   string // non-empty: some pack call is neither the primary nor a fallback, or the packer escapes
}

func handlerPackSites(p *Prog, h *ssa.Function) packSites {
	pk := h.Params[len(h.Params)-1]
	var out packSites
	var all []*packSite
	eachInstrDeep(h, func(f *ssa.Function, in ssa.Instruction) {
		ci, ok := in.(ssa.CallInstruction)
		if !ok {
			return
		}
		if callName(ci) == "dynamic" && isParamValue(p, ci.Common().Value, pk) {
			cl, isCall := in.(*ssa.Call)
			if f != h || !isCall || len(cl.Call.Args) != 1 {
				out.problem = "the pack function is called in " + funcName(f) + " (go/defer/closure)"
				return
			}
			s := &packSite{call: cl, msg: cl.Call.Args[0]}
			for _, r := range referrers(cl) {
				if ex, ok := r.(*ssa.Extract); ok {
					if ex.Index == 0 {
						s.payload = ex
					} else {
						s.err = ex
					}
				}
			}
			all = append(all, s)
			return
		}
		for _, a := range ci.Common().Args {
			if isParamValue(p, a, pk) {
				out.problem = "the pack function is handed to " + callName(ci)
			}
		}
	})
	for _, s := range all {
		dom := true
		for _, o := range all {
			if o != s && !instrDominates(s.call, o.call) {
				dom = false
			}
		}
		if dom {
			out.primary = s
		}
	}
	if out.primary == nil {
		if out.problem == "" {
			out.problem = fmt.Sprintf("%d pack calls, none of which comes first on every path", len(all))
		}
		return out
	}
	for _, s := range all {
		if s == out.primary {
			continue
		}
		onErr := false
		for _, g := range guardsOfInstr(s.call) {
			if cm, ok := g.asCmp(); ok && out.primary.err != nil && cm.X == out.primary.err && isNilConst(cm.Y) && cm.Op == token.NEQ {
				onErr = true
			}
		}
		if !onErr {
			out.problem = "a second pack call at " + p.pos(instrPos(s.call)) + " that is not the fallback of a failed pack"
			continue
		}
		out.fallbacks = append(out.fallbacks, s)
	}
	return out
}

// respOptAppend finds the handler's append of the response OPT to msg.Extra: the store, and the RespOpt() call whose
// != nil test alone (beyond the guards of the call itself) decides it.  why is non-empty when msg.Extra is written in
// another way.
func respOptAppend(h *ssa.Function, msg ssa.Value, at ssa.Instruction) (decision *ssa.Call, store *ssa.Store, nStores int, why string) {
	base := map[string]bool{}
	for _, g := range guardsOfInstr(at) {
		base[guardKey(g)] = true
	}
	eachInstr(h, func(in ssa.Instruction) {
		st, ok := in.(*ssa.Store)
		if !ok {
			return
		}
		k, _ := fieldKey(st.Addr)
		if k != "github.com/miekg/dns.Msg.Extra" && k != "github.com/miekg/dns.Msg.Answer" && k != "github.com/miekg/dns.Msg.Ns" {
			return
		}
		if fieldBase(st.Addr) != msg {
			return
		}
		nStores++
		if k != "github.com/miekg/dns.Msg.Extra" {
			why = "the handler rewrites " + k
			return
		}
		var dec *ssa.Call
		extra := ""
		for _, g := range guardsOfInstr(st) {
			cm, ok := g.asCmp()
			if ok && isNilConst(cm.Y) && cm.Op == token.NEQ {
				if cl, isC := cm.X.(*ssa.Call); isC && strings.HasSuffix(callName(cl), ".Context).RespOpt") {
					dec = cl
					continue
				}
			}
			if base[guardKey(g)] {
				continue // a condition of the whole step (it also guards the pack call)
			}
			if g.Derived {
				continue
			}
			extra = guardText(g)
		}
		if dec == nil {
			why = "Extra is written without a RespOpt() != nil decision"
			return
		}
		if extra != "" {
			why = "the OPT append also depends on " + extra
			return
		}
		// the appended value is that call's result
		appended := false
		for _, r := range referrers(dec) {
			if _, ok := r.(*ssa.MakeInterface); ok {
				appended = true
			}
		}
		if !appended {
			why = "the value appended to Extra is not the response OPT"
			return
		}
		decision, store = dec, st
	})
	if nStores > 0 || why != "" {
		return
	}
	// helper form: `finishReply(msg, qCtx.RespOpt())` — the helper appends its OPT parameter to its message parameter's
	// Extra exactly under `opt != nil`, and writes no other section
	for _, hs := range helperFieldStores(h, msg) {
		if hs.key != "github.com/miekg/dns.Msg.Extra" && hs.key != "github.com/miekg/dns.Msg.Answer" && hs.key != "github.com/miekg/dns.Msg.Ns" {
			continue
		}
		if !instrDominates(hs.call, at) && hs.call.Block() != at.Block() {
			continue
		}
		nStores++
		if hs.key != "github.com/miekg/dns.Msg.Extra" {
			why = "the handler rewrites " + hs.key
			return
		}
		var optPrm *ssa.Parameter
		extra := ""
		for _, g := range guardsOfInstr(hs.st) {
			cm, ok := g.asCmp()
			if ok && isNilConst(cm.Y) && cm.Op == token.NEQ {
				if prm, isP := cm.X.(*ssa.Parameter); isP {
					optPrm = prm
					continue
				}
			}
			if g.Derived {
				continue
			}
			extra = guardText(g)
		}
		if optPrm == nil {
			why = "Extra is written without a RespOpt() != nil decision"
			return
		}
		if extra != "" {
			why = "the OPT append also depends on " + extra
			return
		}
		dec, isCall := hs.actual(optPrm).(*ssa.Call)
		if !isCall || !strings.HasSuffix(callName(dec), ".Context).RespOpt") {
			why = "the value the helper appends is not the response OPT"
			return
		}
		appended := false
		for _, r := range referrers(optPrm) {
			if _, ok := r.(*ssa.MakeInterface); ok {
				appended = true
			}
		}
		if !appended {
			why = "the value appended to Extra is not the response OPT"
			return
		}
		decision, store = dec, hs.st
	}
	return
}

// checkFallbackReply: obligations of one fallback pack site (D40) — the reply for a response that could not be packed
// is a fresh SetReply(query) with SERVFAIL, RA set, and the response OPT appended iff there is one; nothing else is put
// into it (it is header + question + OPT, at most 282 bytes: no truncation needed on any transport).
func checkFallbackReply(c *Ctx, h *ssa.Function, q ssa.Value, s *packSite, what string) {
	key := what + "@" + c.P.pos(instrPos(s.call))
	var al ssa.Value
	setReply, ra := false, false
	rcode := int64(-1)
	if a, ok := s.msg.(*ssa.Alloc); ok {
		al = a
		for _, r := range referrers(a) {
			if cl, ok := r.(*ssa.Call); ok && callName(cl) == "(*github.com/miekg/dns.Msg).SetReply" && cl.Call.Args[0] == ssa.Value(a) && cl.Call.Args[1] == q && instrDominates(cl, s.call) {
				setReply = true
			}
		}
	} else if cl, ok := s.msg.(*ssa.Call); ok {
		// built by a helper (SetReply + rcode)
		if qa, rc, okS := synthReplyCall(cl); okS {
			al, setReply, rcode = cl, qa == q, rc
		}
	}
	if al == nil {
		c.fail(key, instrPos(s.call), "the reply packed after a pack failure is %s, not a fresh message: it can fail to pack the same way, the client gets no reply", exprStr(s.msg))
		return
	}
	eachInstr(h, func(in ssa.Instruction) {
		st, ok := in.(*ssa.Store)
		if !ok || fieldBase(st.Addr) != al || !instrDominates(in, s.call) {
			return
		}
		switch k, _ := fieldKey(st.Addr); k {
		case "github.com/miekg/dns.MsgHdr.Rcode":
			rcode, _ = constInt(st.Val)
		case "github.com/miekg/dns.MsgHdr.RecursionAvailable":
			if b, ok := constBool(st.Val); ok && b {
				ra = true
			}
		}
	})
	for _, hs := range helperFieldStores(h, al) {
		if !instrDominates(hs.call, s.call) || !hs.unconditional() {
			continue
		}
		switch hs.key {
		case "github.com/miekg/dns.MsgHdr.Rcode":
			rcode, _ = constInt(hs.st.Val)
		case "github.com/miekg/dns.MsgHdr.RecursionAvailable":
			if b, ok := constBool(hs.st.Val); ok && b {
				ra = true
			}
		}
	}
	dec, st, nSt, why := respOptAppend(h, al, s.call)
	switch {
	case !setReply:
		why = "it is not built with SetReply(query): the client's id and question are missing"
	case rcode != 2:
		why = fmt.Sprintf("its rcode is %d, not SERVFAIL", rcode)
	case !ra:
		why = "RA is not set on it"
	case why != "":
	case nSt != 1 || dec == nil || st == nil || !instrDominates(dec, s.call):
		why = "the response OPT is not appended to it iff there is one (an EDNS client gets a reply without OPT)"
	}
	c.check(why == "", key, instrPos(s.call), "the fallback for an unpackable response is SetReply(query) + SERVFAIL + RA + response OPT iff present",
		"the reply sent when the response cannot be packed is wrong: "+why)
}

// localCopyOfField: al is a local message variable whose only whole-value store is `*al = *<load of field k>`.
func localCopyOfField(al *ssa.Alloc, k string) bool {
	n, good := 0, false
	for _, r := range referrers(al) {
		st, ok := r.(*ssa.Store)
		if !ok || st.Addr != ssa.Value(al) {
			continue
		}
		n++
		if ld, isLd := st.Val.(*ssa.UnOp); isLd && ld.Op == token.MUL {
			if k2, okk := loadedField(ld.X); okk && k2 == k {
				good = true
			}
		}
	}
	return n == 1 && good
}

// isLenOfEntryMsg: v is len(<CachedEntry>.GetMsg()) or len(<CachedEntry>.Msg).
func isLenOfEntryMsg(v ssa.Value) bool {
	cl, ok := v.(*ssa.Call)
	if !ok || callName(cl) != "builtin:len" {
		return false
	}
	a := cl.Call.Args[0]
	if g, ok := a.(*ssa.Call); ok && strings.HasSuffix(callName(g), ".CachedEntry).GetMsg") {
		return true
	}
	if k, ok := loadedField(a); ok && strings.HasSuffix(k, ".CachedEntry.Msg") {
		return true
	}
	return false
}

// checkDumpMessageBounded (D45; C19): a dump is external input, and unpacking follows compression pointers — a message
// of the size of a block can unpack to hundreds of times its size.  (a) Every Unpack of an entry's message in readDump
// runs only for len(msg) <= K with K <= 65535 (what the network path accepts from an upstream).  (b) So that no live
// entry is lost to that limit, writeDump packs with name compression (Compress = true on the message it packs, set
// before Pack) and skips — with the very same limit — what still does not fit.
func checkDumpMessageBounded(c *Ctx) {
	rd := c.fn(relCachePlugin, "Cache", "readDump")
	wd := c.fn(relCachePlugin, "Cache", "writeDump")
	if rd == nil || wd == nil {
		return
	}
	c.see(rd, wd)
	limit := int64(-1)
	n := 0
	eachInstrDeep(rd, func(f *ssa.Function, in ssa.Instruction) {
		cl, ok := in.(*ssa.Call)
		if !ok || callName(cl) != "(*github.com/miekg/dns.Msg).Unpack" {
			return
		}
		n++
		bound := int64(-1)
		for _, g := range guardsOfInstr(in) {
			cm, ok := g.asCmp()
			if !ok || !isLenOfEntryMsg(cm.X) {
				continue
			}
			k, isC := constInt(cm.Y)
			if !isC {
				continue
			}
			switch cm.Op {
			case token.LEQ:
				bound = k
			case token.LSS:
				bound = k - 1
			}
		}
		if bound > limit {
			limit = bound
		}
		c.check(bound >= 0 && bound <= 65535, "loader-bounds-message@"+funcName(f), instrPos(in), fmt.Sprintf("Unpack runs only for len(msg) <= %d", bound),
			fmt.Sprintf("readDump unpacks an entry's message whatever its size (bound found: %d; at most 65535 required): the only limit is the 4 MiB block, and unpacking follows compression pointers — a crafted dump of a few KB makes the loader allocate and keep gigabytes per entry (D45)", bound))
	})
	if n == 0 {
		c.anchorMissing("Unpack of the entry message in readDump")
	}
	// writer: compressed, and the same limit
	var pack *ssa.Call
	eachInstrDeep(wd, func(f *ssa.Function, in ssa.Instruction) {
		if cl, ok := in.(*ssa.Call); ok && callName(cl) == "(*github.com/miekg/dns.Msg).Pack" {
			pack = cl
		}
	})
	if pack == nil {
		c.anchorMissing("Pack of the cached message in writeDump")
		return
	}
	compressed := false
	eachInstr(pack.Parent(), func(in ssa.Instruction) {
		st, ok := in.(*ssa.Store)
		if !ok || !instrDominates(in, pack) {
			return
		}
		if k, _ := fieldKey(st.Addr); k == "github.com/miekg/dns.Msg.Compress" && fieldBase(st.Addr) == pack.Call.Args[0] {
			if b, isB := constBool(st.Val); isB && b {
				compressed = true
			}
		}
	})
	c.check(compressed, "writer-packs-compressed", instrPos(pack), "the dumped message is packed with name compression",
		"writeDump packs without name compression while readDump refuses messages above 65535 bytes: a large answer (a 64 KiB response can take 2-3 MB uncompressed) is dumped and then dropped on reload, or not dumped at all — the restart loses live entries")
	wlimit := dumpWriterMsgLimit(pack)
	c.check(wlimit >= 0 && wlimit <= limit, "writer-limit-matches-loader", instrPos(pack), fmt.Sprintf("writeDump skips messages above %d bytes, readDump accepts up to %d", wlimit, limit),
		fmt.Sprintf("writeDump emits messages of up to %d bytes (-1: any size) but readDump accepts only %d: entries of an intact dump are dropped on reload without an error", wlimit, limit))
}

// packOnlyLocalCopy: the loaded message value ld (`*stored`) is stored into one local variable whose only other uses
// are setting its own Compress flag and being the receiver of Pack.
func packOnlyLocalCopy(ld *ssa.UnOp) bool {
	var al *ssa.Alloc
	for _, r := range referrers(ld) {
		switch x := r.(type) {
		case *ssa.Store:
			a, ok := x.Addr.(*ssa.Alloc)
			if !ok || x.Val != ssa.Value(ld) || al != nil {
				return false
			}
			al = a
		case *ssa.DebugRef:
		default:
			return false
		}
	}
	if al == nil {
		return false
	}
	for _, r := range referrers(al) {
		switch x := r.(type) {
		case *ssa.Store:
			if x.Addr != ssa.Value(al) {
				return false
			}
		case *ssa.FieldAddr:
			if k, _ := fieldKey(x); k != "github.com/miekg/dns.Msg.Compress" {
				return false
			}
			for _, r2 := range referrers(x) {
				if st, ok := r2.(*ssa.Store); !ok || st.Addr != ssa.Value(x) {
					if _, dbg := r2.(*ssa.DebugRef); !dbg {
						return false
					}
				}
			}
		case *ssa.Call:
			if callName(x) != "(*github.com/miekg/dns.Msg).Pack" || x.Call.Args[0] != ssa.Value(al) {
				return false
			}
		case *ssa.DebugRef:
		default:
			return false
		}
	}
	return true
}

// checkSplitHostIsNameOrIP (D44; C18-R8): what trySplitHostPort hands back as the host is either free of colons and
// brackets or a valid IP address.  A bare IPv6 address followed by a port ("2001:db8::1:5353", dial_addr
// "fd00::2:10853") cannot be split by net.SplitHostPort; taken whole it is neither an address nor a host name, the port
// the user wrote is replaced by the default and the string is dialed / sent to a proxy as a domain name.
// Rule: with the edges "ContainsAny(host, <set with ':'>) is false" and "netip.ParseAddr(host) succeeded" removed from
// the CFG, no success return is reachable from the entry.
func checkSplitHostIsNameOrIP(c *Ctx) {
	f := c.fn(relUpstream, "", "trySplitHostPort")
	if f == nil {
		return
	}
	key := "helper:trySplitHostPort:host-is-name-or-ip"
	type edge struct{ from, to *ssa.BasicBlock }
	bad := ""
	n := 0
	for _, r := range returnsOf(f) {
		rv := returnedValues(r)
		if len(rv) != 3 || !isNilConst(rv[2]) {
			continue
		}
		n++
		host := rv[0]
		removed := map[edge]bool{}
		eachInstr(f, func(in ssa.Instruction) {
			iff, ok := in.(*ssa.If)
			if !ok {
				return
			}
			for _, truth := range []bool{true, false} {
				g := guard{Cond: iff.Cond, Truth: truth, If: iff}
				if v, t := g.asBool(); !t {
					if cl, isC := v.(*ssa.Call); isC && callName(cl) == "strings.ContainsAny" && cl.Call.Args[0] == host {
						if cs, isK := cl.Call.Args[1].(*ssa.Const); isK && cs.Value != nil && strings.Contains(cs.Value.ExactString(), ":") {
							removed[edge{iff.Block(), succOnTruth(iff, truth)}] = true
						}
					}
				}
				if cm, ok := g.asCmp(); ok && cm.Op == token.EQL && isNilConst(cm.Y) {
					if ex, isE := cm.X.(*ssa.Extract); isE {
						if cl, isC := ex.Tuple.(*ssa.Call); isC && callName(cl) == "net/netip.ParseAddr" && cl.Call.Args[0] == host {
							removed[edge{iff.Block(), succOnTruth(iff, truth)}] = true
						}
					}
					// the same test in a helper: err := check(host); err == nil
					if cl, isC := cm.X.(*ssa.Call); isC && len(cl.Call.Args) == 1 && cl.Call.Args[0] == host && isHostValidator(cl.Call.StaticCallee()) {
						removed[edge{iff.Block(), succOnTruth(iff, truth)}] = true
					}
				}
			}
		})
		seen := map[*ssa.BasicBlock]bool{f.Blocks[0]: true}
		work := []*ssa.BasicBlock{f.Blocks[0]}
		for len(work) > 0 {
			b := work[0]
			work = work[1:]
			for _, s := range b.Succs {
				if removed[edge{b, s}] || seen[s] {
					continue
				}
				seen[s] = true
				work = append(work, s)
			}
		}
		if seen[r.Block()] {
			bad = c.P.pos(instrPos(r))
		}
	}
	c.check(bad == "" && n > 0, key, f.Pos(), "every host handed back is colon-free or a valid IP address",
		"trySplitHostPort returns (at "+bad+") a host that may contain colons without being an IP address: a bare IPv6 address followed by a port (tls://2001:db8:0:0:0:0:0:1:5353, dial_addr fd00::2:10853) is accepted, its port silently replaced by the scheme default, and the whole string dialed as a host name and used as TLS server name (D44)")
}

// dumpWriterMsgLimit: the largest packed message writeDump turns into an entry: K when the range callback has a
// `len(<Pack result>) > K` test whose true edge builds no entry; -1 when there is no such limit.
func dumpWriterMsgLimit(pack *ssa.Call) int64 {
	wlimit := int64(-1)
	eachInstr(pack.Parent(), func(in ssa.Instruction) {
		iff, ok := in.(*ssa.If)
		if !ok {
			return
		}
		for _, truth := range []bool{true, false} {
			g := guard{Cond: iff.Cond, Truth: truth, If: iff}
			cm, ok := g.asCmp()
			if !ok || cm.Op != token.GTR {
				continue
			}
			lc, isL := cm.X.(*ssa.Call)
			if !isL || callName(lc) != "builtin:len" {
				continue
			}
			ex, isE := lc.Call.Args[0].(*ssa.Extract)
			if !isE || ex.Tuple != ssa.Value(pack) {
				continue
			}
			if k, isC := constInt(cm.Y); isC {
				// the "too big" edge must not build an entry
				blk := succOnTruth(iff, truth)
				if _, builds := reachFromBlock(blk, func(x ssa.Instruction) bool {
					st, ok := x.(*ssa.Store)
					if !ok {
						return false
					}
					k2, _ := fieldKey(st.Addr)
					return strings.HasSuffix(k2, ".CachedEntry.Msg")
				}, nil); !builds {
					wlimit = k
				}
			}
		}
	})
	return wlimit
}

// checkReuseQueryBufferPerAttempt (R9-C01-1, R9-C17-1; C01-R12, C17-R8): reusableConn.exchange reads the caller's id
// out of the buffer it is given and then overwrites it with the connection's wire id, so the buffer must be private to
// the attempt: every call of that exchange gets a buffer made by copyMsgWithLenHdr, and when the call sits in a (retry)
// loop the copy is made inside the same loop iteration.  A copy hoisted out of the retry loop makes the second attempt
// read the first attempt's wire id as "the caller's id" and restore that into the reply.
func checkReuseQueryBufferPerAttempt(c *Ctx) {
	ex := c.fn(relTransport, "reusableConn", "exchange")
	if ex == nil {
		return
	}
	n := 0
	for _, f := range c.P.funcsIn(relTransport) {
		fn := f
		eachInstr(f, func(in ssa.Instruction) {
			cl, ok := in.(*ssa.Call)
			if !ok || staticCallee(cl) != ex || len(cl.Call.Args) < 3 {
				return
			}
			n++
			c.see(fn)
			key := "reuse-query-buffer-per-attempt@" + funcName(fn)
			tr := c.P.newTracer()
			tr.throughCalls, tr.throughFields, tr.throughParams = false, false, false
			why := ""
			os := tr.origins(cl.Call.Args[2])
			if len(os) == 0 {
				why = "the query buffer has no traceable origin"
			}
			lh := innermostLoopHeader(cl.Block())
			for _, o := range os {
				var mk *ssa.Call
				switch x := o.(type) {
				case *ssa.Extract:
					mk, _ = x.Tuple.(*ssa.Call)
				case *ssa.Call:
					mk = x
				}
				if mk == nil || callName(mk) != relTransport+".copyMsgWithLenHdr" {
					why = "the buffer handed to the connection is " + exprStr(o) + ", not a fresh copyMsgWithLenHdr copy: the connection writes its wire id into it"
					continue
				}
				if lh != nil && !lh.Dominates(mk.Block()) {
					why = "the copy is made once, outside the retry loop that hands it to a connection: a retry reads the previous attempt's wire id as the caller's id and returns the reply with that id"
				}
			}
			c.check(why == "", key, instrPos(in), "each attempt gets its own copyMsgWithLenHdr copy", why)
		})
	}
	if n == 0 {
		c.anchorMissing("call of reusableConn.exchange")
	}
}

// checkQuestionSnapshotBeforeChain (R9-C04-2; C03-R8, C04-R3): the question that answersQuestion compares the response
// with is a *value* taken before the rest of the chain ran (later plugins rewrite q.Question[0] in place): its origin is
// a load of the query's question or a QQuestion() call that no ExecNext call of the same function can precede, or a
// value captured from the enclosing function.
func checkQuestionSnapshotBeforeChain(c *Ctx) {
	aq := c.P.Func(relCachePlugin, "", "answersQuestion")
	if aq == nil {
		return
	}
	for _, f := range c.P.funcsIn(relCachePlugin) {
		fn := f
		var chainCalls []ssa.Instruction
		eachInstr(f, func(in ssa.Instruction) {
			if cl, ok := in.(*ssa.Call); ok {
				if cl.Call.IsInvoke() && cl.Call.Method.Name() == "ExecNext" {
					chainCalls = append(chainCalls, in)
				} else if sc := staticCallee(cl); sc != nil && sc.Name() == "ExecNext" {
					chainCalls = append(chainCalls, in)
				}
			}
		})
		eachInstr(f, func(in ssa.Instruction) {
			cl, ok := in.(*ssa.Call)
			if !ok || staticCallee(cl) != aq || len(cl.Call.Args) != 2 {
				return
			}
			key := "question-snapshot-before-chain@" + funcName(fn)
			tr := c.P.newTracer()
			tr.throughCalls, tr.throughFields, tr.throughParams = false, false, false
			why := ""
			os := tr.origins(cl.Call.Args[1])
			if len(os) == 0 {
				why = "the compared question has no traceable origin"
			}
			for _, o := range os {
				oi, isInstr := o.(ssa.Instruction)
				if !isInstr {
					continue // parameter / free variable: bound before this function runs
				}
				if oi.Parent() != fn {
					continue // taken in the enclosing function, before the closure was started
				}
				switch x := o.(type) {
				case *ssa.UnOp: // load of q.Question[0]
					_ = x
				case *ssa.Call:
					if !strings.HasSuffix(callName(x), ".Context).QQuestion") {
						why = "the compared question comes from " + exprStr(o)
					}
				default:
					why = "the compared question comes from " + exprStr(o)
				}
				for _, cc := range chainCalls {
					if _, after := reachAvoiding(cc, func(y ssa.Instruction) bool { return y == oi }, nil); after {
						why = "the question is read at " + c.P.pos(instrPos(oi)) + ", after the rest of the chain ran: a plugin that rewrote the query's name or type in place makes the answer to the rewritten question pass the test, and it is stored under the original question's key"
					}
				}
			}
			c.check(why == "", key, instrPos(in), "the compared question is a value taken before the chain ran", why)
		})
	}
}

// checkFinalDumpSeesLiveBackend (R9-C19-2; C19-R11): the shutdown dump ranges over the backend, so if closing the
// backend empties it (Close reaches a Flush of the map), the plugin's Close must dump before it closes the backend.
// Either half alone is harmless and is not reported.
func checkFinalDumpSeesLiveBackend(c *Ctx) {
	cl := c.fn(relCachePlugin, "Cache", "Close")
	if cl == nil {
		return
	}
	var bclose, dump ssa.Instruction
	var bcloseFn *ssa.Function
	eachInstr(cl, func(in ssa.Instruction) {
		ci, ok := in.(*ssa.Call)
		if !ok {
			return
		}
		sc := staticCallee(ci)
		if sc == nil {
			return
		}
		if sc.Name() == "dumpCache" {
			dump = in
		}
		if sc.Name() == "Close" && strings.Contains(sc.String(), "pkg/cache.Cache") {
			bclose, bcloseFn = in, sc
		}
	})
	if bclose == nil || dump == nil {
		c.anchorMissing("backend.Close / dumpCache calls in the cache plugin's Close")
		return
	}
	// does closing the backend empty it?
	empties := ""
	seen := map[*ssa.Function]bool{}
	var visit func(g *ssa.Function, d int)
	visit = func(g *ssa.Function, d int) {
		if g == nil || seen[g] || d > 3 || !inMosdns(g) {
			return
		}
		seen[g] = true
		eachInstr(g, func(in ssa.Instruction) {
			ci, ok := in.(ssa.CallInstruction)
			if !ok {
				return
			}
			if _, isGo := in.(*ssa.Go); isGo {
				return
			}
			sc := staticCallee(ci)
			if sc == nil {
				return
			}
			if sc.Name() == "Flush" || sc.Name() == "flush" {
				empties = funcName(sc)
			}
			visit(sc, d+1)
		})
		// clearing the map in place
		eachInstr(g, func(in ssa.Instruction) {
			if ci, ok := in.(*ssa.Call); ok && callName(ci) == "builtin:clear" {
				empties = funcName(g)
			}
		})
	}
	visit(bcloseFn, 0)
	c.see(cl, bcloseFn)
	_, closeFirst := reachAvoiding(bclose, func(y ssa.Instruction) bool { return y == dump }, nil)
	c.check(!(empties != "" && closeFirst), "final-dump-sees-live-backend", instrPos(dump), "the shutdown dump ranges over a backend that still holds its entries",
		"the plugin closes the backend before the shutdown dump, and closing the backend empties it ("+empties+"): the final dump overwrites the dump file with a well-formed dump of zero entries, the next start loads nothing")
}

// checkNoSynchronousDetachedExchange (R9-C14-1; C14-R4): forward queries its upstreams under a context of its own
// (Background + 5 s, so that connection reuse survives the caller) — which is only sound in a helper goroutine whose
// caller waits in a select on its own context.  Every upstream ExchangeContext call in the forward package is therefore
// either inside a function started by `go`, or runs under a context that is its function's own context parameter.
// (A synchronous fast path under a detached context outlives the caller's context by up to the upstream timeout and
// reports the upstream's error instead of the context's.)
func checkNoSynchronousDetachedExchange(c *Ctx, rel string) {
	goTargets := map[*ssa.Function]bool{}
	var all []*ssa.Function
	for _, f := range c.P.funcsIn(rel) {
		all = append(all, f)
	}
	for _, f := range all {
		eachInstrDeep(f, func(g *ssa.Function, in ssa.Instruction) {
			gi, ok := in.(*ssa.Go)
			if !ok {
				return
			}
			switch v := gi.Call.Value.(type) {
			case *ssa.MakeClosure:
				if fn, ok := v.Fn.(*ssa.Function); ok {
					goTargets[fn] = true
				}
			case *ssa.Function:
				goTargets[v] = true
			}
		})
	}
	n := 0
	seen := map[ssa.Instruction]bool{}
	for _, f := range all {
		eachInstrDeep(f, func(g *ssa.Function, in ssa.Instruction) {
			cl, ok := in.(*ssa.Call)
			if !ok || seen[in] {
				return
			}
			var ctxArg ssa.Value
			if cl.Call.IsInvoke() && cl.Call.Method.Name() == "ExchangeContext" && len(cl.Call.Args) >= 1 {
				ctxArg = cl.Call.Args[0]
			} else if sc := staticCallee(cl); sc != nil && sc.Name() == "ExchangeContext" && sc.Signature.Recv() != nil && len(cl.Call.Args) >= 2 {
				ctxArg = cl.Call.Args[1]
			} else {
				return
			}
			seen[in] = true
			n++
			c.see(g)
			key := "upstream-call-detached-only-in-goroutine@" + funcName(g)
			if goTargets[g] {
				c.ok(key, instrPos(in), "the exchange runs in a helper goroutine")
				return
			}
			own := false
			for _, prm := range g.Params {
				if prm.Type().String() == "context.Context" && isParamValue(c.P, ctxArg, prm) {
					own = true
				}
			}
			c.check(own, key, instrPos(in), "a synchronous exchange runs under its function's own context",
				"an upstream is queried synchronously under a context that is not the calling function's own ("+exprStr(ctxArg)+"): the call does not end when the caller's context ends — with a slow or silent upstream it returns after the upstream timeout, with the upstream's error instead of the context's")
		})
	}
	if n == 0 {
		c.anchorMissing("upstream ExchangeContext call in " + rel)
	}
}

// readerExitObservations: the points of ex at which it is known that the reader has returned (a channel in `done`) —
// or, with ctxToo, that a context ended: a blocking select all of whose cases watch such a channel; in a select that
// also has other cases (the reply wait), the first instruction of the body of such a case.
var readerObsBusy cmap[*ssa.Function, bool]

func readerExitObservations(ex *ssa.Function, done map[string]bool, ctxToo bool) map[ssa.Instruction]bool {
	// observation points: a blocking select all of whose cases watch the reader's exit or a context; in a select
	// that also has other cases (the reply wait), the body of such a case
	obs := map[ssa.Instruction]bool{}
	accept := func(st *ssa.SelectState) bool {
		if st.Dir != types.RecvOnly {
			return false
		}
		if k, ok := loadedField(st.Chan); ok && done[k] {
			return true
		}
		if cl, ok := st.Chan.(*ssa.Call); ok && cl.Call.IsInvoke() && cl.Call.Method.Name() == "Done" {
			return true
		}
		return false
	}
	eachInstr(ex, func(in ssa.Instruction) {
		if cl, ok := in.(*ssa.Call); ok {
			// a NEW helper of the exchange none of whose returns is reachable without such an observation
			if h := cl.Call.StaticCallee(); h != nil && h != ex && isNewHelper(h) && len(h.Blocks) > 0 && h.Pkg == ex.Pkg && !cmapHas(&readerObsBusy, h) {
				readerObsBusy.set(h, true)
				obsH := readerExitObservations(h, done, ctxToo)
				readerObsBusy.del(h)
				if len(obsH) > 0 {
					if _, leaks := reachFromBlock(h.Blocks[0], isReturn, func(x ssa.Instruction) bool { return obsH[x] }); !leaks {
						obs[in] = true
					}
				}
			}
			return
		}
		sel, ok := in.(*ssa.Select)
		if !ok || !sel.Blocking {
			return
		}
		all := true
		for _, st := range sel.States {
			if !accept(st) {
				all = false
			}
		}
		if all {
			obs[in] = true
			return
		}
		cases, _, okD := decodeSelect(sel)
		if !okD {
			return
		}
		for _, cs := range cases {
			if cs.Body == nil || !accept(cs.State) || len(cs.Body.Preds) != 1 || len(cs.Body.Instrs) == 0 {
				continue
			}
			shared := false
			for _, o := range cases {
				if o.Idx != cs.Idx && o.Body == cs.Body {
					shared = true
				}
			}
			if !shared {
				obs[cs.Body.Instrs[0]] = true
			}
		}
	})
	return obs
}

// asyncCloseObserved: `go conn.CloseWithErr(err)` in an exchange function counts as closing the connection when every
// path from it to an exit first sees the reader's exit (the reader returns only after the close has completed, closed
// flag included) or the end of a context (no retry follows an ended context).
func asyncCloseObserved(c *Ctx, g *ssa.Go) bool {
	fn := g.Parent()
	if fn == nil || fn.Signature.Recv() == nil {
		return false
	}
	recv := fn.Signature.Recv().Type().String()
	for _, an := range []string{"TraditionalDnsConn", "reusableConn"} {
		if !strings.HasSuffix(recv, "."+an) {
			continue
		}
		rl := c.P.Func(relTransport, an, "readLoop")
		if rl == nil || len(rl.Blocks) == 0 {
			return false
		}
		obs := readerExitObservations(fn, readerDoneFields(c, rl), true)
		_, leak := reachAvoiding(g, isExit, func(x ssa.Instruction) bool { return obs[x] })
		return !leak
	}
	return false
}

// checkCtxCasePollsResult (D46, D47; C02-R14): the exchanges that run their I/O in a helper goroutine (DoQ stream, DoH
// request) wait in a select on {ctx.Done(), result channel}; when both are ready Go picks at random, so the Done case
// must look into the result channel (non-blocking) before it reports the context's error — otherwise about half of the
// replies that were completely read before the deadline are dropped.
func checkCtxCasePollsResult(c *Ctx) {
	type target struct{ rel, recv, name string }
	for _, t := range []target{{relTransport, "quicReservedExchanger", "ExchangeReserved"}, {relDoh, "Upstream", "ExchangeContext"}} {
		fn := c.fn(t.rel, t.recv, t.name)
		if fn == nil {
			continue
		}
		checkCtxCasePollsResultIn(c, fn)
	}
}

// checkCtxCasePollsResultIn: every blocking select of fn that waits for a result and for a context polls the result
// channel in its ctx.Done() case before any exit (D46, D47, D49).
func checkCtxCasePollsResultIn(c *Ctx, fn *ssa.Function) {
	{
		c.see(fn)
		key := "ctx-case-polls-result@" + funcName(fn)
		n := 0
		why := ""
		eachInstr(fn, func(in ssa.Instruction) {
			sel, ok := in.(*ssa.Select)
			if !ok || !sel.Blocking {
				return
			}
			var resultChans []ssa.Value
			hasDone := false
			for _, st := range sel.States {
				if st.Dir != types.RecvOnly {
					continue
				}
				if cl, ok := st.Chan.(*ssa.Call); ok && cl.Call.IsInvoke() && cl.Call.Method.Name() == "Done" {
					hasDone = true
					continue
				}
				resultChans = append(resultChans, st.Chan)
			}
			if !hasDone || len(resultChans) == 0 {
				return
			}
			n++
			cases, _, okD := decodeSelect(sel)
			if !okD {
				why = "the wait cannot be decoded"
				return
			}
			isPoll := func(x ssa.Instruction) bool {
				s2, ok := x.(*ssa.Select)
				if !ok || s2.Blocking {
					return false
				}
				for _, st := range s2.States {
					if st.Dir != types.RecvOnly {
						continue
					}
					for _, rc := range resultChans {
						if st.Chan == rc || chanID(st.Chan) == chanID(rc) || sameLoadedPlace(st.Chan, rc) {
							return true
						}
					}
				}
				return false
			}
			for _, cs := range cases {
				cl, ok := cs.State.Chan.(*ssa.Call)
				if !ok || !cl.Call.IsInvoke() || cl.Call.Method.Name() != "Done" || cs.Body == nil {
					continue
				}
				if _, leak := reachFromBlock(cs.Body, isExit, isPoll); leak {
					why = "the ctx.Done() case of the wait at " + c.P.pos(instrPos(sel)) + " returns without looking into the result channel"
				}
			}
		})
		c.check(why == "" && n > 0, key, fn.Pos(), "the ctx.Done() case polls the result channel before it gives up",
			why+": when the reply was completely read before the caller's deadline and the caller reaches its select afterwards, both cases are ready and about half of such exchanges return the context error although the reply arrived in time (D46 / D47 / D49)")
	}
}

// checkServerUnpackChecksCounts (D48; C03-R1): dns.Msg.Unpack silently corrects header counts that promise more records
// than the message carries, so the entry handler's "no answer/authority record, at most one additional record" test
// never sees them.  In the server packages every query is unpacked by a function whose success return is guarded by the
// comparison of all four header counts with the unpacked sections; nothing else there calls Unpack or the plain
// stream reader.
func checkServerUnpackChecksCounts(c *Ctx) {
	const unpack = "(*github.com/miekg/dns.Msg).Unpack"
	secOffset := map[string]int64{"Question": 4, "Answer": 6, "Ns": 8, "Extra": 10}
	var checked []*ssa.Function
	n := 0
	for _, rel := range []string{"pkg/server"} {
		for _, f := range c.P.funcsIn(rel) {
			fn := f
			eachInstr(f, func(in ssa.Instruction) {
				cl, ok := in.(*ssa.Call)
				if !ok {
					return
				}
				cn := callName(cl)
				if strings.HasSuffix(cn, "dnsutils.ReadMsgFromTCP") {
					n++
					c.fail("server-unpack-checks-counts@"+funcName(fn), instrPos(in), "the server reads a query with dnsutils.ReadMsgFromTCP, which does not compare the header's section counts with the message: a query announcing records it does not carry (ANCOUNT=1, ARCOUNT=2 ...) is answered instead of dropped as malformed (D48)")
					return
				}
				if cn != unpack || len(cl.Call.Args) != 2 {
					return
				}
				n++
				c.see(fn)
				key := "server-unpack-checks-counts@" + funcName(fn)
				raw := cl.Call.Args[1]
				msg := cl.Call.Args[0]
				missing := ""
				nRet := 0
				for _, r := range returnsOf(fn) {
					rv := returnedValues(r)
					if len(rv) == 0 || !isNilConst(rv[len(rv)-1]) || rv[len(rv)-1].Type().String() != "error" {
						continue
					}
					nRet++
					for sec, off := range secOffset {
						found := false
						for _, g := range guardsOfInstr(r) {
							cm, ok := g.asCmp()
							if !ok || cm.Op != token.EQL {
								continue
							}
							for _, pr := range [][2]ssa.Value{{cm.X, cm.Y}, {cm.Y, cm.X}} {
								if isHeaderCount(pr[0], raw, off) && isLenOfSection(pr[1], msg, sec) {
									found = true
								}
							}
						}
						if !found {
							missing = sec
						}
					}
				}
				if nRet == 0 {
					missing = "success return"
				}
				c.check(missing == "", key, instrPos(in), "a query is accepted only when the four header counts equal the unpacked section lengths",
					"the unpacked query is accepted without comparing the header count of "+missing+" with the unpacked section: dns.Msg.Unpack corrects counts silently, so a query that announces records it does not carry passes the handler's malformed-query test and is answered (D48)")
				checked = append(checked, fn)
			})
		}
	}
	if n == 0 {
		c.anchorMissing("query unpack in pkg/server")
	}
}

func isHeaderCount(v, raw ssa.Value, off int64) bool {
	for {
		if cv, ok := v.(*ssa.Convert); ok {
			v = cv.X
			continue
		}
		break
	}
	cl, ok := v.(*ssa.Call)
	if !ok || callName(cl) != "(encoding/binary.bigEndian).Uint16" || len(cl.Call.Args) != 2 {
		return false
	}
	sl, ok := cl.Call.Args[1].(*ssa.Slice)
	if !ok || sl.X != raw {
		return false
	}
	lo, ok := constInt(sl.Low)
	return ok && lo == off
}

func isLenOfSection(v, msg ssa.Value, sec string) bool {
	cl, ok := v.(*ssa.Call)
	if !ok || callName(cl) != "builtin:len" {
		return false
	}
	k, ok := loadedField(cl.Call.Args[0])
	if !ok || k != "github.com/miekg/dns.Msg."+sec {
		return false
	}
	ld, ok := cl.Call.Args[0].(*ssa.UnOp)
	if !ok {
		return false
	}
	return fieldBase(ld.X) == msg
}

// isHostValidator: h(host string) error returns nil only for a host that is colon/bracket-free or a valid IP address
// (no nil return is reachable once the edges "ContainsAny(host, set with ':') is false" and "ParseAddr(host) ok" are
// removed).
func isHostValidator(h *ssa.Function) bool {
	if h == nil || len(h.Blocks) == 0 || !inMosdns(h) || len(h.Params) != 1 || h.Signature.Results().Len() != 1 || h.Signature.Results().At(0).Type().String() != "error" {
		return false
	}
	host := ssa.Value(h.Params[0])
	type edge struct{ from, to *ssa.BasicBlock }
	removed := map[edge]bool{}
	eachInstr(h, func(in ssa.Instruction) {
		iff, ok := in.(*ssa.If)
		if !ok {
			return
		}
		for _, truth := range []bool{true, false} {
			g := guard{Cond: iff.Cond, Truth: truth, If: iff}
			if v, t := g.asBool(); !t {
				if cl, isC := v.(*ssa.Call); isC && callName(cl) == "strings.ContainsAny" && cl.Call.Args[0] == host {
					if cs, isK := cl.Call.Args[1].(*ssa.Const); isK && cs.Value != nil && strings.Contains(cs.Value.ExactString(), ":") {
						removed[edge{iff.Block(), succOnTruth(iff, truth)}] = true
					}
				}
			}
			if cm, ok := g.asCmp(); ok && cm.Op == token.EQL && isNilConst(cm.Y) {
				if ex, isE := cm.X.(*ssa.Extract); isE {
					if cl, isC := ex.Tuple.(*ssa.Call); isC && callName(cl) == "net/netip.ParseAddr" && cl.Call.Args[0] == host {
						removed[edge{iff.Block(), succOnTruth(iff, truth)}] = true
					}
				}
			}
		}
	})
	seen := map[*ssa.BasicBlock]bool{h.Blocks[0]: true}
	work := []*ssa.BasicBlock{h.Blocks[0]}
	for len(work) > 0 {
		b := work[0]
		work = work[1:]
		if r, isRet := terminator(b).(*ssa.Return); isRet && len(r.Results) == 1 && isNilConst(r.Results[0]) {
			return false
		}
		for _, sb := range b.Succs {
			if removed[edge{b, sb}] || seen[sb] {
				continue
			}
			seen[sb] = true
			work = append(work, sb)
		}
	}
	return true
}

// ---------------------------------------------------------------------------------------------------------------------
// reply poll helpers: the "wait for the reader's exit, then look into my reply channel, restore my id" tail of an
// exchange extracted into a NEW helper `h(ctx, respChan, q) (r *[]byte[, ok bool])` that the exchange calls on its
// error exits.

type pollSummary struct {
	idIdx         int  // position of a uint16 parameter that is written back as the id (-1: none)
	chanIdx, qIdx int  // positions of the reply channel and the caller's query among h.Params (-1: none)
	restores      bool // every non-nil reply returned got Uint16(q) written at offset 0
	pollsLast     bool // the last blocking or polling operation before every return is the non-blocking poll
}

var pollSummaryCache cmap[*ssa.Function, *pollSummary]

func replyPollSummary(h *ssa.Function) *pollSummary {
	if h == nil {
		return nil
	}
	if v, ok := pollSummaryCache.get(h); ok {
		return v
	}
	pollSummaryCache.set(h, nil)
	if !isNewHelper(h) {
		return nil
	}
	sum := &pollSummary{chanIdx: -1, qIdx: -1, idIdx: -1}
	for i, prm := range h.Params {
		if b, ok := prm.Type().Underlying().(*types.Basic); ok && b.Kind() == types.Uint16 {
			sum.idIdx = i
		}
		if isReplyChanType(prm.Type()) {
			if sum.chanIdx >= 0 {
				return nil
			}
			sum.chanIdx = i
		}
		if sl, ok := prm.Type().Underlying().(*types.Slice); ok {
			if b, ok := sl.Elem().Underlying().(*types.Basic); ok && b.Kind() == types.Uint8 {
				sum.qIdx = i
			}
		}
	}
	if sum.chanIdx < 0 {
		return nil
	}
	ch := ssa.Value(h.Params[sum.chanIdx])
	// every receive from a reply channel is from that parameter
	okRecv, nPoll := true, 0
	eachInstr(h, func(in ssa.Instruction) {
		switch x := in.(type) {
		case *ssa.UnOp:
			if x.Op == token.ARROW && isReplyChanType(x.X.Type()) {
				okRecv = false // a plain blocking receive is not a poll
			}
		case *ssa.Select:
			for _, st := range x.States {
				if st.Dir == types.RecvOnly && isReplyChanType(st.Chan.Type()) {
					if st.Chan != ch || x.Blocking {
						okRecv = false
					} else {
						nPoll++
					}
				}
			}
		}
	})
	if !okRecv || nPoll == 0 || len(withAnon(h)) != 1 {
		return nil
	}
	isPoll := func(x ssa.Instruction) bool {
		sel, ok := x.(*ssa.Select)
		if !ok || sel.Blocking {
			return false
		}
		for _, st := range sel.States {
			if st.Dir == types.RecvOnly && st.Chan == ch {
				return true
			}
		}
		return false
	}
	isBlocking := func(x ssa.Instruction) bool {
		if sel, ok := x.(*ssa.Select); ok && sel.Blocking {
			return true
		}
		if ci, ok := x.(*ssa.Call); ok {
			if sc := staticCallee(ci); sc != nil && sc.Name() == "writeQuery" {
				return true
			}
			if ci.Call.IsInvoke() && ci.Call.Method.Name() == "Write" {
				return true
			}
		}
		return false
	}
	sum.restores, sum.pollsLast = true, true
	for _, r := range returnsOf(h) {
		rv := returnedValues(r)
		if len(rv) == 0 {
			return nil
		}
		if !polledBefore(r, isPoll, isBlocking) {
			sum.pollsLast = false
		}
		if isNilConst(rv[0]) {
			continue
		}
		// what is returned was received from the channel parameter
		if src, ok := chanOfRecv(rv[0]); !ok || src != ch {
			return nil
		}
		restored := false
		eachInstr(h, func(x ssa.Instruction) {
			pc, ok := x.(*ssa.Call)
			if !ok || callName(pc) != binPut16 || !instrDominates(pc, r) {
				return
			}
			ld, ok := pc.Call.Args[1].(*ssa.UnOp)
			if !ok || ld.Op != token.MUL || ld.X != rv[0] {
				return
			}
			if id, ok := pc.Call.Args[2].(*ssa.Call); ok && sum.qIdx >= 0 && callName(id) == binU16 && id.Call.Args[1] == ssa.Value(h.Params[sum.qIdx]) {
				restored = true
			}
			// ... or the id itself is handed in
			if sum.idIdx >= 0 && pc.Call.Args[2] == ssa.Value(h.Params[sum.idIdx]) {
				restored = true
			}
		})
		if !restored {
			sum.restores = false
		}
	}
	pollSummaryCache.set(h, sum)
	return sum
}

// polledBefore: walking from r up its dominator chain, a poll is met before any blocking operation.
func polledBefore(r ssa.Instruction, isPoll, isBlocking func(ssa.Instruction) bool) bool {
	b := r.Block()
	idx := idxInBlock(r) - 1
	for b != nil {
		for i := idx; i >= 0; i-- {
			x := b.Instrs[i]
			if isPoll(x) {
				return true
			}
			if isBlocking(x) {
				return false
			}
		}
		b = b.Idom()
		if b != nil {
			idx = len(b.Instrs) - 1
		}
	}
	return false
}

// pollHelperCall: v is the reply result of a call of a reply poll helper; returns the call and the summary.
func pollHelperCall(v ssa.Value) (*ssa.Call, *pollSummary) {
	if ex, ok := v.(*ssa.Extract); ok && ex.Index == 0 {
		v = ex.Tuple
	}
	cl, ok := v.(*ssa.Call)
	if !ok {
		return nil, nil
	}
	sum := replyPollSummary(cl.Call.StaticCallee())
	if sum == nil {
		return nil, nil
	}
	return cl, sum
}

// ---------------------------------------------------------------------------------------------------------------------
// checkClaimedReplyDelivered (R11-C02-1; C02-R14): once a reader has taken the waiter of the reply it just read (the
// waiter's channel is non-nil), every path leads to the hand-over: no return and no next read is reachable from the
// non-nil edge without passing the send on that channel. (A reader that closes the connection because re-arming a
// deadline failed, and returns, drops a reply that arrived in time.)
func checkClaimedReplyDelivered(c *Ctx) {
	for _, recv := range []string{"TraditionalDnsConn", "reusableConn"} {
		rl := c.fn(relTransport, recv, "readLoop")
		if rl == nil {
			continue
		}
		c.see(rl)
		n := 0
		eachInstr(rl, func(in ssa.Instruction) {
			sel, ok := in.(*ssa.Select)
			if !ok {
				return
			}
			for _, st := range sel.States {
				if st.Dir != types.SendOnly || !isReplyChanType(st.Chan.Type()) {
					continue
				}
				n++
				key := "claimed-reply-delivered@" + funcName(rl)
				isRead := func(x ssa.Instruction) bool {
					ci, ok := x.(*ssa.Call)
					if !ok {
						return false
					}
					cn := callName(ci)
					if cn == "pkg/dnsutils.ReadRawMsgFromTCP" || cn == relTransport+".readMsgUdp" {
						return true
					}
					sc := staticCallee(ci)
					return sc != nil && sc.Name() == "readResp"
				}
				// a guard that says "nobody waits for this reply" (no waiter registered, or the reply is not the awaited
				// one), directly or through a named boolean built from the waiter test
				var noWaiter func(cond ssa.Value, truth bool, depth int) bool
				noWaiter = func(cond ssa.Value, truth bool, depth int) bool {
					if depth > 3 {
						return false
					}
					g := guard{Cond: cond, Truth: truth}
					if cm, ok := g.asCmp(); ok && isNilConst(cm.Y) && isReplyChanType(cm.X.Type()) {
						return cm.Op == token.EQL
					}
					// the reply's id is not the id the waiter waits for
					if cm, ok := g.asCmp(); ok && cm.Op == token.NEQ {
						for _, side := range []ssa.Value{cm.X, cm.Y} {
							if k, isF := loadedField(side); isF && strings.HasSuffix(k, ".waitingQid") {
								return true
							}
						}
					}
					if v, t := g.asBool(); v != nil && !t {
						if ph, ok := v.(*ssa.Phi); ok {
							// `expected := ch != nil && id == want`: false when either conjunct is false
							for _, pp := range ph.Block().Preds {
								if pif, ok := terminator(pp).(*ssa.If); ok {
									if cm, ok := (guard{Cond: pif.Cond, Truth: true}).asCmp(); ok && isNilConst(cm.Y) && isReplyChanType(cm.X.Type()) {
										return true
									}
								}
							}
						}
					}
					return false
				}
				readFailed := func(g guard) bool {
					cm, ok := g.asCmp()
					if !ok || cm.Op != token.NEQ || !isNilConst(cm.Y) || cm.X.Type().String() != "error" {
						return false
					}
					// the error of a frame read itself (or the phi merging the errors of alternative reads)
					fromRead := func(v ssa.Value) bool {
						ex, ok := v.(*ssa.Extract)
						if !ok {
							return false
						}
						cl, ok := ex.Tuple.(*ssa.Call)
						return ok && isRead(cl)
					}
					if fromRead(cm.X) {
						return true
					}
					if ph, ok := cm.X.(*ssa.Phi); ok && len(ph.Edges) > 0 {
						for _, e := range ph.Edges {
							if !fromRead(e) {
								return false
							}
						}
						return true
					}
					return false
				}
				bad := ""
				eachInstr(rl, func(rd ssa.Instruction) {
					if !isRead(rd) {
						return
					}
					// every exit (a return, or the way back to a read) reachable from this read without the hand-over is
					// taken under "the read failed" or "nobody waits for this reply"; guards are those of the block the
					// exit is taken from
					type st struct {
						b  *ssa.BasicBlock
						ok bool
					}
					seenB := map[st]bool{}
					var walk func(b *ssa.BasicBlock, idx int, ok bool)
					walk = func(b *ssa.BasicBlock, idx int, ok bool) {
						for i := idx; i < len(b.Instrs); i++ {
							x := b.Instrs[i]
							if x == ssa.Instruction(sel) {
								return
							}
							if isRead(x) || isReturn(x) {
								if !ok {
									bad = c.P.pos(instrPos(x))
								}
								return
							}
						}
						iff, isIf := terminator(b).(*ssa.If)
						for si, sb := range b.Succs {
							ok2 := ok
							if isIf && b.Succs[0] != b.Succs[1] {
								g := guard{Cond: iff.Cond, Truth: si == 0, If: iff}
								if readFailed(g) || noWaiter(g.Cond, g.Truth, 0) {
									ok2 = true
								}
							}
							k := st{sb, ok2}
							if seenB[k] {
								continue
							}
							seenB[k] = true
							walk(sb, 0, ok2)
						}
					}
					walk(rd.Block(), idxInBlock(rd)+1, false)
				})
				c.check(bad == "", key, instrPos(in), "a reply whose waiter was taken is always handed over",
					"after the reader took the waiter of the reply it read, it can leave or go on reading without handing the reply over (reaches "+bad+" without the send): the reply arrived in time but its caller gets the close error or a timeout")
			}
		})
		if n == 0 {
			c.anchorMissing("hand-over select in " + funcName(rl))
		}
	}
}
