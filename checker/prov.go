package main

import (
	"go/token"
	"go/types"

	"golang.org/x/tools/go/ssa"
)

// ---------------------------------------------------------------- who-writes index

type fieldWrite struct {
	Fn    *ssa.Function
	Instr ssa.Instruction
	Val   ssa.Value // stored value (nil for delete / whole-struct stores of unknown field value)
	Kind  string    // store | mapupdate | elemstore | delete | structstore | clear
	Key   ssa.Value // map key / index for mapupdate, elemstore, delete
}

type whoWrites struct {
	byField map[string][]fieldWrite
	globals map[*ssa.Global][]fieldWrite
	allocs  map[*ssa.Alloc][]*ssa.Store
}

// baseField: v is (a chain of Index/Slice on) a load of a field -> field key.
func baseFieldOfContainer(v ssa.Value) (string, bool) {
	for i := 0; i < 6; i++ {
		if k, ok := loadedField(v); ok {
			return k, true
		}
		switch x := v.(type) {
		case *ssa.Slice:
			v = x.X
		case *ssa.ChangeType:
			v = x.X
		case *ssa.Phi:
			// a phi over loads of the same field (e.g. after append) – take first edge
			if len(x.Edges) > 0 {
				v = x.Edges[0]
			} else {
				return "", false
			}
		default:
			return "", false
		}
	}
	return "", false
}

func (p *Prog) whoWrites() *whoWrites {
	if p.who != nil {
		return p.who
	}
	w := &whoWrites{byField: map[string][]fieldWrite{}, globals: map[*ssa.Global][]fieldWrite{}, allocs: map[*ssa.Alloc][]*ssa.Store{}}
	for _, f := range p.Funcs {
		fn := f
		eachInstr(f, func(in ssa.Instruction) {
			switch x := in.(type) {
			case *ssa.Store:
				if k, ok := fieldKey(x.Addr); ok {
					w.byField[k] = append(w.byField[k], fieldWrite{Fn: fn, Instr: in, Val: x.Val, Kind: "store"})
				}
				if ia, ok := x.Addr.(*ssa.IndexAddr); ok {
					if k, ok := baseFieldOfContainer(ia.X); ok {
						w.byField[k] = append(w.byField[k], fieldWrite{Fn: fn, Instr: in, Val: x.Val, Kind: "elemstore", Key: ia.Index})
					}
					// array field: &x.f[i]
					if k, ok := fieldKey(ia.X); ok {
						w.byField[k] = append(w.byField[k], fieldWrite{Fn: fn, Instr: in, Val: x.Val, Kind: "elemstore", Key: ia.Index})
					}
				}
				if g, ok := x.Addr.(*ssa.Global); ok {
					w.globals[g] = append(w.globals[g], fieldWrite{Fn: fn, Instr: in, Val: x.Val, Kind: "store"})
				}
				if al, ok := x.Addr.(*ssa.Alloc); ok {
					w.allocs[al] = append(w.allocs[al], x)
				}
				// whole-struct store: writes every field of the struct type
				if st := structOf(x.Val.Type()); st != nil {
					if _, isPtr := x.Val.Type().Underlying().(*types.Pointer); !isPtr {
						tk := typeKey(x.Val.Type())
						for i := 0; i < st.NumFields(); i++ {
							k := tk + "." + st.Field(i).Name()
							w.byField[k] = append(w.byField[k], fieldWrite{Fn: fn, Instr: in, Val: nil, Kind: "structstore"})
						}
					}
				}
			case *ssa.MapUpdate:
				if k, ok := baseFieldOfContainer(x.Map); ok {
					w.byField[k] = append(w.byField[k], fieldWrite{Fn: fn, Instr: in, Val: x.Value, Kind: "mapupdate", Key: x.Key})
				}
			case ssa.CallInstruction:
				n := callName(x)
				if n == "builtin:delete" || n == "builtin:clear" {
					args := x.Common().Args
					if len(args) > 0 {
						if k, ok := baseFieldOfContainer(args[0]); ok {
							fw := fieldWrite{Fn: fn, Instr: in, Kind: "delete"}
							if n == "builtin:clear" {
								fw.Kind = "clear"
							}
							if len(args) > 1 {
								fw.Key = args[1]
							}
							w.byField[k] = append(w.byField[k], fw)
						}
					}
				}
			}
		})
	}
	p.who = w
	return w
}

// ---------------------------------------------------------------- backward origins

type tracer struct {
	p        *Prog
	maxDepth int
	// stop lets a client cut the trace at a value (it becomes a root).
	stop func(ssa.Value) bool
	// throughConvert: see through numeric Convert
	throughConvert bool
	// throughCalls: see through static mosdns callees to their returned values
	throughCalls bool
	// throughParams: continue from a parameter to the arguments at all static call sites
	throughParams bool
	// throughFields: continue from a field load to every value stored in that field
	throughFields bool
	// throughChans: continue from a received value to every value sent on a channel with the same origin
	throughChans bool
	// argsThrough: calls (by callName) whose result is derived from all their arguments
	argsThrough map[string]bool

	callers map[*ssa.Function][]ssa.CallInstruction
}

func (p *Prog) newTracer() *tracer {
	return &tracer{p: p, maxDepth: 12, throughCalls: true, throughParams: true, throughFields: true}
}

func (t *tracer) callersOf(f *ssa.Function) []ssa.CallInstruction {
	if t.callers == nil {
		t.callers = map[*ssa.Function][]ssa.CallInstruction{}
		for _, g := range t.p.Funcs {
			eachInstr(g, func(in ssa.Instruction) {
				if ci, ok := in.(ssa.CallInstruction); ok {
					if sc := staticCallee(ci); sc != nil {
						t.callers[sc] = append(t.callers[sc], ci)
					}
				}
			})
		}
	}
	return t.callers[f]
}

// bindingOf returns the value bound to free variable fv of closure fn in its parent(s).
func bindingOf(fv *ssa.FreeVar) []ssa.Value {
	fn := fv.Parent()
	idx := -1
	for i, x := range fn.FreeVars {
		if x == fv {
			idx = i
		}
	}
	if idx < 0 || fn.Parent() == nil {
		return nil
	}
	var out []ssa.Value
	eachInstr(fn.Parent(), func(in ssa.Instruction) {
		if mc, ok := in.(*ssa.MakeClosure); ok && mc.Fn == ssa.Value(fn) && idx < len(mc.Bindings) {
			out = append(out, mc.Bindings[idx])
		}
	})
	return out
}

// resolveAddr follows a free variable to the parent's value it is bound to (usually an Alloc).
func resolveAddr(v ssa.Value) ssa.Value {
	for i := 0; i < 8; i++ {
		fv, ok := v.(*ssa.FreeVar)
		if !ok {
			return v
		}
		b := bindingOf(fv)
		if len(b) != 1 {
			return v
		}
		v = b[0]
	}
	return v
}

// storesTo lists the values stored to a local cell (Alloc), including stores made through closures.
func (t *tracer) storesTo(al *ssa.Alloc) []ssa.Value {
	var out []ssa.Value
	var visit func(addr ssa.Value, depth int)
	visit = func(addr ssa.Value, depth int) {
		if depth > 4 {
			return
		}
		for _, r := range referrers(addr) {
			switch x := r.(type) {
			case *ssa.Store:
				if x.Addr == addr {
					out = append(out, x.Val)
				}
			case *ssa.MakeClosure:
				fn, ok := x.Fn.(*ssa.Function)
				if !ok {
					continue
				}
				for i, b := range x.Bindings {
					if b == addr && i < len(fn.FreeVars) {
						visit(fn.FreeVars[i], depth+1)
					}
				}
			}
		}
	}
	visit(al, 0)
	return out
}

// origins computes the set of root values v may come from.
func (t *tracer) origins(v ssa.Value) []ssa.Value {
	seen := map[ssa.Value]bool{}
	var roots []ssa.Value
	rootSeen := map[ssa.Value]bool{}
	addRoot := func(r ssa.Value) {
		if !rootSeen[r] {
			rootSeen[r] = true
			roots = append(roots, r)
		}
	}
	var walk func(v ssa.Value, depth int)
	// walkFieldOf: the values field #idx of the struct value sv can hold, when sv was received from a channel or
	// loaded from a local composite literal. Reports whether anything was found.
	var walkFieldOf func(sv ssa.Value, idx int, depth int) bool
	walkFieldOf = func(sv ssa.Value, idx int, depth int) bool {
		if depth > t.maxDepth {
			return false
		}
		n := 0
		fromAlloc := func(al *ssa.Alloc) {
			for _, r := range referrers(al) {
				switch y := r.(type) {
				case *ssa.FieldAddr:
					if y.Field != idx {
						continue
					}
					for _, r2 := range referrers(y) {
						if st, ok := r2.(*ssa.Store); ok && st.Addr == ssa.Value(y) {
							walk(st.Val, depth+1)
							n++
						}
					}
				case *ssa.Store:
					if y.Addr == ssa.Value(al) {
						if walkFieldOf(y.Val, idx, depth+1) {
							n++
						}
					}
				}
			}
		}
		if ld, ok := sv.(*ssa.UnOp); ok && ld.Op == token.MUL {
			if al, ok := ld.X.(*ssa.Alloc); ok {
				fromAlloc(al)
				return n > 0
			}
		}
		if !t.throughChans {
			return false
		}
		var structs []ssa.Value
		collect := func(x ssa.Value, d int) { structs = append(structs, x) }
		if ch, ok := chanOfRecv(sv); ok {
			t.walkChan(ch, depth, collect, func(ssa.Value) {}, sv)
		}
		for _, x := range structs {
			if walkFieldOf(x, idx, depth+1) {
				n++
			}
		}
		return n > 0
	}
	walk = func(v ssa.Value, depth int) {
		if v == nil || seen[v] {
			return
		}
		seen[v] = true
		if depth > t.maxDepth || (t.stop != nil && t.stop(v)) {
			addRoot(v)
			return
		}
		switch x := v.(type) {
		case *ssa.Phi:
			for _, e := range x.Edges {
				walk(e, depth)
			}
		case *ssa.ChangeType:
			walk(x.X, depth)
		case *ssa.ChangeInterface:
			walk(x.X, depth)
		case *ssa.MakeInterface:
			walk(x.X, depth)
		case *ssa.TypeAssert:
			walk(x.X, depth)
		case *ssa.Convert:
			if t.throughConvert {
				walk(x.X, depth)
			} else {
				addRoot(v)
			}
		case *ssa.Slice:
			walk(x.X, depth)
		case *ssa.Extract:
			switch tup := x.Tuple.(type) {
			case *ssa.Call:
				if !t.walkCall(tup, x.Index, depth, walk) {
					addRoot(v)
				}
			case *ssa.TypeAssert:
				if x.Index == 0 {
					walk(tup.X, depth)
				} else {
					addRoot(v)
				}
			case *ssa.Lookup:
				// v, ok := m[k]
				if x.Index == 0 {
					walk(tup, depth)
				} else {
					addRoot(v)
				}
			case *ssa.Select, *ssa.UnOp:
				if ch, ok := chanOfRecv(v); ok && t.throughChans {
					t.walkChan(ch, depth, walk, addRoot, v)
				} else {
					addRoot(v)
				}
			default:
				addRoot(v)
			}
		case *ssa.Call:
			if t.argsThrough != nil && t.argsThrough[callName(x)] {
				for _, a := range callArgs(x) {
					walk(a, depth)
				}
				return
			}
			if !t.walkCall(x, 0, depth, walk) {
				addRoot(v)
			}
		case *ssa.BinOp:
			if x.Op == token.ADD && t.argsThrough != nil && t.argsThrough["string+"] {
				walk(x.X, depth)
				walk(x.Y, depth)
				return
			}
			addRoot(v)
		case *ssa.UnOp:
			switch x.Op {
			case token.MUL: // load
				addr := resolveAddr(x.X)
				switch a := addr.(type) {
				case *ssa.Alloc:
					vals := t.storesTo(a)
					// a purely local cell: only the stores that can reach this load (flow-sensitive; `return 0, nil`
					// stores into the named results, but not on a path to a later read of them)
					if x.X == ssa.Value(a) {
						if rs, ok := reachingStores(x); ok && len(rs) > 0 {
							vals = vals[:0]
							for _, st := range rs {
								vals = append(vals, st.Val)
							}
						}
					}
					if len(vals) == 0 {
						addRoot(v)
					}
					for _, sv := range vals {
						walk(sv, depth)
					}
				case *ssa.FieldAddr:
					if al, ok := a.X.(*ssa.Alloc); ok && !al.Heap || ok && t.throughChans {
						// field of a local struct variable
						ld := &ssa.UnOp{Op: token.MUL, X: al}
						if walkFieldOf(ld, a.Field, depth) {
							return
						}
					}
					if !t.throughFields {
						addRoot(v)
						return
					}
					k, _ := fieldKey(a)
					ws := t.p.whoWrites().byField[k]
					n := 0
					for _, w := range ws {
						if w.Kind == "store" && w.Val != nil {
							walk(w.Val, depth+1)
							n++
						}
					}
					if n == 0 {
						addRoot(v)
					}
				case *ssa.Global:
					ws := t.p.whoWrites().globals[a]
					if len(ws) == 0 {
						addRoot(v)
					}
					for _, w := range ws {
						walk(w.Val, depth+1)
					}
				default:
					addRoot(v)
				}
			case token.ARROW:
				if t.throughChans {
					t.walkChan(x.X, depth, walk, addRoot, v)
				} else {
					addRoot(v)
				}
			default:
				addRoot(v)
			}
		case *ssa.Lookup:
			// map element: every value put into the map field
			if _, isMap := x.X.Type().Underlying().(*types.Map); isMap && t.throughFields {
				if k, ok := baseFieldOfContainer(x.X); ok {
					n := 0
					for _, w := range t.p.whoWrites().byField[k] {
						if w.Kind == "mapupdate" {
							walk(w.Val, depth+1)
							n++
						}
					}
					if n > 0 {
						return
					}
				}
			}
			addRoot(v)
		case *ssa.Parameter:
			if !t.throughParams {
				addRoot(v)
				return
			}
			fn := x.Parent()
			idx := -1
			for i, pa := range fn.Params {
				if pa == x {
					idx = i
				}
			}
			cs := t.callersOf(fn)
			if idx < 0 || len(cs) == 0 {
				addRoot(v)
				return
			}
			for _, ci := range cs {
				args := ci.Common().Args
				if idx < len(args) {
					walk(args[idx], depth+1)
				}
			}
		case *ssa.Field:
			if !walkFieldOf(x.X, x.Field, depth) {
				addRoot(v)
			}
		case *ssa.FreeVar:
			bs := bindingOf(x)
			if len(bs) == 0 {
				addRoot(v)
			}
			for _, b := range bs {
				walk(b, depth)
			}
		default:
			addRoot(v)
		}
	}
	walk(v, 0)
	return roots
}

func (t *tracer) walkCall(call *ssa.Call, idx int, depth int, walk func(ssa.Value, int)) bool {
	if !t.throughCalls {
		return false
	}
	callee := staticCallee(call)
	if callee == nil || callee.Blocks == nil || callee.Pkg == nil {
		return false
	}
	if len(callee.Pkg.Pkg.Path()) < len(modPath) || callee.Pkg.Pkg.Path()[:len(modPath)] != modPath {
		return false
	}
	n := 0
	for _, r := range returnsOf(callee) {
		vals := returnedValues(r)
		if idx < len(vals) {
			walk(vals[idx], depth+1)
			n++
		}
	}
	return n > 0
}

// walkChan: a value received from ch comes from every value sent on a channel with a common make site.
func (t *tracer) walkChan(ch ssa.Value, depth int, walk func(ssa.Value, int), addRoot func(ssa.Value), self ssa.Value) {
	sub := *t
	sub.throughChans = false
	mine := map[ssa.Value]bool{}
	for _, r := range sub.originsNH(ch) {
		mine[r] = true
	}
	n := 0
	for _, f := range t.p.Funcs {
		eachInstr(f, func(in ssa.Instruction) {
			var sentCh, sentVal ssa.Value
			switch x := in.(type) {
			case *ssa.Send:
				sentCh, sentVal = x.Chan, x.X
			case *ssa.Select:
				for _, st := range x.States {
					if st.Dir == types.SendOnly {
						for _, r := range sub.originsNH(st.Chan) {
							if mine[r] {
								walk(st.Send, depth+1)
								n++
								break
							}
						}
					}
				}
				return
			default:
				return
			}
			for _, r := range sub.originsNH(sentCh) {
				if mine[r] {
					walk(sentVal, depth+1)
					n++
					break
				}
			}
		})
	}
	if n == 0 {
		addRoot(self)
	}
}

// originsNH is origins, continued through the parameters of NEW helpers (see isNewHelper), over all their call sites:
// when a piece of an anchored function moves into such a helper, the values it worked on arrive as arguments.
func (t *tracer) originsNH(v ssa.Value) []ssa.Value {
	var out []ssa.Value
	seen := map[ssa.Value]bool{}
	var add func(vs []ssa.Value, depth int)
	add = func(vs []ssa.Value, depth int) {
		for _, r := range vs {
			if seen[r] {
				continue
			}
			seen[r] = true
			if prm, ok := r.(*ssa.Parameter); ok && depth < 3 {
				h := prm.Parent()
				if sites, asValue := callSitesOf(h); !asValue && len(sites) > 0 && isNewHelper(h) {
					// the union over all call sites of the helper
					for _, st := range sites {
						site := st.(ssa.CallInstruction)
						args := site.Common().Args
						if site.Common().IsInvoke() {
							args = nil
						}
						for i, fp := range h.Params {
							if fp == prm && i < len(args) {
								add(t.origins(args[i]), depth+1)
								r = nil
							}
						}
					}
					if r == nil {
						continue
					}
				}
			}
			out = append(out, r)
		}
	}
	add(t.origins(v), 0)
	return out
}
