package main

import (
	"fmt"
	"go/token"
	"sort"
	"strings"

	"golang.org/x/tools/go/ssa"
)

// Lock-order analysis over one package scope: an edge h -> a means "a is acquired (possibly in a callee)
// while h is held". A cycle is a potential deadlock; h -> h is a re-acquisition of a non-reentrant mutex.
// Lock identity is (type, field), so two instances of one type are not distinguished.

type lockEdge struct {
	From, To string
	Fn       *ssa.Function
	Pos      token.Pos
}

type lockOrder struct {
	p       *Prog
	scope   []*ssa.Function
	inScope map[*ssa.Function]bool
	lf      *lockFacts
	acq     map[*ssa.Function]map[string]bool
	visit   map[*ssa.Function]bool
	impls   map[string][]*ssa.Function // interface method name -> implementations in scope
	Edges   []lockEdge
}

func newLockOrder(p *Prog, scope []*ssa.Function, lf *lockFacts) *lockOrder {
	lo := &lockOrder{p: p, scope: scope, lf: lf, inScope: map[*ssa.Function]bool{}, acq: map[*ssa.Function]map[string]bool{}, visit: map[*ssa.Function]bool{}, impls: map[string][]*ssa.Function{}}
	for _, f := range scope {
		lo.inScope[f] = true
		if f.Signature.Recv() != nil && f.Parent() == nil {
			lo.impls[f.Name()] = append(lo.impls[f.Name()], f)
		}
	}
	return lo
}

// callees resolves a call to the in-scope functions it may run (static, closures passed to Once.Do, CHA for invokes).
func (lo *lockOrder) callees(ci ssa.CallInstruction) []*ssa.Function {
	var out []*ssa.Function
	cc := ci.Common()
	if cc.IsInvoke() {
		// VTA: the concrete types that can flow into this interface value
		for _, f := range lo.p.vtaCallees(ci) {
			if o := f.Origin(); o != nil {
				f = o
			}
			if lo.inScope[f] {
				out = append(out, f)
			}
		}
		return out
	}
	if sc := staticCallee(ci); sc != nil {
		if lo.inScope[sc] {
			out = append(out, sc)
		}
		if callName(ci) == "(*sync.Once).Do" && len(cc.Args) == 2 {
			if mc, ok := cc.Args[1].(*ssa.MakeClosure); ok {
				if fn, ok := mc.Fn.(*ssa.Function); ok {
					out = append(out, fn)
				}
			}
		}
	}
	return out
}

// onceKey: for a call of (*sync.Once).Do on a struct field, the pseudo-lock that Do holds while its function runs
// (a second Do on the same Once blocks until the first returns), and the function it runs.
func onceKey(ci ssa.CallInstruction) (string, *ssa.Function, bool) {
	if callName(ci) != "(*sync.Once).Do" {
		return "", nil, false
	}
	cc := ci.Common()
	k, ok := fieldKey(cc.Args[0])
	if !ok {
		return "", nil, false
	}
	var fn *ssa.Function
	if len(cc.Args) == 2 {
		if mc, ok := cc.Args[1].(*ssa.MakeClosure); ok {
			fn, _ = mc.Fn.(*ssa.Function)
		}
	}
	return k, fn, true
}

// mayAcquire: locks a call of f may take (transitively).
func (lo *lockOrder) mayAcquire(f *ssa.Function) map[string]bool {
	if a, ok := lo.acq[f]; ok {
		return a
	}
	a := map[string]bool{}
	lo.acq[f] = a // cycle guard: partial result
	eachInstr(f, func(in ssa.Instruction) {
		ci, ok := in.(ssa.CallInstruction)
		if !ok {
			return
		}
		if _, isGo := in.(*ssa.Go); isGo {
			return // runs in another goroutine
		}
		if c2, ok := in.(*ssa.Call); ok {
			if k, op, ok := lockOp(c2); ok && (op == "lock" || op == "rlock") {
				a[k] = true
			}
		}
		if k, _, ok := onceKey(ci); ok {
			a[k] = true
		}
		for _, cal := range lo.callees(ci) {
			for k := range lo.mayAcquire(cal) {
				a[k] = true
			}
		}
	})
	return a
}

func (lo *lockOrder) build() {
	for _, f := range lo.scope {
		fn := f
		eachInstr(f, func(in ssa.Instruction) {
			ci, ok := in.(ssa.CallInstruction)
			if !ok {
				return
			}
			if _, isGo := in.(*ssa.Go); isGo {
				return
			}
			// Once.Do(f): everything f acquires is acquired while the Once is held
			if k, body, ok := onceKey(ci); ok && body != nil {
				for a := range lo.mayAcquire(body) {
					if a != k {
						lo.Edges = append(lo.Edges, lockEdge{From: k, To: a, Fn: fn, Pos: instrPos(in)})
					}
				}
			}
			held := lo.lf.held(in)
			if len(held) == 0 {
				return
			}
			acquired := map[string]bool{}
			if c2, ok := in.(*ssa.Call); ok {
				if k, op, ok := lockOp(c2); ok && (op == "lock" || op == "rlock") {
					acquired[k] = true
				}
			}
			if k, _, ok := onceKey(ci); ok {
				acquired[k] = true
			}
			if _, isDefer := in.(*ssa.Defer); !isDefer {
				for _, cal := range lo.callees(ci) {
					for k := range lo.mayAcquire(cal) {
						acquired[k] = true
					}
				}
			}
			for h := range held {
				for a := range acquired {
					lo.Edges = append(lo.Edges, lockEdge{From: h, To: a, Fn: fn, Pos: instrPos(in)})
				}
			}
		})
	}
}

// cycles returns one witness path per cycle found (as edge lists), including self-loops.
func (lo *lockOrder) cycles() [][]lockEdge {
	adj := map[string][]lockEdge{}
	for _, e := range lo.Edges {
		dup := false
		for _, x := range adj[e.From] {
			if x.To == e.To {
				dup = true
			}
		}
		if !dup {
			adj[e.From] = append(adj[e.From], e)
		}
	}
	var out [][]lockEdge
	var nodes []string
	for n := range adj {
		nodes = append(nodes, n)
	}
	sort.Strings(nodes)
	state := map[string]int{}
	var stack []lockEdge
	var dfs func(n string)
	dfs = func(n string) {
		state[n] = 1
		for _, e := range adj[n] {
			if state[e.To] == 1 {
				// back edge: cycle = stack suffix from e.To
				cyc := []lockEdge{e}
				for i := len(stack) - 1; i >= 0; i-- {
					cyc = append([]lockEdge{stack[i]}, cyc...)
					if stack[i].From == e.To {
						break
					}
				}
				if e.From == e.To {
					cyc = []lockEdge{e}
				}
				out = append(out, cyc)
				continue
			}
			if state[e.To] == 0 {
				stack = append(stack, e)
				dfs(e.To)
				stack = stack[:len(stack)-1]
			}
		}
		state[n] = 2
	}
	for _, n := range nodes {
		if state[n] == 0 {
			dfs(n)
		}
	}
	return out
}

func (lo *lockOrder) describe() []string {
	set := map[string]bool{}
	for _, e := range lo.Edges {
		set[shortLock(e.From)+" -> "+shortLock(e.To)] = true
	}
	var out []string
	for k := range set {
		out = append(out, k)
	}
	sort.Strings(out)
	return out
}

func shortLock(k string) string {
	return strings.TrimPrefix(k, relTransport+".")
}

// blockingUnderLock lists blocking operations executed while a mutex is certainly held.
type blockingSite struct {
	Fn   *ssa.Function
	In   ssa.Instruction
	What string
	Held lockset
}

func blockingUnderLock(scope []*ssa.Function, lf *lockFacts) []blockingSite {
	var out []blockingSite
	for _, f := range scope {
		fn := f
		eachInstr(f, func(in ssa.Instruction) {
			held := lf.held(in)
			if len(held) == 0 {
				return
			}
			what := ""
			switch x := in.(type) {
			case *ssa.UnOp:
				if x.Op == token.ARROW {
					what = "channel receive"
				}
			case *ssa.Send:
				what = "channel send"
			case *ssa.Select:
				if x.Blocking {
					what = "blocking select"
				}
			case *ssa.Call:
				switch callName(x) {
				case "(*sync.WaitGroup).Wait":
					what = "WaitGroup.Wait"
				case "time.Sleep":
					what = "time.Sleep"
				case "(*sync.Cond).Wait":
					what = "Cond.Wait"
				}
			}
			if what != "" {
				out = append(out, blockingSite{Fn: fn, In: in, What: what, Held: held.clone()})
			}
		})
	}
	return out
}

func fmtCycle(p *Prog, cyc []lockEdge) string {
	var parts []string
	for _, e := range cyc {
		parts = append(parts, fmt.Sprintf("%s -> %s (in %s at %s)", shortLock(e.From), shortLock(e.To), funcName(e.Fn), p.pos(e.Pos)))
	}
	return strings.Join(parts, "; ")
}
