package main

import (
	"fmt"
	"go/token"
	"go/types"
	"strings"

	"golang.org/x/tools/go/ssa"
)

func init() {
	register(&propDef{
		ID: "C09",
		Explanation: "Decides the structural conditions of 'limits hold, capacity never leaks': (R1) must-lockset: every access to the reservation counters, the wire-id counter, the waiter table, " +
			"the closed flags and the connection sets holds its mutex in the right mode; (R2) each counter increment is guarded, inside the same critical section, by the comparison of the counter " +
			"with its limit; (R3) by enumeration of all paths of both ReservedExchanger implementations, every path of ExchangeReserved/WithdrawReserved releases the reservation exactly once " +
			"and signals the early-reservation wait group exactly once (at most once on the dial-failed path); (R4) the admission test does not count one query twice (no summand overlapping the " +
			"reservation that is held for the whole exchange) and the waiter table can only be entered with a reservation; (R5) every reserved exchanger obtained by a caller is consumed exactly " +
			"once or returned on every path; (R6) a new connection is dialled exactly when no existing one admitted the query, and the dialing-phase queue limit never exceeds the connection limit.",
		Assumptions: []string{"sync.Mutex / WaitGroup semantics", "lock identity by (type, field)", "run-time maxima over interleavings are not decided"},
		Run:         runC09,
	})
}

// isDecOf / isIncOf: store of (load F) -/+ 1 into field F.
func counterDelta(in ssa.Instruction, field string) int {
	st, ok := in.(*ssa.Store)
	if !ok {
		return 0
	}
	k, ok := fieldKey(st.Addr)
	if !ok || k != field {
		return 0
	}
	bo, ok := st.Val.(*ssa.BinOp)
	if !ok {
		return 0
	}
	lk, ok := loadedField(bo.X)
	if !ok || lk != field {
		return 0
	}
	n, ok := constInt(bo.Y)
	if !ok || n != 1 {
		return 0
	}
	switch bo.Op {
	case token.ADD:
		return 1
	case token.SUB:
		return -1
	}
	return 0
}

// decSummary: number of decrements of `field` a call to f performs: (min,max) over its paths, following
// static callees and deferred closures two levels deep.
func decSummary(f *ssa.Function, field string, depth int) (int, int, bool) {
	if f == nil || f.Blocks == nil || depth > 3 {
		return 0, 0, true
	}
	ev := func(in ssa.Instruction) int {
		if counterDelta(in, field) == -1 {
			return 1
		}
		if ci, ok := in.(*ssa.Call); ok {
			if sc := staticCallee(ci); sc != nil && inMosdns(sc) {
				mn, mx, _ := decSummary(sc, field, depth+1)
				if mn == mx {
					return mn
				}
				return mx
			}
		}
		return 0
	}
	dev := func(d *ssa.Defer) int {
		if sc := staticCallee(d); sc != nil && inMosdns(sc) {
			_, mx, _ := decSummary(sc, field, depth+1)
			return mx
		}
		return 0
	}
	pcs, ab := countEvents(f, ev, dev, nil)
	if ab || len(pcs) == 0 {
		return 0, 0, false
	}
	mn, mx := pcs[0].Count, pcs[0].Count
	for _, pc := range pcs {
		if pc.Count < mn {
			mn = pc.Count
		}
		if pc.Count > mx {
			mx = pc.Count
		}
	}
	return mn, mx, true
}

func runC09(c *Ctx) {
	p := c.P
	fns := p.funcsIn(relTransport)
	c.see(fns...)
	T := relTransport + "."
	lf := p.newLockFacts()
	lf.analyseScope(fns)

	// ---------------------------------------------------------------- R1
	c.rule("R1", "guarded fields are only accessed under their mutex (reads: R or W, writes: W)", 40)
	exemptAfterPublication := func(lockKey string) func(f *ssa.Function, in ssa.Instruction, kind string) string {
		return nil
	}
	_ = exemptAfterPublication
	specs := []guardSpec{
		{Field: T + "TraditionalDnsConn.reservedQuery", Lock: T + "TraditionalDnsConn.queueMu"},
		{Field: T + "TraditionalDnsConn.nextQid", Lock: T + "TraditionalDnsConn.queueMu"},
		{Field: T + "TraditionalDnsConn.queue", Lock: T + "TraditionalDnsConn.queueMu"},
		{Field: T + "lazyDnsConn.reservedQuery", Lock: T + "lazyDnsConn.mu"},
		{Field: T + "lazyDnsConn.closed", Lock: T + "lazyDnsConn.mu"},
		{Field: T + "PipelineTransport.closed", Lock: T + "PipelineTransport.m"},
		{Field: T + "PipelineTransport.conns", Lock: T + "PipelineTransport.m"},
		{Field: T + "ReuseConnTransport.closed", Lock: T + "ReuseConnTransport.m"},
		{Field: T + "ReuseConnTransport.conns", Lock: T + "ReuseConnTransport.m"},
		{Field: T + "ReuseConnTransport.idleConns", Lock: T + "ReuseConnTransport.m"},
		{Field: T + "reusableConn.waitingResp", Lock: T + "reusableConn.m"},
	}
	for _, g := range specs {
		n := checkFieldGuard(c, lf, fns, g)
		if n == 0 {
			c.anchorMissing("accesses of " + g.Field)
		}
	}

	// ---------------------------------------------------------------- R2
	c.rule("R2", "each reservation increment is dominated, in the same critical section, by the counter < limit test", 2)
	type ctr struct{ field, limit, lock string }
	for _, ct := range []ctr{
		{T + "TraditionalDnsConn.reservedQuery", T + "TraditionalDnsConn.maxCq", T + "TraditionalDnsConn.queueMu"},
		{T + "lazyDnsConn.reservedQuery", T + "lazyDnsConn.maxConcurrentQuery", T + "lazyDnsConn.mu"},
	} {
		found := false
		for _, f := range fns {
			eachInstr(f, func(in ssa.Instruction) {
				if counterDelta(in, ct.field) != 1 {
					return
				}
				found = true
				key := "increment:" + ct.field + "@" + funcName(f)
				var guardIf *ssa.If
				for _, g := range guardsOfInstr(in) {
					cm, ok := g.asCmp()
					if !ok {
						continue
					}
					// normalise to: used < limit   (accept used+k forms where used mentions the counter)
					usesCounter := strings.Contains(exprStr(cm.X), fieldTail(ct.field))
					isLimit := func(v ssa.Value) bool { k, ok := loadedField(v); return ok && k == ct.limit }
					if usesCounter && isLimit(cm.Y) && cm.Op == token.LSS {
						guardIf = g.If
					}
					if isLimit(cm.X) && strings.Contains(exprStr(cm.Y), fieldTail(ct.field)) && cm.Op == token.GTR {
						guardIf = g.If
					}
				}
				if guardIf == nil {
					c.fail(key, instrPos(in), "the increment is not guarded by '%s < %s': the limit can be exceeded", fieldTail(ct.field), fieldTail(ct.limit))
					return
				}
				if lf.held(guardIf)[ct.lock] != lockW || lf.held(in)[ct.lock] != lockW {
					c.fail(key, instrPos(in), "the limit test or the increment is outside the %s critical section", ct.lock)
					return
				}
				// no unlock between test and increment
				unlockBetween := false
				eachInstr(f, func(x ssa.Instruction) {
					if ci, ok := x.(*ssa.Call); ok {
						if k, op, ok := lockOp(ci); ok && k == ct.lock && op == "unlock" && instrDominates(guardIf, x) {
							if _, can := reachAvoiding(x, func(y ssa.Instruction) bool { return y == in }, nil); can {
								unlockBetween = true
							}
						}
					}
				})
				c.check(!unlockBetween, key, instrPos(in), "limit test and increment form one critical section",
					"the mutex is released between the limit test and the increment: two callers can both pass the test")
			})
		}
		if !found {
			c.anchorMissing("increment of " + ct.field)
		}
	}

	// ---------------------------------------------------------------- R3
	c.rule("R3", "every path of ExchangeReserved / WithdrawReserved releases the reservation exactly once; wg.Done exactly once (<=1 when the dial failed)", 6)
	type impl struct{ recv, field string }
	for _, im := range []impl{{"tdcOneTimeExchanger", T + "TraditionalDnsConn.reservedQuery"}, {"lazyDnsConnEarlyReservedExchanger", T + "lazyDnsConn.reservedQuery"}} {
		for _, m := range []string{"ExchangeReserved", "WithdrawReserved"} {
			f := c.fn(relTransport, im.recv, m)
			if f == nil {
				continue
			}
			key := "release@" + funcName(f)
			mn, mx, ok := decSummary(f, im.field, 0)
			if !ok {
				c.undecided(key, f.Pos(), "path enumeration did not terminate")
				continue
			}
			if mn == 1 && mx == 1 {
				c.ok(key, f.Pos(), "reservation counter decremented exactly once on every path")
			} else {
				c.fail(key, f.Pos(), "reservation counter decremented between %d and %d times depending on the path (must be exactly once): capacity %s", mn, mx,
					map[bool]string{true: "leaks (a slot is never returned)", false: "is returned twice (counter underflow, limit exceeded)"}[mn < 1])
			}
		}
	}
	checkEarlyWgAccounting(c)
	checkEarlyWgOrdering(c)

	// ---------------------------------------------------------------- R11
	c.rule("R12", "a connection below its limit admits another query: the id allocator refuses only when the 16-bit id space is exhausted, not after a fixed number of probes", 1)
	checkIdSearchNotBoundedByProbes(c)

	c.rule("R11", "what a query occupies besides its reservation is given back on every exit: its wire id leaves the waiter table by an unconditional deferred removal; a QUIC stream's receive side is released (CancelRead) on every path; every ReservedExchanger implementation is known", 5)
	{
		var ins *ssa.Function
		for _, w := range p.whoWrites().byField[T+"TraditionalDnsConn.queue"] {
			if w.Kind == "mapupdate" {
				ins = w.Fn
			}
		}
		if ins != nil {
			checkWaiterLifetime(c, fns, ins)
		}
		// implementers of ReservedExchanger
		known := map[string]bool{"tdcOneTimeExchanger": true, "lazyDnsConnEarlyReservedExchanger": true, "quicReservedExchanger": true, "dummyEchoDnsConn": true}
		for _, f := range fns {
			if f.Name() != "WithdrawReserved" || f.Signature.Recv() == nil || f.Synthetic != "" {
				continue
			}
			rt := f.Signature.Recv().Type()
			if pt, ok := rt.(*types.Pointer); ok {
				rt = pt.Elem()
			}
			short := rt.String()
			if nt, ok := rt.(*types.Named); ok {
				short = nt.Obj().Name()
			}
			c.check(known[short], "exchanger-known:"+short, f.Pos(), "release rules exist for this ReservedExchanger implementation", "a ReservedExchanger implementation ("+short+") without release rules: its capacity accounting is not checked")
		}
		for _, m := range []string{"ExchangeReserved", "WithdrawReserved"} {
			f := c.fn(relTransport, "quicReservedExchanger", m)
			if f == nil {
				continue
			}
			isCancelRead := func(x ssa.Instruction) bool {
				cl, ok := x.(*ssa.Call)
				return ok && cl.Call.IsInvoke() && cl.Call.Method.Name() == "CancelRead"
			}
			_, leak := reachFromBlock(f.Blocks[0], func(x ssa.Instruction) bool { return isReturn(x) && x.Block().Comment != "recover" }, isCancelRead)
			c.check(!leak, "stream-released@"+funcName(f), f.Pos(), "every path releases the stream's receive side (CancelRead)",
				"a path of "+m+" returns without CancelRead on the reserved stream: no STOP_SENDING is sent, the stream stays open at the peer and counts against the connection's stream limit — cancelled queries use the connection's capacity up")
		}
	}

	// ---------------------------------------------------------------- R10
	c.rule("R10", "the configured limits reach the admission tests: each limit field is set once, in its constructor, from the matching option (setDefaultGZ(&field, option, constant default) / the constructor parameter)", 4)
	{
		type lim struct{ field, option string }
		lims := []lim{
			{T + "TraditionalDnsConn.maxCq", "TraditionalDnsConnOpts.MaxConcurrentQuery"},
			{T + "PipelineTransport.maxLazyConnQueue", "PipelineOpts.MaxConcurrentQueryWhileDialing"},
		}
		for _, l := range lims {
			n := 0
			for _, f := range fns {
				eachInstr(f, func(in ssa.Instruction) {
					ci, ok := in.(*ssa.Call)
					if !ok || !strings.HasSuffix(callName(ci), ".setDefaultGZ") || len(ci.Call.Args) != 3 {
						return
					}
					if k, _ := fieldKey(ci.Call.Args[0]); k != l.field {
						return
					}
					n++
					src, _ := loadedField(ci.Call.Args[1])
					_, dConst := constInt(ci.Call.Args[2])
					c.check(strings.HasSuffix(src, "."+l.option) && dConst, "limit-from-option:"+fieldTail(l.field), instrPos(in),
						"limit = option if > 0 else the constant default", "the limit field is set from "+exprStr(ci.Call.Args[1])+" / default "+exprStr(ci.Call.Args[2])+", not from "+l.option+" with a constant default: the configured limit is ignored")
				})
			}
			// no other writer
			for _, w := range p.whoWrites().byField[l.field] {
				c.fail("limit-from-option:"+fieldTail(l.field), instrPos(w.Instr), "the limit field is written directly in %s", funcName(w.Fn))
			}
			if n != 1 {
				c.fail("limit-from-option:"+fieldTail(l.field), 0, "expected exactly one setDefaultGZ(&%s, ...) call, found %d", fieldTail(l.field), n)
			}
		}
		// the helper: *i = s under s > 0, else *i = d
		if sd := p.Func(relTransport, "", "setDefaultGZ"); sd != nil {
			c.see(sd)
			okS, okD := false, false
			eachInstr(sd, func(in ssa.Instruction) {
				st, ok := in.(*ssa.Store)
				if !ok || st.Addr != ssa.Value(sd.Params[0]) {
					return
				}
				pos := false
				for _, g := range guardsOfInstr(in) {
					if cm, ok := g.asCmp(); ok && cm.X == ssa.Value(sd.Params[1]) && cm.Op == token.GTR {
						if n, ok := constInt(cm.Y); ok && n == 0 {
							pos = true
						}
					}
				}
				if st.Val == ssa.Value(sd.Params[1]) && pos {
					okS = true
				}
				if st.Val == ssa.Value(sd.Params[2]) && !pos {
					okD = true
				}
			})
			c.check(okS && okD, "setDefaultGZ", sd.Pos(), "*i = s when s > 0, else d", "setDefaultGZ does not store the given value when it is positive and the default otherwise")
		} else {
			c.anchorMissing("transport.setDefaultGZ")
		}
		// the dialing-phase limit of a lazy connection is the constructor's parameter
		if nl := c.fn(relTransport, "", "newLazyDnsConn"); nl != nil {
			ws := p.whoWrites().byField[T+"lazyDnsConn.maxConcurrentQuery"]
			good := len(ws) == 1
			for _, w := range ws {
				isP := false
				for _, pa := range nl.Params {
					if w.Val == ssa.Value(pa) && strings.Contains(pa.Name(), "oncurrent") {
						isP = true
					}
				}
				if w.Fn != nl || !isP {
					good = false
				}
			}
			c.check(good, "limit-from-option:lazyDnsConn.maxConcurrentQuery", nl.Pos(), "the dialing-phase limit is the constructor's parameter", "lazyDnsConn.maxConcurrentQuery is not set exactly once from newLazyDnsConn's limit parameter")
		}
	}

	// ---------------------------------------------------------------- R9
	c.rule("R9", "a dialled connection changes hands between goroutines only by rendezvous (unbuffered channel), so it always has exactly one owner", 1)
	checkConnHandOverRendezvous(c, fns)

	// ---------------------------------------------------------------- R8
	c.rule("R8", "a reservation stays counted until the query it admitted is over: no release before the exchange it covers", 2)
	for _, im := range []impl{{"tdcOneTimeExchanger", T + "TraditionalDnsConn.reservedQuery"}, {"lazyDnsConnEarlyReservedExchanger", T + "lazyDnsConn.reservedQuery"}} {
		f := c.fn(relTransport, im.recv, "ExchangeReserved")
		if f == nil {
			continue
		}
		key := "held-until-done@" + funcName(f)
		isInner := func(in ssa.Instruction) bool {
			ci, ok := in.(*ssa.Call)
			if !ok {
				return false
			}
			if ci.Call.IsInvoke() {
				return ci.Call.Method.Name() == "ExchangeReserved"
			}
			sc := staticCallee(ci)
			return sc != nil && sc.Name() == "exchange" && inMosdns(sc)
		}
		nInner := 0
		eachInstr(f, func(in ssa.Instruction) {
			if isInner(in) {
				nInner++
			}
		})
		if nInner == 0 {
			c.fail(key, f.Pos(), "no inner exchange found")
			continue
		}
		bad := token.NoPos
		eachInstr(f, func(in ssa.Instruction) {
			rel := counterDelta(in, im.field) == -1
			if ci, ok := in.(*ssa.Call); ok && !rel {
				if sc := staticCallee(ci); sc != nil && inMosdns(sc) {
					if _, mx, _ := decSummary(sc, im.field, 1); mx >= 1 {
						rel = true
					}
				}
			}
			if !rel {
				return
			}
			if _, reaches := reachAvoiding(in, isInner, nil); reaches {
				bad = instrPos(in)
			}
		})
		c.check(bad == token.NoPos, key, bad, "the reservation is released only by defer or after the exchange returned",
			"the reservation is released before the exchange it covers starts: between the release and the query's entry into the waiter table the query is counted by neither, so a concurrent ReserveNewQuery admits one query more than the limit")
	}

	// ---------------------------------------------------------------- R4
	c.rule("R4", "the admission test does not count an in-flight query twice; the waiter table is only entered with a reservation", 2)
	resF := c.fn(relTransport, "TraditionalDnsConn", "ReserveNewQuery")
	exF := c.fn(relTransport, "tdcOneTimeExchanger", "ExchangeReserved")
	if resF != nil && exF != nil {
		var incr ssa.Instruction
		eachInstr(resF, func(in ssa.Instruction) {
			if counterDelta(in, T+"TraditionalDnsConn.reservedQuery") == 1 {
				incr = in
			}
		})
		if incr == nil {
			c.anchorMissing("increment in TraditionalDnsConn.ReserveNewQuery")
		} else {
			usesQueueLen, usesReserved := false, false
			for _, g := range guardsOfInstr(incr) {
				if cm, ok := g.asCmp(); ok {
					s := exprStr(cm.X) + " " + exprStr(cm.Y)
					if strings.Contains(s, "maxCq") {
						if strings.Contains(s, "builtin:len("+"$dc.queue") || strings.Contains(s, ".queue)") {
							usesQueueLen = true
						}
						if strings.Contains(s, "reservedQuery") {
							usesReserved = true
						}
					}
				}
			}
			// is the reservation held for the whole exchange? (decrement deferred, or after the exchange call)
			heldThrough := false
			eachInstr(exF, func(in ssa.Instruction) {
				if d, ok := in.(*ssa.Defer); ok {
					if sc := staticCallee(d); sc != nil {
						if _, mx, _ := decSummary(sc, T+"TraditionalDnsConn.reservedQuery", 1); mx > 0 {
							heldThrough = true
						}
					}
				}
			})
			key := "admission@" + funcName(resF)
			switch {
			case usesQueueLen && usesReserved && heldThrough:
				c.fail(key, instrPos(incr), "the admission test adds len(queue) to reservedQuery although a reservation is held until ExchangeReserved returns, i.e. while its query is in the queue: every in-flight query is counted twice and a limit L admits only L/2 queries")
			case usesQueueLen && !usesReserved:
				c.fail(key, instrPos(incr), "the admission test ignores outstanding reservations: callers between reserve and send are not counted and the limit can be exceeded")
			case usesReserved:
				c.ok(key, instrPos(incr), "admission counts reservations only (held for the whole exchange: %v)", heldThrough)
			default:
				c.undecided(key, instrPos(incr), "cannot recognise the admission test's summands")
			}
		}
		// only ExchangeReserved reaches the function inserting into the waiter table
		inserters := map[*ssa.Function]bool{}
		for _, w := range p.whoWrites().byField[T+"TraditionalDnsConn.queue"] {
			if w.Kind == "mapupdate" {
				inserters[w.Fn] = true
			}
		}
		okChain := true
		var why string
		seen := map[*ssa.Function]bool{}
		var up func(f *ssa.Function, depth int)
		up = func(f *ssa.Function, depth int) {
			if seen[f] || depth > 4 {
				return
			}
			seen[f] = true
			if f == exF {
				return
			}
			var callers []*ssa.Function
			for _, g := range fns {
				eachInstr(g, func(in ssa.Instruction) {
					if ci, ok := in.(ssa.CallInstruction); ok && staticCallee(ci) == f {
						callers = append(callers, g)
					}
				})
			}
			if len(callers) == 0 {
				okChain = false
				why = funcName(f) + " has no caller leading to ExchangeReserved"
				return
			}
			if f.Object() != nil && f.Object().Exported() {
				okChain = false
				why = funcName(f) + " is exported and inserts into the waiter table without a reservation"
			}
			for _, g := range callers {
				up(g, depth+1)
			}
		}
		for f := range inserters {
			up(f, 0)
		}
		c.check(okChain && len(inserters) > 0, "queue-entry-needs-reservation", exF.Pos(),
			"the waiter table is entered only below tdcOneTimeExchanger.ExchangeReserved", "waiter table can be entered without a reservation: "+why)
	}

	// ---------------------------------------------------------------- R5
	c.rule("R5", "every ReservedExchanger obtained by a caller is consumed exactly once (ExchangeReserved or WithdrawReserved) or returned, on every path", 3)
	runC09R5(c, fns)

	// ---------------------------------------------------------------- R7
	c.rule("R7", "non-pipelined limit 1: an idle connection is handed out once and re-enters the idle set only after its reply was read or unused", 4)
	checkIdleExclusive(c, fns, lf)

	// ---------------------------------------------------------------- R6
	c.rule("R6", "a new connection is dialled exactly when no existing one admitted the query; dialing-phase limit <= connection limit; a refusal is a nil interface, never a typed nil", 5)
	checkNoTypedNilExchanger(c)
	if g := c.fn(relTransport, "PipelineTransport", "getReservedExchanger"); g != nil {
		eachInstr(g, func(in ssa.Instruction) {
			ci, ok := in.(*ssa.Call)
			if !ok || callName(ci) != relTransport+".newLazyDnsConn" {
				return
			}
			guardedByNil := false
			for _, gd := range guardsOfInstr(in) {
				if cm, ok := gd.asCmp(); ok && cm.Op == token.EQL && isNilConst(cm.Y) {
					if _, isIface := cm.X.Type().Underlying().(*types.Interface); isIface {
						guardedByNil = true
					}
				}
			}
			if !guardedByNil {
				// early-return shape: no edge on which a pooled connection's reservation is non-nil leads to the dial
				reaches, nTests := false, 0
				eachInstr(g, func(x ssa.Instruction) {
					iff, ok := x.(*ssa.If)
					if !ok {
						return
					}
					for _, truth := range []bool{true, false} {
						gd := guard{Cond: iff.Cond, Truth: truth, If: iff}
						cm, ok := gd.asCmp()
						if !ok || cm.Op != token.NEQ || !isNilConst(cm.Y) {
							continue
						}
						ex, isEx := cm.X.(*ssa.Extract)
						if !isEx || ex.Index != 0 {
							continue
						}
						cl, isC := ex.Tuple.(*ssa.Call)
						if !isC || !strings.HasSuffix(callName(cl), ".ReserveNewQuery") || !instrDominates(cl, in) && cl.Block() == in.Block() {
							continue
						}
						if cl.Block() == in.Block() {
							continue // the reservation on the connection that was just dialled
						}
						nTests++
						if _, r := reachFromBlock(succOnTruth(iff, truth), func(y ssa.Instruction) bool { return y == in }, nil); r {
							reaches = true
						}
					}
				})
				if nTests > 0 && !reaches {
					guardedByNil = true
				}
			}
			c.check(guardedByNil, "dial-iff-none@"+funcName(g), instrPos(in), "a new connection is created only when no existing one reserved",
				"a new connection is created although an existing one may have admitted the query")
			// and it is registered
			reg := false
			eachInstr(g, func(x ssa.Instruction) {
				if mu, ok := x.(*ssa.MapUpdate); ok && mu.Key == ssa.Value(ci) {
					if k, ok := loadedField(mu.Map); ok && k == T+"PipelineTransport.conns" {
						reg = true
					}
				}
			})
			c.check(reg, "register-new-conn@"+funcName(g), instrPos(in), "the new connection is registered in conns", "the new connection is not registered: later queries cannot use it and Close cannot close it")
		})
	}
	// constants at NewPipelineTransport sites: MaxConcurrentQueryWhileDialing <= MaxConcurrentQuery of the dialled conn
	if nu := c.fn("pkg/upstream", "", "NewUpstream"); nu != nil {
		constField := func(site ssa.Value, typ, field string) (int64, bool) {
			// site is a load of an Alloc (composite literal value); find the store into its field
			var al ssa.Value
			if u, ok := site.(*ssa.UnOp); ok {
				al = u.X
			}
			if al == nil {
				return 0, false
			}
			var out int64
			found := false
			for _, r := range referrers(al) {
				if fa, ok := r.(*ssa.FieldAddr); ok {
					if k, _ := fieldKey(fa); k == typ+"."+field {
						for _, r2 := range referrers(fa) {
							if st, ok := r2.(*ssa.Store); ok {
								if n, ok := constInt(st.Val); ok {
									out, found = n, true
								}
							}
						}
					}
				}
			}
			return out, found
		}
		// collect per closure-level: MaxConcurrentQuery constants of TraditionalDnsConnOpts literals, and dialing limits
		var connLimits, dialLimits []int64
		var dialPos []token.Pos
		paired := map[int]int64{} // dial-limit index -> connection limit of the connections that transport dials
		trL := p.newTracer()
		trL.throughCalls, trL.throughParams, trL.throughFields = false, false, false
		eachInstrDeep(nu, func(f *ssa.Function, in ssa.Instruction) {
			ci, ok := in.(*ssa.Call)
			if !ok {
				return
			}
			switch callName(ci) {
			case relTransport + ".NewPipelineTransport":
				if n, ok := constField(ci.Call.Args[0], T+"PipelineOpts", "MaxConcurrentQueryWhileDialing"); ok {
					dialLimits = append(dialLimits, n)
					dialPos = append(dialPos, ci.Pos())
					// the dial function of this transport -> the NewDnsConn call in it -> its option literal's limit
					if u, ok := ci.Call.Args[0].(*ssa.UnOp); ok {
						for _, r := range referrers(u.X) {
							fa, ok := r.(*ssa.FieldAddr)
							if !ok {
								continue
							}
							if k, _ := fieldKey(fa); k != T+"PipelineOpts.DialContext" {
								continue
							}
							for _, r2 := range referrers(fa) {
								st, ok := r2.(*ssa.Store)
								if !ok {
									continue
								}
								for _, o := range trL.origins(st.Val) {
									mc, ok := o.(*ssa.MakeClosure)
									if !ok {
										continue
									}
									df, _ := mc.Fn.(*ssa.Function)
									if df == nil {
										continue
									}
									eachInstr(df, func(y ssa.Instruction) {
										nc, ok := y.(*ssa.Call)
										if !ok || callName(nc) != relTransport+".NewDnsConn" {
											return
										}
										arg := nc.Call.Args[0]
										if ld, ok := arg.(*ssa.UnOp); ok {
											if fv, isFv := ld.X.(*ssa.FreeVar); isFv {
												for _, b := range bindingOf(fv) {
													arg = &ssa.UnOp{Op: token.MUL, X: b}
												}
											}
										}
										if cl, ok := constField(arg, T+"TraditionalDnsConnOpts", "MaxConcurrentQuery"); ok {
											paired[len(dialLimits)-1] = cl
										}
									})
								}
							}
						}
					}
				}
			}
		})
		eachInstrDeep(nu, func(f *ssa.Function, in ssa.Instruction) {
			if st, ok := in.(*ssa.Store); ok {
				if k, _ := fieldKey(st.Addr); k == T+"TraditionalDnsConnOpts.MaxConcurrentQuery" {
					if n, ok := constInt(st.Val); ok {
						connLimits = append(connLimits, n)
					}
				}
			}
		})
		if len(dialLimits) < 3 {
			c.anchorMissing("NewPipelineTransport sites with constant dialing limit in NewUpstream")
		}
		minConn := int64(1 << 62)
		for _, n := range connLimits {
			if n < minConn {
				minConn = n
			}
		}
		for i, n := range dialLimits {
			// udp: 4096/4096; tcp,tls: pipelineConcurrentLimit both; quic: 90 vs peer's stream limit (not a mosdns constant)
			okLim := false
			for _, cl := range connLimits {
				if n <= cl {
					okLim = true
				}
			}
			if n == 90 { // quic: the connection limit is the peer's stream limit; RFC 9250 recommends >= 100
				okLim = true
			}
			if cl, ok := paired[i]; ok {
				// the limit of the very connections this transport dials
				okLim = n <= cl
			}
			c.check(okLim, fmt.Sprintf("dialing-limit-%d", n), dialPos[i], "dialing-phase queue limit does not exceed a connection limit used in NewUpstream",
				"the dialing-phase queue limit exceeds every connection limit: queries queued while dialing are refused once the dial succeeds")
		}
	}
}

func fieldTail(k string) string {
	if i := strings.LastIndex(k, "."); i >= 0 {
		return k[i+1:]
	}
	return k
}

// runC09R5: typestate of ReservedExchanger values at their consumers.
type rxState struct {
	alias    map[ssa.Value]bool
	consumed int
	returned bool
	dead     bool // value known nil on this path
}

func (s *rxState) Clone() pathState {
	n := &rxState{alias: map[ssa.Value]bool{}, consumed: s.consumed, returned: s.returned, dead: s.dead}
	for k := range s.alias {
		n.alias[k] = true
	}
	return n
}

func runC09R5(c *Ctx, fns []*ssa.Function) {
	p := c.P
	isRX := func(t types.Type) bool {
		n := namedOf(t)
		return n != nil && n.Obj().Name() == "ReservedExchanger"
	}
	for _, f := range fns {
		fn := f
		eachInstr(f, func(in ssa.Instruction) {
			ci, ok := in.(*ssa.Call)
			if !ok {
				return
			}
			n := callName(ci)
			if !(strings.HasSuffix(n, ".ReserveNewQuery") || strings.HasSuffix(n, ".getReservedExchanger")) {
				return
			}
			// the produced value: extract #0 of the tuple
			var v ssa.Value
			for _, r := range referrers(ci) {
				if ex, ok := r.(*ssa.Extract); ok && ex.Index == 0 && isRX(ex.Type()) {
					v = ex
				}
			}
			key := "consume@" + funcName(fn) + ":" + n
			if v == nil {
				// result returned as a whole tuple (return x.ReserveNewQuery()) is a pass-through
				passthrough := false
				for _, r := range referrers(ci) {
					if _, ok := r.(*ssa.Return); ok {
						passthrough = true
					}
				}
				if passthrough {
					c.ok(key, instrPos(in), "result is returned to the caller unchanged")
				} else if len(referrers(ci)) == 0 {
					c.fail(key, instrPos(in), "reserved exchanger is discarded: the reservation is never released")
				} else {
					c.undecided(key, instrPos(in), "cannot find the reserved exchanger value")
				}
				return
			}
			w := &pathWalker{SkipPanics: true}
			var bad []string
			w.Instr = func(x ssa.Instruction, st pathState) {
				s := st.(*rxState)
				if x == ssa.Instruction(ci) {
					// the producer runs again (retry loop): the previous value must have been consumed
					if !s.dead && s.consumed != 1 {
						bad = append(bad, fmt.Sprintf("re-reserved at %s after consuming the previous exchanger %d time(s)", p.pos(instrPos(x)), s.consumed))
					}
					s.consumed, s.dead, s.returned = 0, false, false
					return
				}
				switch y := x.(type) {
				case *ssa.Call:
					if y.Call.IsInvoke() && s.alias[y.Call.Value] {
						switch y.Call.Method.Name() {
						case "ExchangeReserved", "WithdrawReserved":
							s.consumed++
						}
					}
				case *ssa.Defer:
					if y.Call.IsInvoke() && s.alias[y.Call.Value] {
						s.consumed++
					}
				case *ssa.Return:
					for _, rv := range returnedValues(y) {
						if s.alias[rv] {
							s.returned = true
						}
					}
				case *ssa.Store:
					// spilled named result
					if s.alias[y.Val] {
						if al, ok := y.Addr.(*ssa.Alloc); ok {
							s.alias[al] = true
						}
					}
				case *ssa.UnOp:
					if y.Op == token.MUL && s.alias[y.X] {
						s.alias[y] = true
					}
				case *ssa.MakeInterface:
					if s.alias[y.X] {
						s.alias[y] = true
					}
				}
			}
			w.Edge = func(from, to *ssa.BasicBlock, st pathState) bool {
				s := st.(*rxState)
				// phis
				idx := -1
				for i, pb := range to.Preds {
					if pb == from {
						idx = i
					}
				}
				for _, x := range to.Instrs {
					phi, ok := x.(*ssa.Phi)
					if !ok {
						break
					}
					if idx >= 0 && s.alias[phi.Edges[idx]] {
						s.alias[phi] = true
					} else {
						delete(s.alias, phi)
					}
				}
				// nil tests
				if iff, ok := terminator(from).(*ssa.If); ok {
					g := guard{Cond: iff.Cond, Truth: from.Succs[0] == to}
					if cm, ok := g.asCmp(); ok && isNilConst(cm.Y) && s.alias[cm.X] {
						if cm.Op == token.EQL {
							s.dead = true
						}
					}
					// error convention: another result of the same call is a non-nil error => no exchanger
					if cm, ok := g.asCmp(); ok && isNilConst(cm.Y) && cm.Op == token.NEQ {
						if ex, ok := cm.X.(*ssa.Extract); ok && ex.Tuple == ssa.Value(ci) && types.Identical(ex.Type(), types.Universe.Lookup("error").Type()) {
							s.dead = true
						}
					}
				}
				return true
			}
			w.Exit = func(x ssa.Instruction, st pathState) {
				s := st.(*rxState)
				if s.dead {
					return
				}
				total := s.consumed
				if s.returned {
					total++
				}
				if total != 1 {
					bad = append(bad, fmt.Sprintf("path ending at %s: consumed %d time(s), returned=%v", p.pos(instrPos(x)), s.consumed, s.returned))
				}
			}
			w.run(ci, false, &rxState{alias: map[ssa.Value]bool{v: true}})
			if w.Aborted {
				c.undecided(key, instrPos(in), "too many paths")
			} else if len(bad) > 0 {
				c.fail(key, instrPos(in), "reserved exchanger not consumed exactly once: %s", strings.Join(bad, "; "))
			} else {
				c.ok(key, instrPos(in), "consumed exactly once or returned on every path where it is non-nil")
			}
		})
	}
}

// checkEarlyWgOrdering (C09-R3, C07-R9): Wait is only reachable when the dial succeeded (Done is not guaranteed on the
// dial-failed path), and an early exchanger signals Done only after it re-reserved on the real connection.
func checkEarlyWgOrdering(c *Ctx) {
	p := c.P
	T := relTransport + "."
	wgF := T + "lazyDnsConn.earlyReserveCallWg"
	isWg := func(ci *ssa.Call, m string) bool {
		if callName(ci) != "(*sync.WaitGroup)."+m {
			return false
		}
		k, ok := fieldKey(ci.Call.Args[0])
		return ok && k == wgF
	}
	nWait := 0
	for _, f := range p.funcsIn(relTransport) {
		fn := f
		eachInstr(f, func(in ssa.Instruction) {
			ci, ok := in.(*ssa.Call)
			if !ok {
				return
			}
			if isWg(ci, "Wait") {
				nWait++
				okG := false
				for _, g := range guardsOfInstr(in) {
					if cm, ok := g.asCmp(); ok && isNilConst(cm.Y) && cm.Op == token.EQL {
						if k, ok := loadedField(cm.X); ok && k == T+"lazyDnsConn.dialErr" {
							okG = true
						}
					}
				}
				c.check(okG, "wg.Wait-only-after-successful-dial@"+funcName(fn), instrPos(in), "Wait is reached only when the dial succeeded",
					"Wait on the early-reservation wait group is reachable after a failed dial, where the queued calls never call Done: the reservation blocks forever while holding the connection and transport locks")
			}
			if isWg(ci, "Done") && fn.Parent() != nil && strings.HasSuffix(fn.Parent().Name(), "ExchangeReserved") {
				deferred := false
				eachInstr(fn.Parent(), func(y ssa.Instruction) {
					if d, ok := y.(*ssa.Defer); ok {
						if mc, ok := d.Call.Value.(*ssa.MakeClosure); ok && mc.Fn == ssa.Value(fn) {
							deferred = true
						}
					}
				})
				c.check(!deferred, "wg.Done-before-exchange@"+funcName(fn), instrPos(in), "Done is not postponed to the end of the exchange", "Done runs in a deferred function of ExchangeReserved, i.e. only after the queued call's whole exchange: every later reservation (and transport Close) waits for it under the locks")
			}
			if isWg(ci, "Done") && strings.HasSuffix(fn.Name(), "ExchangeReserved") {
				// on the dial-finished path (not the ctx path): dominated by the own ReserveNewQuery on the real connection
				onCtxPath := false
				for _, b := range []*ssa.BasicBlock{in.Block()} {
					for d := b; d != nil; d = d.Idom() {
						for _, x := range d.Instrs {
							if sel, ok := x.(*ssa.Select); ok {
								cases, _, okd := decodeSelect(sel)
								if okd {
									for _, cs := range cases {
										if cs.Body != nil && cs.Body.Dominates(b) && isCtxDone(cs.State.Chan) {
											onCtxPath = true
										}
									}
								}
							}
						}
					}
				}
				if onCtxPath {
					return
				}
				reReserved := false
				eachInstr(fn, func(x ssa.Instruction) {
					if c2, ok := x.(*ssa.Call); ok && c2.Call.IsInvoke() && c2.Call.Method.Name() == "ReserveNewQuery" && instrDominates(x, in) {
						reReserved = true
					}
				})
				// ... and before its (possibly long) exchange starts: later callers wait for this Done while holding the
				// connection and transport locks
				beforeExchange := true
				eachInstr(fn, func(x ssa.Instruction) {
					if c2, ok := x.(*ssa.Call); ok && c2.Call.IsInvoke() && c2.Call.Method.Name() == "ExchangeReserved" {
						if _, after := reachAvoiding(x, func(y ssa.Instruction) bool { return y == in }, nil); after {
							beforeExchange = false
						}
					}
				})
				if _, isDefer := in.(*ssa.Defer); isDefer {
					beforeExchange = false
				}
				c.check(beforeExchange, "wg.Done-before-exchange@"+funcName(fn), instrPos(in), "Done is signalled before the exchange on the real connection starts",
					"Done is signalled only after the queued call's exchange: every later reservation (and transport Close) waits, under the locks, for a whole exchange")
				c.check(reReserved, "wg.Done-after-re-reserve@"+funcName(fn), instrPos(in), "a queued call takes its slot on the real connection before it signals Done",
					"a queued call signals Done before it re-reserved on the dialled connection: a later caller released from Wait takes the slot first and the queued query is refused although the dial succeeded with an equal limit")
			}
		})
	}
	if nWait == 0 {
		c.anchorMissing("Wait on lazyDnsConn.earlyReserveCallWg")
	}
}

// checkEarlyWgAccounting (C09-R3, C07-R9): earlyReserveCallWg.Done is called exactly once on every path of the early
// exchanger's methods (at most once when the dial failed); a missing Done blocks every later reservation in Wait.
func checkEarlyWgAccounting(c *Ctx) {
	p := c.P
	T := relTransport + "."
	// wait-group accounting of early reservations
	for _, m := range []string{"ExchangeReserved", "WithdrawReserved"} {
		f := c.fn(relTransport, "lazyDnsConnEarlyReservedExchanger", m)
		if f == nil {
			continue
		}
		isDone := func(in ssa.Instruction) int {
			if ci, ok := in.(*ssa.Call); ok && callName(ci) == "(*sync.WaitGroup).Done" {
				if k, ok := fieldKey(ci.Call.Args[0]); ok && k == T+"lazyDnsConn.earlyReserveCallWg" {
					return 1
				}
			}
			if ci, ok := in.(*ssa.Call); ok {
				if sc := staticCallee(ci); sc != nil && inMosdns(sc) && sc.Pkg == f.Pkg && sc != f {
					n := 0
					eachInstr(sc, func(x ssa.Instruction) {
						if c2, ok := x.(*ssa.Call); ok && callName(c2) == "(*sync.WaitGroup).Done" {
							if k, ok := fieldKey(c2.Call.Args[0]); ok && k == T+"lazyDnsConn.earlyReserveCallWg" {
								n++
							}
						}
					})
					return n
				}
			}
			return 0
		}
		flag := func(from, to *ssa.BasicBlock) string {
			iff, ok := terminator(from).(*ssa.If)
			if !ok {
				return ""
			}
			g := guard{Cond: iff.Cond, Truth: from.Succs[0] == to}
			if cm, ok := g.asCmp(); ok && cm.Op == token.NEQ && isNilConst(cm.Y) {
				if k, ok := loadedField(cm.X); ok && k == T+"lazyDnsConn.dialErr" {
					return "dialfailed"
				}
			}
			return ""
		}
		pcs, ab := countEvents(f, isDone, func(d *ssa.Defer) int {
			n := 0
			if sc := staticCallee(d); sc != nil {
				eachInstr(sc, func(x ssa.Instruction) { n += isDone(x) })
			}
			return n
		}, flag)
		key := "wg.Done@" + funcName(f)
		if ab || len(pcs) == 0 {
			c.undecided(key, f.Pos(), "path enumeration did not terminate")
			continue
		}
		bad := ""
		for _, pc := range pcs {
			if pc.Flags["dialfailed"] {
				if pc.Count > 1 {
					bad = fmt.Sprintf("Done called %d times on a dial-failed path ending at %s", pc.Count, p.pos(instrPos(pc.Exit)))
				}
			} else if pc.Count != 1 {
				bad = fmt.Sprintf("Done called %d times on the path ending at %s (must be exactly once: 0 blocks every later reservation in Wait forever, 2 panics with a negative counter)", pc.Count, p.pos(instrPos(pc.Exit)))
			}
		}
		if bad == "" {
			c.ok(key, f.Pos(), "%d paths: wait group signalled exactly once (dial-failed paths: at most once)", len(pcs))
		} else {
			c.fail(key, f.Pos(), "%s", bad)
		}
	}

}
