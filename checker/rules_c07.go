package main

import (
	"fmt"
	"go/token"
	"go/types"
	"strings"

	"golang.org/x/tools/go/ssa"
)

func init() {
	register(&propDef{
		ID: "C07",
		Explanation: "Decides the structural conditions of 'exchanges always terminate; Close releases everything' in the transport and DoH packages: (R1) every blocking select has a case on a " +
			"context's Done(); (R2) the reply waits also wake on the connection's close notification, and the wait of a query queued on a dialing connection wakes on dial-finished, which " +
			"Close closes; (R3) every error from reading or writing the connection reaches the close-with-error routine on that path; (R4) the close notification is closed and the socket " +
			"closed only inside a sync.Once, after the close error was stored; (R5) transport Close sets the closed flag under the lock, closes every registered connection and cancels pending " +
			"dials; exchanges test the flag under the lock; a dial completing after Close closes what it dialled; (R6) every goroutine started here terminates: readers return on a read error, " +
			"one-shot goroutines send only on buffered channels or under a select with a Done case, dials run under a bounded context; (R7) a bounded deadline (constant <= 10 s, or the idle " +
			"timeout in the reader) is armed before every wait for the peer, the waiting flag is cleared by every read and guards the short deadline; (R8) a freshly dialled connection is on " +
			"every path stored, returned or closed; (R9) wait-group accounting of early reservations (a missed Done blocks Close and all later calls forever). Actual timing is not decided.",
		Assumptions: []string{"net.Conn deadlines interrupt blocked Read/Write", "sync.Once semantics"},
		Run:         runC07,
	})
}

func isCtxDone(v ssa.Value) bool {
	cl, ok := v.(*ssa.Call)
	return ok && callName(cl) == "invoke:(context.Context).Done"
}

func runC07(c *Ctx) {
	p := c.P
	T := relTransport + "."
	fns := p.funcsIn(relTransport, relDoh)
	c.see(fns...)
	lf := p.newLockFacts()
	lf.analyseScope(p.funcsIn(relTransport))
	cn := closeNotifyFields(p, relTransport)

	// ---------------------------------------------------------------- R1 / R2
	c.rule("R1", "every blocking select waits on a context's Done()", 7)
	type waitSel struct {
		f   *ssa.Function
		sel *ssa.Select
	}
	var replyWaits []waitSel
	var earlyWait *waitSel
	for _, f := range fns {
		fn := f
		eachInstr(f, func(in ssa.Instruction) {
			sel, ok := in.(*ssa.Select)
			if !ok || !sel.Blocking {
				return
			}
			has := false
			for _, st := range sel.States {
				if st.Dir == types.RecvOnly && isCtxDone(st.Chan) {
					has = true
				}
				if st.Dir == types.RecvOnly && isReplyChanType(st.Chan.Type()) {
					replyWaits = append(replyWaits, waitSel{fn, sel})
				}
				if k, ok := loadedField(st.Chan); ok && k == T+"lazyDnsConn.dialFinished" {
					earlyWait = &waitSel{fn, sel}
				}
			}
			c.check(has, "select@"+funcName(fn), instrPos(in), "has a ctx.Done() case", "a blocking select without a context case: the call cannot be cancelled and may hang forever")
		})
		// plain blocking receives / sends outside select
		eachInstr(f, func(in ssa.Instruction) {
			if u, ok := in.(*ssa.UnOp); ok && u.Op == token.ARROW {
				c.fail("recv@"+funcName(fn), instrPos(in), "a plain blocking receive (no select with a context case)")
			}
		})
	}
	c.rule("R2", "reply waits wake on the close notification; the queued wait wakes on dial-finished, which Close closes", 3)
	for _, w := range replyWaits {
		has := false
		for _, st := range w.sel.States {
			if k, ok := loadedField(st.Chan); ok && cn[k] {
				has = true
			}
		}
		// a reply wait fed by a one-shot reader goroutine on a stream (quic) has no connection-level notifier
		if strings.Contains(funcName(w.f), "quic") || strings.Contains(funcName(w.f), "doh") {
			continue
		}
		c.check(has, "reply-wait@"+funcName(w.f), instrPos(w.sel), "wakes on closeNotify", "the wait for a reply does not wake when the connection is closed: pending calls hang until their context ends (forever with an unbounded context)")
	}
	if earlyWait == nil {
		c.fail("early-wait", 0, "no wait on dialFinished found for queries queued on a dialing connection")
	} else {
		// lazyDnsConn.Close closes dialFinished (when still dialing) and cancels the dial
		if cl := c.fn(relTransport, "lazyDnsConn", "Close"); cl != nil {
			closes, cancels := false, false
			eachInstr(cl, func(in ssa.Instruction) {
				if ci, ok := isCall(in, "builtin:close"); ok {
					if k, _ := loadedField(ci.Common().Args[0]); k == T+"lazyDnsConn.dialFinished" {
						closes = true
					}
				}
				if ci, ok := in.(*ssa.Call); ok && callName(ci) == "dynamic" {
					if k, _ := loadedField(ci.Call.Value); k == T+"lazyDnsConn.cancelDial" {
						cancels = true
					}
				}
			})
			c.check(closes && cancels, "early-wait-woken-by-close", cl.Pos(), "Close of a dialing connection cancels the dial and closes dialFinished",
				fmt.Sprintf("Close of a dialing connection must cancel the dial and close dialFinished (closes: %v, cancels: %v): queued calls are not woken", closes, cancels))
		}
	}

	if nl := c.fn(relTransport, "", "newLazyDnsConn"); nl != nil {
		good := false
		for _, a := range nl.AnonFuncs {
			eachInstr(a, func(in ssa.Instruction) {
				ci, ok := isCall(in, "builtin:close")
				if !ok {
					return
				}
				if k, _ := loadedField(ci.Common().Args[0]); k != T+"lazyDnsConn.dialFinished" {
					return
				}
				cSet, eSet := false, false
				eachInstr(a, func(x ssa.Instruction) {
					if st, ok := x.(*ssa.Store); ok && instrDominates(x, in) {
						switch k, _ := fieldKey(st.Addr); k {
						case T + "lazyDnsConn.c":
							cSet = true
						case T + "lazyDnsConn.dialErr":
							eSet = true
						}
					}
				})
				good = cSet && eSet
			})
		}
		c.check(good, "dial-result-published-before-signal", nl.Pos(), "the dialled connection and the dial error are stored before dialFinished is closed",
			"dialFinished is closed before the dial result is stored: queued calls woken by it read a nil connection / nil error")
	}

	// ---------------------------------------------------------------- R3
	c.rule("R3", "every connection read/write error leads to close-with-error on that path", 5)
	ioFns := checkIOErrorCloses(c)

	// ---------------------------------------------------------------- R4
	c.rule("R4", "closeNotify is closed and the socket closed only inside sync.Once.Do, after closeErr is set", 4)
	onceClosures := map[*ssa.Function]bool{}
	for _, f := range p.funcsIn(relTransport) {
		eachInstr(f, func(in ssa.Instruction) {
			if ci, ok := in.(*ssa.Call); ok && callName(ci) == "(*sync.Once).Do" {
				if mc, ok := ci.Call.Args[1].(*ssa.MakeClosure); ok {
					onceClosures[mc.Fn.(*ssa.Function)] = true
				}
			}
		})
	}
	for _, f := range p.funcsIn(relTransport) {
		fn := f
		eachInstr(f, func(in ssa.Instruction) {
			ci, ok := isCall(in, "builtin:close")
			if !ok {
				return
			}
			k, ok := loadedField(ci.Common().Args[0])
			if !ok || !cn[k] || !strings.HasSuffix(k, ".closeNotify") {
				return
			}
			key := "close-notify@" + funcName(fn)
			inOnce := onceClosures[fn]
			// closeErr stored before
			errField := strings.TrimSuffix(k, "closeNotify") + "closeErr"
			stored := closeErrStoredFor(p, fn, in, errField)
			c.check(inOnce && stored, key, instrPos(in), "inside Once.Do, after closeErr was stored",
				fmt.Sprintf("close(closeNotify) must run inside sync.Once.Do (%v) after closeErr is stored (%v): a second close panics, or waiters read a nil error", inOnce, stored))
		})
	}

	for _, f := range p.funcsIn(relTransport) {
		fn := f
		eachInstr(f, func(in ssa.Instruction) {
			ci, ok := in.(*ssa.Call)
			if !ok || !ci.Call.IsInvoke() || ci.Call.Method.Name() != "Close" {
				return
			}
			k, ok := loadedField(ci.Call.Value)
			if !ok || !(k == T+"TraditionalDnsConn.c" || k == T+"reusableConn.c") {
				return
			}
			c.check(onceClosures[fn], "socket-close@"+funcName(fn), instrPos(in), "the socket is closed inside Once.Do", "the underlying socket is closed outside the close-once routine: waiters are not notified / double close")
		})
	}

	// ---------------------------------------------------------------- R5
	c.rule("R5", "transport Close: flag under lock, all connections closed, dials cancelled; exchanges test the flag; late dials are closed", 8)
	for _, tn := range []string{"PipelineTransport", "ReuseConnTransport"} {
		cl := c.fn(relTransport, tn, "Close")
		if cl == nil {
			continue
		}
		lock := T + tn + ".m"
		flag := T + tn + ".closed"
		conns := T + tn + ".conns"
		setFlag, rangesConns, closesEach := false, false, false
		eachInstr(cl, func(in ssa.Instruction) {
			if st, ok := in.(*ssa.Store); ok {
				if k, _ := fieldKey(st.Addr); k == flag {
					if b, ok := constBool(st.Val); ok && b && lf.held(in)[lock] == lockW {
						setFlag = true
					}
				}
			}
			if rg, ok := in.(*ssa.Range); ok {
				if k, _ := loadedField(rg.X); k == conns {
					rangesConns = true
					// a Close-like call on the key inside the loop
					for _, r := range referrers(rg) {
						nx, ok := r.(*ssa.Next)
						if !ok {
							continue
						}
						for _, r2 := range referrers(nx) {
							ex, ok := r2.(*ssa.Extract)
							if !ok || ex.Index != 1 {
								continue
							}
							for _, r3 := range referrers(ex) {
								if ci, ok := r3.(*ssa.Call); ok && len(ci.Call.Args) > 0 && ci.Call.Args[0] == ssa.Value(ex) {
									n := callName(ci)
									if strings.HasSuffix(n, ").Close") || strings.Contains(n, "closeWithErr") {
										closesEach = true
									}
								}
							}
						}
					}
				}
			}
		})
		c.check(setFlag, "close-flag@"+tn, cl.Pos(), "closed = true under the transport lock", "Close does not set the closed flag under the lock: later calls still create connections")
		c.check(rangesConns && closesEach, "close-all@"+tn, cl.Pos(), "every registered connection is closed", "Close does not close every registered connection: connections and reader goroutines leak, pending calls hang")
	}
	if cl := c.fn(relTransport, "ReuseConnTransport", "Close"); cl != nil {
		cancels := false
		eachInstr(cl, func(in ssa.Instruction) {
			if ci, ok := in.(*ssa.Call); ok && callName(ci) == "dynamic" {
				if k, _ := loadedField(ci.Call.Value); k == T+"ReuseConnTransport.ctxCancel" {
					cancels = true
				}
			}
		})
		c.check(cancels, "cancel-dials@ReuseConnTransport", cl.Pos(), "pending dials are cancelled", "Close does not cancel pending dials")
	}
	// entry checks
	for _, e := range []struct{ recv, fn, flag, lock string }{
		{"PipelineTransport", "getReservedExchanger", T + "PipelineTransport.closed", T + "PipelineTransport.m"},
		{"ReuseConnTransport", "getIdleConn", T + "ReuseConnTransport.closed", T + "ReuseConnTransport.m"},
		{"ReuseConnTransport", "newReusableConn", T + "ReuseConnTransport.closed", T + "ReuseConnTransport.m"},
	} {
		f := c.fn(relTransport, e.recv, e.fn)
		if f == nil {
			continue
		}
		// the flag is read under the lock and a true flag leads to an error/nil return without touching the sets
		var iff *ssa.If
		eachInstr(f, func(in ssa.Instruction) {
			if i, ok := in.(*ssa.If); ok {
				if k, _ := loadedField(i.Cond); k == e.flag && lf.held(in)[e.lock] == lockW {
					iff = i
				}
			}
		})
		good := false
		if iff != nil {
			_, touches := reachFromBlock(iff.Block().Succs[0], func(x ssa.Instruction) bool {
				_, isMU := x.(*ssa.MapUpdate)
				_, isRg := x.(*ssa.Range)
				return isMU || isRg
			}, nil)
			good = !touches
		}
		c.check(good, "closed-check@"+e.recv+"."+e.fn, f.Pos(), "tests closed under the lock and bails out", "does not test the closed flag under the lock before using/registering a connection: a call after Close creates a connection nobody will close")
	}
	// a dial completing after Close closes what it dialled
	if nl := c.fn(relTransport, "", "newLazyDnsConn"); nl != nil {
		good := false
		for _, a := range nl.AnonFuncs {
			eachInstr(a, func(in ssa.Instruction) {
				iff, ok := in.(*ssa.If)
				if !ok {
					return
				}
				if k, _ := loadedField(iff.Cond); k != T+"lazyDnsConn.closed" {
					return
				}
				// on the closed branch every path to return closes a non-nil dc
				if _, found := reachFromBlock(iff.Block().Succs[0], func(x ssa.Instruction) bool {
					ci, ok := x.(*ssa.Call)
					return ok && ci.Call.IsInvoke() && ci.Call.Method.Name() == "Close"
				}, nil); found {
					good = true
				}
			})
		}
		c.check(good, "late-dial-closed@newLazyDnsConn", nl.Pos(), "a connection dialled after Close is closed", "a dial that completes after Close leaves its connection open")
	}

	// ---------------------------------------------------------------- R6
	c.rule("R6", "every goroutine terminates: readers exit on read errors; one-shot sends cannot block; dials are bounded", 6)
	for _, f := range fns {
		fn := f
		eachInstr(f, func(in ssa.Instruction) {
			g, ok := in.(*ssa.Go)
			if !ok {
				return
			}
			target := staticCallee(g)
			key := "go@" + funcName(fn)
			if target == nil {
				c.undecided(key, instrPos(in), "goroutine target is not static")
				return
			}
			key += "->" + target.Name()
			// (a) reader loop: has a loop; every iteration reads; read error -> return
			hasLoop := false
			for _, b := range target.Blocks {
				for _, s := range b.Succs {
					if s.Dominates(b) {
						hasLoop = true
					}
				}
			}
			if hasLoop {
				// every cycle passes a frame read whose error leads to return
				exits := false
				isReadCall := func(y ssa.Instruction) bool {
					ci, ok := y.(*ssa.Call)
					if !ok {
						return false
					}
					n := callName(ci)
					if n == "pkg/dnsutils.ReadRawMsgFromTCP" || n == relTransport+".readMsgUdp" {
						return true
					}
					sc := staticCallee(ci)
					return sc != nil && ioFns[sc]
				}
				eachInstr(target, func(x ssa.Instruction) {
					ci, ok := x.(*ssa.Call)
					if !ok {
						return
					}
					n := callName(ci)
					isRead := n == "pkg/dnsutils.ReadRawMsgFromTCP" || n == relTransport+".readMsgUdp"
					if sc := staticCallee(ci); sc != nil && ioFns[sc] {
						isRead = true
					}
					if !isRead {
						return
					}
					for _, r := range referrers(ci) {
						ex, ok := r.(*ssa.Extract)
						if !ok || ex.Type().String() != "error" {
							continue
						}
						for _, ev := range withMergingPhis(ex) {
							for _, r2 := range referrers(ev) {
								if bo, ok := r2.(*ssa.BinOp); ok && bo.Op == token.NEQ {
									for _, r3 := range referrers(bo) {
										if iff, ok := r3.(*ssa.If); ok {
											if _, loops := reachFromBlock(iff.Block().Succs[0], func(y ssa.Instruction) bool { return y == x }, nil); !loops {
												exits = true
											}
										}
									}
								}
							}
						}
					}
					// no cycle avoids this read
					if exits {
						for _, b := range target.Blocks {
							for _, s := range b.Succs {
								if s.Dominates(b) { // back edge b->s
									// (alternative reads — `if tcp { readA } else { readB }` — count as one read point)
									if _, skip := reachFromBlock(s, func(y ssa.Instruction) bool { return y == terminator(b) }, func(y ssa.Instruction) bool { return y == x || isReadCall(y) }); skip && s != b {
										// some cycle may avoid the read: check precisely that the read dominates the back edge source
										if !instrDominates(x, terminator(b)) {
											exits = false
										}
									}
								}
							}
						}
					}
				})
				c.check(exits, key, instrPos(in), "reader loop: every iteration reads, and a read error ends the goroutine", "the reader goroutine's loop does not end on a read error")
				return
			}
			// (b) one-shot: sends
			okSends := true
			why := ""
			eachInstr(target, func(x ssa.Instruction) {
				switch y := x.(type) {
				case *ssa.Send:
					tr := p.newTracer()
					tr.throughParams, tr.throughFields, tr.throughCalls = false, false, false
					for _, r := range tr.originsNH(y.Chan) {
						mk, ok := r.(*ssa.MakeChan)
						n, isC := int64(0), false
						if ok {
							n, isC = constInt(mk.Size)
						}
						if !ok || !isC || n < 1 {
							okSends, why = false, "a plain send on an unbuffered channel: if the caller already returned the goroutine blocks forever"
						}
					}
				case *ssa.Select:
					if y.Blocking {
						has := false
						for _, st := range y.States {
							if st.Dir == types.RecvOnly && isCtxDone(st.Chan) {
								has = true
							}
						}
						if !has {
							okSends, why = false, "a blocking select without a Done case"
						}
						if has {
							if ok2, w := handOffOutlivedByReceiver(p, fn, y); !ok2 {
								okSends, why = false, w
							}
						}
					}
				}
			})
			// (c) dials under a bounded context
			eachInstr(target, func(x ssa.Instruction) {
				ci, ok := x.(*ssa.Call)
				if !ok || callName(ci) != "dynamic" || len(ci.Call.Args) == 0 {
					return
				}
				if ci.Call.Args[0].Type().String() != "context.Context" {
					return
				}
				tr := p.newTracer()
				tr.throughParams, tr.throughFields, tr.throughCalls = false, false, false
				for _, r := range tr.origins(ci.Call.Args[0]) {
					ex, ok := r.(*ssa.Extract)
					if !ok {
						okSends, why = false, "a dial runs under an unbounded context"
						continue
					}
					cl, ok := ex.Tuple.(*ssa.Call)
					if !ok || callName(cl) != "context.WithTimeout" {
						okSends, why = false, "a dial runs under a context without timeout"
					}
				}
			})
			c.check(okSends, key, instrPos(in), "one-shot goroutine: sends cannot block forever, dials are bounded", why)
		})
	}

	// the read helpers themselves: an error from the connection's Read ends the read (no retry loop that swallows the
	// deadline error the reader relies on to notice a dead or idle connection)
	for _, rf := range []struct{ rel, name string }{{relTransport, "readMsgUdp"}, {relDnsutils, "ReadRawMsgFromTCP"}} {
		f := c.fn(rf.rel, "", rf.name)
		if f == nil {
			continue
		}
		n := 0
		eachInstr(f, func(in ssa.Instruction) {
			ci, ok := in.(*ssa.Call)
			if !ok {
				return
			}
			isRead := (ci.Call.IsInvoke() && ci.Call.Method.Name() == "Read") || callName(ci) == "io.ReadFull"
			if !isRead {
				return
			}
			n++
			ok2, why := errCheckedAndReturned(ci)
			c.check(ok2, "read-error-ends-read@"+rf.name, instrPos(in), "a read error is returned to the reader loop on every path",
				"a read error does not end "+rf.name+" on every path ("+why+"): an expired read deadline (a temporary error) is swallowed, the reader never closes the connection and waiting calls are never woken")
		})
		if n == 0 {
			c.anchorMissing("connection read in " + rf.name)
		}
	}

	// ---------------------------------------------------------------- R11
	c.rule("R11", "dialFinished is closed at most once: by the dial goroutine (not closed yet) or by Close while still dialing (no connection, no dial error), both under lc.mu", 2)
	{
		LD := T + "lazyDnsConn."
		n := 0
		for _, f := range p.funcsIn(relTransport) {
			fn := f
			eachInstr(f, func(in ssa.Instruction) {
				ci, ok := isCall(in, "builtin:close")
				if !ok {
					return
				}
				if k, ok := loadedField(ci.Common().Args[0]); !ok || k != LD+"dialFinished" {
					return
				}
				n++
				key := "close-dialFinished@" + funcName(fn)
				if lf.held(in)[LD+"mu"] != lockW {
					c.fail(key, instrPos(in), "dialFinished is closed without holding lc.mu: the two closers are not mutually exclusive")
					return
				}
				notClosed, noConn, noErr := false, false, false
				for _, g := range guardsOfInstr(in) {
					if v, truth := g.asBool(); v != nil && !truth {
						if k, _ := loadedField(v); k == LD+"closed" {
							notClosed = true
						}
					}
					if cm, ok := g.asCmp(); ok && cm.Op == token.EQL && isNilConst(cm.Y) {
						switch k, _ := loadedField(cm.X); k {
						case LD + "c":
							noConn = true
						case LD + "dialErr":
							noErr = true
						}
					}
				}
				if fn.Parent() != nil { // the dial goroutine
					c.check(notClosed, key, instrPos(in), "the dial goroutine closes dialFinished only when Close has not run", "the dial goroutine closes dialFinished although Close may already have closed it (close of closed channel)")
					return
				}
				c.check(notClosed && noConn && noErr, key, instrPos(in), "Close closes dialFinished only while still dialing (not closed, no connection, no dial error)",
					fmt.Sprintf("Close closes dialFinished without establishing that the dial is still in progress (not closed before: %v, c == nil: %v, dialErr == nil: %v): after a dial that ended (e.g. with an error) the channel is closed a second time and Close panics, leaving the remaining connections open", notClosed, noConn, noErr))
			})
		}
		if n == 0 {
			c.anchorMissing("close(dialFinished)")
		}
	}

	// ---------------------------------------------------------------- R12
	c.rule("R12", "closing the lazy wrapper closes what it holds: after the closed flag is set every path cancels the dial (still dialing) or closes the established connection, unless there is none", 1)
	if lcClose := c.fn(relTransport, "lazyDnsConn", "Close"); lcClose != nil {
		LD := T + "lazyDnsConn."
		var flagStore ssa.Instruction
		eachInstr(lcClose, func(in ssa.Instruction) {
			if st, ok := in.(*ssa.Store); ok {
				if k, _ := fieldKey(st.Addr); k == LD+"closed" {
					if b, isB := constBool(st.Val); isB && b {
						flagStore = in
					}
				}
			}
		})
		if flagStore == nil {
			c.anchorMissing("lc.closed = true in lazyDnsConn.Close")
		} else {
			isRelease := func(x ssa.Instruction) bool {
				ci, ok := x.(ssa.CallInstruction)
				if !ok {
					return false
				}
				if cc, ok := x.(*ssa.Call); ok && cc.Call.IsInvoke() && cc.Call.Method.Name() == "Close" {
					if k, _ := loadedField(cc.Call.Value); k == LD+"c" {
						return true
					}
				}
				if callName(ci) == "builtin:close" {
					if k, _ := loadedField(ci.Common().Args[0]); k == LD+"dialFinished" {
						return true
					}
				}
				return false
			}
			// walk the CFG from the flag store; an edge that establishes lc.c == nil needs no close; a release ends a path
			leak := false
			seen := map[*ssa.BasicBlock]bool{}
			var walk func(b *ssa.BasicBlock, from int)
			walk = func(b *ssa.BasicBlock, from int) {
				for i := from; i < len(b.Instrs); i++ {
					x := b.Instrs[i]
					if isRelease(x) {
						return
					}
					if isExit(x) {
						leak = true
						return
					}
				}
				iff, _ := terminator(b).(*ssa.If)
				for si, succ := range b.Succs {
					if iff != nil {
						g := guard{Cond: iff.Cond, Truth: si == 0, If: iff}
						if cm, ok := g.asCmp(); ok && cm.Op == token.EQL && isNilConst(cm.Y) {
							if k, _ := loadedField(cm.X); k == LD+"c" {
								continue // no connection on this edge
							}
						}
					}
					if !seen[succ] {
						seen[succ] = true
						walk(succ, 0)
					}
				}
			}
			walk(flagStore.Block(), idxInBlock(flagStore)+1)
			c.check(!leak, "close-releases-held@lazyDnsConn", instrPos(flagStore), "every path closes the connection, cancels the dial, or has no connection",
				"lazyDnsConn.Close can return without closing an established connection (a path that neither calls lc.c.Close() nor tests lc.c == nil): transport Close leaves that socket and its reader goroutine alive and pending calls are not woken")
		}
	}

	// ---------------------------------------------------------------- R13
	c.rule("R13", "dial closures of the upstreams hand their context to every blocking network step (no context-less handshake or dial that Close / a timeout cannot interrupt)", 1)
	{
		deny := map[string]bool{
			"(*crypto/tls.Conn).Handshake": true, "net.Dial": true, "net.DialTimeout": true, "(*net.Dialer).Dial": true,
			"crypto/tls.Dial": true, "(*crypto/tls.Dialer).Dial": true, "net.DialUDP": false, "net.DialTCP": true,
		}
		n := 0
		bad := ""
		var badPos token.Pos
		for _, f := range p.funcsIn(relUpstream) {
			fn := f
			eachInstr(f, func(in ssa.Instruction) {
				ci, ok := in.(ssa.CallInstruction)
				if !ok {
					return
				}
				cn := callName(ci)
				if strings.HasSuffix(cn, "Context") || strings.Contains(cn, "HandshakeContext") || strings.Contains(cn, "DialContext") {
					n++
				}
				if deny[cn] && bad == "" {
					bad, badPos = cn+" in "+funcName(fn), instrPos(in)
				}
			})
		}
		// a TLS client connection is handshaken under the dial context before the dial function hands it out (else the
		// handshake runs inside the first Write, where neither the caller's context nor Close can interrupt it)
		for _, f := range p.funcsIn(relUpstream) {
			fn := f
			eachInstr(f, func(in ssa.Instruction) {
				ci, ok := in.(*ssa.Call)
				if !ok || callName(ci) != "crypto/tls.Client" {
					return
				}
				n++
				var hs ssa.Instruction
				eachInstr(fn, func(y ssa.Instruction) {
					if c2, ok := y.(*ssa.Call); ok && callName(c2) == "(*crypto/tls.Conn).HandshakeContext" && c2.Call.Args[0] == ssa.Value(ci) {
						hs = y
					}
				})
				okHS := hs != nil
				if okHS {
					// every non-nil hand-out of the connection comes after the handshake
					for _, r := range returnsOf(fn) {
						rv := returnedValues(r)
						if len(rv) > 0 && !isNilConst(rv[0]) && !instrDominates(hs, r) {
							okHS = false
						}
					}
				}
				if !okHS && bad == "" {
					bad, badPos = "a tls.Client connection that is handed out without HandshakeContext(ctx) in "+funcName(fn), instrPos(in)
				}
			})
		}
		c.see(p.funcsIn(relUpstream)...)
		if bad != "" {
			c.fail("ctx-aware-network-steps@upstream", badPos, "%s — the step ignores the dial context: a server that accepts the connection and then stalls keeps the dial (and every call queued on it) blocked beyond the dial timeout, and Close cannot interrupt it", bad)
		} else {
			c.check(n > 0, "ctx-aware-network-steps@upstream", 0, fmt.Sprintf("%d context-taking network steps, no context-less dial or handshake", n), "no context-taking network step found in pkg/upstream")
		}
	}

	// a Done() case reports the error of the context that fired (else (nil, nil) and a nil dereference in the caller)
	c.cur = c.Prop + "-R1"
	checkDoneCaseReportsOwnCtx(c, fns)

	// ---------------------------------------------------------------- R7
	c.rule("R7", "bounded deadlines are armed before waiting for the peer; the waiting flag is maintained", 6)
	if ex := c.fn(relTransport, "TraditionalDnsConn", "exchange"); ex != nil {
		checkWaitingDeadlineArmed(c, lf, ex)
	}
	if rl := c.fn(relTransport, "TraditionalDnsConn", "readLoop"); rl != nil {
		// The flag says "some query is still unanswered". It is rewritten (D11, D13) after every successful read with
		// exactly `len(queue) > 0`, in the critical section (queueMu, write mode) in which the answered query was taken
		// out of the queue: a count that includes the answered query, answered-but-not-yet-returned queries or the
		// reservation counter leaves the flag set for ever (no exchange arms the short deadline again, D13); a plain
		// `false` forgets the other waiters (D11); a store outside the critical section can overwrite the CAS of a query
		// that registered in between.
		queueK := T + "TraditionalDnsConn.queue"
		muK := T + "TraditionalDnsConn.queueMu"
		storers := map[*ssa.Function]bool{}
		nStores := 0
		for _, f := range p.funcsIn(relTransport) {
			fn := f
			eachInstr(f, func(in ssa.Instruction) {
				ci, ok := in.(*ssa.Call)
				if !ok || callName(ci) != "(*sync/atomic.Bool).Store" {
					return
				}
				if k, _ := fieldKey(ci.Call.Args[0]); k != T+"TraditionalDnsConn.waitingResp" {
					return
				}
				nStores++
				c.see(fn)
				key := "waiting-flag-tracks-waiters@" + funcName(fn)
				why := ""
				// value: len(<queue field>) > 0
				bo, ok := ci.Call.Args[1].(*ssa.BinOp)
				if !ok || bo.Op != token.GTR {
					why = "the stored value is " + exprStr(ci.Call.Args[1]) + ", not `len(queue) > 0`"
				} else if n, okc := constInt(bo.Y); !okc || n != 0 {
					why = "the count is not compared with > 0"
				} else if lc, okl := bo.X.(*ssa.Call); !okl || callName(lc) != "builtin:len" {
					why = "the count is " + exprStr(bo.X) + ", not the number of registered waiters (len(queue)): it also counts reservations or answered queries, so the flag never drops"
				} else if k, okk := loadedField(lc.Call.Args[0]); !okk || k != queueK {
					why = "the count is the length of " + exprStr(lc.Call.Args[0]) + ", not of the waiter table"
				}
				// under the write lock of the table
				if why == "" && lf.held(in)[muK] != lockW {
					why = "the flag is stored outside the waiter table's critical section (held: " + lf.held(in).String() + "): a query that registers and fails its CompareAndSwap in between is then left with the idle deadline only"
				}
				// the answered query is out of the table before the count: a delete of the looked-up key, guarded at most
				// by the lookup's ok, precedes the store and none follows it
				if why == "" {
					var del ssa.Instruction
					eachInstr(fn, func(x ssa.Instruction) {
						if cc, ok := x.(*ssa.Call); ok && callName(cc) == "builtin:delete" {
							if k, _ := baseFieldOfContainer(cc.Call.Args[0]); k == queueK {
								del = x
							}
						}
					})
					if del == nil {
						why = "the answered query is still in the table when the waiters are counted: the flag stays set after the last reply"
					} else {
						lenCall := ssa.Instruction(bo.X.(*ssa.Call))
						if _, after := reachAvoiding(lenCall, func(x ssa.Instruction) bool { return x == del }, nil); after {
							why = "the waiters are counted before the answered query is taken out of the table"
						}
						for _, g := range guardsOfInstr(del) {
							v, truth := g.asBool()
							ex, isEx := v.(*ssa.Extract)
							if !isEx || !truth || ex.Index != 1 {
								why = "the answered query is taken out only under " + guardText(g) + ": otherwise it is still counted as waiting"
								continue
							}
							if lk, isLk := ex.Tuple.(*ssa.Lookup); !isLk || !sameKeyValue(lk.Index, del.(*ssa.Call).Call.Args[1]) {
								why = "the entry taken out is not the one that was looked up"
							}
						}
						if _, skip := reachAvoiding(fn.Blocks[0].Instrs[0], func(x ssa.Instruction) bool { return x == lenCall }, func(x ssa.Instruction) bool { return x == del }); skip {
							// a path to the store without the delete: only the "no such query" edge may do that
							okEdge := len(guardsOfInstr(del)) == 1
							if !okEdge {
								why = "a path reaches the count without taking the answered query out of the table"
							}
						}
					}
				}
				if why == "" && len(guardsOfInstr(in)) == 0 {
					storers[fn] = true
				}
				c.check(why == "", key, instrPos(in), "the flag is `len(queue) > 0`, stored under the table's lock after the answered query was taken out (D11, D13)",
					"after a reply the waiting flag does not say whether other queries are still unanswered ("+why+"): either an unanswered query keeps only the idle deadline and blocks an unbounded caller for the whole idle timeout (D11), or the flag never drops and later queries inherit what is left of an old deadline and lose replies that arrive in time (D13)")
			})
		}
		if nStores == 0 {
			c.fail("waiting-flag-tracks-waiters@readLoop", rl.Pos(), "the waiting flag is never rewritten after a reply: no exchange arms the short deadline again")
		}
		// every successful read passes a storer before the next read
		var readIn ssa.Instruction
		eachInstr(rl, func(in ssa.Instruction) {
			if ci, ok := in.(*ssa.Call); ok {
				if sc := staticCallee(ci); sc != nil && ioFns[sc] {
					readIn = in
				}
			}
			if isDirectIO(in) {
				readIn = in
			}
		})
		everyRead := readIn != nil
		if readIn != nil {
			isStore := func(x ssa.Instruction) bool {
				if ci, ok := x.(*ssa.Call); ok {
					if sc := staticCallee(ci); sc != nil && storers[sc] {
						return true
					}
				}
				return isExit(x)
			}
			if _, skip := reachAvoiding(readIn, func(x ssa.Instruction) bool { return x == readIn }, isStore); skip {
				everyRead = false
			}
		}
		c.check(everyRead, "waiting-flag-cleared@readLoop", rl.Pos(), "every successful read rewrites the waiting flag",
			"the reader does not rewrite the waiting flag after every read: either no exchange arms the short deadline again, or an unanswered query keeps only the idle deadline")
	}
	if rl := c.fn(relTransport, "TraditionalDnsConn", "readLoop"); rl != nil {
		// two writers of the read deadline (exchange: short, reader: idle): the reader must not leave the idle
		// deadline armed while a reply is awaited — after arming a non-constant (idle) deadline it re-checks
		// the waiting flag and re-arms the constant short one before it blocks in the read.
		var idleArms, shortArms []ssa.Instruction
		var read ssa.Instruction
		eachInstr(rl, func(in ssa.Instruction) {
			ci, ok := in.(*ssa.Call)
			if !ok {
				return
			}
			if ci.Call.IsInvoke() && ci.Call.Method.Name() == "SetReadDeadline" {
				if _, okD := deadlineConst(ci.Call.Args[0]); okD {
					shortArms = append(shortArms, in)
				} else {
					idleArms = append(idleArms, in)
				}
			}
			if sc := staticCallee(ci); sc != nil && ioFns[sc] {
				read = in
			}
			if isDirectIO(in) {
				read = in
			}
		})
		for _, ia := range idleArms {
			good := false
			for _, sa := range shortArms {
				if !instrDominates(ia, sa) || read == nil {
					continue
				}
				if _, reaches := reachAvoiding(sa, func(x ssa.Instruction) bool { return x == read }, func(x ssa.Instruction) bool { return x == ia }); !reaches {
					continue
				}
				for _, g := range guardsOfInstr(sa) {
					v, truth := g.asBool()
					if cl, ok := v.(*ssa.Call); ok && truth && callName(cl) == "(*sync/atomic.Bool).Load" {
						if k, _ := fieldKey(cl.Call.Args[0]); k == T+"TraditionalDnsConn.waitingResp" && instrDominates(ia, cl) {
							good = true
						}
					}
				}
			}
			c.check(good, "reader-keeps-short-deadline@readLoop", instrPos(ia), "after arming the idle deadline the reader re-arms the short one when a reply is awaited",
				"the reader arms the idle deadline without re-checking the waiting flag: when it runs after exchange() armed the 10 s waiting-reply deadline (first query on a new connection) a silent server blocks the query for the whole idle timeout")
		}
	}
	if ex := c.fn(relTransport, "reusableConn", "exchange"); ex != nil {
		// every deadline call of the exchange arms a bounded constant, one of them dominates every write, and none
		// follows the write (a deadline cleared or prolonged after the query went out leaves a silent server unbounded)
		var dls, writes []ssa.Instruction
		desc, allConst := "", true
		eachInstr(ex, func(in ssa.Instruction) {
			ci, ok := in.(*ssa.Call)
			if !ok || !ci.Call.IsInvoke() {
				return
			}
			switch ci.Call.Method.Name() {
			case "SetDeadline", "SetReadDeadline":
				dls = append(dls, in)
				d, okD := deadlineConst(ci.Call.Args[0])
				desc = d
				if !okD {
					allConst = false
				}
			case "Write":
				writes = append(writes, in)
			}
		})
		good := len(dls) > 0 && len(writes) > 0 && allConst
		why := ""
		if !good {
			why = "no bounded deadline is armed before writing the query on a reused connection (deadline argument: " + desc + ")"
		}
		for _, w := range writes {
			dom := false
			for _, d := range dls {
				if instrDominates(d, w) {
					dom = true
				}
				if _, after := reachAvoiding(w, func(y ssa.Instruction) bool { return y == d }, nil); after {
					good = false
					why = "a read deadline is set again (" + p.pos(d.Pos()) + ") after the query was written: the bound armed for the reply no longer holds"
				}
			}
			if !dom {
				good = false
				if why == "" {
					why = "a write of the query is not preceded by arming the deadline on every path"
				}
			}
		}
		c.check(good, "query-deadline@reusableConn.exchange", ex.Pos(), "a constant deadline ("+desc+") is armed before the query is written and not touched afterwards", why)
	}
	if ex := c.fn(relTransport, "quicReservedExchanger", "ExchangeReserved"); ex != nil {
		good := false
		desc := ""
		eachInstr(ex, func(in ssa.Instruction) {
			ci, ok := in.(*ssa.Call)
			if !ok || !ci.Call.IsInvoke() || ci.Call.Method.Name() != "SetDeadline" {
				return
			}
			d, okD := deadlineConst(ci.Call.Args[0])
			desc = d
			if okD {
				good = true
			}
		})
		c.check(good, "query-deadline@quic", ex.Pos(), "stream deadline ("+desc+") armed", "no bounded stream deadline is armed for a DoQ query")
	}
	if rl := c.fn(relTransport, "reusableConn", "readLoop"); rl != nil {
		// the reader arms the idle deadline after each reply, and only BEFORE it hands the connection back to the idle
		// set: once the connection is idle an exchange may have armed its own (short) deadline, which the reader must not
		// override
		var dls, idles, reads []ssa.Instruction
		eachInstr(rl, func(in ssa.Instruction) {
			ci, ok := in.(*ssa.Call)
			if !ok {
				return
			}
			if ci.Call.IsInvoke() && (ci.Call.Method.Name() == "SetReadDeadline" || ci.Call.Method.Name() == "SetDeadline") {
				dls = append(dls, in)
			}
			if sc := staticCallee(ci); sc != nil {
				if sc.Name() == "setIdle" {
					idles = append(idles, in)
				}
				if sc.Name() == "ReadRawMsgFromTCP" {
					reads = append(reads, in)
				}
			}
		})
		good := len(dls) > 0 && len(idles) > 0 && len(reads) > 0
		why := "an idle reused connection has no read deadline"
		for _, id := range idles {
			dom := false
			for _, d := range dls {
				if instrDominates(d, id) {
					dom = true
				}
				if _, late := reachAvoiding(id, func(y ssa.Instruction) bool { return y == d }, func(y ssa.Instruction) bool {
					for _, r := range reads {
						if y == r {
							return true
						}
					}
					return false
				}); late {
					good = false
					why = "the reader sets a read deadline (" + p.pos(d.Pos()) + ") after it put the connection back into the idle set: it can override the deadline the next exchange armed for its query, and a silent server then blocks that query for the idle timeout"
				}
			}
			if !dom {
				good = false
				why = "the connection is handed back to the idle set without arming the idle deadline first"
			}
		}
		for _, d := range dls {
			// the deadline is armed only once a reply was read (not before the read: that would cut a slow reply short or
			// override the query deadline)
			domByRead := false
			for _, r := range reads {
				if instrDominates(r, d) {
					domByRead = true
				}
			}
			if !domByRead {
				good = false
				why = "the reader sets a read deadline (" + p.pos(d.Pos()) + ") before its read: it overrides the deadline the exchange armed for the awaited reply"
			}
		}
		c.check(good, "idle-deadline@reusableConn.readLoop", rl.Pos(), "idle deadline re-armed after each reply, before the connection becomes idle", why)
	}

	checkWaitingDeadlineUnconditional(c)

	// ---------------------------------------------------------------- R14
	c.rule("R14", "Close releases what the upstream was built on: the UDP sockets (and QUIC transports) of doq / h3 upstreams are closed with the upstream", 1)
	checkQuicSocketsClosed(c)

	// ---------------------------------------------------------------- R8
	c.rule("R8", "a freshly dialled connection is stored, returned or closed on every path", 2)
	for _, f := range p.funcsIn(relTransport) {
		fn := f
		eachInstr(f, func(in ssa.Instruction) {
			ci, ok := in.(*ssa.Call)
			if !ok || callName(ci) != "dynamic" {
				return
			}
			// a call of a dial function value: result 0 is a closer (DnsConn / NetConn), result 1 error
			sig, ok := ci.Call.Value.Type().Underlying().(*types.Signature)
			if !ok || sig.Results().Len() != 2 {
				return
			}
			rn := typeKey(sig.Results().At(0).Type())
			if rn != T+"DnsConn" && rn != T+"NetConn" {
				return
			}
			var conn ssa.Value
			for _, r := range referrers(ci) {
				if ex, ok := r.(*ssa.Extract); ok && ex.Index == 0 {
					conn = ex
				}
			}
			key := "dialled@" + funcName(fn)
			if conn == nil {
				c.fail(key, instrPos(in), "the dialled connection is discarded")
				return
			}
			// on every path to exit: stored into a field / passed to a constructor that registers it / closed / known nil
			consumed := func(x ssa.Instruction) bool {
				switch y := x.(type) {
				case *ssa.Store:
					return y.Val == conn
				case *ssa.Call:
					if y.Call.IsInvoke() && y.Call.Value == conn && y.Call.Method.Name() == "Close" {
						return true
					}
					for _, a := range y.Call.Args {
						if a == conn && staticCallee(y) != nil {
							return true
						}
					}
				case *ssa.If:
					// conn == nil branch: nothing to release — handled by edge pruning below
				}
				return false
			}
			leak := false
			w := &pathWalker{SkipPanics: true}
			type st struct{ done, dead bool }
			w.Instr = func(x ssa.Instruction, s pathState) {
				if consumed(x) {
					s.(*flagState).done = true
				}
			}
			w.Edge = func(from, to *ssa.BasicBlock, s pathState) bool {
				if iff, ok := terminator(from).(*ssa.If); ok {
					g := guard{Cond: iff.Cond, Truth: from.Succs[0] == to}
					if cm, ok := g.asCmp(); ok && cm.X == conn && isNilConst(cm.Y) && cm.Op == token.EQL {
						s.(*flagState).done = true
					}
					// a constructor that took the connection but returned nil did not take ownership
					if cm, ok := g.asCmp(); ok && isNilConst(cm.Y) && cm.Op == token.EQL {
						if cl, ok := cm.X.(*ssa.Call); ok && staticCallee(cl) != nil {
							for _, a := range cl.Call.Args {
								if a == conn {
									s.(*flagState).done = false
								}
							}
						}
					}
				}
				return true
			}
			w.Exit = func(x ssa.Instruction, s pathState) {
				if !s.(*flagState).done {
					leak = true
				}
			}
			w.run(ci, false, &flagState{})
			c.check(!leak && !w.Aborted, key, instrPos(in), "stored, handed to its owner, or closed on every path", "a dialled connection can be dropped without being closed or registered: its socket and reader leak and Close cannot reach it")
		})
	}

	// ---------------------------------------------------------------- R10
	c.rule("R10", "lock order is acyclic (no potential deadlock between transport, connection and queue locks); no new blocking operation under a mutex", 2)
	{
		tscope := p.funcsIn(relTransport)
		lo := newLockOrder(p, tscope, lf)
		lo.build()
		cycles := lo.cycles()
		if len(cycles) == 0 {
			c.ok("lock-order", 0, "acyclic: %s", strings.Join(lo.describe(), "; "))
		}
		for _, cyc := range cycles {
			c.fail("lock-order", cyc[0].Pos, "lock-order cycle: %s — two goroutines taking these locks in opposite order (or one re-taking a held mutex) block forever, and with them Close and every later call", fmtCycle(p, cyc))
		}
		if len(lo.Edges) == 0 {
			c.anchorMissing("nested lock acquisitions in the transport package")
		}
		// blocking operations under a lock: frozen table (role: function + kind); anything else is new
		allowed := map[string]string{
			"(*" + T + "lazyDnsConn).ReserveNewQuery|WaitGroup.Wait": "by design: queued calls re-reserve first; bounded because Wait is only reached after a successful dial and every queued call signals Done exactly once (R9)",
		}
		seen := map[string]bool{}
		for _, b := range blockingUnderLock(tscope, lf) {
			k := funcName(b.Fn) + "|" + b.What
			seen[k] = true
			if why, ok := allowed[k]; ok {
				c.ok("blocking-under-lock@"+funcName(b.Fn), instrPos(b.In), "%s under %s: %s", b.What, b.Held, why)
			} else {
				c.fail("blocking-under-lock@"+funcName(b.Fn), instrPos(b.In), "%s while holding %s: every caller needing that mutex (including Close) hangs as long as this blocks", b.What, b.Held)
			}
		}
		for k := range allowed {
			if !seen[k] {
				c.ok("blocking-under-lock:"+k, 0, "listed site no longer blocks under a lock")
			}
		}
	}

	// ---------------------------------------------------------------- R9
	c.rule("R9", "early-reservation wait-group accounting (a missing Done blocks every later call and Close forever)", 2)
	checkEarlyWgAccounting(c)
	checkEarlyWgOrdering(c)
}

type flagState struct{ done bool }

func (f *flagState) Clone() pathState { return &flagState{done: f.done} }

// callName2: callName of a value that is a call.
func callName2(v ssa.Value) (string, bool) {
	cl, ok := v.(*ssa.Call)
	if !ok {
		return "", false
	}
	return callName(cl), true
}

// handOffOutlivedByReceiver: a one-shot goroutine hands its result to the function that started it over an
// unbuffered channel inside `select { case ch <- v: ; case <-X.Done(): }`. The goroutine is only guaranteed to end if
// the Done case fires whenever the receiver has left. That holds when (A) X is a context created in the receiver
// (context.WithCancel/WithTimeout/WithDeadline) whose cancel function the receiver defers, or (B) every other arm
// through which the receiver's select can leave waits on a context the goroutine's select watches too.
func handOffOutlivedByReceiver(p *Prog, parent *ssa.Function, sel *ssa.Select) (bool, string) {
	tr := p.newTracer()
	tr.throughParams, tr.throughFields, tr.throughCalls = false, false, false
	var sendCh ssa.Value
	for _, st := range sel.States {
		if st.Dir != types.SendOnly {
			continue
		}
		for _, r := range tr.origins(st.Chan) {
			mk, ok := r.(*ssa.MakeChan)
			if !ok || mk.Parent() != parent {
				continue
			}
			if n, isC := constInt(mk.Size); isC && n >= 1 {
				continue // buffered: the send cannot block
			}
			sendCh = mk
		}
	}
	if sendCh == nil {
		return true, ""
	}
	ctxRoots := func(done ssa.Value) []ssa.Value {
		cl, ok := done.(*ssa.Call)
		if !ok || !cl.Call.IsInvoke() {
			return nil
		}
		return tr.origins(cl.Call.Value)
	}
	mine := map[ssa.Value]bool{}
	for _, st := range sel.States {
		if st.Dir == types.RecvOnly && isCtxDone(st.Chan) {
			for _, r := range ctxRoots(st.Chan) {
				mine[r] = true
			}
		}
	}
	// (A) receiver-scoped context with deferred cancel
	for r := range mine {
		ex, ok := r.(*ssa.Extract)
		if !ok || ex.Index != 0 {
			continue
		}
		cl, ok := ex.Tuple.(*ssa.Call)
		if !ok || cl.Parent() != parent {
			continue
		}
		switch callName(cl) {
		case "context.WithCancel", "context.WithTimeout", "context.WithDeadline", "context.WithCancelCause":
		default:
			continue
		}
		deferred := false
		eachInstr(parent, func(in ssa.Instruction) {
			d, ok := in.(*ssa.Defer)
			if !ok {
				return
			}
			if e2, ok := d.Call.Value.(*ssa.Extract); ok && e2.Tuple == ex.Tuple && e2.Index == 1 {
				deferred = true
			}
		})
		if deferred {
			return true, ""
		}
	}
	// (B) every other arm of the receiver's select is watched by the goroutine too
	var recvSel *ssa.Select
	eachInstr(parent, func(in ssa.Instruction) {
		s2, ok := in.(*ssa.Select)
		if !ok {
			return
		}
		for _, st := range s2.States {
			if st.Dir == types.RecvOnly {
				for _, r := range tr.origins(st.Chan) {
					if r == sendCh {
						recvSel = s2
					}
				}
			}
		}
	})
	if recvSel == nil {
		return false, "the goroutine hands its result over on an unbuffered channel, but the receiving select was not found"
	}
	for _, st := range recvSel.States {
		if st.Dir != types.RecvOnly {
			continue
		}
		isMine := false
		for _, r := range tr.origins(st.Chan) {
			if r == sendCh {
				isMine = true
			}
		}
		if isMine {
			continue
		}
		if !isCtxDone(st.Chan) {
			return false, "the receiver can leave through " + exprStr(st.Chan) + " while the goroutine is still blocked in its unbuffered send"
		}
		for _, r := range ctxRoots(st.Chan) {
			same := mine[r]
			if _, isLoad := r.(*ssa.UnOp); isLoad && !same {
				// a context kept in a field (t.ctx): the goroutine's load and the receiver's load are
				// different values of the same field of the same object
				objOf := func(v ssa.Value) (string, map[ssa.Value]bool) {
					u, ok := v.(*ssa.UnOp)
					if !ok || u.Op != token.MUL {
						return "", nil
					}
					fa, ok := u.X.(*ssa.FieldAddr)
					if !ok {
						return "", nil
					}
					k, _ := fieldKey(fa)
					bs := map[ssa.Value]bool{}
					for _, b := range tr.origins(fa.X) {
						bs[b] = true
					}
					return k, bs
				}
				rk, rb := objOf(r)
				for m := range mine {
					mk, mb := objOf(m)
					if rk == "" || mk != rk {
						continue
					}
					for b := range mb {
						if rb[b] {
							same = true
						}
					}
				}
			}
			if !same {
				var ms []string
				for m := range mine {
					ms = append(ms, exprStr(m))
				}
				_ = ms
				return false, "the receiver can leave through " + exprStr(st.Chan) + " [root " + exprStr(r) + "; goroutine watches " + strings.Join(ms, ", ") + "] (e.g. the transport was closed) while the goroutine's hand-off select only watches another context: the goroutine stays blocked on the unbuffered channel until that context ends, for a background context forever"
			}
		}
	}
	return true, ""
}

// checkIOErrorCloses implements C07-R3 / C08-R5: every read/write error on a connection object reaches the
// connection's close-with-error on every path (so the dead connection leaves the pool and wakes its waiters).
// Returns the pure I/O helpers (functions that do connection I/O without handling its errors).
func checkIOErrorCloses(c *Ctx) map[*ssa.Function]bool {
	p := c.P
	T := relTransport + "."
	closers := map[string]bool{"(*" + T + "TraditionalDnsConn).CloseWithErr": true, "(*" + T + "reusableConn).closeWithErr": true}
	closerFns := map[*ssa.Function]bool{}
	isCloser := func(in ssa.Instruction) bool {
		if g, isGo := in.(*ssa.Go); isGo && closers[callNameCommon(&g.Call)] && asyncCloseObserved(c, g) {
			return true // closed in a goroutine, but the caller waits for the reader's exit before it leaves (D39)
		}
		ci, ok := in.(*ssa.Call)
		if !ok {
			return false
		}
		if closers[callName(ci)] {
			return true
		}
		sc := staticCallee(ci)
		return sc != nil && closerFns[sc]
	}
	// wrappers: a function all of whose paths pass a closer is a closer itself (fixpoint)
	for changed := true; changed; {
		changed = false
		for _, f := range p.funcsIn(relTransport) {
			if closerFns[f] || len(f.Blocks) == 0 || closers[funcName(f)] {
				continue
			}
			if _, leak := reachFromBlock(f.Blocks[0], isExit, isCloser); !leak {
				closerFns[f] = true
				changed = true
			}
		}
	}
	// I/O operations on a connection object: Write invoke on field c, frame readers on field c, and in-package helpers doing so
	ioFns := map[*ssa.Function]bool{}
	for _, f := range p.funcsIn(relTransport) {
		has := false
		handles := false
		eachInstr(f, func(in ssa.Instruction) {
			if isDirectIO(in) {
				has = true
			}
			if isCloser(in) {
				handles = true
			}
		})
		if has && !handles {
			ioFns[f] = true // pure I/O helper (writeQuery, readResp): obligations at its call sites
		}
	}
	for _, f := range p.funcsIn(relTransport) {
		fn := f
		if ioFns[f] {
			continue
		}
		eachInstr(f, func(in ssa.Instruction) {
			ci, ok := in.(*ssa.Call)
			if !ok {
				return
			}
			site := isDirectIO(in)
			if sc := staticCallee(ci); sc != nil && ioFns[sc] {
				site = true
			}
			if !site {
				return
			}
			var errV ssa.Value
			if ci.Type().String() == "error" {
				errV = ci
			}
			for _, r := range referrers(ci) {
				if ex, ok := r.(*ssa.Extract); ok && ex.Type().String() == "error" {
					errV = ex
				}
			}
			key := "io-error@" + funcName(fn)
			if errV == nil {
				c.fail(key, instrPos(in), "the I/O error is discarded")
				return
			}
			good := false
			for _, ev := range withMergingPhis(errV) {
				for _, r := range referrers(ev) {
					bo, ok := r.(*ssa.BinOp)
					if !ok || bo.Op != token.NEQ || !isNilConst(bo.Y) {
						continue
					}
					for _, r2 := range referrers(bo) {
						iff, ok := r2.(*ssa.If)
						if !ok {
							continue
						}
						// every path from the error branch to an exit passes the closer
						if _, leak := reachFromBlock(iff.Block().Succs[0], isExit, isCloser); !leak {
							good = true
						}
					}
				}
			}
			c.check(good, key, instrPos(in), "a failed read/write closes the connection with the error",
				"an error from the connection does not reach CloseWithErr on every path: the connection stays in the pool and its other waiters are never woken")
		})
	}
	return ioFns
}

// isDirectIO: a Write on / frame read from the connection field of a connection object.
func isDirectIO(in ssa.Instruction) bool {
	T := relTransport + "."
	ci, ok := in.(*ssa.Call)
	if !ok {
		return false
	}
	n := callName(ci)
	if ci.Call.IsInvoke() && ci.Call.Method.Name() == "Write" {
		if k, ok := loadedField(ci.Call.Value); ok && (k == T+"TraditionalDnsConn.c" || k == T+"reusableConn.c") {
			return true
		}
	}
	if n == "pkg/dnsutils.ReadRawMsgFromTCP" || n == relTransport+".readMsgUdp" {
		if k, ok := loadedField(stripConv(ci.Call.Args[0])); ok && (k == T+"TraditionalDnsConn.c" || k == T+"reusableConn.c") {
			return true
		}
	}
	return false
}

// sameKeyValue: two SSA values that denote the same key: identical, or the same conversion of the same value (go/ssa
// does no common-subexpression elimination: `m[uint32(id)]` and `delete(m, uint32(id))` convert twice).
func sameKeyValue(a, b ssa.Value) bool {
	if a == b {
		return true
	}
	ca, ok1 := a.(*ssa.Convert)
	cb, ok2 := b.(*ssa.Convert)
	if ok1 && ok2 && types.Identical(ca.Type(), cb.Type()) {
		return sameKeyValue(ca.X, cb.X)
	}
	return false
}

// closeErrStoredFor: the close error is visible to whoever is woken. Waiters that wake on the close notification need
// the error stored BEFORE close(closeNotify). Since D30 the waiters of TraditionalDnsConn / reusableConn wake on the
// reader's exit instead (readLoopDone, checked by wait-until-reader-done): the reader returns only after its own
// CloseWithErr call, i.e. after the Once body has completed — so for a type that has such a field it is enough that the
// error is stored unconditionally somewhere in the function that closes the notification.
func closeErrStoredFor(p *Prog, fn *ssa.Function, closeInstr ssa.Instruction, errField string) bool {
	before, anywhere := false, false
	eachInstr(fn, func(x ssa.Instruction) {
		st, ok := x.(*ssa.Store)
		if !ok {
			return
		}
		if k2, _ := fieldKey(st.Addr); k2 != errField {
			return
		}
		if instrDominates(x, closeInstr) {
			before = true
		}
		if len(guardsOfInstr(x)) == 0 {
			anywhere = true
		}
	})
	if before {
		return true
	}
	readerDone := strings.TrimSuffix(errField, "closeErr") + "readLoopDone"
	hasReaderDone := false
	for k := range p.whoWrites().byField {
		if k == readerDone {
			hasReaderDone = true
		}
	}
	if !hasReaderDone {
		// the field may be written by a composite literal only: look for a close() of it
		for _, f := range p.Funcs {
			eachInstr(f, func(x ssa.Instruction) {
				if d, ok := x.(*ssa.Defer); ok && callNameCommon(&d.Call) == "builtin:close" && len(d.Call.Args) == 1 {
					if k, ok := loadedField(d.Call.Args[0]); ok && k == readerDone {
						hasReaderDone = true
					}
				}
			})
		}
	}
	return anywhere && hasReaderDone
}
