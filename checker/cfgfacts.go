package main

import (
	"go/token"

	"golang.org/x/tools/go/ssa"
)

func idxInBlock(in ssa.Instruction) int {
	for i, x := range in.Block().Instrs {
		if x == in {
			return i
		}
	}
	return -1
}

// instrDominates: a is executed before b on every path reaching b.
func instrDominates(a, b ssa.Instruction) bool {
	if a.Block() == nil || b.Block() == nil || a.Parent() != b.Parent() {
		return false
	}
	if a.Block() == b.Block() {
		return idxInBlock(a) < idxInBlock(b)
	}
	return a.Block().Dominates(b.Block())
}

// valueDominates: value v (an instruction value, parameter, const, ...) is available before b.
func valueDominatesInstr(v ssa.Value, b ssa.Instruction) bool {
	if in, ok := v.(ssa.Instruction); ok {
		return instrDominates(in, b)
	}
	return true
}

type instrPred func(ssa.Instruction) bool

func isExit(in ssa.Instruction) bool {
	switch in.(type) {
	case *ssa.Return, *ssa.Panic:
		return true
	}
	return false
}

func isReturn(in ssa.Instruction) bool {
	_, ok := in.(*ssa.Return)
	return ok
}

// isSelectPanic recognises the unreachable panic block that go/ssa appends to a blocking select.
func isSelectPanic(in ssa.Instruction) bool {
	p, ok := in.(*ssa.Panic)
	if !ok {
		return false
	}
	if mi, ok := p.X.(*ssa.MakeInterface); ok {
		if s, ok := constString(mi.X); ok && s == "blocking select matched no case" {
			return true
		}
	}
	return false
}

// reachAvoiding reports whether some CFG path starting right AFTER `from` reaches an instruction
// satisfying target without first executing an instruction satisfying avoid. If found, the
// target instruction is returned.
func reachAvoiding(from ssa.Instruction, target, avoid instrPred) (ssa.Instruction, bool) {
	b := from.Block()
	start := idxInBlock(from) + 1
	seen := map[*ssa.BasicBlock]bool{}
	var walk func(b *ssa.BasicBlock, i int) (ssa.Instruction, bool)
	walk = func(b *ssa.BasicBlock, i int) (ssa.Instruction, bool) {
		for ; i < len(b.Instrs); i++ {
			in := b.Instrs[i]
			if avoid != nil && avoid(in) {
				return nil, false
			}
			if target(in) {
				return in, true
			}
		}
		for _, s := range b.Succs {
			if seen[s] {
				continue
			}
			seen[s] = true
			if t, ok := walk(s, 0); ok {
				return t, true
			}
		}
		return nil, false
	}
	return walk(b, start)
}

// reachFromBlockStart is reachAvoiding starting at the first instruction of block b.
func reachFromBlock(b *ssa.BasicBlock, target, avoid instrPred) (ssa.Instruction, bool) {
	seen := map[*ssa.BasicBlock]bool{b: true}
	var walk func(b *ssa.BasicBlock) (ssa.Instruction, bool)
	walk = func(b *ssa.BasicBlock) (ssa.Instruction, bool) {
		for _, in := range b.Instrs {
			if avoid != nil && avoid(in) {
				return nil, false
			}
			if target(in) {
				return in, true
			}
		}
		for _, s := range b.Succs {
			if seen[s] {
				continue
			}
			seen[s] = true
			if t, ok := walk(s); ok {
				return t, true
			}
		}
		return nil, false
	}
	return walk(b)
}

// mustPassBeforeExit: every path from just after `from` to a function exit executes an
// instruction satisfying p first. Exits are returns, and panics unless ignorePanics.
// A `rundefers` counts as p when a matching deferred call dominates `from` or lies on the way
// (deferMatch != nil). Returns the offending exit when false.
func mustPassBeforeExit(from ssa.Instruction, p instrPred, deferMatch instrPred, ignorePanics bool) (ssa.Instruction, bool) {
	hit := func(in ssa.Instruction) bool {
		if p(in) {
			return true
		}
		if deferMatch != nil {
			if _, ok := in.(*ssa.RunDefers); ok {
				// some matching defer registered on every path to here? approximate by: a matching
				// Defer instruction dominates this rundefers.
				found := false
				eachInstr(in.Parent(), func(d ssa.Instruction) {
					if df, ok := d.(*ssa.Defer); ok && deferMatch(df) && instrDominates(df, in) {
						found = true
					}
				})
				return found
			}
		}
		return false
	}
	exit := func(in ssa.Instruction) bool {
		if isSelectPanic(in) {
			return false
		}
		if _, ok := in.(*ssa.Panic); ok {
			if ignorePanics {
				return false
			}
			// implicit rundefers on panic
			if deferMatch != nil {
				found := false
				eachInstr(in.Parent(), func(d ssa.Instruction) {
					if df, ok := d.(*ssa.Defer); ok && deferMatch(df) && instrDominates(df, in) {
						found = true
					}
				})
				return !found
			}
			return true
		}
		return isReturn(in)
	}
	off, found := reachAvoiding(from, exit, hit)
	return off, !found
}

// guard is a branch condition known to hold (Truth) when a block executes.
type guard struct {
	Cond  ssa.Value
	Truth bool
	If    *ssa.If
}

// guardsOf returns the branch conditions that hold on every path into block b: for each dominating
// `if`, the edge (if -> succ) counts when succ dominates b and succ has the if-block as its only
// predecessor.
func guardsOf(b *ssa.BasicBlock) []guard {
	var out []guard
	for d := b; d != nil; d = d.Idom() {
		// look at idom's terminator relative to d
		id := d.Idom()
		if id == nil {
			break
		}
		iff, ok := id.Instrs[len(id.Instrs)-1].(*ssa.If)
		if !ok {
			continue
		}
		for i, s := range id.Succs {
			if s == d && len(s.Preds) == 1 && id.Succs[0] != id.Succs[1] {
				out = append(out, guard{Cond: iff.Cond, Truth: i == 0, If: iff})
			}
		}
	}
	return out
}

// guardsOfInstr: guards of the instruction's block.
func guardsOfInstr(in ssa.Instruction) []guard { return guardsOf(in.Block()) }

// cmp describes a comparison condition normalised for truth.
type cmp struct {
	Op   token.Token
	X, Y ssa.Value
}

func negateOp(op token.Token) token.Token {
	switch op {
	case token.EQL:
		return token.NEQ
	case token.NEQ:
		return token.EQL
	case token.LSS:
		return token.GEQ
	case token.GEQ:
		return token.LSS
	case token.GTR:
		return token.LEQ
	case token.LEQ:
		return token.GTR
	}
	return token.ILLEGAL
}

func flipOp(op token.Token) token.Token {
	switch op {
	case token.LSS:
		return token.GTR
	case token.GTR:
		return token.LSS
	case token.LEQ:
		return token.GEQ
	case token.GEQ:
		return token.LEQ
	}
	return op
}

// asCmp turns a guard into a comparison that is known to be true; `!x` is unwrapped.
func (g guard) asCmp() (cmp, bool) {
	v := g.Cond
	truth := g.Truth
	for {
		if u, ok := v.(*ssa.UnOp); ok && u.Op == token.NOT {
			v = u.X
			truth = !truth
			continue
		}
		break
	}
	bo, ok := v.(*ssa.BinOp)
	if !ok {
		return cmp{}, false
	}
	switch bo.Op {
	case token.EQL, token.NEQ, token.LSS, token.LEQ, token.GTR, token.GEQ:
	default:
		return cmp{}, false
	}
	op := bo.Op
	if !truth {
		op = negateOp(op)
	}
	return cmp{Op: op, X: bo.X, Y: bo.Y}, true
}

// boolGuard: guard on a plain boolean value (after stripping !): returns value and its known truth.
func (g guard) asBool() (ssa.Value, bool) {
	v := g.Cond
	truth := g.Truth
	for {
		if u, ok := v.(*ssa.UnOp); ok && u.Op == token.NOT {
			v = u.X
			truth = !truth
			continue
		}
		break
	}
	return v, truth
}

// succOnTruth returns the successor block taken when the If's condition has the given truth.
func succOnTruth(iff *ssa.If, truth bool) *ssa.BasicBlock {
	if truth {
		return iff.Block().Succs[0]
	}
	return iff.Block().Succs[1]
}

// blockTerminator returns the last instruction.
func terminator(b *ssa.BasicBlock) ssa.Instruction {
	return b.Instrs[len(b.Instrs)-1]
}

// returnedValues returns, for a Return instruction, the values returned, looking through the
// `*t0 = v; rundefers; t = *t0; return t` spill that go/ssa emits for functions with defers.
func returnedValues(ret *ssa.Return) []ssa.Value {
	out := make([]ssa.Value, len(ret.Results))
	for i, r := range ret.Results {
		out[i] = r
		u, ok := r.(*ssa.UnOp)
		if !ok || u.Op != token.MUL {
			continue
		}
		al, ok := u.X.(*ssa.Alloc)
		if !ok {
			continue
		}
		// last store to al in this block before the load; else leave as is
		b := ret.Block()
		var last ssa.Value
		for _, in := range b.Instrs {
			if in == ssa.Instruction(u) {
				break
			}
			if st, ok := in.(*ssa.Store); ok && st.Addr == ssa.Value(al) {
				last = st.Val
			}
		}
		if last != nil {
			out[i] = last
		}
	}
	return out
}

// returnsOf lists the Return instructions of f.
func returnsOf(f *ssa.Function) []*ssa.Return {
	var out []*ssa.Return
	for _, b := range f.Blocks {
		if b.Comment == "recover" {
			continue
		}
		if r, ok := terminator(b).(*ssa.Return); ok {
			out = append(out, r)
		}
	}
	return out
}
