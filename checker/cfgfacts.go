package main

import (
	"fmt"
	"go/token"
	"go/types"
	"sort"
	"strings"

	"golang.org/x/tools/go/ssa"
)

func idxInBlock(in ssa.Instruction) int {
	for i, x := range in.Block().Instrs {
		if x == in {
			return i
		}
	}
	return -1
}

// instrDominates: a is executed before b on every path reaching b.
func instrDominates(a, b ssa.Instruction) bool {
	if a.Block() == nil || b.Block() == nil || a.Parent() != b.Parent() {
		return false
	}
	if a.Block() == b.Block() {
		return idxInBlock(a) < idxInBlock(b)
	}
	return a.Block().Dominates(b.Block())
}

// valueDominates: value v (an instruction value, parameter, const, ...) is available before b.
func valueDominatesInstr(v ssa.Value, b ssa.Instruction) bool {
	if in, ok := v.(ssa.Instruction); ok {
		return instrDominates(in, b)
	}
	return true
}

type instrPred func(ssa.Instruction) bool

func isExit(in ssa.Instruction) bool {
	switch in.(type) {
	case *ssa.Return, *ssa.Panic:
		return true
	}
	return false
}

func isReturn(in ssa.Instruction) bool {
	_, ok := in.(*ssa.Return)
	return ok
}

// isSelectPanic recognises the unreachable panic block that go/ssa appends to a blocking select.
func isSelectPanic(in ssa.Instruction) bool {
	p, ok := in.(*ssa.Panic)
	if !ok {
		return false
	}
	if mi, ok := p.X.(*ssa.MakeInterface); ok {
		if s, ok := constString(mi.X); ok && s == "blocking select matched no case" {
			return true
		}
	}
	return false
}

// reachAvoiding reports whether some CFG path starting right AFTER `from` reaches an instruction
// satisfying target without first executing an instruction satisfying avoid. If found, the
// target instruction is returned.
func reachAvoiding(from ssa.Instruction, target, avoid instrPred) (ssa.Instruction, bool) {
	b := from.Block()
	start := idxInBlock(from) + 1
	seen := map[*ssa.BasicBlock]bool{}
	var walk func(b *ssa.BasicBlock, i int) (ssa.Instruction, bool)
	walk = func(b *ssa.BasicBlock, i int) (ssa.Instruction, bool) {
		for ; i < len(b.Instrs); i++ {
			in := b.Instrs[i]
			if avoid != nil && avoid(in) {
				return nil, false
			}
			if target(in) {
				return in, true
			}
		}
		for _, s := range b.Succs {
			if seen[s] {
				continue
			}
			seen[s] = true
			if t, ok := walk(s, 0); ok {
				return t, true
			}
		}
		return nil, false
	}
	return walk(b, start)
}

// reachFromBlockStart is reachAvoiding starting at the first instruction of block b.
func reachFromBlock(b *ssa.BasicBlock, target, avoid instrPred) (ssa.Instruction, bool) {
	seen := map[*ssa.BasicBlock]bool{b: true}
	var walk func(b *ssa.BasicBlock) (ssa.Instruction, bool)
	walk = func(b *ssa.BasicBlock) (ssa.Instruction, bool) {
		for _, in := range b.Instrs {
			if avoid != nil && avoid(in) {
				return nil, false
			}
			if target(in) {
				return in, true
			}
		}
		for _, s := range b.Succs {
			if seen[s] {
				continue
			}
			seen[s] = true
			if t, ok := walk(s); ok {
				return t, true
			}
		}
		return nil, false
	}
	return walk(b)
}

// mustPassBeforeExit: every path from just after `from` to a function exit executes an
// instruction satisfying p first. Exits are returns, and panics unless ignorePanics.
// A `rundefers` counts as p when a matching deferred call dominates `from` or lies on the way
// (deferMatch != nil). Returns the offending exit when false.
func mustPassBeforeExit(from ssa.Instruction, p instrPred, deferMatch instrPred, ignorePanics bool) (ssa.Instruction, bool) {
	hit := func(in ssa.Instruction) bool {
		if p(in) {
			return true
		}
		if deferMatch != nil {
			if _, ok := in.(*ssa.RunDefers); ok {
				// some matching defer registered on every path to here? approximate by: a matching
				// Defer instruction dominates this rundefers.
				found := false
				eachInstr(in.Parent(), func(d ssa.Instruction) {
					if df, ok := d.(*ssa.Defer); ok && deferMatch(df) && instrDominates(df, in) {
						found = true
					}
				})
				return found
			}
		}
		return false
	}
	exit := func(in ssa.Instruction) bool {
		if isSelectPanic(in) {
			return false
		}
		if _, ok := in.(*ssa.Panic); ok {
			if ignorePanics {
				return false
			}
			// implicit rundefers on panic
			if deferMatch != nil {
				found := false
				eachInstr(in.Parent(), func(d ssa.Instruction) {
					if df, ok := d.(*ssa.Defer); ok && deferMatch(df) && instrDominates(df, in) {
						found = true
					}
				})
				return !found
			}
			return true
		}
		return isReturn(in)
	}
	off, found := reachAvoiding(from, exit, hit)
	return off, !found
}

// guard is a branch condition known to hold (Truth) when a block executes.
type guard struct {
	Cond  ssa.Value
	Truth bool
	If    *ssa.If
	// Derived: implied by another guard of the same If (a named boolean built by a short-circuit chain, see
	// boolPhiGuards); rules that report "an extra condition" skip derived guards — the guard they derive from is judged
	Derived bool
}

// guardsOf returns the branch conditions that hold on every path into block b: for each dominating
// `if`, the edge (if -> succ) counts when succ dominates b and succ has the if-block as its only
// predecessor.
func guardsOf(b *ssa.BasicBlock) []guard {
	var out []guard
	for d := b; d != nil; d = d.Idom() {
		// look at idom's terminator relative to d
		id := d.Idom()
		if id == nil {
			break
		}
		iff, ok := id.Instrs[len(id.Instrs)-1].(*ssa.If)
		if !ok {
			continue
		}
		for i, s := range id.Succs {
			if s == d && onlyEntryEdge(s, id) && id.Succs[0] != id.Succs[1] {
				g := guard{Cond: iff.Cond, Truth: i == 0, If: iff}
				more := boolPhiGuards(g, 0)
				if len(more) > 0 {
					// a named boolean that could be expanded is fully represented by what it expands to
					if v, _ := g.asBool(); v != nil {
						if _, isPhi := v.(*ssa.Phi); isPhi {
							g.Derived = true
						}
					}
				}
				out = append(out, g)
				out = append(out, more...)
			}
		}
	}
	return out
}

// boolPhiGuards: a condition that is a named boolean built by a short-circuit chain (`ok := a && b && c; if ok {`, or
// the || form) is a phi whose edges are the constant false (true) except one: when the phi is true (false), control
// came through that one edge, so the conditions that hold in its predecessor block hold too, and so does the edge's own
// value.  The derived guards carry the original If.
var boolPhiNesting int

func boolPhiGuards(g guard, depth int) []guard {
	if depth > 3 || boolPhiNesting > 3 {
		return nil
	}
	boolPhiNesting++
	defer func() { boolPhiNesting-- }()
	v, truth := g.asBool()
	ph, ok := v.(*ssa.Phi)
	if !ok {
		// `p != nil` (or `p == nil` being false) for a pointer/channel/interface phi some of whose edges are the
		// constant nil: control came through one of the other edges; when there is exactly one, its predecessor's
		// conditions hold (the "set it to nil on mismatch, test for nil later" idiom)
		if cm, isCmp := g.asCmp(); isCmp && cm.Op == token.NEQ && isNilConst(cm.Y) {
			if pp, isPhi := cm.X.(*ssa.Phi); isPhi {
				live := -1
				for i, e := range pp.Edges {
					if isNilConst(e) {
						continue
					}
					if live >= 0 {
						return nil
					}
					live = i
				}
				if live >= 0 && live < len(pp.Block().Preds) {
					var out []guard
					for _, pg := range guardsOf(pp.Block().Preds[live]) {
						pg.If = g.If
						pg.Derived = true
						out = append(out, pg)
					}
					return out
				}
			}
		}
		return nil
	}
	if b, isB := ph.Type().Underlying().(*types.Basic); !isB || b.Kind() != types.Bool {
		return nil
	}
	live := -1
	for i, e := range ph.Edges {
		if cb, isC := constBool(e); isC && cb == !truth {
			continue // this edge makes the phi the opposite of what we know
		}
		if live >= 0 {
			return nil // two edges can produce the known value: nothing follows
		}
		live = i
	}
	if live < 0 || live >= len(ph.Block().Preds) {
		return nil
	}
	var out []guard
	for _, pg := range guardsOf(ph.Block().Preds[live]) {
		pg.If = g.If
		pg.Derived = true
		out = append(out, pg)
	}
	if _, isC := constBool(ph.Edges[live]); !isC {
		eg := guard{Cond: ph.Edges[live], Truth: truth, If: g.If, Derived: true}
		out = append(out, eg)
		out = append(out, boolPhiGuards(eg, depth+1)...)
	}
	return out
}

// guardsOfInstr: guards of the instruction's block.
func guardsOfInstr(in ssa.Instruction) []guard { return guardsOf(in.Block()) }

// cmp describes a comparison condition normalised for truth.
type cmp struct {
	Op   token.Token
	X, Y ssa.Value
}

func negateOp(op token.Token) token.Token {
	switch op {
	case token.EQL:
		return token.NEQ
	case token.NEQ:
		return token.EQL
	case token.LSS:
		return token.GEQ
	case token.GEQ:
		return token.LSS
	case token.GTR:
		return token.LEQ
	case token.LEQ:
		return token.GTR
	}
	return token.ILLEGAL
}

func flipOp(op token.Token) token.Token {
	switch op {
	case token.LSS:
		return token.GTR
	case token.GTR:
		return token.LSS
	case token.LEQ:
		return token.GEQ
	case token.GEQ:
		return token.LEQ
	}
	return op
}

// asCmp turns a guard into a comparison that is known to be true; `!x` is unwrapped.
func (g guard) asCmp() (cmp, bool) {
	v := g.Cond
	truth := g.Truth
	for {
		if u, ok := v.(*ssa.UnOp); ok && u.Op == token.NOT {
			v = u.X
			truth = !truth
			continue
		}
		break
	}
	bo, ok := v.(*ssa.BinOp)
	if !ok {
		return cmp{}, false
	}
	switch bo.Op {
	case token.EQL, token.NEQ, token.LSS, token.LEQ, token.GTR, token.GEQ:
	default:
		return cmp{}, false
	}
	op := bo.Op
	if !truth {
		op = negateOp(op)
	}
	return cmp{Op: op, X: bo.X, Y: bo.Y}, true
}

// boolGuard: guard on a plain boolean value (after stripping !): returns value and its known truth.
func (g guard) asBool() (ssa.Value, bool) {
	v := g.Cond
	truth := g.Truth
	for {
		if u, ok := v.(*ssa.UnOp); ok && u.Op == token.NOT {
			v = u.X
			truth = !truth
			continue
		}
		break
	}
	return v, truth
}

// succOnTruth returns the successor block taken when the If's condition has the given truth.
func succOnTruth(iff *ssa.If, truth bool) *ssa.BasicBlock {
	if truth {
		return iff.Block().Succs[0]
	}
	return iff.Block().Succs[1]
}

// blockTerminator returns the last instruction.
func terminator(b *ssa.BasicBlock) ssa.Instruction {
	return b.Instrs[len(b.Instrs)-1]
}

// returnedValues returns, for a Return instruction, the values returned, looking through the
// `*t0 = v; rundefers; t = *t0; return t` spill that go/ssa emits for functions with defers.
func returnedValues(ret *ssa.Return) []ssa.Value {
	out := make([]ssa.Value, len(ret.Results))
	for i, r := range ret.Results {
		out[i] = r
		u, ok := r.(*ssa.UnOp)
		if !ok || u.Op != token.MUL {
			continue
		}
		al, ok := u.X.(*ssa.Alloc)
		if !ok {
			continue
		}
		// last store to al in this block before the load; else leave as is
		b := ret.Block()
		var last ssa.Value
		for _, in := range b.Instrs {
			if in == ssa.Instruction(u) {
				break
			}
			if st, ok := in.(*ssa.Store); ok && st.Addr == ssa.Value(al) {
				last = st.Val
			}
		}
		if last != nil {
			out[i] = last
		}
	}
	for i := range out {
		out[i] = throughPassThrough(out[i])
	}
	return out
}

// returnsOf lists the Return instructions of f.
func returnsOf(f *ssa.Function) []*ssa.Return {
	var out []*ssa.Return
	for _, b := range f.Blocks {
		if b.Comment == "recover" {
			continue
		}
		if r, ok := terminator(b).(*ssa.Return); ok {
			out = append(out, r)
		}
	}
	return out
}

// passThroughParam: f (a function of the analysed module, with a body) hands back one of its parameters as its first
// result on every return path — a helper like `func restoreQid(r *[]byte, q []byte) *[]byte { ...; return r }`.
// Returns the parameter index (receiver included) or -1.
var passThroughCache cmap[*ssa.Function, int]

func passThroughParam(f *ssa.Function) int {
	if f == nil || len(f.Blocks) == 0 || !inMosdns(f) {
		return -1
	}
	if v, ok := passThroughCache.get(f); ok {
		return v
	}
	passThroughCache.set(f, -1)
	idx := -1
	for _, b := range f.Blocks {
		ret, ok := b.Instrs[len(b.Instrs)-1].(*ssa.Return)
		if !ok {
			continue
		}
		if len(ret.Results) == 0 {
			return -1
		}
		k := -1
		for i, prm := range f.Params {
			if ret.Results[0] == ssa.Value(prm) {
				k = i
			}
		}
		if k < 0 || (idx >= 0 && idx != k) {
			return -1
		}
		idx = k
	}
	passThroughCache.set(f, idx)
	return idx
}

// throughPassThrough strips calls of pass-through helpers: `restoreQid(r, q)` denotes r.
func throughPassThrough(v ssa.Value) ssa.Value {
	for d := 0; d < 4; d++ {
		cl, ok := v.(*ssa.Call)
		if !ok {
			return v
		}
		sc := cl.Call.StaticCallee()
		k := passThroughParam(sc)
		if k < 0 || k >= len(cl.Call.Args) {
			return v
		}
		v = cl.Call.Args[k]
	}
	return v
}

// reachPhiAware is reachFromBlock that follows flag variables: when a block is entered over an edge that gives a boolean
// phi of that block a constant value (`matched = false; break` … `if !matched`), a later branch on that phi (or its
// negation) is followed only along the matching successor. Everything else is path-insensitive as in reachFromBlock.
func reachPhiAware(start, enteredFrom *ssa.BasicBlock, target, avoid instrPred) (ssa.Instruction, bool) {
	type state struct {
		b   *ssa.BasicBlock
		env string
	}
	seen := map[state]bool{}
	envKey := func(env map[*ssa.Phi]bool) string {
		var ks []string
		for ph, v := range env {
			ks = append(ks, fmt.Sprintf("%s=%v", ph.Name(), v))
		}
		sort.Strings(ks)
		return strings.Join(ks, ",")
	}
	var walk func(b, from *ssa.BasicBlock, env map[*ssa.Phi]bool) (ssa.Instruction, bool)
	walk = func(b, from *ssa.BasicBlock, env map[*ssa.Phi]bool) (ssa.Instruction, bool) {
		// resolve the boolean phis of b for the edge from -> b
		if from != nil {
			ne := map[*ssa.Phi]bool{}
			for k, v := range env {
				ne[k] = v
			}
			env = ne
			for _, in := range b.Instrs {
				ph, ok := in.(*ssa.Phi)
				if !ok {
					break
				}
				delete(env, ph)
				for i, p := range b.Preds {
					if p == from {
						if v, isC := constBool(ph.Edges[i]); isC {
							env[ph] = v
						} else if src, isPhi := ph.Edges[i].(*ssa.Phi); isPhi {
							if v, known := ne[src]; known {
								env[ph] = v
							}
						}
					}
				}
			}
		}
		st := state{b, envKey(env)}
		if seen[st] {
			return nil, false
		}
		seen[st] = true
		for _, in := range b.Instrs {
			if avoid != nil && avoid(in) {
				return nil, false
			}
			if target(in) {
				return in, true
			}
		}
		succs := b.Succs
		if iff, ok := terminator(b).(*ssa.If); ok && len(b.Succs) == 2 {
			cond, neg := iff.Cond, false
			if u, isNot := cond.(*ssa.UnOp); isNot && u.Op == token.NOT {
				cond, neg = u.X, true
			}
			if ph, isPhi := cond.(*ssa.Phi); isPhi {
				if v, known := env[ph]; known {
					if v != neg {
						succs = b.Succs[:1]
					} else {
						succs = b.Succs[1:]
					}
				}
			}
		}
		for _, s := range succs {
			if t, ok := walk(s, b, env); ok {
				return t, true
			}
		}
		return nil, false
	}
	return walk(start, enteredFrom, map[*ssa.Phi]bool{})
}

// onlyEntryEdge: every way into block s other than the edge from `from` is a back edge of a loop headed by s (its source
// is dominated by s): whenever control is in s, the branch in `from` was last taken towards s.
func onlyEntryEdge(s, from *ssa.BasicBlock) bool {
	n := 0
	for _, p := range s.Preds {
		if p == from {
			n++
			continue
		}
		if !s.Dominates(p) {
			return false
		}
	}
	return n == 1
}

// guardsOnAllPaths: the branch conditions that hold on every *consistent* acyclic path from the function's entry to
// block b — a path is consistent when it does not take one boolean SSA value as true at one `if` and as false at
// another (`expired := …; if expired && !lazy { return }; …; if expired { stale }`: at "stale" lazy holds, although no
// single dominating edge says so). Falls back to the dominator-based guardsOf when the function has too many paths.
// The result includes guardsOf(b).
func guardsOnAllPaths(b *ssa.BasicBlock) []guard {
	base := guardsOf(b)
	fn := b.Parent()
	if fn == nil || len(fn.Blocks) == 0 {
		return base
	}
	type gk struct {
		v     ssa.Value
		truth bool
	}
	var common map[gk]guard
	paths := 0
	const maxPaths = 4000
	onPath := map[*ssa.BasicBlock]bool{}
	assign := map[ssa.Value]bool{}
	var cur []guard
	overflow := false
	var walk func(x *ssa.BasicBlock)
	walk = func(x *ssa.BasicBlock) {
		if overflow {
			return
		}
		if x == b {
			paths++
			if paths > maxPaths {
				overflow = true
				return
			}
			set := map[gk]guard{}
			for _, g := range cur {
				v, t := g.asBool()
				set[gk{v, t}] = g
			}
			if common == nil {
				common = set
			} else {
				for k := range common {
					if _, ok := set[k]; !ok {
						delete(common, k)
					}
				}
			}
			return
		}
		if onPath[x] {
			return
		}
		onPath[x] = true
		defer func() { onPath[x] = false }()
		iff, isIf := terminator(x).(*ssa.If)
		for i, s := range x.Succs {
			if isIf && x.Succs[0] != x.Succs[1] {
				g := guard{Cond: iff.Cond, Truth: i == 0, If: iff}
				v, t := g.asBool()
				if prev, has := assign[v]; has {
					if prev != t {
						continue // inconsistent with an earlier test of the same value
					}
					cur = append(cur, g)
					walk(s)
					cur = cur[:len(cur)-1]
					continue
				}
				assign[v] = t
				cur = append(cur, g)
				walk(s)
				cur = cur[:len(cur)-1]
				delete(assign, v)
				continue
			}
			walk(s)
		}
	}
	walk(fn.Blocks[0])
	if overflow || common == nil {
		return base
	}
	out := append([]guard{}, base...)
	have := map[gk]bool{}
	for _, g := range base {
		v, t := g.asBool()
		have[gk{v, t}] = true
	}
	for k, g := range common {
		if !have[k] {
			out = append(out, g)
		}
	}
	return out
}
