package main

import "sync"

// cmap: a map safe for the mutant self-test, which analyses several programs in parallel goroutines of one process.
// Keys are SSA objects of one program, so entries of different programs never meet; only the map itself is shared.
type cmap[K comparable, V any] struct {
	mu sync.Mutex
	m  map[K]V
}

func (c *cmap[K, V]) get(k K) (V, bool) {
	c.mu.Lock()
	defer c.mu.Unlock()
	v, ok := c.m[k]
	return v, ok
}

func (c *cmap[K, V]) set(k K, v V) {
	c.mu.Lock()
	defer c.mu.Unlock()
	if c.m == nil {
		c.m = map[K]V{}
	}
	c.m[k] = v
}

func (c *cmap[K, V]) del(k K) {
	c.mu.Lock()
	defer c.mu.Unlock()
	delete(c.m, k)
}

func cmapHas[K comparable](c *cmap[K, bool], k K) bool {
	v, _ := c.get(k)
	return v
}
