package main

import (
	"fmt"
	"go/constant"
	"go/token"
	"go/types"
	"strings"
	"sync"

	"golang.org/x/tools/go/ssa"
)

// eachInstr calls fn for every instruction of f (not of its closures).
func eachInstr(f *ssa.Function, fn func(ssa.Instruction)) {
	if f == nil {
		return
	}
	for _, b := range f.Blocks {
		for _, in := range b.Instrs {
			fn(in)
		}
	}
}

// eachInstrDeep also visits nested closures.
func eachInstrDeep(f *ssa.Function, fn func(*ssa.Function, ssa.Instruction)) {
	for _, g := range withAnon(f) {
		eachInstr(g, func(in ssa.Instruction) { fn(g, in) })
	}
}

func shortName(s string) string {
	return strings.ReplaceAll(s, modPath+"/", "")
}

// callName returns a stable name of the callee of a call instruction:
//
//	static function/method: types.Func.FullName() with the module prefix stripped, generics by origin
//	interface method:       "invoke:" + FullName
//	func-typed global:      "var:" + pkg.Name
//	closure literal:        "closure:" + parent$N
//	builtin:                "builtin:" + name
//	anything else:          "dynamic"
func callName(ci ssa.CallInstruction) string {
	cc := ci.Common()
	if cc.IsInvoke() {
		return "invoke:" + shortName(cc.Method.FullName())
	}
	switch v := cc.Value.(type) {
	case *ssa.Function:
		return fnFullName(v)
	case *ssa.Builtin:
		return "builtin:" + v.Name()
	case *ssa.MakeClosure:
		if fn, ok := v.Fn.(*ssa.Function); ok {
			return "closure:" + shortName(fn.String())
		}
	case *ssa.UnOp:
		if g, ok := v.X.(*ssa.Global); ok && v.Op == token.MUL {
			return "var:" + shortName(g.Pkg.Pkg.Path()) + "." + g.Name()
		}
	}
	return "dynamic"
}

func fnFullName(f *ssa.Function) string {
	if f == nil {
		return ""
	}
	if o := f.Origin(); o != nil {
		f = o
	}
	if obj, ok := f.Object().(*types.Func); ok && obj != nil {
		return stripTypeArgs(shortName(obj.Origin().FullName()))
	}
	return stripTypeArgs(shortName(f.String()))
}

// stripTypeArgs removes "[...]" type parameter/argument lists so generic methods have one name.
func stripTypeArgs(s string) string {
	var b strings.Builder
	depth := 0
	for _, r := range s {
		switch {
		case r == '[':
			depth++
		case r == ']':
			if depth > 0 {
				depth--
			}
		case depth == 0:
			b.WriteRune(r)
		}
	}
	return b.String()
}

// staticCallee returns the mosdns-or-other *ssa.Function called, or nil.
func staticCallee(ci ssa.CallInstruction) *ssa.Function {
	cc := ci.Common()
	if cc.IsInvoke() {
		return nil
	}
	switch v := cc.Value.(type) {
	case *ssa.Function:
		if o := v.Origin(); o != nil {
			return o
		}
		return v
	case *ssa.MakeClosure:
		if fn, ok := v.Fn.(*ssa.Function); ok {
			return fn
		}
	}
	return nil
}

// callArgs returns the arguments including the receiver (for invoke: receiver first).
func callArgs(ci ssa.CallInstruction) []ssa.Value {
	cc := ci.Common()
	if cc.IsInvoke() {
		return append([]ssa.Value{cc.Value}, cc.Args...)
	}
	return cc.Args
}

// isCall reports whether in is a call (plain, defer or go) whose callName is one of names.
func isCall(in ssa.Instruction, names ...string) (ssa.CallInstruction, bool) {
	ci, ok := in.(ssa.CallInstruction)
	if !ok {
		return nil, false
	}
	n := callName(ci)
	for _, w := range names {
		if n == w {
			return ci, true
		}
	}
	return nil, false
}

// namedOf strips pointers and returns the (origin) named type of t.
func namedOf(t types.Type) *types.Named {
	for {
		switch tt := t.(type) {
		case *types.Pointer:
			t = tt.Elem()
			continue
		case *types.Named:
			return tt.Origin()
		case *types.Alias:
			t = types.Unalias(tt)
			continue
		}
		return nil
	}
}

// structCanon maps a struct type to the named type that declares it with a struct literal, so that
// `type B A` (a method-set alias such as tdcOneTimeExchanger) shares A's field keys. Set by load().
var structCanon = map[*types.Struct]*types.Named{}
var structCanonMu sync.RWMutex

func typeKey(t types.Type) string {
	n := namedOf(t)
	if n == nil {
		return shortName(t.String())
	}
	if st, ok := n.Underlying().(*types.Struct); ok {
		structCanonMu.RLock()
		cn, ok := structCanon[st]
		structCanonMu.RUnlock()
		if ok {
			n = cn
		}
	}
	if n.Obj().Pkg() == nil {
		return n.Obj().Name()
	}
	return shortName(n.Obj().Pkg().Path()) + "." + n.Obj().Name()
}

// structOf returns the struct type behind t (through pointer / named).
func structOf(t types.Type) *types.Struct {
	for {
		switch tt := t.(type) {
		case *types.Pointer:
			t = tt.Elem()
			continue
		case *types.Named:
			t = tt.Underlying()
			continue
		case *types.Alias:
			t = types.Unalias(tt)
			continue
		case *types.Struct:
			return tt
		}
		return nil
	}
}

// fieldKeyAddr returns "pkg.Type.field" for a FieldAddr or Field value.
func fieldKey(v ssa.Value) (string, bool) {
	switch fa := v.(type) {
	case *ssa.FieldAddr:
		st := structOf(fa.X.Type())
		if st == nil {
			return "", false
		}
		return typeKey(fa.X.Type()) + "." + st.Field(fa.Field).Name(), true
	case *ssa.Field:
		st := structOf(fa.X.Type())
		if st == nil {
			return "", false
		}
		return typeKey(fa.X.Type()) + "." + st.Field(fa.Field).Name(), true
	}
	return "", false
}

// loadedField: v is `*(&x.f)` (or a Field) -> field key.
func loadedField(v ssa.Value) (string, bool) {
	switch u := v.(type) {
	case *ssa.UnOp:
		if u.Op == token.MUL {
			return fieldKey(u.X)
		}
	case *ssa.Field:
		return fieldKey(u)
	}
	return "", false
}

func constInt(v ssa.Value) (int64, bool) {
	c, ok := v.(*ssa.Const)
	if !ok || c.Value == nil {
		return 0, false
	}
	if c.Value.Kind() != constant.Int {
		return 0, false
	}
	i, ok := constant.Int64Val(c.Value)
	return i, ok
}

func isNilConst(v ssa.Value) bool {
	c, ok := v.(*ssa.Const)
	return ok && c.Value == nil
}

func constString(v ssa.Value) (string, bool) {
	c, ok := v.(*ssa.Const)
	if !ok || c.Value == nil || c.Value.Kind() != constant.String {
		return "", false
	}
	return constant.StringVal(c.Value), true
}

func constBool(v ssa.Value) (bool, bool) {
	c, ok := v.(*ssa.Const)
	if !ok || c.Value == nil || c.Value.Kind() != constant.Bool {
		return false, false
	}
	return constant.BoolVal(c.Value), true
}

// stripConv removes value-preserving wrappers.
func stripConv(v ssa.Value) ssa.Value {
	for {
		switch x := v.(type) {
		case *ssa.ChangeType:
			v = x.X
		case *ssa.ChangeInterface:
			v = x.X
		case *ssa.MakeInterface:
			v = x.X
		default:
			return v
		}
	}
}

// instrPos gives the best position for an instruction.
func instrPos(in ssa.Instruction) token.Pos {
	if in == nil {
		return token.NoPos
	}
	if p := in.Pos(); p.IsValid() {
		return p
	}
	if v, ok := in.(ssa.Value); ok {
		// operands may carry a position
		for _, op := range in.Operands(nil) {
			if *op != nil && (*op).Pos().IsValid() {
				_ = v
				return (*op).Pos()
			}
		}
	}
	// fall back to neighbours in the block
	b := in.Block()
	if b != nil {
		idx := -1
		for i, x := range b.Instrs {
			if x == in {
				idx = i
			}
		}
		for i := idx - 1; i >= 0; i-- {
			if p := b.Instrs[i].Pos(); p.IsValid() {
				return p
			}
		}
		for i := idx + 1; i < len(b.Instrs); i++ {
			if p := b.Instrs[i].Pos(); p.IsValid() {
				return p
			}
		}
		if b.Parent() != nil {
			return b.Parent().Pos()
		}
	}
	return token.NoPos
}

func valuePos(v ssa.Value) token.Pos {
	if v == nil {
		return token.NoPos
	}
	if p := v.Pos(); p.IsValid() {
		return p
	}
	if in, ok := v.(ssa.Instruction); ok {
		return instrPos(in)
	}
	if v.Parent() != nil {
		return v.Parent().Pos()
	}
	return token.NoPos
}

// referrers returns the instructions using v (nil-safe).
func referrers(v ssa.Value) []ssa.Instruction {
	r := v.Referrers()
	if r == nil {
		return nil
	}
	return *r
}

// selectStates decodes a select: for each state index, the block executed when that case is chosen;
// dflt is the block of the default branch of a non-blocking select (nil for blocking).
type selCase struct {
	Idx   int
	State *ssa.SelectState
	Body  *ssa.BasicBlock
	Recv  ssa.Value // extracted received value, if any
}

func decodeSelect(sel *ssa.Select) (cases []selCase, dflt *ssa.BasicBlock, ok bool) {
	var idx *ssa.Extract
	recvVals := map[int]ssa.Value{}
	for _, r := range referrers(sel) {
		if ex, isEx := r.(*ssa.Extract); isEx {
			if ex.Index == 0 {
				idx = ex
			} else if ex.Index >= 2 {
				recvVals[ex.Index] = ex
			}
		}
	}
	cases = make([]selCase, len(sel.States))
	// map state -> recv extract index: receives are numbered in order among recv states
	ri := 2
	for i, st := range sel.States {
		cases[i] = selCase{Idx: i, State: st}
		if st.Dir == types.RecvOnly {
			if v, has := recvVals[ri]; has {
				cases[i].Recv = v
			}
			ri++
		}
	}
	if idx == nil {
		// a select with a single case and no index use cannot occur in go/ssa output for >0 states,
		// except `select {}`; report undecodable
		return cases, nil, len(sel.States) == 0
	}
	found := 0
	var lastElse *ssa.BasicBlock
	for _, r := range referrers(idx) {
		bo, isB := r.(*ssa.BinOp)
		if !isB || bo.Op != token.EQL {
			continue
		}
		k, isC := constInt(bo.Y)
		if !isC {
			continue
		}
		for _, r2 := range referrers(bo) {
			if iff, isIf := r2.(*ssa.If); isIf {
				blk := iff.Block()
				if int(k) >= 0 && int(k) < len(cases) {
					cases[k].Body = blk.Succs[0]
					found++
					if int(k) == len(cases)-1 {
						lastElse = blk.Succs[1]
					}
				}
			}
		}
	}
	if found != len(cases) {
		return cases, nil, false
	}
	if !sel.Blocking {
		dflt = lastElse
	}
	return cases, dflt, true
}

// chanOfRecv: if v is a value received from a channel (plain receive or select case) return the channel.
func chanOfRecv(v ssa.Value) (ssa.Value, bool) {
	switch x := v.(type) {
	case *ssa.UnOp:
		if x.Op == token.ARROW {
			return x.X, true
		}
	case *ssa.Extract:
		if sel, ok := x.Tuple.(*ssa.Select); ok && x.Index >= 2 {
			ri := 2
			for _, st := range sel.States {
				if st.Dir == types.RecvOnly {
					if ri == x.Index {
						return st.Chan, true
					}
					ri++
				}
			}
		}
		if u, ok := x.Tuple.(*ssa.UnOp); ok && u.Op == token.ARROW && x.Index == 0 {
			return u.X, true
		}
	}
	return nil, false
}

// exprStr renders a pure SSA expression position-independently; structurally equal expressions give
// equal strings (go/ssa does no CSE). Loads of fields print as the field key applied to the base.
func exprStr(v ssa.Value) string { return exprStrD(v, 0) }

func exprStrD(v ssa.Value, d int) string {
	if v == nil {
		return "<nil>"
	}
	if d > 8 {
		return "…"
	}
	switch x := v.(type) {
	case *ssa.Const:
		if x.Value == nil {
			return "nil"
		}
		return x.Value.ExactString()
	case *ssa.Parameter:
		return "$" + x.Name()
	case *ssa.FreeVar:
		return "$fv:" + x.Name()
	case *ssa.Global:
		return shortName(x.Pkg.Pkg.Path()) + "." + x.Name()
	case *ssa.Function:
		return fnFullName(x)
	case *ssa.Alloc:
		if x.Comment != "" {
			return "&" + x.Comment
		}
		return "&alloc"
	case *ssa.FieldAddr:
		st := structOf(x.X.Type())
		return "&" + exprStrD(x.X, d+1) + "." + st.Field(x.Field).Name()
	case *ssa.Field:
		st := structOf(x.X.Type())
		return exprStrD(x.X, d+1) + "." + st.Field(x.Field).Name()
	case *ssa.IndexAddr:
		return "&" + exprStrD(x.X, d+1) + "[" + exprStrD(x.Index, d+1) + "]"
	case *ssa.Index:
		return exprStrD(x.X, d+1) + "[" + exprStrD(x.Index, d+1) + "]"
	case *ssa.Lookup:
		return exprStrD(x.X, d+1) + "[" + exprStrD(x.Index, d+1) + "]"
	case *ssa.UnOp:
		if x.Op == token.MUL {
			s := exprStrD(x.X, d+1)
			if strings.HasPrefix(s, "&") {
				return s[1:]
			}
			return "*" + s
		}
		return x.Op.String() + exprStrD(x.X, d+1)
	case *ssa.BinOp:
		return "(" + exprStrD(x.X, d+1) + " " + x.Op.String() + " " + exprStrD(x.Y, d+1) + ")"
	case *ssa.Convert:
		return shortName(x.Type().String()) + "(" + exprStrD(x.X, d+1) + ")"
	case *ssa.ChangeType:
		return exprStrD(x.X, d+1)
	case *ssa.ChangeInterface:
		return exprStrD(x.X, d+1)
	case *ssa.MakeInterface:
		return exprStrD(x.X, d+1)
	case *ssa.Slice:
		s := exprStrD(x.X, d+1) + "["
		if x.Low != nil {
			s += exprStrD(x.Low, d+1)
		}
		s += ":"
		if x.High != nil {
			s += exprStrD(x.High, d+1)
		}
		return s + "]"
	case *ssa.Extract:
		return exprStrD(x.Tuple, d+1) + "#" + fmt.Sprint(x.Index)
	case *ssa.Call:
		var as []string
		for _, a := range callArgs(x) {
			as = append(as, exprStrD(a, d+1))
		}
		return callName(x) + "(" + strings.Join(as, ", ") + ")"
	case *ssa.Phi:
		return "phi:" + x.Name() + "@" + fmt.Sprint(x.Block().Index)
	case *ssa.TypeAssert:
		return exprStrD(x.X, d+1) + ".(" + shortName(x.AssertedType.String()) + ")"
	}
	return fmt.Sprintf("%T:%s", v, v.Name())
}

// fieldBase strips a chain of FieldAddr/Field: &x.a.b -> x.
func fieldBase(v ssa.Value) ssa.Value {
	for {
		switch x := v.(type) {
		case *ssa.FieldAddr:
			v = x.X
		case *ssa.Field:
			v = x.X
		default:
			return v
		}
	}
}
