package main

import (
	_ "embed"
	"fmt"
	"go/constant"
	"go/token"
	"go/types"
	"strings"
	"sync"

	"golang.org/x/tools/go/ssa"
)

// eachInstr calls fn for every instruction of f (not of its closures).
func eachInstr(f *ssa.Function, fn func(ssa.Instruction)) {
	if f == nil {
		return
	}
	for _, b := range f.Blocks {
		for _, in := range b.Instrs {
			fn(in)
		}
	}
}

// eachInstrDeep also visits nested closures.
func eachInstrDeep(f *ssa.Function, fn func(*ssa.Function, ssa.Instruction)) {
	seen := map[*ssa.Function]bool{}
	roots := map[*ssa.Function]bool{}
	for r := f; r != nil; r = r.Parent() {
		if r.Parent() == nil {
			roots[r] = true
		}
	}
	var visit func(g *ssa.Function, depth int)
	visit = func(g *ssa.Function, depth int) {
		for _, h := range withAnon(g) {
			if seen[h] {
				continue
			}
			seen[h] = true
			eachInstr(h, func(in ssa.Instruction) { fn(h, in) })
			if depth >= 2 {
				continue
			}
			// a NEW helper (a function the rules were not written against, see baseline_funcs.txt) that is called from
			// here and nowhere else is part of this function for every rule that scans "f and its closures": extracting
			// a piece of an anchored function into a helper must not hide it
			eachInstr(h, func(in ssa.Instruction) {
				ci, ok := in.(ssa.CallInstruction)
				if !ok {
					return
				}
				sc := ci.Common().StaticCallee()
				// a call of a generic method from a generic body goes to an instance without a body of its own
				if sc != nil && sc.Origin() != nil && sc.Origin() != sc && len(sc.Origin().Blocks) > 0 {
					sc = sc.Origin()
				}
				if sc == nil || seen[sc] || !isNewHelper(sc) || sc.Pkg != h.Pkg {
					return
				}
				if soleCallSite(sc) != in {
					// several call sites (one helper for three identical loops of the anchored function, or a block
					// shared with another function): the helper's code still runs as part of this body
					if _, asValue := callSitesOf(sc); asValue {
						return
					}
				}
				roots[sc] = true
				visit(sc, depth+1)
			})
		}
	}
	visit(f, 0)
}

//go:embed baseline_funcs.txt
var baselineFuncsTxt string

var baselineFuncs map[string]bool
var baselineOnce sync.Once

// isNewHelper: f is a source function of the analysed module (with a body, not a closure) that did not exist when the
// rules were written.
func isNewHelper(f *ssa.Function) bool {
	if f == nil || len(f.Blocks) == 0 || f.Parent() != nil || !inMosdns(f) {
		return false
	}
	baselineOnce.Do(func() {
		baselineFuncs = map[string]bool{}
		for _, l := range strings.Split(baselineFuncsTxt, "\n") {
			if l = strings.TrimSpace(l); l != "" {
				baselineFuncs[l] = true
			}
		}
	})
	return !baselineFuncs[funcName(f)]
}

// withNewHelpers: f, its closures, and the NEW helpers (see isNewHelper) whose only call site lies inside that set:
// the functions that make up "the body of f" for a rule that asks where something happens.
func withNewHelpers(f *ssa.Function) map[*ssa.Function]bool {
	out := map[*ssa.Function]bool{}
	if f == nil {
		return out
	}
	eachInstrDeep(f, func(g *ssa.Function, _ ssa.Instruction) { out[g] = true })
	return out
}

type callSites struct {
	sites   []ssa.Instruction
	asValue bool
}

var callSitesCache cmap[*ssa.Function, *callSites]

// callSitesOf: the instructions of f's package that call f statically, and whether f is also used as a value.
func callSitesOf(f *ssa.Function) ([]ssa.Instruction, bool) {
	if v, ok := callSitesCache.get(f); ok {
		return v.sites, v.asValue
	}
	res := &callSites{}
	scan := func(g *ssa.Function) {
		for _, h := range withAnon(g) {
			eachInstr(h, func(in ssa.Instruction) {
				if ci, ok := in.(ssa.CallInstruction); ok {
					// (a call from a generic body reaches an instantiation whose origin is the generic method)
					if sc := ci.Common().StaticCallee(); sc != nil && (sc == f || sc.Origin() == f) {
						res.sites = append(res.sites, in)
						return
					}
				}
				for _, op := range in.Operands(nil) {
					if op != nil && *op == ssa.Value(f) {
						res.asValue = true
					}
				}
			})
		}
	}
	if f.Pkg != nil {
		for _, m := range f.Pkg.Members {
			switch x := m.(type) {
			case *ssa.Function:
				scan(x)
			case *ssa.Type:
				// declared methods (this also covers generic types, whose method sets are empty until instantiated)
				if named, ok := x.Type().(*types.Named); ok {
					for i := 0; i < named.NumMethods(); i++ {
						if g := f.Prog.FuncValue(named.Method(i)); g != nil && g.Blocks != nil {
							scan(g)
						}
					}
				}
			}
		}
	}
	callSitesCache.set(f, res)
	return res.sites, res.asValue
}

// soleCallSite: the one instruction of f's package that calls f statically (nil when there are several, none, or f is
// used as a value).
func soleCallSite(f *ssa.Function) ssa.Instruction {
	sites, asValue := callSitesOf(f)
	if asValue || len(sites) != 1 {
		return nil
	}
	return sites[0]
}

func shortName(s string) string {
	return strings.ReplaceAll(s, modPath+"/", "")
}

// callName returns a stable name of the callee of a call instruction:
//
//	static function/method: types.Func.FullName() with the module prefix stripped, generics by origin
//	interface method:       "invoke:" + FullName
//	func-typed global:      "var:" + pkg.Name
//	closure literal:        "closure:" + parent$N
//	builtin:                "builtin:" + name
//	anything else:          "dynamic"
func callName(ci ssa.CallInstruction) string {
	cc := ci.Common()
	if cc.IsInvoke() {
		return "invoke:" + shortName(cc.Method.FullName())
	}
	switch v := cc.Value.(type) {
	case *ssa.Function:
		return fnFullName(v)
	case *ssa.Builtin:
		return "builtin:" + v.Name()
	case *ssa.MakeClosure:
		if fn, ok := v.Fn.(*ssa.Function); ok {
			return "closure:" + shortName(fn.String())
		}
	case *ssa.UnOp:
		if g, ok := v.X.(*ssa.Global); ok && v.Op == token.MUL {
			return "var:" + shortName(g.Pkg.Pkg.Path()) + "." + g.Name()
		}
	}
	return "dynamic"
}

func fnFullName(f *ssa.Function) string {
	if f == nil {
		return ""
	}
	if o := f.Origin(); o != nil {
		f = o
	}
	if obj, ok := f.Object().(*types.Func); ok && obj != nil {
		return stripTypeArgs(shortName(obj.Origin().FullName()))
	}
	return stripTypeArgs(shortName(f.String()))
}

// stripTypeArgs removes "[...]" type parameter/argument lists so generic methods have one name.
func stripTypeArgs(s string) string {
	var b strings.Builder
	depth := 0
	for _, r := range s {
		switch {
		case r == '[':
			depth++
		case r == ']':
			if depth > 0 {
				depth--
			}
		case depth == 0:
			b.WriteRune(r)
		}
	}
	return b.String()
}

// staticCallee returns the mosdns-or-other *ssa.Function called, or nil.
func staticCallee(ci ssa.CallInstruction) *ssa.Function {
	cc := ci.Common()
	if cc.IsInvoke() {
		return nil
	}
	switch v := cc.Value.(type) {
	case *ssa.Function:
		if o := v.Origin(); o != nil {
			return o
		}
		return v
	case *ssa.MakeClosure:
		if fn, ok := v.Fn.(*ssa.Function); ok {
			return fn
		}
	}
	return nil
}

// callArgs returns the arguments including the receiver (for invoke: receiver first).
func callArgs(ci ssa.CallInstruction) []ssa.Value {
	cc := ci.Common()
	if cc.IsInvoke() {
		return append([]ssa.Value{cc.Value}, cc.Args...)
	}
	return cc.Args
}

// isCall reports whether in is a call (plain, defer or go) whose callName is one of names.
func isCall(in ssa.Instruction, names ...string) (ssa.CallInstruction, bool) {
	ci, ok := in.(ssa.CallInstruction)
	if !ok {
		return nil, false
	}
	n := callName(ci)
	for _, w := range names {
		if n == w {
			return ci, true
		}
	}
	return nil, false
}

// namedOf strips pointers and returns the (origin) named type of t.
func namedOf(t types.Type) *types.Named {
	for {
		switch tt := t.(type) {
		case *types.Pointer:
			t = tt.Elem()
			continue
		case *types.Named:
			return tt.Origin()
		case *types.Alias:
			t = types.Unalias(tt)
			continue
		}
		return nil
	}
}

// structCanon maps a struct type to the named type that declares it with a struct literal, so that
// `type B A` (a method-set alias such as tdcOneTimeExchanger) shares A's field keys. Set by load().
var structCanon = map[*types.Struct]*types.Named{}
var structCanonMu sync.RWMutex

func typeKey(t types.Type) string {
	n := namedOf(t)
	if n == nil {
		return shortName(t.String())
	}
	if st, ok := n.Underlying().(*types.Struct); ok {
		structCanonMu.RLock()
		cn, ok := structCanon[st]
		structCanonMu.RUnlock()
		if ok {
			n = cn
		}
	}
	if n.Obj().Pkg() == nil {
		return n.Obj().Name()
	}
	return shortName(n.Obj().Pkg().Path()) + "." + n.Obj().Name()
}

// structOf returns the struct type behind t (through pointer / named).
func structOf(t types.Type) *types.Struct {
	for {
		switch tt := t.(type) {
		case *types.Pointer:
			t = tt.Elem()
			continue
		case *types.Named:
			t = tt.Underlying()
			continue
		case *types.Alias:
			t = types.Unalias(tt)
			continue
		case *types.Struct:
			return tt
		}
		return nil
	}
}

// fieldKeyAddr returns "pkg.Type.field" for a FieldAddr or Field value.
func fieldKey(v ssa.Value) (string, bool) {
	switch fa := v.(type) {
	case *ssa.FieldAddr:
		st := structOf(fa.X.Type())
		if st == nil {
			return "", false
		}
		return typeKey(fa.X.Type()) + "." + st.Field(fa.Field).Name(), true
	case *ssa.Field:
		st := structOf(fa.X.Type())
		if st == nil {
			return "", false
		}
		return typeKey(fa.X.Type()) + "." + st.Field(fa.Field).Name(), true
	}
	return "", false
}

// loadedField: v is `*(&x.f)` (or a Field) -> field key.
func loadedField(v ssa.Value) (string, bool) {
	switch u := v.(type) {
	case *ssa.UnOp:
		if u.Op == token.MUL {
			return fieldKey(u.X)
		}
	case *ssa.Field:
		return fieldKey(u)
	}
	return "", false
}

func constInt(v ssa.Value) (int64, bool) {
	c, ok := v.(*ssa.Const)
	if !ok || c.Value == nil {
		return 0, false
	}
	if c.Value.Kind() != constant.Int {
		return 0, false
	}
	i, ok := constant.Int64Val(c.Value)
	return i, ok
}

func isNilConst(v ssa.Value) bool {
	c, ok := v.(*ssa.Const)
	return ok && c.Value == nil
}

func constString(v ssa.Value) (string, bool) {
	c, ok := v.(*ssa.Const)
	if !ok || c.Value == nil || c.Value.Kind() != constant.String {
		return "", false
	}
	return constant.StringVal(c.Value), true
}

func constBool(v ssa.Value) (bool, bool) {
	c, ok := v.(*ssa.Const)
	if !ok || c.Value == nil || c.Value.Kind() != constant.Bool {
		return false, false
	}
	return constant.BoolVal(c.Value), true
}

// stripConv removes value-preserving wrappers.
func stripConv(v ssa.Value) ssa.Value {
	for {
		switch x := v.(type) {
		case *ssa.ChangeType:
			v = x.X
		case *ssa.ChangeInterface:
			v = x.X
		case *ssa.MakeInterface:
			v = x.X
		default:
			return v
		}
	}
}

// instrPos gives the best position for an instruction.
func instrPos(in ssa.Instruction) token.Pos {
	if in == nil {
		return token.NoPos
	}
	if p := in.Pos(); p.IsValid() {
		return p
	}
	if v, ok := in.(ssa.Value); ok {
		// operands may carry a position
		for _, op := range in.Operands(nil) {
			if *op != nil && (*op).Pos().IsValid() {
				_ = v
				return (*op).Pos()
			}
		}
	}
	// fall back to neighbours in the block
	b := in.Block()
	if b != nil {
		idx := -1
		for i, x := range b.Instrs {
			if x == in {
				idx = i
			}
		}
		for i := idx - 1; i >= 0; i-- {
			if p := b.Instrs[i].Pos(); p.IsValid() {
				return p
			}
		}
		for i := idx + 1; i < len(b.Instrs); i++ {
			if p := b.Instrs[i].Pos(); p.IsValid() {
				return p
			}
		}
		if b.Parent() != nil {
			return b.Parent().Pos()
		}
	}
	return token.NoPos
}

func valuePos(v ssa.Value) token.Pos {
	if v == nil {
		return token.NoPos
	}
	if p := v.Pos(); p.IsValid() {
		return p
	}
	if in, ok := v.(ssa.Instruction); ok {
		return instrPos(in)
	}
	if v.Parent() != nil {
		return v.Parent().Pos()
	}
	return token.NoPos
}

// referrers returns the instructions using v (nil-safe).
func referrers(v ssa.Value) []ssa.Instruction {
	r := v.Referrers()
	if r == nil {
		return nil
	}
	return *r
}

// selectStates decodes a select: for each state index, the block executed when that case is chosen;
// dflt is the block of the default branch of a non-blocking select (nil for blocking).
type selCase struct {
	Idx   int
	State *ssa.SelectState
	Body  *ssa.BasicBlock
	Recv  ssa.Value // extracted received value, if any
}

func decodeSelect(sel *ssa.Select) (cases []selCase, dflt *ssa.BasicBlock, ok bool) {
	var idx *ssa.Extract
	recvVals := map[int]ssa.Value{}
	for _, r := range referrers(sel) {
		if ex, isEx := r.(*ssa.Extract); isEx {
			if ex.Index == 0 {
				idx = ex
			} else if ex.Index >= 2 {
				recvVals[ex.Index] = ex
			}
		}
	}
	cases = make([]selCase, len(sel.States))
	// map state -> recv extract index: receives are numbered in order among recv states
	ri := 2
	for i, st := range sel.States {
		cases[i] = selCase{Idx: i, State: st}
		if st.Dir == types.RecvOnly {
			if v, has := recvVals[ri]; has {
				cases[i].Recv = v
			}
			ri++
		}
	}
	if idx == nil {
		// a select with a single case and no index use cannot occur in go/ssa output for >0 states,
		// except `select {}`; report undecodable
		return cases, nil, len(sel.States) == 0
	}
	found := 0
	var lastElse *ssa.BasicBlock
	for _, r := range referrers(idx) {
		bo, isB := r.(*ssa.BinOp)
		if !isB || bo.Op != token.EQL {
			continue
		}
		k, isC := constInt(bo.Y)
		if !isC {
			continue
		}
		for _, r2 := range referrers(bo) {
			if iff, isIf := r2.(*ssa.If); isIf {
				blk := iff.Block()
				if int(k) >= 0 && int(k) < len(cases) {
					cases[k].Body = blk.Succs[0]
					found++
					if int(k) == len(cases)-1 {
						lastElse = blk.Succs[1]
					}
				}
			}
		}
	}
	if found != len(cases) {
		return cases, nil, false
	}
	if !sel.Blocking {
		dflt = lastElse
	}
	return cases, dflt, true
}

// chanOfRecv: if v is a value received from a channel (plain receive or select case) return the channel.
func chanOfRecv(v ssa.Value) (ssa.Value, bool) {
	switch x := v.(type) {
	case *ssa.UnOp:
		if x.Op == token.ARROW {
			return x.X, true
		}
	case *ssa.Extract:
		if sel, ok := x.Tuple.(*ssa.Select); ok && x.Index >= 2 {
			ri := 2
			for _, st := range sel.States {
				if st.Dir == types.RecvOnly {
					if ri == x.Index {
						return st.Chan, true
					}
					ri++
				}
			}
		}
		if u, ok := x.Tuple.(*ssa.UnOp); ok && u.Op == token.ARROW && x.Index == 0 {
			return u.X, true
		}
	}
	return nil, false
}

// exprStr renders a pure SSA expression position-independently; structurally equal expressions give
// equal strings (go/ssa does no CSE). Loads of fields print as the field key applied to the base.
func exprStr(v ssa.Value) string { return exprStrD(v, 0) }

func exprStrD(v ssa.Value, d int) string {
	if v == nil {
		return "<nil>"
	}
	if d > 8 {
		return "…"
	}
	switch x := v.(type) {
	case *ssa.Const:
		if x.Value == nil {
			return "nil"
		}
		return x.Value.ExactString()
	case *ssa.Parameter:
		return "$" + x.Name()
	case *ssa.FreeVar:
		return "$fv:" + x.Name()
	case *ssa.Global:
		return shortName(x.Pkg.Pkg.Path()) + "." + x.Name()
	case *ssa.Function:
		return fnFullName(x)
	case *ssa.Alloc:
		if x.Comment != "" {
			return "&" + x.Comment
		}
		return "&alloc"
	case *ssa.FieldAddr:
		st := structOf(x.X.Type())
		return "&" + exprStrD(x.X, d+1) + "." + st.Field(x.Field).Name()
	case *ssa.Field:
		st := structOf(x.X.Type())
		return exprStrD(x.X, d+1) + "." + st.Field(x.Field).Name()
	case *ssa.IndexAddr:
		return "&" + exprStrD(x.X, d+1) + "[" + exprStrD(x.Index, d+1) + "]"
	case *ssa.Index:
		return exprStrD(x.X, d+1) + "[" + exprStrD(x.Index, d+1) + "]"
	case *ssa.Lookup:
		return exprStrD(x.X, d+1) + "[" + exprStrD(x.Index, d+1) + "]"
	case *ssa.UnOp:
		if x.Op == token.MUL {
			s := exprStrD(x.X, d+1)
			if strings.HasPrefix(s, "&") {
				return s[1:]
			}
			return "*" + s
		}
		return x.Op.String() + exprStrD(x.X, d+1)
	case *ssa.BinOp:
		return "(" + exprStrD(x.X, d+1) + " " + x.Op.String() + " " + exprStrD(x.Y, d+1) + ")"
	case *ssa.Convert:
		if x.Type() == nil { // a synthetic conversion (expandCases)
			return "conv(" + exprStrD(x.X, d+1) + ")"
		}
		return shortName(x.Type().String()) + "(" + exprStrD(x.X, d+1) + ")"
	case *ssa.ChangeType:
		return exprStrD(x.X, d+1)
	case *ssa.ChangeInterface:
		return exprStrD(x.X, d+1)
	case *ssa.MakeInterface:
		return exprStrD(x.X, d+1)
	case *ssa.Slice:
		s := exprStrD(x.X, d+1) + "["
		if x.Low != nil {
			s += exprStrD(x.Low, d+1)
		}
		s += ":"
		if x.High != nil {
			s += exprStrD(x.High, d+1)
		}
		return s + "]"
	case *ssa.Extract:
		return exprStrD(x.Tuple, d+1) + "#" + fmt.Sprint(x.Index)
	case *ssa.Call:
		var as []string
		for _, a := range callArgs(x) {
			as = append(as, exprStrD(a, d+1))
		}
		return callName(x) + "(" + strings.Join(as, ", ") + ")"
	case *ssa.Phi:
		return "phi:" + x.Name() + "@" + fmt.Sprint(x.Block().Index)
	case *ssa.TypeAssert:
		return exprStrD(x.X, d+1) + ".(" + shortName(x.AssertedType.String()) + ")"
	}
	return fmt.Sprintf("%T:%s", v, v.Name())
}

// fieldBase strips a chain of FieldAddr/Field: &x.a.b -> x.
func fieldBase(v ssa.Value) ssa.Value {
	for {
		switch x := v.(type) {
		case *ssa.FieldAddr:
			v = x.X
		case *ssa.Field:
			v = x.X
		default:
			return v
		}
	}
}

// sameLoadedPlace: a and b are the same value, or two loads of the same place (go/ssa does no common-subexpression
// elimination: `if h.Ttl <= d {...} else { h.Ttl -= d }` loads the field twice) — the addresses are structurally the
// same chain of field selections over the same base value.
func sameLoadedPlace(a, b ssa.Value) bool {
	if a == b {
		return true
	}
	la, ok1 := a.(*ssa.UnOp)
	lb, ok2 := b.(*ssa.UnOp)
	if !ok1 || !ok2 || la.Op != token.MUL || lb.Op != token.MUL {
		// two extractions of the same field of one struct value
		fa, ok1 := a.(*ssa.Field)
		fb, ok2 := b.(*ssa.Field)
		return ok1 && ok2 && fa.Field == fb.Field && sameLoadedPlace(fa.X, fb.X)
	}
	return sameAddr(la.X, lb.X, 0)
}

func sameAddr(a, b ssa.Value, depth int) bool {
	if a == b {
		return true
	}
	if depth > 6 {
		return false
	}
	fa, ok1 := a.(*ssa.FieldAddr)
	fb, ok2 := b.(*ssa.FieldAddr)
	if ok1 && ok2 {
		return fa.Field == fb.Field && sameAddr(fa.X, fb.X, depth+1)
	}
	// the base pointer itself loaded twice from the same place
	la, ok1 := a.(*ssa.UnOp)
	lb, ok2 := b.(*ssa.UnOp)
	if ok1 && ok2 && la.Op == token.MUL && lb.Op == token.MUL {
		return sameAddr(la.X, lb.X, depth+1)
	}
	return false
}

// reachingStores: for a load of a purely local variable cell (an Alloc whose only uses are stores into it, loads and
// debug references: no closure captures it and its address goes nowhere), the stores whose value the load can observe
// (a store reaches the load when some path leads from it to the load without another store to the cell). ok is false
// when the cell is not purely local.
func reachingStores(ld *ssa.UnOp) ([]*ssa.Store, bool) {
	al, ok := ld.X.(*ssa.Alloc)
	if !ok || ld.Op != token.MUL {
		return nil, false
	}
	var stores []*ssa.Store
	for _, r := range referrers(al) {
		switch x := r.(type) {
		case *ssa.Store:
			if x.Addr != ssa.Value(al) {
				return nil, false
			}
			stores = append(stores, x)
		case *ssa.UnOp:
			if x.Op != token.MUL {
				return nil, false
			}
		case *ssa.DebugRef:
		default:
			return nil, false
		}
	}
	isStore := func(x ssa.Instruction) bool {
		st, ok := x.(*ssa.Store)
		return ok && st.Addr == ssa.Value(al)
	}
	var out []*ssa.Store
	for _, s := range stores {
		if _, ok := reachAvoiding(s, func(x ssa.Instruction) bool { return x == ssa.Instruction(ld) }, isStore); ok {
			out = append(out, s)
		}
	}
	return out, true
}

// cellValue: the value a load of a purely local cell observes when exactly one store reaches it; v itself otherwise.
func cellValue(v ssa.Value) ssa.Value {
	for i := 0; i < 4; i++ {
		ld, ok := v.(*ssa.UnOp)
		if !ok {
			return v
		}
		rs, ok := reachingStores(ld)
		if !ok || len(rs) != 1 {
			return v
		}
		v = rs[0].Val
	}
	return v
}

// sitesWithin: the static call sites of helper h that lie in the body of root (root, its closures and the NEW helpers
// scanned with it).
func sitesWithin(h, root *ssa.Function) []ssa.CallInstruction {
	body := withNewHelpers(root)
	var out []ssa.CallInstruction
	sites, _ := callSitesOf(h)
	for _, st := range sites {
		if body[st.Parent()] && st.Parent() != h {
			out = append(out, st.(ssa.CallInstruction))
		}
	}
	return out
}

// guardsWithin: the guards in force at in when it executes as part of root's body: its own, plus — when in lies in a NEW
// helper — those that hold at every call site of the helper inside root's body (guards common to all such sites).
func guardsWithin(in ssa.Instruction, root *ssa.Function) []guard {
	gs := guardsOfInstr(in)
	h := in.Parent()
	for h != nil && h.Parent() != nil {
		h = h.Parent()
	}
	if h == nil || h == root || !isNewHelper(h) {
		return gs
	}
	sites := sitesWithin(h, root)
	if len(sites) == 0 {
		return gs
	}
	common := map[string]guard{}
	for i, st := range sites {
		cur := map[string]guard{}
		for _, g := range guardsWithin(st, root) {
			cur[guardKey(g)] = g
		}
		if i == 0 {
			common = cur
			continue
		}
		for k := range common {
			if _, ok := cur[k]; !ok {
				delete(common, k)
			}
		}
	}
	for _, g := range common {
		gs = append(gs, g)
	}
	return gs
}

// actualsWithin: what a value stands for inside root's body: v itself, or — when v is a parameter of a NEW helper — the
// arguments bound to it at the helper's call sites inside root's body.
func actualsWithin(v ssa.Value, root *ssa.Function) []ssa.Value {
	prm, ok := v.(*ssa.Parameter)
	if !ok || prm.Parent() == root || !isNewHelper(prm.Parent()) {
		return []ssa.Value{v}
	}
	var out []ssa.Value
	for _, st := range sitesWithin(prm.Parent(), root) {
		args := st.Common().Args
		for i, fp := range prm.Parent().Params {
			if fp == prm && i < len(args) && !st.Common().IsInvoke() {
				out = append(out, actualsWithin(args[i], root)...)
			}
		}
	}
	if len(out) == 0 {
		return []ssa.Value{v}
	}
	return out
}

// withMergingPhis: v and the phis that merge v with its siblings (`if tcp { r, err = readA() } else { r, err = readB() }`
// makes r and err phis of the two calls' results): a test of such a phi is a test of v on the paths that come from v.
func withMergingPhis(v ssa.Value) []ssa.Value {
	out := []ssa.Value{v}
	for _, r := range referrers(v) {
		if ph, ok := r.(*ssa.Phi); ok {
			out = append(out, ph)
		}
	}
	return out
}
