package main

import (
	"encoding/json"
	"fmt"
	"os"
	"path/filepath"
	"sort"
	"strings"
	"sync"
)

// A mutant is one broken instance, applied in memory through go/packages' Overlay.
type mutant struct {
	Name       string `json:"name"`
	Property   string `json:"property"`
	File       string `json:"file"` // relative to the repo root
	Old        string `json:"old"`
	New        string `json:"new"`
	Edits      []edit `json:"edits,omitempty"` // further edits (same or other files)
	ExpectRule string `json:"expect_rule"`     // e.g. C02-R1
	Note       string `json:"note,omitempty"`
}

type edit struct {
	File string `json:"file"`
	Old  string `json:"old"`
	New  string `json:"new"`
}

type mutantOutcome struct {
	Name     string   `json:"name"`
	Expect   string   `json:"expect_rule"`
	Status   string   `json:"status"` // caught | missed | skipped | nocompile
	Reported []string `json:"reported_rules,omitempty"`
	Detail   string   `json:"detail,omitempty"`
}

func loadMutants(only string) ([]mutant, error) {
	dir := filepath.Join(verifDir(), "mutants")
	files, _ := filepath.Glob(filepath.Join(dir, "*.json"))
	sort.Strings(files)
	var out []mutant
	for _, f := range files {
		b, err := os.ReadFile(f)
		if err != nil {
			return nil, err
		}
		var ms []mutant
		if err := json.Unmarshal(b, &ms); err != nil {
			return nil, fmt.Errorf("%s: %w", f, err)
		}
		for _, m := range ms {
			if only == "" || m.Property == only {
				out = append(out, m)
			}
		}
	}
	return out, nil
}

func applyMutant(repo string, m mutant) (map[string][]byte, string) {
	ov := map[string][]byte{}
	edits := append([]edit{{File: m.File, Old: m.Old, New: m.New}}, m.Edits...)
	for _, e := range edits {
		if e.File == "" {
			e.File = m.File
		}
		path := filepath.Join(repo, e.File)
		src, ok := ov[path]
		if !ok {
			b, err := os.ReadFile(path)
			if err != nil {
				return nil, "file missing: " + e.File
			}
			src = b
		}
		if n := strings.Count(string(src), e.Old); n != 1 {
			return nil, fmt.Sprintf("anchor text occurs %d times in %s (tree changed); mutant skipped", n, e.File)
		}
		ov[path] = []byte(strings.Replace(string(src), e.Old, e.New, 1))
	}
	return ov, ""
}

func evalMutant(repo string, m mutant) mutantOutcome {
	out := mutantOutcome{Name: m.Name, Expect: m.ExpectRule}
	ov, why := applyMutant(repo, m)
	if ov == nil {
		out.Status, out.Detail = "skipped", why
		return out
	}
	p, err := load(loadOpts{dir: repo, overlay: ov})
	if err != nil {
		out.Status, out.Detail = "nocompile", err.Error()
		return out
	}
	pd := registry[m.Property]
	if pd == nil {
		out.Status, out.Detail = "skipped", "no such property registered"
		return out
	}
	c, _ := runProperty(pd, p)
	rules := map[string]bool{}
	known, _ := loadKnown(filepath.Join(verifDir(), "known_findings.txt"))
	for _, o := range c.Obs {
		if o.Verdict != "ok" {
			// a recorded finding fails on the unmutated tree as well: it says nothing about the mutant
			isKnown := false
			for _, k := range known {
				if k.Prop == m.Property && k.Rule == o.Rule && k.Construct == o.Construct {
					isKnown = true
				}
			}
			if isKnown {
				continue
			}
			rules[o.Rule] = true
		}
	}
	for r := range rules {
		out.Reported = append(out.Reported, r)
	}
	sort.Strings(out.Reported)
	if m.ExpectRule == "none" {
		// behaviour-preserving variant: the check must stay silent
		if len(out.Reported) == 0 {
			out.Status = "caught"
			out.Detail = "equivalent variant: silent as required"
		} else {
			out.Status = "missed"
			out.Detail = "FALSE ALARM on a behaviour-preserving variant"
		}
		return out
	}
	out.Status = "missed"
	for _, want := range strings.Split(m.ExpectRule, "|") {
		if rules[want] {
			out.Status = "caught"
		}
	}
	if out.Status == "missed" && len(out.Reported) > 0 {
		out.Detail = "reported under other rule(s) only"
	}
	return out
}

func runMutantSet(repo, only string) []mutantOutcome {
	ms, err := loadMutants(only)
	if err != nil {
		return []mutantOutcome{{Name: "load", Status: "skipped", Detail: err.Error()}}
	}
	outs := make([]mutantOutcome, len(ms))
	sem := make(chan struct{}, 4)
	var wg sync.WaitGroup
	for i := range ms {
		wg.Add(1)
		sem <- struct{}{}
		go func(i int) {
			defer wg.Done()
			defer func() { <-sem }()
			outs[i] = evalMutant(repo, ms[i])
		}(i)
	}
	wg.Wait()
	return outs
}

func runMutants(repo, only string, print bool) int {
	outs := runMutantSet(repo, only)
	bad := 0
	for _, o := range outs {
		if print {
			fmt.Printf("%-9s %-46s expect=%-12s reported=%v %s\n", o.Status, o.Name, o.Expect, o.Reported, o.Detail)
		}
		if o.Status == "missed" || o.Status == "nocompile" {
			bad++
		}
	}
	if print {
		fmt.Printf("mutants: %d total, %d not caught\n", len(outs), bad)
	}
	if bad > 0 {
		return 1
	}
	return 0
}

// addSelfTest (thorough tier): evaluates the property's mutant corpus in memory and records the
// outcome in the evidence. It never changes the verdict about /repo.
func addSelfTest(res *propResult, id, repo string) {
	outs := runMutantSet(repo, id)
	caught, missed, skipped := 0, 0, 0
	var missedNames []string
	for _, o := range outs {
		switch o.Status {
		case "caught":
			caught++
		case "skipped":
			skipped++
		default:
			missed++
			missedNames = append(missedNames, o.Name)
		}
	}
	res.extra["mutants_total"] = len(outs)
	res.extra["mutants_caught"] = caught
	res.extra["mutants_skipped"] = skipped
	res.extra["mutants_missed"] = missedNames
	res.extra["mutant_outcomes"] = outs
	fmt.Printf("%s self-test: %d mutants, %d caught, %d missed, %d skipped\n", id, len(outs), caught, missed, skipped)
}

// addCallGraphCrossCheck (thorough tier): the quick rules enumerate call sites of sensitive functions by static
// callee. A dynamic path (method value, function-typed field, interface dispatch) would escape that enumeration, so
// here every VTA in-edge of those functions must come from a static call instruction.
func addCallGraphCrossCheck(res *propResult, repo string) {
	p, err := load(loadOpts{dir: repo})
	if err != nil {
		res.extra["callgraph_crosscheck"] = "load failed: " + err.Error()
		return
	}
	sensitive := []struct{ rel, recv, name string }{
		{relCachePkg, "Cache", "Store"}, {relCachePlugin, "", "saveRespToCache"}, {relCachePlugin, "", "getMsgKey"}, {relCachePlugin, "", "getRespFromCache"},
		{relTransport, "TraditionalDnsConn", "addQueueC"}, {relTransport, "TraditionalDnsConn", "exchange"}, {relTransport, "TraditionalDnsConn", "writeQuery"},
		{relTransport, "ReuseConnTransport", "setIdle"}, {relTransport, "reusableConn", "exchange"},
		{relQctx, "Context", "SetResponse"}, {relNetlist, "List", "Append"}, {relNetlist, "List", "Sort"},
		{relTransport, "", "copyMsgWithLenHdr"}, {relTransport, "", "copyMsg"}, // PackTCPBuffer is handed to the handler as a function value on purpose (C16-W1 checks that hand-over)
		{relUpstream, "", "parseDialAddr"}, {relUpstream, "", "tryTrimIpv6Brackets"}, {relQctx, "", "newOpt"},
	}
	g := p.vta()
	type row struct {
		Func    string `json:"func"`
		Static  int    `json:"static_call_sites"`
		Dynamic int    `json:"dynamic_in_edges"`
	}
	var rows []row
	for _, sfn := range sensitive {
		f := p.Func(sfn.rel, sfn.recv, sfn.name)
		if f == nil {
			continue
		}
		n := g.Nodes[f]
		r := row{Func: funcName(f)}
		if n != nil {
			for _, e := range n.In {
				if e.Site == nil {
					continue
				}
				if sc := staticCallee(e.Site); sc == f {
					r.Static++
				} else if e.Caller != nil && e.Caller.Func != nil && inMosdns(e.Caller.Func) {
					r.Dynamic++
					res.obs = append(res.obs, Obligation{Rule: res.prop + "-CG", Construct: "dynamic-call:" + funcName(f), Pos: p.pos(e.Site.Pos()), Verdict: "undecided",
						Detail: "a dynamic call path (method value / function value / interface dispatch) reaches " + funcName(f) + " from " + funcName(e.Caller.Func) + "; the call-site enumerations of the quick rules do not cover it", Config: "vta"})
				}
			}
		}
		rows = append(rows, r)
	}
	res.extra["callgraph_crosscheck"] = rows
}
