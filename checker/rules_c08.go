package main

import (
	"fmt"
	"go/token"
	"go/types"
	"strings"

	"golang.org/x/tools/go/ssa"
)

func init() {
	register(&propDef{
		ID: "C08",
		Explanation: "Decides the structure of both retry loops: (R1) the loop is re-entered exactly under {the exchange failed, the connection was not opened for this call, the attempt counter " +
			"is below its bound} (pipeline: and the caller's context is still live) — no further condition narrows the retry, and every other failure returns the error; a success returns the " +
			"reply; (R2) the constant bound admits at most 4 attempts; (R3) the is-new flag is true exactly on the path that created a connection for this call; (R4) connections found closed " +
			"are dropped from the pool when detected, and a connection that closes removes itself from the connection and idle sets under the transport lock. Whether the retry succeeds " +
			"against a real server is not decided.",
		Assumptions: []string{"lock identity by (type, field)"},
		Run:         runC08,
	})
}

func runC08(c *Ctx) {
	p := c.P
	T := relTransport + "."
	fns := p.funcsIn(relTransport)
	c.see(fns...)
	lf := p.newLockFacts()
	lf.analyseScope(fns)

	type loopInfo struct {
		recv     string
		exchName string // callName suffix of the exchange attempt
		needCtx  bool
	}
	for _, li := range []loopInfo{{"PipelineTransport", "ExchangeReserved", true}, {"ReuseConnTransport", ").exchange", false}} {
		f := c.fn(relTransport, li.recv, "ExchangeContext")
		if f == nil {
			continue
		}
		// the attempt
		var attempt *ssa.Call
		eachInstr(f, func(in ssa.Instruction) {
			if ci, ok := in.(*ssa.Call); ok && strings.HasSuffix(callName(ci), li.exchName) {
				attempt = ci
			}
		})
		// second form: one attempt is a NEW method of its own (`resp, retriable, err := t.exchangeOnce(ctx, m)`), called
		// from the loop only; the loop is judged on the helper's results, the is-new flag inside the helper
		var once *ssa.Function // the attempt helper
		var onceFlagIdx = -1   // index of its bool result
		var innerAttempt *ssa.Call
		if attempt == nil {
			eachInstr(f, func(in ssa.Instruction) {
				ci, ok := in.(*ssa.Call)
				if !ok || once != nil {
					return
				}
				h := staticCallee(ci)
				if h == nil || !isNewHelper(h) || soleCallSite(h) != in {
					return
				}
				var inner *ssa.Call
				eachInstr(h, func(x ssa.Instruction) {
					if cx, ok := x.(*ssa.Call); ok && strings.HasSuffix(callName(cx), li.exchName) {
						inner = cx
					}
				})
				res := h.Signature.Results()
				if inner == nil || res.Len() != 3 {
					return
				}
				for i := 0; i < res.Len(); i++ {
					if types.Identical(res.At(i).Type().Underlying(), types.Typ[types.Bool]) {
						onceFlagIdx = i
					}
				}
				if onceFlagIdx >= 0 {
					once, attempt, innerAttempt = h, ci, inner
				}
			})
		}
		// the retry counter: phi [0, phi+1]
		var retry *ssa.Phi
		var inc *ssa.BinOp
		eachInstr(f, func(in ssa.Instruction) {
			phi, ok := in.(*ssa.Phi)
			if !ok || len(phi.Edges) != 2 {
				return
			}
			for i, e := range phi.Edges {
				if n, ok := constInt(e); ok && n == 0 {
					if bo, ok := phi.Edges[1-i].(*ssa.BinOp); ok && bo.Op == token.ADD && bo.X == ssa.Value(phi) {
						if k, ok := constInt(bo.Y); ok && k == 1 {
							retry, inc = phi, bo
						}
					}
				}
			}
		})
		c.rule("R1", "the loop is re-entered exactly under {attempt failed, connection not new, counter below bound[, ctx live]}", 2)
		if attempt == nil || retry == nil {
			c.anchorMissing("retry loop shape in " + funcName(f))
			continue
		}
		var errV ssa.Value
		for _, r := range referrers(attempt) {
			if ex, ok := r.(*ssa.Extract); ok && ex.Type().String() == "error" {
				errV = ex
			}
		}
		key := "retry-guard@" + funcName(f)
		var hasErr, hasNotNew, hasBound, hasCtx bool
		var extra []string
		var boundOp token.Token
		var boundK int64 = -1
		var isNewV ssa.Value
		for _, g := range guardsOf(inc.Block()) {
			if !attempt.Block().Dominates(g.If.Block()) {
				continue // guards before the attempt (e.g. reservation succeeded) are not retry conditions
			}
			if cm, ok := g.asCmp(); ok {
				if cm.X == errV && isNilConst(cm.Y) && cm.Op == token.NEQ {
					hasErr = true
					continue
				}
				if cm.X == ssa.Value(retry) {
					if k, ok := constInt(cm.Y); ok && (cm.Op == token.LSS || cm.Op == token.LEQ) {
						hasBound, boundOp, boundK = true, cm.Op, k
						continue
					}
				}
				if cl, ok := cm.X.(*ssa.Call); ok && callName(cl) == "invoke:(context.Context).Err" && isNilConst(cm.Y) && cm.Op == token.EQL && cl.Call.Value == ssa.Value(f.Params[1]) {
					hasCtx = true
					continue
				}
			}
			// helper form: the flag is the helper's bool result; what it means is decided from the helper's returns below
			if v, truth := g.asBool(); once != nil && isNewV == nil {
				if ex, ok := v.(*ssa.Extract); ok && ex.Tuple == ssa.Value(attempt) && ex.Index == onceFlagIdx {
					if pol, inner, ok := attemptFlagMeaning(once, innerAttempt, onceFlagIdx); ok && pol == truth {
						hasNotNew = true
						isNewV = inner
						continue
					}
				}
			}
			if v, truth := g.asBool(); !truth && types.Identical(v.Type().Underlying(), types.Typ[types.Bool]) && isNewV == nil {
				// the is-new flag: a bool result of the function that provides the connection, or a phi of constants
				isFlag := false
				if ex, ok := v.(*ssa.Extract); ok {
					if cl, ok := ex.Tuple.(*ssa.Call); ok && inMosdns(staticCallee(cl)) && instrDominates(cl, attempt) {
						isFlag = true
					}
				}
				if phi, ok := v.(*ssa.Phi); ok {
					isFlag = true
					for _, e := range phi.Edges {
						if _, ok := constBool(e); !ok {
							isFlag = false
						}
					}
				}
				// `isNewConn := c == nil` for the connection the idle pool handed out
				if bo, ok := v.(*ssa.BinOp); ok && bo.Op == token.EQL && isNilConst(bo.Y) && idlePoolResult(bo.X) {
					isFlag = true
				}
				if isFlag {
					hasNotNew = true
					isNewV = v
					continue
				}
			}
			if g.Derived {
				continue
			}
			extra = append(extra, exprStr(g.Cond)+fmt.Sprintf("=%v", g.Truth))
		}
		switch {
		case !hasErr || !hasNotNew || !hasBound:
			c.fail(key, instrPos(inc), "the retry is not conditioned on {attempt failed: %v, connection not new: %v, bounded counter: %v}", hasErr, hasNotNew, hasBound)
		case len(extra) > 0:
			c.fail(key, instrPos(inc), "the retry is additionally restricted by %s: a failure on a reused connection is reported instead of retried although a fresh connection would work", strings.Join(extra, ", "))
		case li.needCtx && !hasCtx:
			c.fail(key, instrPos(inc), "the pipelined retry does not require the caller's context to be live")
		default:
			c.ok(key, instrPos(inc), "retry iff failed && !new && retry %s %d%s", boundOp, boundK, map[bool]string{true: " && ctx.Err()==nil", false: ""}[hasCtx])
		}
		// every return: success returns the attempt's reply; failures return an error
		okRets := true
		var why string
		for _, r := range returnsOf(f) {
			rv := returnedValues(r)
			if isNilConst(rv[1]) {
				ex, ok := rv[0].(*ssa.Extract)
				if !ok || ex.Tuple != ssa.Value(attempt) {
					okRets, why = false, "a nil-error return does not return the attempt's reply"
				}
			} else if !isNilConst(rv[0]) {
				okRets, why = false, "an error return also returns a buffer"
			}
		}
		c.check(okRets, "returns@"+funcName(f), f.Pos(), "success returns the attempt's reply, failure returns (nil, err)", why)

		c.rule("R2", "at most 4 attempts", 2)
		if hasBound {
			attempts := boundK + 1
			if boundOp == token.LEQ {
				attempts = boundK + 2
			}
			c.check(attempts <= 4 && attempts >= 2, "attempts@"+funcName(f), instrPos(inc), fmt.Sprintf("at most %d attempts", attempts),
				fmt.Sprintf("the loop allows %d attempts (bound is 4, and at least one retry is required)", attempts))
		}

		c.rule("R3", "is-new flag true exactly where a connection was created for this call", 2)
		if isNewV != nil {
			key := "is-new@" + funcName(f)
			if once != nil {
				f = once // the flag and the dial live in the attempt helper
			}
			switch v := isNewV.(type) {
			case *ssa.Phi: // reuse: phi [false, true] with the true edge from the dial block
				good := len(v.Edges) == 2
				for i, e := range v.Edges {
					b, ok := constBool(e)
					if !ok {
						good = false
						continue
					}
					pred := v.Block().Preds[i]
					dials := false
					for _, in := range pred.Instrs {
						if ci, ok := in.(*ssa.Call); ok && strings.HasSuffix(callName(ci), ".getNewConn") {
							dials = true
						}
					}
					if b != dials {
						good = false
					}
				}
				c.check(good, key, valuePos(v), "flag is true exactly on the edge from the dial", "the is-new flag does not coincide with 'this call dialled the connection': a failure on a reused connection is reported, or a failing fresh dial is retried")
			case *ssa.Extract: // pipeline: second result of getReservedExchanger
				cl, ok := v.Tuple.(*ssa.Call)
				g := staticCallee(cl)
				if !ok || g == nil {
					c.undecided(key, valuePos(v), "cannot resolve the producer of the is-new flag")
					break
				}
				good, why := checkIsNewProducer(g, v.Index)
				c.check(good, key+"/"+g.Name(), g.Pos(), "flag is true exactly when this call created the connection and reserved on it", why)
			case *ssa.BinOp: // reuse: `isNewConn := idle == nil`; the dial runs exactly under it
				good, nDial := true, 0
				eachInstr(f, func(in ssa.Instruction) {
					ci, ok := in.(*ssa.Call)
					if !ok || !strings.HasSuffix(callName(ci), ".getNewConn") {
						return
					}
					nDial++
					under := false
					for _, g := range guardsOfInstr(in) {
						// `isNew := c == nil` must be true at the dial, `reused := c != nil` false
						if bv, truth := g.asBool(); bv == ssa.Value(v) && truth == (v.Op == token.EQL) {
							under = true
							continue
						}
						if cm, ok := g.asCmp(); ok && isNilConst(cm.Y) && cm.X.Type().String() == "error" {
							continue
						}
						if g.Derived {
							continue
						}
						good = false
					}
					if !under {
						good = false
					}
				})
				c.check(good && nDial > 0, key, valuePos(v), "the flag is 'the idle pool had no connection', and the dial runs exactly under it", "the is-new flag does not coincide with 'this call dialled the connection': a failure on a reused connection is reported, or a failing fresh dial is retried")
			default:
				c.undecided(key, valuePos(isNewV), "unrecognised is-new flag %s", exprStr(isNewV))
			}
		}
	}

	// ---------------------------------------------------------------- R5
	c.rule("R5", "a connection whose read or write failed is marked dead on every path (close-with-error), for every connection kind", 5)
	checkIOErrorCloses(c)

	// ---------------------------------------------------------------- R7
	c.rule("R7", "a failed attempt reaches the retry loop as a non-nil error, promptly: waits wake on close, the close error is stored before the notification, no (nil, nil) result", 8)
	checkAttemptOutcome(c)

	// ---------------------------------------------------------------- R6
	c.rule("R6", "what a retry transmits is still the query: pooled buffers of the transports are not used, re-sent or released again after their release (also when a callee released them)", 6)
	checkBufferTypestate(c, fns)

	// ---------------------------------------------------------------- R4
	c.cur = c.Prop + "-R7"
	checkReaderDoneWakesWaiters(c)

	c.rule("R8", "the retry loop runs under the caller's own context: attempts and dials get the context the caller passed, not one with a deadline added on the way (with an added deadline the retry that follows a dead reused connection is already out of time); each attempt arms a deadline of its own", 7)
	checkCallerCtxPassedOn(c, p.funcsIn(relTransport))
	checkCtxCallsGetCallerCtx(c, p.funcsIn(relTransport))
	checkDoneCaseReportsOwnCtx(c, p.funcsIn(relTransport, relUpstream))
	checkAttemptDeadlineFresh(c)

	c.rule("R4", "dead connections leave the pools when detected / when they close", 4)
	if g := c.fn(relTransport, "PipelineTransport", "getReservedExchanger"); g != nil {
		good := false
		eachInstr(g, func(in ssa.Instruction) {
			ci, ok := isCall(in, "builtin:delete")
			if !ok {
				return
			}
			a := ci.Common().Args
			if k, _ := loadedField(a[0]); k != T+"PipelineTransport.conns" {
				return
			}
			for _, gd := range guardsOfInstr(in) {
				v, truth := gd.asBool()
				if ex, ok := v.(*ssa.Extract); ok && truth && ex.Index == 1 {
					if cl, ok := ex.Tuple.(*ssa.Call); ok && strings.HasSuffix(callName(cl), ".ReserveNewQuery") && cl.Call.Args[0] == a[1] {
						good = true
					}
				}
			}
		})
		c.check(good, "drop-closed@"+funcName(g), g.Pos(), "a connection reporting closed is deleted from conns", "connections that report 'closed' stay in the pool: every later query wastes its attempts on them")
	}
	if f := c.fn(relTransport, "TraditionalDnsConn", "CloseWithErr"); f != nil {
		// the fast-check flag must be set before waiters are woken: a woken caller retries at once and must not
		// be able to reserve on this connection again
		good := false
		eachInstrDeep(f, func(g *ssa.Function, in ssa.Instruction) {
			ci, ok := isCall(in, "builtin:close")
			if !ok {
				return
			}
			if k, _ := loadedField(ci.Common().Args[0]); k != T+"TraditionalDnsConn.closeNotify" {
				return
			}
			eachInstr(g, func(x ssa.Instruction) {
				if st, ok := x.(*ssa.Call); ok && callName(st) == "(*sync/atomic.Bool).Store" && instrDominates(x, in) {
					if k, _ := fieldKey(st.Call.Args[0]); k == T+"TraditionalDnsConn.closed" {
						if b, ok := constBool(st.Call.Args[1]); ok && b {
							good = true
						}
					}
				}
			})
		})
		c.check(good, "closed-flag-before-notify", f.Pos(), "closed is set before closeNotify is closed", "the closed flag is set after the waiters were woken: a woken caller's retries reserve the same dying connection again and the query fails without a fresh connection being tried")
	}
	if f := c.fn(relTransport, "reusableConn", "closeWithErr"); f != nil {
		del := map[string]bool{}
		eachInstrDeep(f, func(g *ssa.Function, in ssa.Instruction) {
			ci, ok := isCall(in, "builtin:delete")
			if !ok {
				return
			}
			a := ci.Common().Args
			k, _ := loadedField(a[0])
			lfc := p.newLockFacts()
			lfc.analyse(f, lockset{})
			if lfc.held(in)[T+"ReuseConnTransport.m"] == lockW {
				del[k] = true
			}
		})
		c.check(del[T+"ReuseConnTransport.conns"], "self-remove:conns", f.Pos(), "a closing connection removes itself from conns under t.m", "a closing connection stays in conns")
		c.check(del[T+"ReuseConnTransport.idleConns"], "self-remove:idleConns", f.Pos(), "a closing connection removes itself from idleConns under t.m",
			"a connection that closes while idle stays in the idle set: later queries are sent on connections known to be dead until their attempts are used up")
	}
}

// checkIsNewProducer: in getReservedExchanger the flag result idx is true exactly on paths through the dial with a
// successful reservation.
func checkIsNewProducer(g *ssa.Function, idx int) (bool, string) {
	var dial ssa.Instruction
	eachInstr(g, func(in ssa.Instruction) {
		if ci, ok := in.(*ssa.Call); ok && (strings.HasSuffix(callName(ci), ".newLazyDnsConn") || strings.HasSuffix(callName(ci), ".getNewConn")) {
			dial = in
		}
	})
	if dial == nil {
		return false, "no dial found in " + funcName(g)
	}
	good := true
	why := ""
	n := 0
	for _, r := range returnsOf(g) {
		rv := returnedValues(r)
		for _, lf := range expandCases(rv[idx], nil, 0) {
			b, ok := constBool(lf.val)
			if !ok {
				return false, "the flag is not a constant on some path: " + exprStr(lf.val)
			}
			n++
			if !b {
				continue
			}
			// a true leaf must flow from the dial's block (or one it dominates)
			viaDial := lf.pred != nil && (lf.pred == dial.Block() || dial.Block().Dominates(lf.pred))
			if lf.pred == nil && dial.Block().Dominates(r.Block()) {
				viaDial = true // a constant returned directly by a return that lies behind the dial
			}
			if !viaDial {
				good, why = false, "the flag can be true on a path that did not dial a new connection"
			}
		}
	}
	if n == 0 {
		return false, "no flag value found"
	}
	// converse: the flag is set to the constant true right where the connection was dialled, under no further condition
	// (a dialled connection reported as reused makes the caller retry on fresh connections again and again)
	setAtDial := false
	eachInstr(g, func(in ssa.Instruction) {
		st, ok := in.(*ssa.Store)
		if !ok {
			return
		}
		if b, isB := constBool(st.Val); !isB || !b {
			return
		}
		if _, isAlloc := st.Addr.(*ssa.Alloc); !isAlloc {
			return
		}
		if st.Block() == dial.Block() {
			setAtDial = true
		}
	})
	if !setAtDial {
		// SSA may have lifted the variable: then a true leaf must come straight from the dial's own block
		for _, r := range returnsOf(g) {
			for _, lf := range expandCases(returnedValues(r)[idx], nil, 0) {
				if b, ok := constBool(lf.val); ok && b && lf.pred == dial.Block() {
					setAtDial = true
				}
			}
		}
	}
	if !setAtDial {
		// explicit-return shape: every return behind the dial that reports no error returns the constant true, and
		// there is one
		okAll, nTrue := true, 0
		for _, r := range returnsOf(g) {
			if !dial.Block().Dominates(r.Block()) {
				continue
			}
			rv := returnedValues(r)
			if !isNilConst(rv[len(rv)-1]) {
				continue
			}
			if b, ok := constBool(rv[idx]); ok && b {
				nTrue++
			} else {
				okAll = false
			}
		}
		if okAll && nTrue > 0 {
			setAtDial = true
		}
	}
	if !setAtDial {
		return false, "the flag is not set to true unconditionally where the connection is dialled: a freshly dialled connection can be reported as a reused one, so its failure is retried instead of reported"
	}
	return good, why
}

// idlePoolResult: v is the connection result of a getIdleConn call (through phis of the retry loop not followed).
func idlePoolResult(v ssa.Value) bool {
	ex, ok := v.(*ssa.Extract)
	if !ok || ex.Index != 0 {
		return false
	}
	cl, ok := ex.Tuple.(*ssa.Call)
	return ok && strings.HasSuffix(callName(cl), ".getIdleConn")
}

// attemptFlagMeaning: the attempt helper `once` (NEW; results (reply, flag bool, error)) wraps the exchange call `inner`.
// Decides what a true flag means and returns the is-new value it is built from:
//   - on the return(s) reached over "the exchange failed" the flag is NOT(is-new) (polarity true: "retriable") or
//     is-new itself (polarity false), where is-new is a phi of constants, or `c == nil` / `c != nil` of the connection
//     the idle pool handed out;
//   - on every other return the flag is the constant that means "do not retry", the success return gives the
//     exchange's reply with a nil error, failure returns give a nil reply.
func attemptFlagMeaning(once *ssa.Function, inner *ssa.Call, flagIdx int) (polarity bool, isNew ssa.Value, ok bool) {
	var innerErr ssa.Value
	for _, r := range referrers(inner) {
		if ex, isEx := r.(*ssa.Extract); isEx && ex.Type().String() == "error" {
			innerErr = ex
		}
	}
	if innerErr == nil {
		return false, nil, false
	}
	classify := func(v ssa.Value) (pol bool, base ssa.Value, good bool) {
		neg := false
		for {
			if u, isU := v.(*ssa.UnOp); isU && u.Op == token.NOT {
				v, neg = u.X, !neg
				continue
			}
			break
		}
		switch x := v.(type) {
		case *ssa.Phi:
			for _, e := range x.Edges {
				if _, isB := constBool(e); !isB {
					return false, nil, false
				}
			}
			return neg, x, true // phi is the is-new flag; negated = retriable
		case *ssa.BinOp:
			if isNilConst(x.Y) && idlePoolResult(x.X) {
				if x.Op == token.EQL {
					return neg, x, true
				}
				if x.Op == token.NEQ { // reused := c != nil
					return !neg, x, true
				}
			}
		}
		return false, nil, false
	}
	decided := false
	for _, ret := range returnsOf(once) {
		rv := returnedValues(ret)
		if len(rv) != 3 {
			return false, nil, false
		}
		errIdx, replyIdx := -1, -1
		for i := range rv {
			if i == flagIdx {
				continue
			}
			if rv[i].Type().String() == "error" {
				errIdx = i
			} else {
				replyIdx = i
			}
		}
		if errIdx < 0 || replyIdx < 0 {
			return false, nil, false
		}
		onExchFailure := false
		for _, g := range guardsOfInstr(ret) {
			if cm, isC := g.asCmp(); isC && cm.X == innerErr && isNilConst(cm.Y) && cm.Op == token.NEQ {
				onExchFailure = true
			}
		}
		if onExchFailure {
			pol, base, good := classify(rv[flagIdx])
			if !good || !isNilConst(rv[replyIdx]) {
				return false, nil, false
			}
			if decided && (pol != polarity || base != isNew) {
				return false, nil, false
			}
			polarity, isNew, decided = pol, base, true
			continue
		}
		// other returns: constant flag; checked against the polarity after the loop
		if _, isB := constBool(rv[flagIdx]); !isB {
			return false, nil, false
		}
		if isNilConst(rv[errIdx]) {
			ex, isEx := rv[replyIdx].(*ssa.Extract)
			if !isEx || ex.Tuple != ssa.Value(inner) {
				return false, nil, false
			}
		} else if !isNilConst(rv[replyIdx]) {
			return false, nil, false
		}
	}
	if !decided {
		return false, nil, false
	}
	// "do not retry" constant on the other returns
	for _, ret := range returnsOf(once) {
		rv := returnedValues(ret)
		if b, isB := constBool(rv[flagIdx]); isB && b == polarity {
			return false, nil, false
		}
	}
	return polarity, isNew, true
}
