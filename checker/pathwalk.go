package main

import (
	"golang.org/x/tools/go/ssa"
)

// pathState is the per-path state of a pathWalker client.
type pathState interface {
	Clone() pathState
}

// pathWalker enumerates the CFG paths of one function from a start instruction to every exit.
// Each block is visited at most twice per path; more than maxPaths paths aborts (undecided).
type pathWalker struct {
	// Instr is called for every instruction on the path (including the terminator).
	Instr func(in ssa.Instruction, st pathState)
	// Edge is called when the path takes the edge from->to (after the terminator); returning false
	// prunes the path (infeasible).
	Edge func(from, to *ssa.BasicBlock, st pathState) bool
	// Exit is called at a Return (and at a Panic unless SkipPanics) with the final state.
	Exit       func(in ssa.Instruction, st pathState)
	SkipPanics bool
	MaxPaths   int

	paths   int
	Aborted bool
}

func (w *pathWalker) run(start ssa.Instruction, inclusive bool, st pathState) {
	if w.MaxPaths == 0 {
		w.MaxPaths = 20000
	}
	b := start.Block()
	i := idxInBlock(start)
	if !inclusive {
		i++
	}
	w.walk(b, i, st, map[*ssa.BasicBlock]int{})
}

func (w *pathWalker) runFunc(f *ssa.Function, st pathState) {
	if w.MaxPaths == 0 {
		w.MaxPaths = 20000
	}
	w.walk(f.Blocks[0], 0, st, map[*ssa.BasicBlock]int{})
}

func (w *pathWalker) walk(b *ssa.BasicBlock, i int, st pathState, visits map[*ssa.BasicBlock]int) {
	if w.Aborted {
		return
	}
	visits[b]++
	defer func() { visits[b]-- }()
	for ; i < len(b.Instrs); i++ {
		in := b.Instrs[i]
		if w.Instr != nil {
			w.Instr(in, st)
		}
		switch in.(type) {
		case *ssa.Return:
			w.paths++
			if w.paths > w.MaxPaths {
				w.Aborted = true
			}
			if w.Exit != nil {
				w.Exit(in, st)
			}
			return
		case *ssa.Panic:
			if isSelectPanic(in) {
				return
			}
			w.paths++
			if !w.SkipPanics && w.Exit != nil {
				w.Exit(in, st)
			}
			return
		}
	}
	for k, s := range b.Succs {
		if visits[s] >= 2 {
			continue
		}
		ns := st
		if len(b.Succs) > 1 && k < len(b.Succs)-1 {
			ns = st.Clone()
		} else if len(b.Succs) > 1 {
			ns = st.Clone()
		}
		if w.Edge != nil && !w.Edge(b, s, ns) {
			continue
		}
		w.walk(s, 0, ns, visits)
	}
}

// ---------------------------------------------------------------- counting events along paths

type countState struct {
	n      int
	flags  map[string]bool
	defers []ssa.Instruction
}

func (c *countState) Clone() pathState {
	n := &countState{n: c.n, flags: map[string]bool{}}
	for k, v := range c.flags {
		n.flags[k] = v
	}
	n.defers = append([]ssa.Instruction(nil), c.defers...)
	return n
}

type pathCount struct {
	Count int
	Flags map[string]bool
	Exit  ssa.Instruction
}

// countEvents returns, for every path of f, how many events occurred. event(in) gives the number of
// events of a directly executed instruction; deferred calls are evaluated with deferEvent at exit.
// flag(from,to) may mark paths (e.g. "dial failed").
func countEvents(f *ssa.Function, event func(in ssa.Instruction) int, deferEvent func(d *ssa.Defer) int,
	flag func(from, to *ssa.BasicBlock) string) (out []pathCount, aborted bool) {
	w := &pathWalker{SkipPanics: true}
	w.Instr = func(in ssa.Instruction, st pathState) {
		cs := st.(*countState)
		if d, ok := in.(*ssa.Defer); ok {
			cs.defers = append(cs.defers, d)
			return
		}
		if _, ok := in.(*ssa.RunDefers); ok {
			for _, d := range cs.defers {
				if deferEvent != nil {
					cs.n += deferEvent(d.(*ssa.Defer))
				}
			}
			cs.defers = nil
			return
		}
		cs.n += event(in)
	}
	w.Edge = func(from, to *ssa.BasicBlock, st pathState) bool {
		if flag != nil {
			if fl := flag(from, to); fl != "" {
				st.(*countState).flags[fl] = true
			}
		}
		return true
	}
	w.Exit = func(in ssa.Instruction, st pathState) {
		cs := st.(*countState)
		out = append(out, pathCount{Count: cs.n, Flags: cs.flags, Exit: in})
	}
	w.runFunc(f, &countState{flags: map[string]bool{}})
	return out, w.Aborted
}
