package main

import (
	"fmt"
	"os"
	"sort"

	"golang.org/x/tools/go/ssa"
)

// dumpFacts prints analysis facts for debugging: `mosverif dumpfacts <relpkg> [func-substring]`.
func dumpFacts(p *Prog, args []string) {
	if len(args) == 0 {
		return
	}
	if args[0] == "writes" && len(args) > 1 {
		// dev helper: list every write (store / element store / map update / delete) of the fields whose key contains args[1]
		w := p.whoWrites()
		var keys []string
		for k := range w.byField {
			if contains(k, args[1]) {
				keys = append(keys, k)
			}
		}
		sort.Strings(keys)
		for _, k := range keys {
			for _, fw := range w.byField[k] {
				fmt.Printf("%s\t%s\t%s\t%s\n", k, fw.Kind, funcName(fw.Fn), p.pos(fw.Instr.Pos()))
			}
		}
		return
	}
	for _, f := range p.funcsIn(args[0]) {
		if len(args) > 1 && !contains(funcName(f), args[1]) {
			continue
		}
		fmt.Printf("== %s (%s)\n", funcName(f), p.pos(f.Pos()))
		f.WriteTo(os.Stdout)
	}
}

func contains(s, sub string) bool {
	return len(sub) == 0 || (len(s) >= len(sub) && (func() bool {
		for i := 0; i+len(sub) <= len(s); i++ {
			if s[i:i+len(sub)] == sub {
				return true
			}
		}
		return false
	})())
}

var _ = ssa.NewProgram
