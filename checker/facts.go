package main

import (
	"fmt"
	"os"

	"golang.org/x/tools/go/ssa"
)

// dumpFacts prints analysis facts for debugging: `mosverif dumpfacts <relpkg> [func-substring]`.
func dumpFacts(p *Prog, args []string) {
	if len(args) == 0 {
		return
	}
	for _, f := range p.funcsIn(args[0]) {
		if len(args) > 1 && !contains(funcName(f), args[1]) {
			continue
		}
		fmt.Printf("== %s (%s)\n", funcName(f), p.pos(f.Pos()))
		f.WriteTo(os.Stdout)
	}
}

func contains(s, sub string) bool {
	return len(sub) == 0 || (len(s) >= len(sub) && (func() bool {
		for i := 0; i+len(sub) <= len(s); i++ {
			if s[i:i+len(sub)] == sub {
				return true
			}
		}
		return false
	})())
}

var _ = ssa.NewProgram
