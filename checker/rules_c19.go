package main

import (
	"fmt"
	"go/token"
	"go/types"
	"sort"
	"strings"

	"golang.org/x/tools/go/ssa"
)

func init() {
	register(&propDef{
		ID: "C19",
		Explanation: "Decides the structural conditions of a faithful, harmless dump: (R1) the dump writer sets exactly the data fields the CachedEntry message declares, each from its own source " +
			"(key, packed stored message, cache expiry, message expiry, stored time), and the reader reads exactly those fields; (R2) the reader rebuilds every field of the cache item from the " +
			"corresponding getter and stores under the dumped key and cache expiry; (R3) by interval analysis, the block buffer size is within [0, limit] on every path to the allocation; " +
			"(R4) every error of reading, decompressing, decoding and unpacking leads to an error return, the only tolerated error being io.EOF on a block header; (R5) the header name is " +
			"checked before any block is read; (R6) expired entries are skipped by the writer and refused by the store. Round-trip equality of arbitrary messages and the robustness of " +
			"gzip/protobuf/miekg to arbitrary bytes are trusted, not decided.",
		Assumptions: []string{"protobuf getters return the field", "gzip, protobuf and dns.Msg.Unpack return errors (do not panic) on malformed input"},
		Run:         runC19,
	})
}

// errCheckedAndReturned: the error produced by call ci (result of type error) is compared with nil and the
// non-nil branch reaches a return whose last result is a non-nil error.
func errCheckedAndReturned(ci *ssa.Call) (bool, string) {
	var errV ssa.Value
	if ci.Type().String() == "error" {
		errV = ci
	}
	for _, r := range referrers(ci) {
		if ex, ok := r.(*ssa.Extract); ok && ex.Type().String() == "error" {
			errV = ex
		}
	}
	if errV == nil {
		return false, "the error result is discarded"
	}
	good := false
	checkIf := func(v ssa.Value) {
		for _, r := range referrers(v) {
			bo, ok := r.(*ssa.BinOp)
			if !ok || !isNilConst(bo.Y) || (bo.Op != token.NEQ && bo.Op != token.EQL) {
				continue
			}
			for _, r2 := range referrers(bo) {
				iff, ok := r2.(*ssa.If)
				if !ok {
					continue
				}
				eb := iff.Block().Succs[0]
				if bo.Op == token.EQL {
					eb = iff.Block().Succs[1]
				}
				// every path from the error branch ends in a return with a non-nil error: none reaches a
				// `return nil` and none comes back to the call (an error swallowed by `continue`)
				isBad := func(x ssa.Instruction) bool {
					if x == ssa.Instruction(ci) {
						return true
					}
					if ret, ok := x.(*ssa.Return); ok && ret.Block().Comment != "recover" {
						rv := returnedValues(ret)
						return len(rv) > 0 && isNilConst(rv[len(rv)-1])
					}
					return false
				}
				if _, bad := reachFromBlock(eb, isBad, nil); !bad {
					if _, ok := reachFromBlock(eb, isReturn, nil); ok {
						good = true
					}
				}
			}
		}
	}
	checkIf(errV)
	compared := false
	for _, r := range referrers(errV) {
		if bo, ok := r.(*ssa.BinOp); ok && isNilConst(bo.Y) {
			compared = true
		}
	}
	for _, r := range referrers(errV) {
		if st, ok := r.(*ssa.Store); ok {
			addr := resolveAddr(st.Addr)
			for _, r2 := range referrers(addr) {
				if u, ok := r2.(*ssa.UnOp); ok && u.Op == token.MUL {
					checkIf(u)
				}
			}
		}
		// `return x, err` / `return err` directly, with no nil test anywhere: propagated unconditionally
		if _, ok := r.(*ssa.Return); ok && !compared {
			good = true
		}
	}
	if !good {
		return false, "a non-nil error does not lead to an error return"
	}
	// no way around the nil test back to the call: a path from the call to itself that does not take an
	// "error is nil" edge repeats the operation after a failure (e.g. `if err == errX { continue }`)
	if compared {
		nilEdge := map[*ssa.If]int{} // If -> successor index taken when the error is nil
		mark := func(v ssa.Value) {
			for _, r := range referrers(v) {
				bo, ok := r.(*ssa.BinOp)
				if !ok || !isNilConst(bo.Y) || (bo.Op != token.NEQ && bo.Op != token.EQL) {
					continue
				}
				for _, r2 := range referrers(bo) {
					if iff, ok := r2.(*ssa.If); ok {
						if bo.Op == token.EQL {
							nilEdge[iff] = 0
						} else {
							nilEdge[iff] = 1
						}
					}
				}
			}
		}
		mark(errV)
		for _, r := range referrers(errV) {
			if st, ok := r.(*ssa.Store); ok {
				for _, r2 := range referrers(resolveAddr(st.Addr)) {
					if u, ok := r2.(*ssa.UnOp); ok && u.Op == token.MUL {
						mark(u)
					}
				}
			}
		}
		if len(nilEdge) > 0 {
			again := false
			seen := map[*ssa.BasicBlock]bool{}
			var walk func(b *ssa.BasicBlock, from int)
			walk = func(b *ssa.BasicBlock, from int) {
				for i := from; i < len(b.Instrs); i++ {
					if b.Instrs[i] == ssa.Instruction(ci) {
						again = true
						return
					}
				}
				iff, _ := terminator(b).(*ssa.If)
				for si, sb := range b.Succs {
					if iff != nil {
						if ne, isTest := nilEdge[iff]; isTest && ne == si {
							continue // the error is nil on this edge
						}
					}
					if !seen[sb] {
						seen[sb] = true
						walk(sb, 0)
					}
				}
			}
			walk(ci.Block(), idxInBlock(ci)+1)
			if again {
				return false, "the operation is repeated on a path that never established that the error is nil"
			}
		}
	}
	return true, ""
}

func runC19(c *Ctx) {
	p := c.P
	wd := c.fn(relCachePlugin, "Cache", "writeDump")
	rd := c.fn(relCachePlugin, "Cache", "readDump")
	if wd == nil || rd == nil {
		return
	}
	CE := relCachePlugin + ".CachedEntry"
	IT := relCachePlugin + ".item"
	// declared data fields
	var declared []string
	if n := p.Named(relCachePlugin, "CachedEntry"); n != nil {
		st := structOf(n)
		for i := 0; i < st.NumFields(); i++ {
			if st.Field(i).Exported() {
				declared = append(declared, st.Field(i).Name())
			}
		}
	}
	sort.Strings(declared)
	if len(declared) < 5 {
		c.anchorMissing("exported fields of CachedEntry")
		return
	}

	// ---------------------------------------------------------------- R1
	c.rule("R1", "writer sets exactly the declared entry fields, each from its own source; reader reads exactly those", 11)
	written := map[string]ssa.Value{}
	var rangeFn *ssa.Function
	eachInstrDeep(wd, func(f *ssa.Function, in ssa.Instruction) {
		if st, ok := in.(*ssa.Store); ok {
			if k, ok := fieldKey(st.Addr); ok && strings.HasPrefix(k, CE+".") {
				written[strings.TrimPrefix(k, CE+".")] = st.Val
				rangeFn = f
			}
		}
	})
	rangeFn, _ = rangeCallbackOf(wd, rangeFn)
	read := map[string]bool{}
	eachInstrDeep(rd, func(f *ssa.Function, in ssa.Instruction) {
		if ci, ok := in.(*ssa.Call); ok {
			n := callName(ci)
			pre := "(*" + CE + ").Get"
			if strings.HasPrefix(n, pre) {
				read[strings.TrimPrefix(n, pre)] = true
			}
		}
		if u, ok := in.(*ssa.UnOp); ok && u.Op == token.MUL {
			if k, ok := fieldKey(u.X); ok && strings.HasPrefix(k, CE+".") {
				read[strings.TrimPrefix(k, CE+".")] = true
			}
		}
	})
	for _, f := range declared {
		_, w := written[f]
		c.check(w, "entry-field-written:"+f, wd.Pos(), "writeDump sets "+f, "writeDump never sets CachedEntry."+f+": after a reload this value is the zero value (e.g. stored time = 1970 makes every TTL 1)")
		c.check(read[f], "entry-field-read:"+f, rd.Pos(), "readDump reads "+f, "readDump never reads CachedEntry."+f+": the dumped value is lost on reload")
	}
	// sources
	if rangeFn != nil && len(rangeFn.Params) >= 3 {
		srcOK := func(field string, test func(v ssa.Value) bool, want string) {
			v, ok := written[field]
			if !ok {
				return
			}
			c.check(test(v), "entry-field-source:"+field, valuePos(v), field+" <- "+want, fmt.Sprintf("CachedEntry.%s is written from %s, expected %s", field, exprStr(v), want))
		}
		unixOf := func(v ssa.Value, test func(recv ssa.Value) bool) bool {
			cl, ok := v.(*ssa.Call)
			return ok && callName(cl) == "(time.Time).Unix" && test(cl.Call.Args[0])
		}
		isItemField := func(name string) func(ssa.Value) bool {
			return func(v ssa.Value) bool { k, ok := loadedField(v); return ok && k == IT+"."+name }
		}
		isParam := func(i int) func(ssa.Value) bool {
			return func(v ssa.Value) bool { return isActualParam(v, rangeFn, i) }
		}
		srcOK("MsgExpirationTime", func(v ssa.Value) bool { return unixOf(v, isItemField("expirationTime")) }, "item.expirationTime.Unix()")
		srcOK("MsgStoredTime", func(v ssa.Value) bool { return unixOf(v, isItemField("storedTime")) }, "item.storedTime.Unix()")
		srcOK("CacheExpirationTime", func(v ssa.Value) bool { return unixOf(v, isParam(2)) }, "the entry's cache expiry .Unix()")
		srcOK("Key", func(v ssa.Value) bool {
			cv, ok := v.(*ssa.Convert)
			return ok && isActualParam(stripConv(cv.X), rangeFn, 0)
		}, "[]byte(the entry's key)")
		srcOK("Msg", func(v ssa.Value) bool {
			ex, ok := v.(*ssa.Extract)
			if !ok {
				return false
			}
			cl, ok := ex.Tuple.(*ssa.Call)
			if !ok || callName(cl) != "(*github.com/miekg/dns.Msg).Pack" {
				return false
			}
			if al, isAl := cl.Call.Args[0].(*ssa.Alloc); isAl && localCopyOfField(al, IT+".resp") {
				return true // D45: a by-value copy, packed with compression
			}
			return isItemField("resp")(cl.Call.Args[0])
		}, "item.resp.Pack()")
	} else {
		c.anchorMissing("range function building CachedEntry in writeDump")
	}

	// ---------------------------------------------------------------- R2
	c.rule("R2", "reader rebuilds every item field from the matching getter and stores under the dumped key / cache expiry", 5)
	checkDumpReaderFields(c, rd)

	// ---------------------------------------------------------------- R3
	c.rule("R3", "the block buffer size is within [0, dumpMaximumBlockLength] on every path to its allocation", 1)
	limit := int64(1 << 20)
	if pk := p.ByPath[pkgPath(relCachePlugin)]; pk != nil {
		if o, ok := pk.Types.Scope().Lookup("dumpMaximumBlockLength").(*types.Const); ok {
			if n, ok := constInt(ssa.NewConst(o.Val(), o.Type())); ok {
				limit = n
			}
		} else {
			c.anchorMissing("constant dumpMaximumBlockLength")
		}
	}
	eachInstrDeep(rd, func(f *ssa.Function, in ssa.Instruction) {
		ci, ok := in.(*ssa.Call)
		if !ok || callName(ci) != "var:pkg/pool.GetBuf" {
			return
		}
		arg := ci.Call.Args[0]
		if n, ok := constInt(arg); ok {
			if n != 8 {
				c.check(n >= 0 && n <= limit, "alloc@"+funcName(f), instrPos(in), "constant buffer size", "constant buffer size out of range")
			}
			return
		}
		iv, ok := rangeAt(f, in, arg, "", nil)
		if !ok {
			c.undecided("alloc@"+funcName(f), instrPos(in), "interval analysis did not terminate")
			return
		}
		c.check(iv.lo >= 0 && iv.hi <= limit, "alloc@"+funcName(f), instrPos(in), "size in "+iv.String(),
			"the buffer size read from the dump is in "+iv.String()+" at the allocation (limit "+formatInt(limit)+"): a corrupted length allocates without bound or panics with a negative size")
	})

	// ---------------------------------------------------------------- R4
	c.rule("R4", "every read / decode error leads to an error return; only io.EOF on a block header ends the dump", 7)
	watched := map[string]bool{
		"io.ReadFull": true, "google.golang.org/protobuf/proto.Unmarshal": true, "(*github.com/miekg/dns.Msg).Unpack": true,
		"github.com/klauspost/compress/gzip.NewReader": true, "(*github.com/klauspost/compress/gzip.Reader).Close": true,
	}
	var headerRead *ssa.Call
	eachInstrDeep(rd, func(f *ssa.Function, in ssa.Instruction) {
		ci, ok := in.(*ssa.Call)
		if !ok {
			return
		}
		n := callName(ci)
		isBlockFn := false
		if sc := staticCallee(ci); sc != nil && sc.Parent() == rd {
			isBlockFn = true
		}
		if !watched[n] && !isBlockFn {
			return
		}
		key := "err@" + funcName(f) + ":" + n
		if n == "io.ReadFull" {
			// header read = buffer from GetBuf(8)
			if u, ok := ci.Call.Args[1].(*ssa.UnOp); ok {
				if g, ok := u.X.(*ssa.Call); ok && callName(g) == "var:pkg/pool.GetBuf" {
					if k, ok := constInt(g.Call.Args[0]); ok && k == 8 {
						headerRead = ci
					}
				}
			}
		}
		ok2, why := errCheckedAndReturned(ci)
		if !ok2 && n == "(*github.com/miekg/dns.Msg).Unpack" && unpackErrorSkipsEntry(ci) {
			// D29: the bytes of one entry inside an intact (gzip- and protobuf-checked) block do not unpack: the entry is
			// skipped, never stored; truncation and corruption are reported by the layers around it
			c.ok(key, instrPos(in), "an entry that does not unpack is skipped, not stored")
			return
		}
		if ok2 {
			c.ok(key, instrPos(in), "error checked and returned")
		} else {
			c.fail(key, instrPos(in), "%s: a truncated or corrupted dump is loaded without an error", why)
		}
	})
	// tolerated sentinel: returned only under errors.Is(<header read error>, io.EOF)
	sentinelOK := true
	nSent := 0
	eachInstrDeep(rd, func(f *ssa.Function, in ssa.Instruction) {
		ci, ok := in.(*ssa.Call)
		if !ok || callName(ci) != "errors.Is" {
			return
		}
		nSent++
		a0 := ci.Call.Args[0]
		ex, isEx := a0.(*ssa.Extract)
		if !isEx || headerRead == nil || ex.Tuple != ssa.Value(headerRead) {
			sentinelOK = false
		}
		if u, ok := ci.Call.Args[1].(*ssa.UnOp); !ok || exprStr(u) != "*io.EOF" {
			sentinelOK = false
		}
	})
	c.check(sentinelOK && nSent == 1, "eof-sentinel", rd.Pos(), "end-of-dump is recognised only as io.EOF on the 8-byte block header",
		"an error other than io.EOF on a block header is treated as the regular end of the dump: a truncated dump loads without error")
	// the outer function clears the error only by identity with the sentinel
	clearOK := true
	eachInstr(rd, func(in ssa.Instruction) {
		st, ok := in.(*ssa.Store)
		if !ok || !isNilConst(st.Val) || st.Val.Type().String() != "error" {
			return
		}
		g := false
		for _, gd := range guardsOfInstr(in) {
			if cm, ok := gd.asCmp(); ok && cm.Op == token.EQL && strings.Contains(exprStr(cm.Y)+exprStr(cm.X), "errReadHeaderEOF") {
				g = true
			}
		}
		if !g {
			clearOK = false
		}
	})
	c.check(clearOK, "error-cleared-only-for-sentinel", rd.Pos(), "the loop clears the error only for the end-of-dump sentinel", "readDump clears an error that is not the end-of-dump sentinel")

	// ---------------------------------------------------------------- R5
	c.rule("R5", "the dump header name is verified before any block is read", 1)
	{
		var firstBlock ssa.Instruction
		eachInstr(rd, func(in ssa.Instruction) {
			if ci, ok := in.(*ssa.Call); ok {
				if sc := staticCallee(ci); sc != nil && (sc.Parent() == rd || (isNewHelper(sc) && sc.Pkg == rd.Pkg)) && firstBlock == nil {
					firstBlock = in
				}
			}
		})
		if firstBlock == nil {
			c.anchorMissing("block reader call in readDump")
		} else {
			g := false
			for _, gd := range guardsOfInstr(firstBlock) {
				if cm, ok := gd.asCmp(); ok && cm.Op == token.EQL {
					s := exprStr(cm.X) + "|" + exprStr(cm.Y)
					if strings.Contains(s, ".Name") && strings.Contains(s, "mosdns_cache") {
						g = true
					}
				}
			}
			c.check(g, "header-check", instrPos(firstBlock), "blocks are read only after the header name matched", "blocks are read without verifying the dump header name: arbitrary gzip files are interpreted as dumps")
		}
	}

	// ---------------------------------------------------------------- R6
	c.rule("R6", "expired entries are skipped by the writer and refused by the store", 2)
	if rangeFn != nil {
		// every CachedEntry field store is guarded by !cacheExpirationTime.Before(now)
		g := false
		eachInstrDeep(rangeFn, func(_ *ssa.Function, in ssa.Instruction) {
			st, ok := in.(*ssa.Store)
			if !ok {
				return
			}
			if k, ok := fieldKey(st.Addr); !ok || !strings.HasPrefix(k, CE+".") {
				return
			}
			for _, gd := range guardsWithin(in, rangeFn) {
				v, truth := gd.asBool()
				if cl, ok := v.(*ssa.Call); ok && callName(cl) == "(time.Time).Before" && !truth && cl.Call.Args[0] == ssa.Value(rangeFn.Params[2]) {
					g = true
				}
			}
		})
		c.check(g, "writer-skips-expired", rangeFn.Pos(), "entries whose cache expiry is before now are not dumped", "the writer dumps entries that are already expired")
	}
	if stF := c.fn(relCachePkg, "Cache", "Store"); stF != nil {
		g := false
		eachInstr(stF, func(in ssa.Instruction) {
			ci, ok := in.(*ssa.Call)
			if !ok || callName(ci) != "(*pkg/concurrent_map.Map).Set" {
				return
			}
			for _, gd := range guardsOfInstr(in) {
				v, truth := gd.asBool()
				if !truth && isExpiredNowTest(v, stF.Params[3], false) {
					g = true
				}
			}
		})
		c.check(g, "store-refuses-expired", stF.Pos(), "Store is a no-op for entries expiring before now", "Store admits entries that are already expired (a stale dump resurrects dead answers)")
	}

	// ---------------------------------------------------------------- R8
	c.rule("R8", "the writer never produces a block the reader refuses: a block is flushed once its collected payload reaches a constant bound that leaves room for one maximal entry below the reader's block-length limit", 1)
	if rangeFn != nil {
		key := "writer-block-bound"
		// the reader's limit: the constant the decoded block length is compared with before the allocation
		limit := int64(-1)
		eachInstrDeep(rd, func(f *ssa.Function, in ssa.Instruction) {
			bo, ok := in.(*ssa.BinOp)
			if !ok || bo.Op != token.GTR {
				return
			}
			if cl, ok := bo.X.(*ssa.Call); ok && callName(cl) == "(encoding/binary.bigEndian).Uint64" {
				if n, ok := constInt(bo.Y); ok {
					limit = n
				}
			}
		})
		// the flush: calls of the block-writing closure inside the range callback
		var flush *ssa.Call
		var flushFn *ssa.Function
		eachInstr(rangeFn, func(in ssa.Instruction) {
			ci, ok := in.(*ssa.Call)
			if !ok || ci.Call.IsInvoke() {
				return
			}
			sc := staticCallee(ci)
			if sc == nil {
				// a closure kept in a captured local variable
				tr := p.newTracer()
				tr.throughCalls, tr.throughParams, tr.throughFields = false, false, false
				for _, o := range tr.origins(ci.Call.Value) {
					if mc, ok := o.(*ssa.MakeClosure); ok {
						sc, _ = mc.Fn.(*ssa.Function)
					}
				}
			}
			if sc != nil && sc.Parent() == wd && sc != rangeFn {
				flush, flushFn = ci, sc
			}
		})
		if limit < 0 || flush == nil {
			c.anchorMissing("reader block-length limit / flush call in the range callback")
		} else {
			// conditions on the edges into the flush block: one of them must be  acc >= B  with acc a captured
			// counter that grows by len(Msg) for every appended entry and is reset by the flush
			good, why := false, "the block is flushed only by entry count"
			var preds []*ssa.BasicBlock
			preds = append(preds, flush.Block().Preds...)
			for _, pb := range preds {
				iff, ok := terminator(pb).(*ssa.If)
				if !ok {
					continue
				}
				g := guard{Cond: iff.Cond, Truth: succOnTruth(iff, true) == flush.Block(), If: iff}
				cm, ok := g.asCmp()
				if !ok || (cm.Op != token.GEQ && cm.Op != token.GTR) {
					continue
				}
				B, ok := constInt(cm.Y)
				if !ok {
					continue
				}
				ld, ok := cm.X.(*ssa.UnOp)
				if !ok || ld.Op != token.MUL {
					continue
				}
				fv, ok := ld.X.(*ssa.FreeVar)
				if !ok {
					continue
				}
				// grows by len(...Msg) in the callback
				grows := false
				eachInstr(rangeFn, func(in ssa.Instruction) {
					st, ok := in.(*ssa.Store)
					if !ok || st.Addr != ssa.Value(fv) {
						return
					}
					if strings.Contains(exprStr(st.Val), "builtin:len") && strings.Contains(exprStr(st.Val), "Msg") && instrDominates(st, terminator(pb)) {
						grows = true
					}
				})
				// reset by the flush closure
				reset := false
				if sc := flushFn; sc != nil {
					for i, fv2 := range sc.FreeVars {
						_ = i
						if fv2.Name() != fv.Name() {
							continue
						}
						eachInstr(sc, func(in ssa.Instruction) {
							if st, ok := in.(*ssa.Store); ok && st.Addr == ssa.Value(fv2) {
								if n, ok := constInt(st.Val); ok && n == 0 {
									reset = true
								}
							}
						})
					}
				}
				const maxEntry = 65535 + 1024 // a maximal message plus key and protobuf overhead
				switch {
				case !grows:
					why = "the compared counter does not grow by the size of every appended message"
				case !reset:
					why = "the counter is not reset when the block is written"
				case B+maxEntry > limit:
					why = fmt.Sprintf("the bound %d plus one maximal entry exceeds the reader's limit %d", B, limit)
				default:
					good = true
				}
			}
			c.check(good, key, instrPos(flush), fmt.Sprintf("payload counter >= bound flushes the block; bound + one maximal entry <= reader limit %d", limit),
				why+": a block of large answers grows beyond what readDump accepts, and an intact dump fails to load")
		}
	}

	// ---------------------------------------------------------------- R11
	c.rule("R11", "one bad entry never costs the others, a block never exceeds what the reader accepts, and two dumps never write the file at once (Close stops the dump loop first)", 4)
	checkDumpSkipsBadEntries(c, limit)
	checkCloseStopsDumpLoopFirst(c)
	checkDumpMessageBounded(c)

	// ---------------------------------------------------------------- R10
	c.rule("R10", "the writer leaves nothing out: every entry that is not expired is appended to a block, the last partial block is written, and the reader's block limit is a small constant", 3)
	if rangeFn != nil {
		var app ssa.Instruction
		eachInstr(rangeFn, func(in ssa.Instruction) {
			if st, ok := in.(*ssa.Store); ok {
				if k, _ := fieldKey(st.Addr); strings.HasSuffix(k, ".CacheDumpBlock.Entries") {
					app = in
				}
			}
		})
		if app == nil {
			c.anchorMissing("append to block.Entries in the range callback")
		} else {
			bad := ""
			// the entry builder extracted into a NEW helper that returns nil for an entry it cannot dump: `e := build(…);
			// if e == nil { return nil }` is accepted when every nil return of the builder has an accepted reason
			var acceptedSkip func(fn *ssa.Function, r *ssa.Return, depth int) bool
			builderNilOK := func(cl *ssa.Call, depth int) bool {
				b := cl.Call.StaticCallee()
				if b == nil || !isNewHelper(b) || depth > 1 {
					return false
				}
				n := 0
				for _, br := range returnsOf(b) {
					brv := returnedValues(br)
					if len(brv) == 0 || !isNilConst(brv[0]) {
						continue
					}
					n++
					if !acceptedSkip(b, br, depth+1) {
						return false
					}
				}
				return n > 0
			}
			acceptedSkip = func(fn *ssa.Function, r *ssa.Return, depth int) bool {
				expired := false
				for _, g := range guardsOfInstr(r) {
					if v, truth := g.asBool(); truth {
						if cl, ok := v.(*ssa.Call); ok && callName(cl) == "(time.Time).Before" && fn == rangeFn && cl.Call.Args[0] == ssa.Value(rangeFn.Params[2]) {
							expired = true
						}
					}
					if cm, ok := g.asCmp(); ok && cm.Op == token.EQL && isNilConst(cm.Y) {
						if cl, isC := cm.X.(*ssa.Call); isC && builderNilOK(cl, depth) {
							expired = true
						}
					}
				}
				// D28: an entry that cannot be packed (Unpack accepts messages Pack refuses) is logged and left out;
				// D32: so is an entry that alone exceeds the block length the reader accepts
				for _, g := range guardsOfInstr(r) {
					if cm, ok := g.asCmp(); ok && cm.Op == token.NEQ && isNilConst(cm.Y) {
						if ex, isE := cm.X.(*ssa.Extract); isE {
							if cl, isC := ex.Tuple.(*ssa.Call); isC && callName(cl) == "(*github.com/miekg/dns.Msg).Pack" {
								expired = true
							}
						}
					}
					if cm, ok := g.asCmp(); ok && cm.Op == token.GTR {
						if n, isC := constInt(cm.Y); isC && n == limit {
							expired = true
						}
						if n, isC := constInt(cm.Y); isC && n >= 65535 {
							if lc, isL := cm.X.(*ssa.Call); isL && callName(lc) == "builtin:len" {
								if ex, isE := lc.Call.Args[0].(*ssa.Extract); isE {
									if cl, isC := ex.Tuple.(*ssa.Call); isC && callName(cl) == "(*github.com/miekg/dns.Msg).Pack" {
										expired = true
									}
								}
							}
						}
					}
				}
				return expired
			}
			for _, r := range returnsOf(rangeFn) {
				rv := returnedValues(r)
				if len(rv) == 0 || !isNilConst(rv[len(rv)-1]) {
					continue // error returns abort the dump
				}
				if instrDominates(app, r) {
					continue
				}
				expired := acceptedSkip(rangeFn, r, 0)
				for _, g := range guardsOfInstr(r) {
					if cm, ok := g.asCmp(); ok && cm.Op == token.NEQ && isNilConst(cm.Y) {
						if ex, isE := cm.X.(*ssa.Extract); isE {
							if cl, isC := ex.Tuple.(*ssa.Call); isC && callName(cl) == "(*github.com/miekg/dns.Msg).Pack" {
								expired = true
							}
						}
					}
					if cm, ok := g.asCmp(); ok && cm.Op == token.GTR {
						if n, isC := constInt(cm.Y); isC && n == limit {
							expired = true
						}
						// D45: a message that does not fit 65535 bytes even with compression (no transport carries it, the
						// loader refuses it)
						if n, isC := constInt(cm.Y); isC && n >= 65535 {
							if lc, isL := cm.X.(*ssa.Call); isL && callName(lc) == "builtin:len" {
								if ex, isE := lc.Call.Args[0].(*ssa.Extract); isE {
									if cl, isC := ex.Tuple.(*ssa.Call); isC && callName(cl) == "(*github.com/miekg/dns.Msg).Pack" {
										expired = true
									}
								}
							}
						}
					}
				}
				if !expired {
					bad = p.pos(instrPos(r))
				}
			}
			c.check(bad == "", "writer-appends-every-live-entry", instrPos(app), "only entries whose cache expiry has passed are left out", "the writer skips entries for another reason than 'cache expiry passed', 'cannot be packed', 'bigger than a DNS message' or 'bigger than a block' (return nil before the append at "+bad+"): live entries (e.g. all lazily kept ones) are missing from the dump")
		}
		// the final flush
		var lastFlush *ssa.Call
		eachInstr(wd, func(in ssa.Instruction) {
			ci, ok := in.(*ssa.Call)
			if !ok || ci.Call.IsInvoke() {
				return
			}
			if mc, ok := ci.Call.Value.(*ssa.MakeClosure); ok {
				if fn, ok := mc.Fn.(*ssa.Function); ok && fn.Parent() == wd && fn != rangeFn {
					lastFlush = ci
				}
			} else if staticCallee(ci) == nil {
				tr := p.newTracer()
				tr.throughCalls, tr.throughParams, tr.throughFields = false, false, false
				for _, o := range tr.origins(ci.Call.Value) {
					if mc, ok := o.(*ssa.MakeClosure); ok {
						if fn, ok := mc.Fn.(*ssa.Function); ok && fn.Parent() == wd && fn != rangeFn {
							lastFlush = ci
						}
					}
				}
			}
		})
		if lastFlush == nil {
			c.fail("writer-final-flush", wd.Pos(), "the entries collected after the last full block are never written")
		} else {
			exact := false
			for _, g := range guardsOfInstr(lastFlush) {
				if cm, ok := g.asCmp(); ok && cm.Op == token.GTR {
					if n, isC := constInt(cm.Y); isC && n == 0 {
						if cl, ok := cm.X.(*ssa.Call); ok && callName(cl) == "builtin:len" {
							exact = true
						}
					}
				}
			}
			c.check(exact, "writer-final-flush", instrPos(lastFlush), "the last partial block is written whenever it holds entries", "the final block is not written under exactly 'it holds entries' (len > 0): the entries after the last full block are missing from the dump")
		}
		lim := int64(-1)
		eachInstrDeep(rd, func(f *ssa.Function, in ssa.Instruction) {
			if bo, ok := in.(*ssa.BinOp); ok && bo.Op == token.GTR {
				if cl, ok := bo.X.(*ssa.Call); ok && callName(cl) == "(encoding/binary.bigEndian).Uint64" {
					if n, ok := constInt(bo.Y); ok {
						lim = n
					}
				}
			}
		})
		c.check(lim > 0 && lim <= 1<<24, "reader-limit-small", rd.Pos(), fmt.Sprintf("the reader refuses blocks over %d bytes", lim), fmt.Sprintf("the reader's block limit is %d: an arbitrary file can make it allocate that much", lim))
	}

	// ---------------------------------------------------------------- R9
	c.rule("R9", "the dump is one gzip stream: one writer, closed once at the very end (its error returned), never reset or closed per block — so a cut anywhere is a decoding error, not a clean end", 1)
	{
		nNew, nClose, nOther := 0, 0, ""
		closeInMain := false
		eachInstrDeep(wd, func(f *ssa.Function, in ssa.Instruction) {
			ci, ok := in.(ssa.CallInstruction)
			if !ok {
				return
			}
			cn := callName(ci)
			switch {
			case strings.HasSuffix(cn, "/gzip.NewWriterLevel") || strings.HasSuffix(cn, "/gzip.NewWriter"):
				nNew++
			case strings.HasSuffix(cn, "/gzip.Writer).Close"):
				nClose++
				if f == wd {
					if _, cyc := reachAvoiding(in, func(x ssa.Instruction) bool { return x == in }, nil); !cyc {
						closeInMain = true
					}
				}
			case strings.HasSuffix(cn, "/gzip.Writer).Reset") || strings.HasSuffix(cn, "/gzip.Writer).Flush"):
				nOther = cn
			}
		})
		c.check(nNew == 1 && nClose == 1 && closeInMain && nOther == "", "single-gzip-member", wd.Pos(), "one gzip writer, one Close at the end of writeDump",
			fmt.Sprintf("the dump is not written as one gzip stream (writers: %d, Close calls: %d, final Close in writeDump outside loops: %v, %s): a dump cut at a member boundary reads as a clean end and loads partially without an error", nNew, nClose, closeInMain, nOther))
	}

	// ---------------------------------------------------------------- R7
	c.rule("R7", "every stored message can be packed again: entries are stored without their OPT record, so only rcodes that fit the 4-bit header field (0..15) are admitted", 1)
	if save := c.fn(relCachePlugin, "", "saveRespToCache"); save != nil {
		c.see(save)
		var msgTtl ssa.Value
		eachInstr(save, func(in ssa.Instruction) {
			if st, ok := in.(*ssa.Store); ok {
				if k, _ := fieldKey(st.Addr); k == IT+".expirationTime" {
					if cl, ok := st.Val.(*ssa.Call); ok && callName(cl) == "(time.Time).Add" {
						msgTtl = cl.Call.Args[1]
					}
				}
			}
		})
		if msgTtl == nil {
			c.anchorMissing("item.expirationTime = now.Add(msgTtl) in saveRespToCache")
		} else {
			bad := ""
			n := 0
			for _, lf := range expandCases(msgTtl, nil, 0) {
				if k, ok := constInt(lf.val); ok && k <= 0 {
					continue // not stored
				}
				n++
				small := false
				for _, g := range lf.guards {
					cm, ok := g.asCmp()
					if !ok || cm.Op != token.EQL {
						continue
					}
					if k, isF := loadedField(cm.X); isF && strings.HasSuffix(k, "dns.MsgHdr.Rcode") {
						if rc, ok := constInt(cm.Y); ok && rc >= 0 && rc <= 15 {
							small = true
						}
					}
				}
				if !small {
					bad = exprStr(lf.val)
				}
			}
			c.check(bad == "" && n > 0, "storable-rcodes-pack-without-opt", save.Pos(), "every positive lifetime is assigned under rcode == k with k in 0..15",
				"a positive lifetime ("+bad+") is assigned without an explicit rcode in 0..15: an extended rcode (>15, carried in the OPT record that copyNoOpt strips) can be stored, writeDump's Pack of that entry fails and aborts the whole dump after the file was truncated")
		}
	}

}

// innermostLoopHeader: the closest dominator of b that b can reach again (the header of the innermost loop around b).
func innermostLoopHeader(b *ssa.BasicBlock) *ssa.BasicBlock {
	reach := map[*ssa.BasicBlock]bool{}
	var walk func(x *ssa.BasicBlock)
	walk = func(x *ssa.BasicBlock) {
		for _, s := range x.Succs {
			if !reach[s] {
				reach[s] = true
				walk(s)
			}
		}
	}
	walk(b)
	for d := b; d != nil; d = d.Idom() {
		if !reach[d] {
			continue
		}
		// a natural-loop header: the target of a back edge from a block of the loop
		for _, pr := range d.Preds {
			if d.Dominates(pr) && (pr == b || reach[pr]) {
				return d
			}
		}
	}
	return nil
}

// checkDumpReaderFields (C19-R2, C05-R10): the dump reader rebuilds every item field from the matching getter
// (stored time, message expiry, message) and stores under the dumped key / cache expiry, for every decoded entry.
func checkDumpReaderFields(c *Ctx, rd *ssa.Function) {
	CE := relCachePlugin + ".CachedEntry"
	IT := relCachePlugin + ".item"
	itemWritten := map[string]ssa.Value{}
	var storeCall *ssa.Call
	eachInstrDeep(rd, func(f *ssa.Function, in ssa.Instruction) {
		if st, ok := in.(*ssa.Store); ok {
			if k, ok := fieldKey(st.Addr); ok && strings.HasPrefix(k, IT+".") {
				itemWritten[strings.TrimPrefix(k, IT+".")] = st.Val
			}
		}
		if ci, ok := in.(*ssa.Call); ok && callName(ci) == "(*pkg/cache.Cache).Store" {
			storeCall = ci
		}
	})
	unixGetter := func(v ssa.Value, getter string) bool {
		cl, ok := v.(*ssa.Call)
		if !ok || callName(cl) != "time.Unix" {
			return false
		}
		g, ok := cl.Call.Args[0].(*ssa.Call)
		return ok && callName(g) == "(*"+CE+").Get"+getter
	}
	if v, ok := itemWritten["storedTime"]; ok {
		c.check(unixGetter(v, "MsgStoredTime"), "item-field:storedTime", valuePos(v), "storedTime <- time.Unix(GetMsgStoredTime(),0)", "item.storedTime is rebuilt from "+exprStr(v))
	} else {
		c.fail("item-field:storedTime", rd.Pos(), "readDump does not set item.storedTime")
	}
	if v, ok := itemWritten["expirationTime"]; ok {
		c.check(unixGetter(v, "MsgExpirationTime"), "item-field:expirationTime", valuePos(v), "expirationTime <- time.Unix(GetMsgExpirationTime(),0)", "item.expirationTime is rebuilt from "+exprStr(v))
	} else {
		c.fail("item-field:expirationTime", rd.Pos(), "readDump does not set item.expirationTime")
	}
	if v, ok := itemWritten["resp"]; ok {
		// a fresh message that Unpack(GetMsg()) was called on
		good := false
		// D16: what is stored is copyNoOpt(<the unpacked message>): a dump is external input, and a stored message never
		// carries an OPT record (dns.Copy does not deep-copy all EDNS0 options, Pack writes into the OPT)
		stripped := false
		if cl, ok := v.(*ssa.Call); ok {
			if sc := staticCallee(cl); sc != nil && sc.Name() == "copyNoOpt" && len(cl.Call.Args) == 1 {
				stripped = true
				v = cl.Call.Args[0]
			}
		}
		if !stripped {
			c.fail("item-field:resp-no-opt", valuePos(v), "readDump stores the unpacked message as it is, not copyNoOpt of it: an OPT record in a loaded dump is stored, shared between every hit (its options are copied shallowly) and written to by writeDump's Pack while lookups copy it")
		} else {
			c.ok("item-field:resp-no-opt", valuePos(v), "the loaded message passes through copyNoOpt")
		}
		if al, ok := v.(*ssa.Alloc); ok {
			for _, r := range referrers(al) {
				if cl, ok := r.(*ssa.Call); ok && callName(cl) == "(*github.com/miekg/dns.Msg).Unpack" && cl.Call.Args[0] == ssa.Value(al) {
					if g, ok := cl.Call.Args[1].(*ssa.Call); ok && callName(g) == "(*"+CE+").GetMsg" {
						good = true
					}
				}
			}
			// and nothing else touches it between decoding and storing (no TTL ageing, no rewriting)
			for _, r := range referrers(al) {
				switch x := r.(type) {
				case *ssa.DebugRef:
				case *ssa.Call:
					if sc := staticCallee(x); sc != nil && sc.Name() == "copyNoOpt" {
						continue
					}
					if callName(x) != "(*github.com/miekg/dns.Msg).Unpack" {
						good = false
					}
				case *ssa.Store:
					if x.Val != ssa.Value(al) {
						good = false
					}
				default:
					good = false
				}
			}
		}
		c.check(good, "item-field:resp", valuePos(v), "resp <- fresh message unpacked from GetMsg()", "item.resp is not a fresh message unpacked from the entry's Msg bytes")
	} else {
		c.fail("item-field:resp", rd.Pos(), "readDump does not set item.resp")
	}
	if storeCall == nil {
		c.anchorMissing("backend.Store call in readDump")
	} else {
		a := storeCall.Call.Args
		keyOK := false
		if cv, ok := a[1].(*ssa.Convert); ok {
			if g, ok := cv.X.(*ssa.Call); ok && callName(g) == "(*"+CE+").GetKey" {
				keyOK = true
			}
		}
		c.check(keyOK, "store-key", instrPos(storeCall), "stored under key(GetKey())", "the reloaded entry is not stored under the dumped key")
		c.check(unixGetter(a[3], "CacheExpirationTime"), "store-expiry", instrPos(storeCall), "stored with the dumped cache expiry", "the reloaded entry is not stored with the dumped cache expiry: "+exprStr(a[3]))
		// every decoded entry reaches the store: within the entry loop the only conditions in front of the Store are
		// the loop's own and "no decode error" (errors return); no entry is skipped silently
		extra := ""
		hdr := innermostLoopHeader(storeCall.Block())
		inHelper := false
		if hdr == nil {
			if hdr = helperLoopHeader(storeCall); hdr != nil {
				inHelper = true // the loop body lives in a new helper: every condition of the helper is inside the loop
			}
		}
		if hdr == nil {
			c.undecided("store-every-entry", instrPos(storeCall), "the store is not inside an entry loop")
		}
		for _, g := range guardsOfInstr(storeCall) {
			if hdr == nil || (!inHelper && !hdr.Dominates(g.If.Block())) {
				continue // conditions in front of the loop (block header checks)
			}
			if cm, ok := g.asCmp(); ok {
				if isNilConst(cm.Y) && cm.X.Type().String() == "error" && cm.Op == token.EQL {
					continue
				}
				// D45: a message larger than a DNS message can be is refused (the writer never emits one)
				if n, isC := constInt(cm.Y); isC && n >= 65535 && cm.Op == token.LEQ && isLenOfEntryMsg(cm.X) {
					continue
				}
				// range-over-slice loop: index < len
				if cm.Op == token.LSS {
					if _, isPhi := cm.X.(*ssa.Phi); isPhi {
						continue
					}
					if bo, ok := cm.X.(*ssa.BinOp); ok && bo.Op == token.ADD {
						continue
					}
				}
			}
			if v, _ := g.asBool(); v != nil {
				if ex, ok := v.(*ssa.Extract); ok {
					if _, isNext := ex.Tuple.(*ssa.Next); isNext {
						continue
					}
				}
			}
			if g.Derived {
				continue
			}
			extra = guardText(g)
		}
		// D29: an entry whose bytes do not unpack is logged and skipped (dns.Msg.Pack can emit what Unpack refuses; one such
		// entry must not cost the others) — the only skip allowed is the error edge of that very Unpack call
		unpackErrSkip := func(iff *ssa.If, truth bool) bool {
			g := guard{Cond: iff.Cond, Truth: truth, If: iff}
			cm, ok := g.asCmp()
			if !ok || !isNilConst(cm.Y) || cm.Op != token.NEQ {
				return false
			}
			cl, ok := cm.X.(*ssa.Call)
			return ok && callName(cl) == "(*github.com/miekg/dns.Msg).Unpack"
		}
		oversizeSkip := func(iff *ssa.If, truth bool) bool {
			g := guard{Cond: iff.Cond, Truth: truth, If: iff}
			cm, ok := g.asCmp()
			if !ok || cm.Op != token.GTR || !isLenOfEntryMsg(cm.X) {
				return false
			}
			n, isC := constInt(cm.Y)
			return isC && n >= 65535
		}
		allowedSkip := func(iff *ssa.If, truth bool) bool { return unpackErrSkip(iff, truth) || oversizeSkip(iff, truth) }
		if sk, _ := iterationCanSkip(storeCall, allowedSkip); sk && extra == "" {
			extra = "a condition that lets an iteration of the entry loop go on to the next entry without storing"
		}
		c.check(extra == "", "store-every-entry", instrPos(storeCall), "every decoded entry is handed to the store (expiry is judged there)",
			"decoded entries are stored only under "+extra+": live entries of an intact dump are dropped on reload without an error")
	}
}

// checkDumpWriterPairing: what the dump writer puts into an entry is that cache entry's own pair: Key = the bytes of
// the range callback's key parameter, Msg = item.resp.Pack() — a fresh slice per entry. (Packing into a buffer
// that is shared by the entries of a block makes every key of the block map to the answer packed last.)
func checkDumpWriterPairing(c *Ctx) {
	wd := c.fn(relCachePlugin, "Cache", "writeDump")
	if wd == nil {
		return
	}
	CE := relCachePlugin + ".CachedEntry"
	IT := relCachePlugin + ".item"
	written := map[string]ssa.Value{}
	var rangeFn *ssa.Function
	eachInstrDeep(wd, func(f *ssa.Function, in ssa.Instruction) {
		if st, ok := in.(*ssa.Store); ok {
			if k, ok := fieldKey(st.Addr); ok && strings.HasPrefix(k, CE+".") {
				written[strings.TrimPrefix(k, CE+".")] = st.Val
				rangeFn = f
			}
		}
	})
	rangeFn, _ = rangeCallbackOf(wd, rangeFn)
	if rangeFn == nil || len(rangeFn.Params) < 3 {
		c.anchorMissing("range function building CachedEntry in writeDump")
		return
	}
	c.see(rangeFn)
	if v, ok := written["Key"]; ok {
		cv, isC := v.(*ssa.Convert)
		c.check(isC && isActualParam(stripConv(cv.X), rangeFn, 0), "dump-pair:key", valuePos(v), "Key <- []byte(the entry's key)", "the dumped key is "+exprStr(v)+", not the bytes of the entry's own key: after a reload the answer is served for another question")
	} else {
		c.fail("dump-pair:key", wd.Pos(), "writeDump never sets the entry's key")
	}
	if v, ok := written["Msg"]; ok {
		good := false
		if ex, isE := v.(*ssa.Extract); isE {
			if cl, isC := ex.Tuple.(*ssa.Call); isC && callName(cl) == "(*github.com/miekg/dns.Msg).Pack" {
				if k, okk := loadedField(cl.Call.Args[0]); okk && k == IT+".resp" {
					good = true
				}
				// D45: a by-value copy of item.resp (packed with compression; the cached message itself is shared)
				if al, isAl := cl.Call.Args[0].(*ssa.Alloc); isAl && localCopyOfField(al, IT+".resp") {
					good = true
				}
			}
		}
		c.check(good, "dump-pair:msg", valuePos(v), "Msg <- item.resp.Pack() (a fresh slice per entry)", "the dumped message bytes are "+exprStr(v)+", not a fresh item.resp.Pack(): entries collected in one block can share one buffer, and after a reload their keys all map to the answer packed last")
	} else {
		c.fail("dump-pair:msg", wd.Pos(), "writeDump never sets the entry's message")
	}
}

// unpackErrorSkipsEntry: the error result of this Unpack call is tested, and on the error edge no backend Store (and
// no use of the message) is reachable before the loop goes on to the next entry.
func unpackErrorSkipsEntry(ci *ssa.Call) bool {
	hdr := innermostLoopHeader(ci.Block())
	if hdr == nil {
		// loop body extracted into a new result-less helper: leaving the helper is going on with the next entry
		if helperLoopHeader(ci) == nil || ci.Parent().Signature.Results().Len() != 0 {
			return false
		}
	}
	found := false
	for _, r := range referrers(ci) {
		bo, ok := r.(*ssa.BinOp)
		if !ok || !isNilConst(bo.Y) || (bo.Op != token.NEQ && bo.Op != token.EQL) {
			continue
		}
		for _, r2 := range referrers(bo) {
			iff, ok := r2.(*ssa.If)
			if !ok {
				continue
			}
			errBlk := succOnTruth(iff, bo.Op == token.NEQ)
			found = true
			if _, stores := reachFromBlock(errBlk, func(x ssa.Instruction) bool {
				cl, ok := x.(*ssa.Call)
				return ok && callName(cl) == "(*pkg/cache.Cache).Store"
			}, func(x ssa.Instruction) bool { return hdr != nil && x.Block() == hdr }); stores {
				return false
			}
		}
	}
	return found
}

// rangeCallbackOf: the functions found to build dump entries: when the CachedEntry fields are stored in a NEW helper that
// the range callback of writeDump calls (`e := c.newDumpEntry(k, v, exp)`), the callback is the helper's only caller;
// returns the callback (the function whose parameters are key, item, cache expiry) and the builder.
func rangeCallbackOf(wd, builder *ssa.Function) (*ssa.Function, *ssa.Function) {
	if builder == nil || builder.Parent() != nil || !isNewHelper(builder) {
		return builder, builder
	}
	if site, ok := soleCallSite(builder).(*ssa.Call); ok && site.Parent() != nil && site.Parent().Parent() == wd {
		return site.Parent(), builder
	}
	return builder, builder
}

// isActualParam: v stands for parameter i of the range callback cb: the parameter itself, or — inside the entry
// builder helper — a helper parameter that the callback binds to it.
func isActualParam(v ssa.Value, cb *ssa.Function, i int) bool {
	if i >= len(cb.Params) {
		return false
	}
	acts := actualsWithin(v, cb)
	if len(acts) == 0 {
		return false
	}
	for _, a := range acts {
		if a != ssa.Value(cb.Params[i]) {
			return false
		}
	}
	return true
}
