package main

import (
	"fmt"
	"go/token"
	"go/types"
	"strings"

	"golang.org/x/tools/go/ssa"
)

const relSeq = "plugin/executable/sequence"

func init() {
	register(&propDef{
		ID: "C06",
		Explanation: "Decides the structural conditions of the sequence interpreter on every path of its few functions: (R1) every error from a matcher, an action or a nested ExecNext is returned " +
			"unchanged, tail calls are returned as they are; (R2) walkers and chain nodes are immutable after construction (no store through a receiver or parameter, no element store into a " +
			"chain), so a continuation executes the same remaining rules however often and concurrently it is run; (R3) the continuation handed to a wrapping plugin is (current index + 1, same " +
			"chain, same jump-back); (R4) accept/reject never continue, return only resumes the jump-back, goto starts its target with no jump-back and ignores the continuation, jump starts " +
			"its target with the continuation as jump-back; (R5) negation is logical not (error first), applied iff configured from the '!' prefix, '$' selects a tag; (R6) a false matcher leads " +
			"to the next rule without evaluating further matchers or the action, matchers are visited by an index range loop; (R7) at the end of a chain the jump-back resumes, else nil. " +
			"Equivalence with a reference interpreter over all programs is not decided.",
		Assumptions: []string{"plugins honour the Executable / RecursiveExecutable contracts"},
		Run:         runC06,
	})
}

// errUnchanged: the error result of call ci is either returned directly (tail) or tested != nil with the
// non-nil branch returning that very value.
func errUnchanged(f *ssa.Function, ci ssa.Value) (bool, string) {
	var errV ssa.Value
	if ci.Type().String() == "error" {
		errV = ci
	}
	for _, r := range referrers(ci) {
		if ex, ok := r.(*ssa.Extract); ok && ex.Type().String() == "error" {
			errV = ex
		}
	}
	if errV == nil {
		return false, "error result discarded"
	}
	tail, tested := false, false
	for _, r := range referrers(errV) {
		switch x := r.(type) {
		case *ssa.Return:
			rv := returnedValues(x)
			if rv[len(rv)-1] == errV {
				tail = true
			}
		case *ssa.Store:
			// spilled named result then returned: accept when the return returns this value
			for _, ret := range returnsOf(f) {
				rv := returnedValues(ret)
				if rv[len(rv)-1] == errV && x.Block() == ret.Block() {
					tail = true
				}
			}
		case *ssa.BinOp:
			if x.Op != token.NEQ || !isNilConst(x.Y) {
				continue
			}
			for _, r2 := range referrers(x) {
				iff, ok := r2.(*ssa.If)
				if !ok {
					continue
				}
				tb := iff.Block().Succs[0]
				if ret, ok := terminator(tb).(*ssa.Return); ok {
					rv := returnedValues(ret)
					if rv[len(rv)-1] == errV {
						tested = true
					}
				}
			}
		}
	}
	if tail || tested {
		return true, ""
	}
	return false, "a non-nil error is not returned unchanged"
}

func runC06(c *Ctx) {
	p := c.P
	fns := p.funcsIn(relSeq)
	c.see(fns...)
	S := relSeq + "."
	en := c.fn(relSeq, "ChainWalker", "ExecNext")
	if en == nil {
		return
	}
	isEngineCall := func(in ssa.Instruction) (*ssa.Call, string) {
		ci, ok := in.(*ssa.Call)
		if !ok {
			return nil, ""
		}
		if ci.Call.IsInvoke() {
			n := ci.Call.Method.Name()
			rt := typeKey(ci.Call.Value.Type())
			if (n == "Match" && rt == S+"Matcher") || (n == "Exec" && (rt == S+"Executable" || rt == S+"RecursiveExecutable")) {
				return ci, n
			}
			return nil, ""
		}
		if staticCallee(ci) == en {
			return ci, "ExecNext"
		}
		if ci2, _, _ := chainRunner(staticCallee(ci), en); ci2 >= 0 {
			return ci, "ExecNext"
		}
		return nil, ""
	}

	// ---------------------------------------------------------------- R1
	c.rule("R1", "errors from Match / Exec / ExecNext are returned unchanged", 8)
	for _, f := range fns {
		top := f
		for top.Parent() != nil {
			top = top.Parent()
		}
		// the interpreter proper: ExecNext, built-in actions, negation wrapper, Sequence.Exec
		nm := funcName(top)
		if !(strings.Contains(nm, "ChainWalker).ExecNext") || strings.Contains(nm, ".Action") || strings.Contains(nm, "reverseMatch).Match") || strings.Contains(nm, "Sequence).Exec")) {
			if ci2, _, _ := chainRunner(top, en); ci2 < 0 {
				continue
			}
		}
		eachInstr(f, func(in ssa.Instruction) {
			ci, kind := isEngineCall(in)
			if ci == nil {
				return
			}
			ok, why := errUnchanged(f, ci)
			c.check(ok, "err@"+funcName(f)+":"+kind, instrPos(in), "error of "+kind+" is returned unchanged", why+": an error from a matcher or action is swallowed or replaced and processing continues")
		})
	}

	// ---------------------------------------------------------------- R2
	c.rule("R2", "ChainWalker / ChainNode are never written after construction", 6)
	for _, typ := range []string{"ChainWalker", "ChainNode"} {
		st := structOf(p.Named(relSeq, typ))
		if st == nil {
			c.anchorMissing("type " + typ)
			continue
		}
		for i := 0; i < st.NumFields(); i++ {
			fk := S + typ + "." + st.Field(i).Name()
			for _, w := range p.whoWrites().byField[fk] {
				key := "write:" + typ + "." + st.Field(i).Name() + "@" + funcName(w.Fn)
				fresh := false
				switch w.Kind {
				case "store", "elemstore", "mapupdate", "delete":
					var addr ssa.Value
					if s, ok := w.Instr.(*ssa.Store); ok {
						addr = s.Addr
					}
					if addr != nil {
						if ia, ok := addr.(*ssa.IndexAddr); ok {
							addr = ia.X
						}
						if _, ok := fieldBase(addr).(*ssa.Alloc); ok && w.Kind == "store" {
							fresh = true
						}
					}
				case "structstore":
					s := w.Instr.(*ssa.Store)
					if _, ok := s.Addr.(*ssa.Alloc); ok {
						fresh = true
					}
					if fa, ok := s.Addr.(*ssa.FieldAddr); ok {
						if _, ok := fieldBase(fa).(*ssa.Alloc); ok {
							fresh = true
						}
					}
					if ia, ok := s.Addr.(*ssa.IndexAddr); ok {
						// varargs / local array element
						if _, ok := ia.X.(*ssa.Alloc); ok {
							fresh = true
						}
					}
				}
				c.check(fresh, key, instrPos(w.Instr), "store into an object under construction (fresh local)",
					"a "+typ+" that already exists is modified ("+w.Kind+"): a continuation that is run again, or concurrently, executes different rules")
			}
		}
	}
	// chain slices are never element-assigned
	for _, fk := range []string{S + "Sequence.chain", S + "ChainWalker.chain", S + "ActionJump.To", S + "ActionGoto.To"} {
		for _, w := range p.whoWrites().byField[fk] {
			if w.Kind == "elemstore" {
				c.fail("chain-element-write@"+funcName(w.Fn), instrPos(w.Instr), "an element of a rule chain is overwritten after construction")
			}
		}
	}

	// ---------------------------------------------------------------- R3
	c.rule("R3", "the continuation handed to a wrapping plugin is (index+1, same chain, same jump-back)", 1)
	var reCall *ssa.Call
	var pPhi ssa.Value
	eachInstr(en, func(in ssa.Instruction) {
		if ci, kind := isEngineCall(in); ci != nil && kind == "Exec" && typeKey(ci.Call.Value.Type()) == S+"RecursiveExecutable" {
			reCall = ci
		}
	})
	// the node being executed: load of &chain[P]
	var nodeIdx ssa.Value
	if reCall == nil {
		c.anchorMissing("invoke of RecursiveExecutable.Exec in ExecNext")
	} else {
		if ld, ok := reCall.Call.Value.(*ssa.UnOp); ok {
			if fa, ok := ld.X.(*ssa.FieldAddr); ok {
				if nl, ok := fa.X.(*ssa.UnOp); ok {
					if ia, ok := nl.X.(*ssa.IndexAddr); ok {
						if k, _ := loadedField(ia.X); k == S+"ChainWalker.chain" && fieldBase(ia.X.(*ssa.UnOp).X) == ssa.Value(en.Params[0]) {
							nodeIdx = ia.Index
						}
					}
				}
			}
		}
		pPhi = nodeIdx
		good, why := false, "cannot recognise the continuation literal"
		if ld, ok := reCall.Call.Args[2].(*ssa.UnOp); ok {
			if al, ok := ld.X.(*ssa.Alloc); ok {
				vals := map[string]ssa.Value{}
				for _, r := range referrers(al) {
					if fa, ok := r.(*ssa.FieldAddr); ok {
						for _, r2 := range referrers(fa) {
							if st, ok := r2.(*ssa.Store); ok {
								k, _ := fieldKey(fa)
								vals[fieldTail(k)] = st.Val
							}
						}
					}
				}
				// the continuation cell receives exactly its three field stores: a later whole-struct
				// assignment (e.g. replacing it by the caller's frame) changes what the plugin is handed
				wholeStore := false
				for _, r := range referrers(al) {
					if st, ok := r.(*ssa.Store); ok && st.Addr == ssa.Value(al) {
						wholeStore = true
					}
				}
				pOK, chainOK, jbOK := false, false, false
				if bo, ok := vals["p"].(*ssa.BinOp); ok && bo.Op == token.ADD && nodeIdx != nil && bo.X == nodeIdx {
					if n, ok := constInt(bo.Y); ok && n == 1 {
						pOK = true
					}
				}
				recvField := func(v ssa.Value, f string) bool {
					if v == nil {
						return false
					}
					k, ok := loadedField(v)
					return ok && k == S+"ChainWalker."+f && fieldBase(v.(*ssa.UnOp).X) == ssa.Value(en.Params[0])
				}
				chainOK = recvField(vals["chain"], "chain")
				jbOK = recvField(vals["jumpBack"], "jumpBack")
				good = pOK && chainOK && jbOK && !wholeStore
				why = fmt.Sprintf("continuation is {p: %s, chain: %s, jumpBack: %s}, overwritten as a whole afterwards: %v; expected exactly {index of the running rule + 1, w.chain, w.jumpBack}", exprStr(vals["p"]), exprStr(vals["chain"]), exprStr(vals["jumpBack"]), wholeStore)
			}
		}
		c.check(good, "continuation@"+funcName(en), instrPos(reCall), "continuation = (p+1, w.chain, w.jumpBack) in a fresh walker", why)
	}

	// ---------------------------------------------------------------- R4
	c.rule("R4", "accept/reject stop; return resumes only the jump-back; goto: target, no jump-back; jump: target with the continuation as jump-back", 5)
	execNextCalls := func(f *ssa.Function) []*ssa.Call {
		var out []*ssa.Call
		eachInstr(f, func(in ssa.Instruction) {
			if ci, ok := in.(*ssa.Call); ok {
				if staticCallee(ci) == en {
					out = append(out, ci)
				} else if chi, _, _ := chainRunner(staticCallee(ci), en); chi >= 0 {
					out = append(out, ci)
				} else if ci.Call.IsInvoke() && (ci.Call.Method.Name() == "Exec" || ci.Call.Method.Name() == "ExecNext") {
					out = append(out, ci)
				}
			}
		})
		return out
	}
	for _, name := range []string{"ActionAccept", "ActionReject"} {
		if f := c.fn(relSeq, name, "Exec"); f != nil {
			c.check(len(execNextCalls(f)) == 0, "terminal@"+name, f.Pos(), name+" never continues the chain", name+" continues the chain: accept/reject must end all processing")
		}
	}
	if f := c.fn(relSeq, "ActionReturn", "Exec"); f != nil {
		calls := execNextCalls(f)
		good := len(calls) == 1
		for _, ci := range calls {
			recv := ci.Call.Args[0]
			k, ok := loadedField(recv)
			if !ok || k != S+"ChainWalker.jumpBack" {
				good = false
				continue
			}
			g := false
			for _, gd := range guardsOfInstr(ci) {
				if cm, ok := gd.asCmp(); ok && cm.Op == token.NEQ && isNilConst(cm.Y) {
					if k2, _ := loadedField(cm.X); k2 == S+"ChainWalker.jumpBack" {
						g = true
					}
				}
			}
			if !g {
				good = false
			}
			if ok2, _ := errUnchanged(f, ci); !ok2 {
				good = false
			}
		}
		c.check(good, "return@ActionReturn", f.Pos(), "return resumes exactly the pending jump-back (nil-guarded) and returns its result", "ActionReturn does not resume exactly next.jumpBack (or ignores its result)")
	}
	newWalkerArgs := func(f *ssa.Function) (to, jb ssa.Value, call *ssa.Call) {
		eachInstr(f, func(in ssa.Instruction) {
			if ci, ok := in.(*ssa.Call); ok && callName(ci) == relSeq+".NewChainWalker" {
				to, jb, call = ci.Call.Args[0], ci.Call.Args[1], ci
			}
			// ... or a NEW helper that builds the walker from its parameters and runs it
			if ci, ok := in.(*ssa.Call); ok {
				if chi, jbi, _ := chainRunner(staticCallee(ci), en); chi >= 0 && chi < len(ci.Call.Args) && jbi < len(ci.Call.Args) {
					to, jb, call = ci.Call.Args[chi], ci.Call.Args[jbi], ci
				}
			}
		})
		if call != nil {
			return
		}
		// the constructor written out: ChainWalker{chain: X, jumpBack: Y} (p left at 0) as the receiver of ExecNext
		eachInstr(f, func(in ssa.Instruction) {
			ci, ok := in.(*ssa.Call)
			if !ok || !strings.HasSuffix(callName(ci), "ChainWalker).ExecNext") || len(ci.Call.Args) == 0 {
				return
			}
			recv := ci.Call.Args[0]
			if ld, isLd := recv.(*ssa.UnOp); isLd && ld.Op == token.MUL {
				recv = ld.X
			}
			al, isAl := recv.(*ssa.Alloc)
			if !isAl || !strings.HasSuffix(typeKey(al.Type()), "ChainWalker") {
				return
			}
			var chainV, jbV ssa.Value
			clean := true
			for _, r := range referrers(al) {
				fa, isFA := r.(*ssa.FieldAddr)
				if !isFA {
					continue
				}
				k, _ := fieldKey(fa)
				for _, r2 := range referrers(fa) {
					st, isSt := r2.(*ssa.Store)
					if !isSt || st.Addr != ssa.Value(fa) {
						continue
					}
					switch {
					case strings.HasSuffix(k, "ChainWalker.chain"):
						chainV = st.Val
					case strings.HasSuffix(k, "ChainWalker.jumpBack"):
						jbV = st.Val
					case strings.HasSuffix(k, "ChainWalker.p"):
						if n, isC := constInt(st.Val); !isC || n != 0 {
							clean = false
						}
					}
				}
			}
			if chainV == nil || !clean {
				return
			}
			if jbV == nil {
				// no store: the zero value
				if st, isStruct := al.Type().Underlying().(*types.Pointer).Elem().Underlying().(*types.Struct); isStruct {
					for i := 0; i < st.NumFields(); i++ {
						if st.Field(i).Name() == "jumpBack" {
							jbV = ssa.NewConst(nil, st.Field(i).Type())
						}
					}
				}
			}
			to, jb, call = chainV, jbV, ci
		})
		return
	}
	// who may construct a jump / goto action: only its own setup function (an exec written as `$tag` of a sequence is
	// that sequence as a plain action: accept / reject / goto inside it end that action, not the caller)
	for typ, ctor := range map[string]string{"ActionJump": "setupJump", "ActionGoto": "setupGoto"} {
		n, bad := 0, ""
		for _, f := range p.Funcs {
			if f.Pkg == nil || !inMosdns(f) || strings.HasSuffix(f.Pkg.Pkg.Path(), "/tools") {
				continue
			}
			fn := f
			eachInstr(f, func(in ssa.Instruction) {
				al, ok := in.(*ssa.Alloc)
				if !ok || typeKey(al.Type()) != S+typ {
					return
				}
				// a composite literal (a field is stored), not the spill of a by-value receiver or parameter
				lit := false
				for _, r := range referrers(al) {
					if fa, ok := r.(*ssa.FieldAddr); ok {
						for _, r2 := range referrers(fa) {
							if st, ok := r2.(*ssa.Store); ok && st.Addr == ssa.Value(fa) {
								lit = true
							}
						}
					}
				}
				if !lit {
					return
				}
				n++
				top := fn
				for top.Parent() != nil {
					top = top.Parent()
				}
				if top.Name() != ctor {
					bad = p.pos(instrPos(in)) + " in " + funcName(fn)
				}
			})
		}
		c.check(n > 0 && bad == "", "constructed-only-by-setup:"+typ, token.NoPos, typ+" is built only by "+ctor,
			typ+" is constructed outside "+ctor+" ("+bad+"): something that is not a `"+strings.ToLower(strings.TrimPrefix(typ, "Action"))+"` rule runs a sequence with jump/goto semantics — accept, reject and goto inside it then end all processing of the caller, and a wrapping plugin inside it wraps the rest of the caller")
	}
	if f := c.fn(relSeq, "ActionGoto", "Exec"); f != nil {
		to, jb, call := newWalkerArgs(f)
		toOK := false
		if to != nil {
			if k, _ := loadedField(to); k == S+"ActionGoto.To" {
				toOK = true
			}
			if fl, ok := to.(*ssa.Field); ok {
				if k, _ := fieldKey(fl); k == S+"ActionGoto.To" {
					toOK = true
				}
			}
		}
		// the continuation parameter is unused
		unused := true
		for _, r := range referrers(f.Params[len(f.Params)-1]) {
			if _, ok := r.(*ssa.DebugRef); !ok {
				unused = false
			}
		}
		calls := execNextCalls(f)
		allRet := len(calls) == 1
		if allRet {
			for _, r := range returnsOf(f) {
				if rv := returnedValues(r); len(rv) != 1 || rv[0] != ssa.Value(calls[0]) {
					allRet = false
				}
			}
		}
		c.check(call != nil && toOK && jb != nil && isNilConst(jb) && unused && allRet, "goto@ActionGoto", f.Pos(),
			"goto runs its target with no jump-back and never touches the continuation",
			fmt.Sprintf("goto must start NewChainWalker(a.To, nil) and ignore the continuation (target ok: %v, jump-back: %s, continuation unused: %v)", toOK, exprStr(jb), unused))
	}
	if f := c.fn(relSeq, "ActionJump", "Exec"); f != nil {
		to, jb, call := newWalkerArgs(f)
		toOK := false
		if to != nil {
			if k, _ := loadedField(to); k == S+"ActionJump.To" {
				toOK = true
			}
		}
		jbOK := false
		if al, ok := jb.(*ssa.Alloc); ok {
			// the cell holding the by-value parameter `next`
			for _, r := range referrers(al) {
				if st, ok := r.(*ssa.Store); ok && st.Addr == ssa.Value(al) && st.Val == ssa.Value(f.Params[len(f.Params)-1]) {
					jbOK = true
				}
			}
		}
		calls := execNextCalls(f)
		tail := false
		if len(calls) == 1 {
			tail, _ = errUnchanged(f, calls[0])
			// on every path: each return hands back the result of that one walker run (no fast path around it)
			for _, r := range returnsOf(f) {
				if rv := returnedValues(r); len(rv) != 1 || rv[0] != ssa.Value(calls[0]) {
					tail = false
				}
			}
		}
		c.check(call != nil && toOK && jbOK && tail, "jump@ActionJump", f.Pos(), "jump runs its target with the continuation as jump-back and returns the result",
			fmt.Sprintf("jump must run NewChainWalker(a.To, &next) and return its result (target ok: %v, jump-back is &next: %v, result returned: %v)", toOK, jbOK, tail))
	}
	if f := c.fn(relSeq, "", "NewChainWalker"); f != nil {
		// constructor stores its arguments, p = 0
		good := false
		for _, r := range returnsOf(f) {
			v := returnedValues(r)[0]
			if ld, ok := v.(*ssa.UnOp); ok {
				if al, ok := ld.X.(*ssa.Alloc); ok {
					vals := map[string]ssa.Value{}
					for _, rr := range referrers(al) {
						if fa, ok := rr.(*ssa.FieldAddr); ok {
							for _, r2 := range referrers(fa) {
								if st, ok := r2.(*ssa.Store); ok {
									k, _ := fieldKey(fa)
									vals[fieldTail(k)] = st.Val
								}
							}
						}
					}
					_, hasP := vals["p"]
					good = vals["chain"] == ssa.Value(f.Params[0]) && vals["jumpBack"] == ssa.Value(f.Params[1]) && !hasP
				}
			}
		}
		c.check(good, "constructor@NewChainWalker", f.Pos(), "NewChainWalker = {p: 0, chain, jumpBack}", "NewChainWalker does not build {p: 0, chain: arg0, jumpBack: arg1}")
	}

	// ---------------------------------------------------------------- R5
	c.rule("R5", "negation = logical not, error first; wrapped iff Reverse; Reverse from '!', Tag from '$'", 4)
	if f := c.fn(relSeq, "reverseMatch", "Match"); f != nil {
		good := false
		for _, r := range returnsOf(f) {
			rv := returnedValues(r)
			if !isNilConst(rv[1]) {
				continue
			}
			if u, ok := rv[0].(*ssa.UnOp); ok && u.Op == token.NOT {
				if ex, ok := u.X.(*ssa.Extract); ok && ex.Index == 0 {
					if ci, ok := ex.Tuple.(*ssa.Call); ok && ci.Call.IsInvoke() && ci.Call.Method.Name() == "Match" {
						good = true
					}
				}
			}
		}
		c.check(good, "negation@reverseMatch", f.Pos(), "returns !inner, nil", "reverseMatch.Match does not return the logical negation of the inner matcher")
	}
	if f := c.fn(relSeq, "Sequence", "newMatcher"); f != nil {
		good := false
		eachInstr(f, func(in ssa.Instruction) {
			ci, ok := in.(*ssa.Call)
			if !ok || callName(ci) != relSeq+".reverseMatcher" {
				return
			}
			for _, gd := range guardsOfInstr(in) {
				v, truth := gd.asBool()
				if k, _ := loadedField(v); k == S+"MatchConfig.Reverse" && truth {
					good = true
				}
				if fl, ok := v.(*ssa.Field); ok && truth {
					if k, _ := fieldKey(fl); k == S+"MatchConfig.Reverse" {
						good = true
					}
				}
			}
		})
		// every matcher that newMatcher hands out passed the negation decision: each non-nil result is the wrapper
		// (under Reverse) or stands under !Reverse — no return before the decision
		isRev := func(g guard) (bool, bool) {
			v, truth := g.asBool()
			if k, _ := loadedField(v); k == S+"MatchConfig.Reverse" {
				return true, truth
			}
			if fl, ok := v.(*ssa.Field); ok {
				if k, _ := fieldKey(fl); k == S+"MatchConfig.Reverse" {
					return true, truth
				}
			}
			return false, false
		}
		for _, r := range returnsOf(f) {
			rv := returnedValues(r)
			if len(rv) == 0 || isNilConst(rv[0]) {
				continue
			}
			for _, lf := range expandCases(rv[0], nil, 0) {
				if isNilConst(lf.val) {
					continue
				}
				decided := false
				for _, g := range append(lf.guards, guardsOfInstr(r)...) {
					if is, truth := isRev(g); is {
						if cl, ok := lf.val.(*ssa.Call); ok && callName(cl) == relSeq+".reverseMatcher" {
							decided = truth
						} else {
							decided = !truth
						}
					}
				}
				if !decided {
					good = false
				}
			}
		}
		c.check(good, "wrap-iff-reverse@newMatcher", f.Pos(), "every matcher handed out is wrapped exactly under mc.Reverse", "the negation wrapper is not applied exactly when the rule is negated (some matcher is returned before the Reverse decision): '!' is parsed and then ignored")
	}
	if f := c.fn(relSeq, "", "parseMatch"); f != nil {
		revOK, tagOK := false, false
		eachInstr(f, func(in ssa.Instruction) {
			st, ok := in.(*ssa.Store)
			if !ok {
				return
			}
			k, _ := fieldKey(st.Addr)
			src := func(v ssa.Value, idx int, prefix string) bool {
				ex, ok := v.(*ssa.Extract)
				if !ok || ex.Index != idx {
					return false
				}
				ci, ok := ex.Tuple.(*ssa.Call)
				if !ok || callName(ci) != relSeq+".trimPrefixField" {
					return false
				}
				s, ok := constString(ci.Call.Args[1])
				return ok && s == prefix
			}
			switch k {
			case S + "MatchConfig.Reverse":
				revOK = src(st.Val, 1, "!")
			case S + "MatchConfig.Tag":
				tagOK = src(st.Val, 0, "$")
				// delegated to the exec-side parser, whose tag is taken from the '$' prefix
				if ex, ok := st.Val.(*ssa.Extract); ok && !tagOK && ex.Index == 0 {
					if ci, ok := ex.Tuple.(*ssa.Call); ok && callName(ci) == relSeq+".parseExec" {
						if pe := ci.Call.StaticCallee(); pe != nil {
							tr := c.P.newTracer()
							tr.throughCalls, tr.throughParams, tr.throughFields = false, false, false
							for _, r := range returnsOf(pe) {
								rv := returnedValues(r)
								if len(rv) == 0 {
									continue
								}
								for _, o := range tr.origins(rv[0]) {
									if src(o, 0, "$") {
										tagOK = true
									}
								}
							}
						}
					}
				}
			}
		})
		c.check(revOK, "parse-negation", f.Pos(), "Reverse is set from the '!' prefix", "parseMatch does not take the negation flag from the '!' prefix")
		c.check(tagOK, "parse-tag", f.Pos(), "Tag is set from the '$' prefix", "parseMatch does not take the tag from the '$' prefix")
	}

	// ---------------------------------------------------------------- R6
	c.rule("R6", "a false matcher skips to the next rule: no further matcher / action of this rule runs; matchers are visited by an index range", 2)
	{
		var matchCall *ssa.Call
		eachInstr(en, func(in ssa.Instruction) {
			if ci, kind := isEngineCall(in); ci != nil && kind == "Match" {
				matchCall = ci
			}
		})
		// second form: the matcher loop was extracted into a new helper `matched, err := n.matchAll(ctx, qCtx)`
		var helperCall *ssa.Call // the call of the helper in ExecNext
		if matchCall == nil {
			eachInstrDeep(en, func(g *ssa.Function, in ssa.Instruction) {
				if ci, kind := isEngineCall(in); ci != nil && kind == "Match" && g != en && g.Parent() == nil {
					if hc, ok := soleCallSite(g).(*ssa.Call); ok && hc.Parent() == en {
						matchCall, helperCall = ci, hc
					}
				}
			})
		}
		if matchCall == nil {
			c.anchorMissing("invoke of Matcher.Match in ExecNext")
		} else {
			var okV ssa.Value
			for _, r := range referrers(matchCall) {
				if ex, ok := r.(*ssa.Extract); ok && ex.Index == 0 {
					okV = ex
				}
			}
			var iff *ssa.If
			if okV != nil {
				for _, r := range referrers(okV) {
					if i, ok := r.(*ssa.If); ok {
						iff = i
					}
					if u, ok := r.(*ssa.UnOp); ok && u.Op == token.NOT {
						for _, r2 := range referrers(u) {
							if i, ok := r2.(*ssa.If); ok {
								iff = i
							}
						}
					}
				}
			}
			if iff != nil && helperCall != nil {
				// in the helper: a false matcher returns false at once; true is returned only after the range is over
				h := matchCall.Parent()
				_, truthOfOk := guard{Cond: iff.Cond, Truth: true}.asBool()
				falseBlk, trueBlk := succOnTruth(iff, !truthOfOk), succOnTruth(iff, truthOfOk)
				mayBeTrue := func(x ssa.Instruction) bool {
					r, ok := x.(*ssa.Return)
					if !ok {
						return false
					}
					rv := returnedValues(r)
					if len(rv) != 2 {
						return true
					}
					for _, lf := range expandCases(rv[0], nil, 0) {
						if b, ok := constBool(lf.val); !ok || b {
							return true
						}
					}
					return false
				}
				isEng := func(x ssa.Instruction) bool { ci, _ := isEngineCall(x); return ci != nil }
				_, leak1 := reachFromBlock(falseBlk, func(x ssa.Instruction) bool { return isEng(x) || mayBeTrue(x) }, nil)
				hdr := innermostLoopHeader(matchCall.Block())
				_, leak2 := reachFromBlock(trueBlk, mayBeTrue, func(x ssa.Instruction) bool { return hdr != nil && x.Block() == hdr })
				// in ExecNext: the helper runs on the current node and a false result skips to the next rule
				cur := false
				if len(helperCall.Call.Args) > 0 {
					if ld, ok := helperCall.Call.Args[0].(*ssa.UnOp); ok {
						if ia, ok := ld.X.(*ssa.IndexAddr); ok && pPhi != nil && ia.Index == pPhi {
							if k, _ := loadedField(ia.X); k == S+"ChainWalker.chain" {
								cur = true
							}
						}
					}
				}
				var hIf *ssa.If
				for _, r := range referrers(helperCall) {
					if ex, ok := r.(*ssa.Extract); ok && ex.Index == 0 {
						for _, r2 := range referrers(ex) {
							if i, ok := r2.(*ssa.If); ok {
								hIf = i
							}
							if u, ok := r2.(*ssa.UnOp); ok && u.Op == token.NOT {
								for _, r3 := range referrers(u) {
									if i, ok := r3.(*ssa.If); ok {
										hIf = i
									}
								}
							}
						}
					}
				}
				leak3 := true
				if hIf != nil {
					_, t := guard{Cond: hIf.Cond, Truth: true}.asBool()
					isInc := func(x ssa.Instruction) bool {
						bo, ok := x.(*ssa.BinOp)
						if !ok || bo.Op != token.ADD || pPhi == nil || bo.X != pPhi {
							return false
						}
						n, ok := constInt(bo.Y)
						return ok && n == 1
					}
					_, leak3 = reachFromBlock(succOnTruth(hIf, !t), isEng, isInc)
				}
				c.check(!leak1 && !leak2 && !leak3 && cur && h.Signature.Results().Len() == 2, "short-circuit@ExecNext", instrPos(helperCall),
					"the matcher helper returns false at the first false matcher and true only after the last one; ExecNext skips the rule on false",
					"after a matcher returned false, a further matcher or the action of the same rule can still run (matcher loop in "+funcName(h)+")")
			} else if iff == nil {
				c.fail("short-circuit@ExecNext", instrPos(matchCall), "the matcher's result is not branched on")
			} else {
				_, truthOfOk := guard{Cond: iff.Cond, Truth: true}.asBool()
				falseBlk := succOnTruth(iff, !truthOfOk)
				isInc := func(x ssa.Instruction) bool {
					bo, ok := x.(*ssa.BinOp)
					if !ok || bo.Op != token.ADD || pPhi == nil || bo.X != pPhi {
						return false
					}
					n, ok := constInt(bo.Y)
					return ok && n == 1
				}
				_, leak := reachPhiAware(falseBlk, iff.Block(), func(x ssa.Instruction) bool { ci, _ := isEngineCall(x); return ci != nil }, isInc)
				c.check(!leak, "short-circuit@ExecNext", instrPos(iff), "after a false matcher nothing of this rule runs before the index advances",
					"after a matcher returned false, a further matcher or the action of the same rule can still run")
				// and the action is only reachable through ok == true of every evaluated matcher
				trueBlk := succOnTruth(iff, truthOfOk)
				_ = trueBlk
			}
			// range over n.Matches with Match on the element
			good := false
			if ld, ok := matchCall.Call.Value.(*ssa.UnOp); ok {
				if ia, ok := ld.X.(*ssa.IndexAddr); ok {
					if k, _ := loadedField(ia.X); k == S+"ChainNode.Matches" {
						if bo, ok := ia.Index.(*ssa.BinOp); ok && bo.Op == token.ADD {
							if phi, ok := bo.X.(*ssa.Phi); ok {
								init := false
								for _, e := range phi.Edges {
									if n, ok := constInt(e); ok && n == -1 {
										init = true
									}
								}
								if n, ok := constInt(bo.Y); ok && n == 1 && init {
									good = true
								}
							}
						}
					}
				}
			}
			c.check(good, "matchers-in-order@ExecNext", instrPos(matchCall), "matchers are evaluated left to right over n.Matches", "matchers are not evaluated by a forward index range over the rule's matcher list")
		}
	}

	// ---------------------------------------------------------------- R8
	c.rule("R8", "the rule index advances by exactly one per visited rule: the loop index is w.p on entry and index+1 on every way back to the loop head", 1)
	if en != nil {
		var idxPhi *ssa.Phi
		eachInstr(en, func(in ssa.Instruction) {
			ia, ok := in.(*ssa.IndexAddr)
			if !ok {
				return
			}
			if k, _ := loadedField(ia.X); k != S+"ChainWalker.chain" {
				return
			}
			if ph, ok := ia.Index.(*ssa.Phi); ok {
				idxPhi = ph
			}
		})
		if idxPhi == nil {
			c.undecided("index-step", en.Pos(), "cannot find the loop index of ExecNext")
		} else {
			var plusK func(v ssa.Value, depth int) (int64, bool)
			plusK = func(v ssa.Value, depth int) (int64, bool) { // v == idxPhi + k ?
				if depth > 6 {
					return 0, false
				}
				if v == ssa.Value(idxPhi) {
					return 0, true
				}
				switch x := v.(type) {
				case *ssa.BinOp:
					if x.Op == token.ADD {
						if n, ok := constInt(x.Y); ok {
							if k, ok := plusK(x.X, depth+1); ok {
								return k + n, true
							}
						}
					}
				case *ssa.Phi:
					var k0 int64
					for i, e := range x.Edges {
						k, ok := plusK(e, depth+1)
						if !ok || (i > 0 && k != k0) {
							return 0, false
						}
						k0 = k
					}
					return k0, len(x.Edges) > 0
				}
				return 0, false
			}
			good, why := true, ""
			nBack := 0
			for _, e := range idxPhi.Edges {
				if k, _ := loadedField(e); k == S+"ChainWalker.p" {
					continue
				}
				k, ok := plusK(e, 0)
				nBack++
				if !ok || k != 1 {
					good = false
					why = fmt.Sprintf("a way back to the loop head carries %s (index+%d)", exprStr(e), k)
				}
			}
			c.check(good && nBack > 0, "index-step", idxPhi.Pos(), "entry: w.p; every back edge: index+1", why+": after a false matcher or a plain action a rule is skipped or visited twice")
		}
	}

	// ---------------------------------------------------------------- R9
	c.rule("R9", "ExecNext returns only what a matcher, an action, the wrapped continuation or the pending jump-back returned, or nil at the end of the chain — and nothing else ends the walk", 4)
	if en != nil {
		for ri, r := range returnsOf(en) {
			rv := returnedValues(r)
			key := fmt.Sprintf("exec-next-return#%d", ri)
			okAll := true
			why := ""
			for _, lf := range expandCases(rv[0], nil, 0) {
				v := lf.val
				switch x := v.(type) {
				case *ssa.Const:
					if !isNilConst(x) {
						okAll, why = false, "a constant error"
					}
				case *ssa.Extract:
					cl, ok := x.Tuple.(*ssa.Call)
					if ok && !cl.Call.IsInvoke() && helperErrIsMatchers(cl, x.Index) {
						continue
					}
					if !ok || !cl.Call.IsInvoke() || cl.Call.Method.Name() != "Match" {
						okAll, why = false, exprStr(v)
					}
				case *ssa.Call:
					if x.Call.IsInvoke() && x.Call.Method.Name() == "Exec" {
						continue
					}
					if staticCallee(x) == en {
						continue
					}
					okAll, why = false, exprStr(v)
				default:
					okAll, why = false, exprStr(v)
				}
			}
			c.check(okAll, key, instrPos(r), "returns a matcher's / action's / continuation's result or nil", "ExecNext returns "+why+", an error that no matcher or action produced (e.g. a guard that refuses to run the remaining rules a second time): the continuation is not reusable")
		}
	}

	// ---------------------------------------------------------------- R7
	c.rule("R7", "end of chain: resume the jump-back if any, else nil", 1)
	{
		good := false
		for _, b := range en.Blocks {
			iff, ok := terminator(b).(*ssa.If)
			if !ok {
				continue
			}
			cm, ok := guard{Cond: iff.Cond, Truth: true}.asCmp()
			if !ok || cm.Op != token.NEQ || !isNilConst(cm.Y) {
				continue
			}
			if k, _ := loadedField(cm.X); k != S+"ChainWalker.jumpBack" {
				continue
			}
			tb, fb := b.Succs[0], b.Succs[1]
			tret, ok1 := terminator(tb).(*ssa.Return)
			fret, ok2 := terminator(fb).(*ssa.Return)
			if !ok1 || !ok2 {
				continue
			}
			tv := returnedValues(tret)[0]
			if ci, ok := tv.(*ssa.Call); ok && staticCallee(ci) == en {
				if k, _ := loadedField(ci.Call.Args[0]); k == S+"ChainWalker.jumpBack" && isNilConst(returnedValues(fret)[0]) {
					// reached exactly from the loop exit
					good = true
				}
			}
		}
		c.check(good, "end-of-chain@ExecNext", en.Pos(), "falls through to jumpBack.ExecNext when non-nil, else returns nil", "the end of a chain does not resume the pending jump-back (or does not return nil at top level)")
	}
}

// helperErrIsMatchers: cl calls a new helper of ExecNext (only call site) whose idx-th result is, at every return, nil or
// the error of a Matcher.Match invoke.
func helperErrIsMatchers(cl *ssa.Call, idx int) bool {
	h := cl.Call.StaticCallee()
	if h == nil || !isNewHelper(h) || soleCallSite(h) != ssa.Instruction(cl) {
		return false
	}
	n := 0
	for _, r := range returnsOf(h) {
		rv := returnedValues(r)
		if idx >= len(rv) {
			return false
		}
		for _, lf := range expandCases(rv[idx], nil, 0) {
			n++
			switch x := lf.val.(type) {
			case *ssa.Const:
				if !isNilConst(x) {
					return false
				}
			case *ssa.Extract:
				c2, ok := x.Tuple.(*ssa.Call)
				if !ok || !c2.Call.IsInvoke() || c2.Call.Method.Name() != "Match" {
					return false
				}
			default:
				return false
			}
		}
	}
	return n > 0
}

// chainRunner: h is a NEW helper `run(ctx, qCtx, chain, jumpBack) error` that builds NewChainWalker(chain, jumpBack) from
// its own parameters and returns exactly the result of one ExecNext on it. Returns the parameter positions of the chain
// and the jump-back (-1: not such a helper).
func chainRunner(h, en *ssa.Function) (int, int, bool) {
	if h == nil || en == nil || !isNewHelper(h) || len(withAnon(h)) != 1 {
		return -1, -1, false
	}
	chi, jbi := -1, -1
	var nw *ssa.Call
	var runs []*ssa.Call
	other := false
	eachInstr(h, func(in ssa.Instruction) {
		ci, ok := in.(*ssa.Call)
		if !ok {
			return
		}
		switch {
		case strings.HasSuffix(callName(ci), ".NewChainWalker") && len(ci.Call.Args) == 2:
			nw = ci
			for i, prm := range h.Params {
				if ci.Call.Args[0] == ssa.Value(prm) {
					chi = i
				}
				if ci.Call.Args[1] == ssa.Value(prm) {
					jbi = i
				}
			}
		case staticCallee(ci) == en:
			runs = append(runs, ci)
		default:
			other = true
		}
	})
	if nw == nil || chi < 0 || jbi < 0 || len(runs) != 1 || other {
		return -1, -1, false
	}
	for _, r := range returnsOf(h) {
		if rv := returnedValues(r); len(rv) != 1 || rv[0] != ssa.Value(runs[0]) {
			return -1, -1, false
		}
	}
	return chi, jbi, true
}
