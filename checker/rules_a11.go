package main

import (
	"go/token"
	"go/types"
	"strings"

	"golang.org/x/tools/go/ssa"
)

// Audit round A11.

const msgTruncateName = "(*github.com/miekg/dns.Msg).Truncate"

// truncHelper: a function of this module that hands two of its parameters on, as (message, size), to its only
// dns.Msg.Truncate call.
type truncHelper struct {
	fn              *ssa.Function
	msgIdx, sizeIdx int
	inner           *ssa.Call
}

func truncHelperOf(ci *ssa.Call) *truncHelper {
	callee := staticCallee(ci)
	if callee == nil || callee.Pkg == nil || len(callee.Blocks) == 0 || !strings.HasPrefix(callee.Pkg.Pkg.Path(), modPath) {
		return nil
	}
	var inner []*ssa.Call
	eachInstr(callee, func(in ssa.Instruction) {
		if cl, ok := in.(*ssa.Call); ok && callName(cl) == msgTruncateName {
			inner = append(inner, cl)
		}
	})
	if len(inner) != 1 {
		return nil
	}
	th := &truncHelper{fn: callee, msgIdx: -1, sizeIdx: -1, inner: inner[0]}
	for i, p := range callee.Params {
		if inner[0].Call.Args[0] == ssa.Value(p) {
			th.msgIdx = i
		}
		if inner[0].Call.Args[1] == ssa.Value(p) {
			th.sizeIdx = i
		}
	}
	if th.msgIdx < 0 || th.sizeIdx < 0 {
		return nil
	}
	return th
}

// checkTruncateMeasured (D51). dns.Msg.Truncate decides with dns.Msg.Len(), which is an upper bound only (text that
// needs escaping is counted in presentation form, up to four bytes for one on the wire): a reply that fits loses
// records and gets TC, over stream transports too. Obligations, for the function F holding the Truncate call T(msg, size):
//   - truncate-measured: every path from F's entry to T passes an edge on which Len(msg) <= size is known (T drops
//     nothing then), or an edge on which a real Pack of msg failed or gave more than size bytes;
//   - skip-only-if-fits (F is a helper): every path from F's entry to a return that avoids T passes the edges
//     "Pack(msg) gave no error" and "len(packed) <= size", and Compress is not stored to between that Pack and the return
//     (the size that was measured is the size that is sent).
func checkTruncateMeasured(c *Ctx, h *ssa.Function) {
	var sites []*ssa.Call // Truncate calls, in Handle or in a helper
	helper := map[*ssa.Call]bool{}
	eachInstr(h, func(in ssa.Instruction) {
		ci, ok := in.(*ssa.Call)
		if !ok {
			return
		}
		if callName(ci) == msgTruncateName {
			sites = append(sites, ci)
		} else if th := truncHelperOf(ci); th != nil {
			dup := false
			for _, s := range sites {
				dup = dup || s == th.inner
			}
			if !dup {
				sites = append(sites, th.inner)
				helper[th.inner] = true
			}
		}
	})
	for _, T := range sites {
		F := T.Parent()
		msg, size := T.Call.Args[0], T.Call.Args[1]
		isPackOfMsg := func(v ssa.Value) bool {
			cl, ok := v.(*ssa.Call)
			if !ok {
				return false
			}
			n := callName(cl)
			return (n == "(*github.com/miekg/dns.Msg).Pack" || n == "(*github.com/miekg/dns.Msg).PackBuffer") && cl.Call.Args[0] == msg
		}
		packedLen := func(v ssa.Value) bool {
			cl, ok := v.(*ssa.Call)
			if !ok || callName(cl) != "builtin:len" {
				return false
			}
			ex, ok := cl.Call.Args[0].(*ssa.Extract)
			return ok && ex.Index == 0 && isPackOfMsg(ex.Tuple)
		}
		packErr := func(v ssa.Value) bool {
			ex, ok := v.(*ssa.Extract)
			return ok && ex.Index == 1 && isPackOfMsg(ex.Tuple)
		}
		lenUpper := func(v ssa.Value) bool {
			cl, ok := v.(*ssa.Call)
			return ok && callName(cl) == "(*github.com/miekg/dns.Msg).Len" && cl.Call.Args[0] == msg
		}
		// facts of one branch edge
		type fact int
		const (
			none fact = iota
			upperFits
			measuredTooBig
			packFailed
			packOK
			measuredFits
		)
		edgeFact := func(g guard) fact {
			cm, ok := g.asCmp()
			if !ok {
				return none
			}
			if cm.Y != nil && (lenUpper(cm.Y) || packedLen(cm.Y) || packErr(cm.Y)) {
				cm = cmp{Op: flipOp(cm.Op), X: cm.Y, Y: cm.X}
			}
			switch {
			case packErr(cm.X) && isNilConst(cm.Y):
				if cm.Op == token.NEQ {
					return packFailed
				}
				if cm.Op == token.EQL {
					return packOK
				}
			case cm.Y == size && lenUpper(cm.X):
				if cm.Op == token.LEQ || cm.Op == token.LSS {
					return upperFits
				}
			case cm.Y == size && packedLen(cm.X):
				if cm.Op == token.LEQ || cm.Op == token.LSS {
					return measuredFits
				}
				if cm.Op == token.GTR {
					return measuredTooBig
				}
			}
			return none
		}
		// (1) a path to T with no discharging edge
		var offending *ssa.BasicBlock
		seen := map[*ssa.BasicBlock]bool{F.Blocks[0]: true}
		var walk func(b *ssa.BasicBlock) bool
		walk = func(b *ssa.BasicBlock) bool {
			if b == T.Block() {
				return true
			}
			iff, isIf := terminator(b).(*ssa.If)
			for i, s := range b.Succs {
				if isIf {
					switch edgeFact(guard{Cond: iff.Cond, Truth: i == 0, If: iff}) {
					case upperFits, measuredTooBig, packFailed:
						continue
					}
				}
				if !seen[s] {
					seen[s] = true
					if walk(s) {
						if offending == nil {
							offending = b
						}
						return true
					}
				}
			}
			return false
		}
		unmeasured := walk(F.Blocks[0])
		c.check(!unmeasured, "truncate-measured@"+funcName(F), instrPos(T),
			"records are dropped only after the upper bound said it might not fit and a real Pack said it does not",
			"Truncate("+exprStr(size)+") is reached without the packed size having been measured: dns.Msg.Len() is an upper bound only (escaped text counts up to four times), a reply that fits loses records and gets TC")
		if !helper[T] {
			continue
		}
		// (2) returns that avoid T need packOK and measuredFits on the way
		type st struct {
			b       *ssa.BasicBlock
			ok, fit bool
		}
		seen2 := map[st]bool{}
		var bad ssa.Instruction
		var walk2 func(s st)
		walk2 = func(s st) {
			if seen2[s] || bad != nil {
				return
			}
			seen2[s] = true
			for _, in := range s.b.Instrs {
				if in == ssa.Instruction(T) {
					return
				}
				if isReturn(in) && !(s.ok && s.fit) {
					bad = in
					return
				}
			}
			iff, isIf := terminator(s.b).(*ssa.If)
			for i, nb := range s.b.Succs {
				n := st{nb, s.ok, s.fit}
				if isIf {
					switch edgeFact(guard{Cond: iff.Cond, Truth: i == 0, If: iff}) {
					case packOK:
						n.ok = true
					case measuredFits:
						n.fit = true
					}
				}
				walk2(n)
			}
		}
		walk2(st{F.Blocks[0], false, false})
		good, why := bad == nil, ""
		if bad != nil {
			why = "the helper returns without Truncate although no Pack of the message was measured to fit " + exprStr(size) + ": replies exceed the size the client advertised"
		} else {
			// Compress must keep the value the measurement saw
			isT := func(x ssa.Instruction) bool { return x == ssa.Instruction(T) }
			eachInstr(F, func(in ssa.Instruction) {
				cl, ok := in.(*ssa.Call)
				if !ok || !isPackOfMsg(cl) {
					return
				}
				eachInstr(F, func(s ssa.Instruction) {
					sto, ok := s.(*ssa.Store)
					if !ok {
						return
					}
					if k, _ := fieldKey(sto.Addr); k != "github.com/miekg/dns.Msg.Compress" || fieldBase(sto.Addr) != msg {
						return
					}
					if _, r := reachAvoiding(cl, func(x ssa.Instruction) bool { return x == s }, isT); !r {
						return
					}
					if _, r := reachAvoiding(s, isReturn, isT); r {
						good, why = false, "Compress is changed between the measuring Pack and the return: what is sent is not what was measured"
					}
				})
			})
		}
		c.check(good, "skip-only-if-fits@"+funcName(F), instrPos(T), "Truncate is skipped only for a message that was packed and found to fit", why)
	}
	if len(sites) == 0 {
		c.anchorMissing("dns.Msg.Truncate call on the reply (Handle or its helper)")
	}
}

// checkNoDeadlineAfterRelease (round 12; C02-R14): in the reuse transport's reader, once the connection was made
// available to the next exchange (setIdle) or the reply was handed over, the reader sets no deadline on the connection
// before its next read: a late idle deadline overwrites the next query's reply deadline, the healthy connection is
// closed under a reply that would have arrived in time.
func checkNoDeadlineAfterRelease(c *Ctx) {
	rl := c.fn(relTransport, "reusableConn", "readLoop")
	if rl == nil {
		return
	}
	isDeadline := func(x ssa.Instruction) bool {
		ci, ok := x.(ssa.CallInstruction)
		if !ok || !ci.Common().IsInvoke() {
			return false
		}
		switch ci.Common().Method.Name() {
		case "SetReadDeadline", "SetDeadline":
			return true
		}
		return false
	}
	isRead := func(x ssa.Instruction) bool {
		ci, ok := x.(ssa.CallInstruction)
		if !ok {
			return false
		}
		if ci.Common().IsInvoke() {
			n := ci.Common().Method.Name()
			return n == "Read" || n == "ReadFrom"
		}
		n := callNameCommon(ci.Common())
		return strings.Contains(n, "dnsutils.Read") || n == "io.ReadFull"
	}
	n := 0
	eachInstrDeep(rl, func(g *ssa.Function, in ssa.Instruction) {
		if g != rl {
			return
		}
		release := false
		if ci, ok := in.(*ssa.Call); ok && strings.HasSuffix(callName(ci), ".setIdle") {
			release = true
		}
		if sel, ok := in.(*ssa.Select); ok {
			for _, st := range sel.States {
				if st.Dir == types.SendOnly {
					release = true
				}
			}
		}
		if _, ok := in.(*ssa.Send); ok {
			release = true
		}
		if !release {
			return
		}
		n++
		late, found := reachAvoiding(in, isDeadline, isRead)
		pos := instrPos(in)
		if found {
			pos = instrPos(late)
		}
		c.check(!found, "no-deadline-after-release@readLoop", pos, "after the connection is released / the reply handed over the reader sets no deadline before its next read",
			"the reader sets a read deadline after it made the connection available to the next exchange: that exchange's own reply deadline is overwritten by the idle deadline, a reply that arrives in time finds the connection closed")
	})
	if n == 0 {
		c.anchorMissing("setIdle / reply hand-over in reusableConn.readLoop")
	}
}

// Round 12, stream framing (C16-R2, C02-R8, C03, C17):
//   - no-upper-limit: inside the frame reader the decoded length is compared with nothing but the 12-byte minimum
//     (a cap below 65535 turns correct large replies into errors);
//   - frame-read-not-repeated-after-error@F: in the transports, from a frame read no path leads back to a frame read
//     of the same function without passing the edge "the read returned no error" (after a framing error the announced
//     body was not consumed: the stream position is unknown, the next "length" is read from the middle of a frame);
//   - frame-reader-arg-not-per-frame-wrapper@F: what a call site hands to the frame reader is not a buffering wrapper
//     made for that one frame (its read-ahead — the next pipelined frames — is thrown away with it).
func checkFrameDiscipline(c *Ctx) {
	p := c.P
	rd := c.fn(relDnsutils, "", "ReadRawMsgFromTCP")
	if rd == nil {
		return
	}
	// (1) no upper limit
	{
		var lenVals []ssa.Value
		eachInstr(rd, func(in ssa.Instruction) {
			if ci, ok := in.(*ssa.Call); ok && strings.HasSuffix(callName(ci), ".Uint16") {
				lenVals = append(lenVals, ci)
			}
		})
		isLen := func(v ssa.Value) bool {
			v = stripConv(v)
			for _, l := range lenVals {
				if v == l {
					return true
				}
			}
			return false
		}
		bad := ""
		var badPos = rd.Pos()
		eachInstr(rd, func(in ssa.Instruction) {
			bo, ok := in.(*ssa.BinOp)
			if !ok {
				return
			}
			switch bo.Op {
			case token.LSS, token.LEQ, token.GTR, token.GEQ, token.EQL, token.NEQ:
			default:
				return
			}
			x, y, op := bo.X, bo.Y, bo.Op
			if isLen(y) {
				x, y, op = y, x, flipOp(op)
			}
			if !isLen(x) {
				return
			}
			k, isC := constInt(y)
			if isC && op == token.LSS && k == 12 {
				return
			}
			if bad == "" {
				bad, badPos = exprStr(bo), instrPos(in)
			}
		})
		c.check(len(lenVals) > 0 && bad == "", "frame-reader:no-upper-limit", badPos, "the announced length is only tested against the 12-byte minimum",
			"the frame reader also tests the announced length with "+bad+": a correct frame of a size the length field can express (up to 65535) is refused — e.g. the TCP reply a truncated UDP reply was retried for")
	}
	// frame readers and their wrappers in the transports (a wrapper hands the reader's error back)
	type frd struct{ errIdx int }
	readers := map[*ssa.Function]frd{rd: {1}}
	if rmt := p.Func(relDnsutils, "", "ReadMsgFromTCP"); rmt != nil {
		readers[rmt] = frd{rmt.Signature.Results().Len() - 1}
	}
	errIdxOf := func(ci *ssa.Call) (int, bool) {
		sc := staticCallee(ci)
		if sc == nil {
			return 0, false
		}
		r, ok := readers[sc]
		return r.errIdx, ok
	}
	for changed, round := true, 0; changed && round < 3; round++ {
		changed = false
		for _, f := range p.funcsIn(relTransport, relServer) {
			if _, is := readers[f]; is || f.Signature.Results().Len() == 0 {
				continue
			}
			fn := f
			eachInstr(f, func(in ssa.Instruction) {
				ci, ok := in.(*ssa.Call)
				if !ok {
					return
				}
				ei, ok := errIdxOf(ci)
				if !ok {
					return
				}
				for _, ret := range returnsOf(fn) {
					rv := returnedValues(ret)
					for i, v := range rv {
						for _, r := range referrers(ci) {
							ex, ok := r.(*ssa.Extract)
							if !ok || ex.Index != ei {
								continue
							}
							for _, m := range withMergingPhis(ex) {
								if m == v {
									if _, is := readers[fn]; !is {
										readers[fn] = frd{i}
										changed = true
									}
								}
							}
						}
					}
				}
			})
		}
	}
	nSites := 0
	for _, f := range p.funcsIn(relTransport, relServer, relDnsutils) {
		fn := f
		eachInstr(f, func(in ssa.Instruction) {
			ci, ok := in.(*ssa.Call)
			if !ok {
				return
			}
			ei, ok := errIdxOf(ci)
			if !ok {
				return
			}
			nSites++
			// (2) no way back to a frame read of this function except over "err == nil"
			isFrameRead := func(x ssa.Instruction) bool {
				c2, ok := x.(*ssa.Call)
				if !ok {
					return false
				}
				_, is := errIdxOf(c2)
				return is
			}
			// the read's error result, or a phi that merges it with a sibling read's (`if tcp { r, err = readA() } else { … }`)
			errVals := map[ssa.Value]bool{}
			for _, r := range referrers(ci) {
				if ex, ok := r.(*ssa.Extract); ok && ex.Index == ei {
					for _, v := range withMergingPhis(ex) {
						errVals[v] = true
					}
				}
			}
			var again ssa.Instruction
			seen := map[*ssa.BasicBlock]bool{}
			var walk func(b *ssa.BasicBlock, from int) bool
			walk = func(b *ssa.BasicBlock, from int) bool {
				for i := from; i < len(b.Instrs); i++ {
					if isFrameRead(b.Instrs[i]) {
						again = b.Instrs[i]
						return true
					}
				}
				iff, isIf := terminator(b).(*ssa.If)
				for i, s := range b.Succs {
					if isIf {
						if cm, ok := (guard{Cond: iff.Cond, Truth: i == 0, If: iff}).asCmp(); ok {
							x, y := cm.X, cm.Y
							if isNilConst(x) {
								x, y = y, x
							}
							if errVals[x] && isNilConst(y) && cm.Op == token.EQL {
								continue // the read succeeded: the stream is at a frame boundary
							}
						}
					}
					if !seen[s] {
						seen[s] = true
						if walk(s, 0) {
							return true
						}
					}
				}
				return false
			}
			repeated := walk(ci.Block(), idxInBlock(ci)+1)
			pos := instrPos(in)
			if repeated {
				pos = instrPos(again)
			}
			c.check(!repeated, "frame-read-not-repeated-after-error@"+funcName(fn), pos, "after a failed frame read the stream is not read again",
				"after a frame read that returned an error (e.g. a length below 12, whose announced body was not consumed) the same stream is read again: the next length field is taken from the middle of a frame, arbitrary bytes are handed out as replies")
			// (3) the reader handed in
			sc := staticCallee(ci)
			if _, base := map[*ssa.Function]bool{rd: true}[sc]; base || sc.Pkg.Pkg.Path() == modPath+"/"+relDnsutils {
				arg := ci.Call.Args[0]
				for {
					if mi, ok := arg.(*ssa.MakeInterface); ok {
						arg = mi.X
						continue
					}
					if chi, ok := arg.(*ssa.ChangeInterface); ok {
						arg = chi.X
						continue
					}
					break
				}
				perFrame := ""
				if w, ok := arg.(*ssa.Call); ok {
					wn := callName(w)
					if strings.HasPrefix(wn, "bufio.") || strings.HasPrefix(wn, "io.") {
						_, wInLoop := reachAvoiding(w, func(x ssa.Instruction) bool { return x == ssa.Instruction(w) }, nil)
						_, rInLoop := reachAvoiding(ci, func(x ssa.Instruction) bool { return x == ssa.Instruction(ci) }, nil)
						if wInLoop || !rInLoop {
							perFrame = wn
						}
					}
				}
				c.check(perFrame == "", "frame-reader-arg-not-per-frame-wrapper@"+funcName(fn), instrPos(in), "the frame reader reads from the connection (or a wrapper that lives as long as it)",
					"the frame reader is given a "+perFrame+" wrapper made for this one frame: what the wrapper read ahead (the following pipelined queries / replies) is thrown away with it, those messages are never answered")
			}
		})
	}
	if nSites == 0 {
		c.anchorMissing("call sites of the frame reader")
	}
}

// checkNoReleaseAfterHandover (round 12; C01-R7): a pooled buffer that was sent on a channel (bare, or as a field of the
// struct that is sent) belongs to the receiver: the sender does not release it afterwards. (The reverse order, use or
// send after release, is the typestate rule's.) The DoQ stream reader released the reply "when the caller is gone" after
// it had put it into the buffered result channel — the caller's ctx-case poll could still take it.
func checkNoReleaseAfterHandover(c *Ctx, funcs []*ssa.Function) {
	n := 0
	for _, f := range funcs {
		fn := f
		var sends []ssa.Instruction
		sentVals := map[ssa.Instruction][]ssa.Value{}
		eachInstr(f, func(in ssa.Instruction) {
			switch x := in.(type) {
			case *ssa.Send:
				sends = append(sends, in)
				sentVals[in] = []ssa.Value{x.X}
			case *ssa.Select:
				for _, st := range x.States {
					if st.Dir == types.SendOnly {
						sentVals[in] = append(sentVals[in], st.Send)
					}
				}
				if len(sentVals[in]) > 0 {
					sends = append(sends, in)
				}
			}
		})
		if len(sends) == 0 {
			continue
		}
		mentions := func(v, x ssa.Value) bool {
			if v == x {
				return true
			}
			if ld, ok := v.(*ssa.UnOp); ok && ld.Op == token.MUL {
				if al, ok := ld.X.(*ssa.Alloc); ok {
					for _, r := range referrers(al) {
						fa, ok := r.(*ssa.FieldAddr)
						if !ok {
							continue
						}
						for _, r2 := range referrers(fa) {
							if st, ok := r2.(*ssa.Store); ok && st.Val == x {
								return true
							}
						}
					}
				}
			}
			return false
		}
		eachInstr(f, func(in ssa.Instruction) {
			ci, ok := in.(*ssa.Call)
			if !ok || callName(ci) != poolRel || len(ci.Call.Args) != 1 {
				return
			}
			x := ci.Call.Args[0]
			for _, s := range sends {
				ment := false
				for _, v := range sentVals[s] {
					ment = ment || mentions(v, x)
				}
				if !ment {
					continue
				}
				n++
				// the same SSA value in a later loop iteration is another buffer: paths that pass x's definition again do not count
				redef := func(y ssa.Instruction) bool {
					xi, ok := x.(ssa.Instruction)
					return ok && y == xi
				}
				_, after := reachAvoiding(s, func(y ssa.Instruction) bool { return y == in }, redef)
				// a select whose send case was not the one taken may release: only the path through the send's own case counts
				if sel, isSel := s.(*ssa.Select); isSel && after {
					after = false
					if cases, _, okD := decodeSelect(sel); okD {
						for _, cs := range cases {
							if cs.State.Dir == types.SendOnly && cs.Body != nil {
								if _, r := reachFromBlock(cs.Body, func(y ssa.Instruction) bool { return y == in }, redef); r {
									after = true
								}
							}
						}
					} else {
						after = true
					}
				}
				c.check(!after, "no-release-after-handover@"+funcName(fn), instrPos(in), "a buffer that was sent is not released by the sender",
					"the buffer "+exprStr(x)+" is released after it was sent on a channel: the receiver (e.g. the caller's ctx-case poll) can still take it — it then holds a buffer that the pool hands to another query")
			}
		})
	}
	if n == 0 {
		c.ok("no-release-after-handover", token.NoPos, "no function releases a buffer that it also sends")
	}
}

// checkAttemptDeadlineFresh (round 12; C08-R8): the I/O deadline of an attempt on a reused connection is computed by
// that attempt (time.Now() + a constant, in the connection's exchange): a deadline computed once for the whole call is
// already over when the retry that follows a silently dead connection starts, the fresh connection's write fails at
// once and the failure is reported although the retry could have succeeded.
func checkAttemptDeadlineFresh(c *Ctx) {
	ex := c.fn(relTransport, "reusableConn", "exchange")
	if ex == nil {
		return
	}
	n := 0
	eachInstr(ex, func(in ssa.Instruction) {
		ci, ok := in.(*ssa.Call)
		if !ok || !ci.Call.IsInvoke() {
			return
		}
		switch ci.Call.Method.Name() {
		case "SetDeadline", "SetReadDeadline", "SetWriteDeadline":
		default:
			return
		}
		n++
		d, okD := deadlineConst(ci.Call.Args[0])
		c.check(okD, "attempt-deadline-fresh@reusableConn.exchange", instrPos(in), "the attempt's deadline is time.Now() + "+d+", computed by the attempt",
			"the deadline armed for an attempt ("+exprStr(ci.Call.Args[0])+") is not computed by the attempt itself: a retry on a fresh connection inherits a deadline that is already over and fails at once")
	})
	if n == 0 {
		c.anchorMissing("deadline call in reusableConn.exchange")
	}
}

// hstore: a store into a field of a message that happens in a NEW helper of the handler: the helper is called from h
// with the message as an argument and stores into a field of the corresponding parameter (`finishReply(resp, opt)`:
// RA and the OPT append for both pack sites). call is the call in h, st the store in the helper.
type hstore struct {
	call *ssa.Call
	g    *ssa.Function
	st   *ssa.Store
	key  string
	idx  int // parameter / argument index of the message
}

func helperFieldStores(h *ssa.Function, msg ssa.Value) []hstore {
	var out []hstore
	eachInstr(h, func(in ssa.Instruction) {
		ci, ok := in.(*ssa.Call)
		if !ok {
			return
		}
		g := staticCallee(ci)
		if g == nil || !isNewHelper(g) {
			return
		}
		if _, asValue := callSitesOf(g); asValue {
			return
		}
		for j, a := range ci.Call.Args {
			if a != msg || j >= len(g.Params) {
				continue
			}
			eachInstr(g, func(x ssa.Instruction) {
				st, ok := x.(*ssa.Store)
				if !ok || fieldBase(st.Addr) != ssa.Value(g.Params[j]) {
					return
				}
				if k, okk := fieldKey(st.Addr); okk {
					out = append(out, hstore{ci, g, st, k, j})
				}
			})
		}
	})
	return out
}

// unconditional: the store runs on every path through its function (its block dominates every return).
func (s hstore) unconditional() bool {
	for _, r := range returnsOf(s.g) {
		if !s.st.Block().Dominates(r.Block()) {
			return false
		}
	}
	return true
}

// actual maps a value of the helper to the caller's: a parameter becomes the argument, constants stay.
func (s hstore) actual(v ssa.Value) ssa.Value {
	for i, prm := range s.g.Params {
		if v == ssa.Value(prm) && i < len(s.call.Call.Args) {
			return s.call.Call.Args[i]
		}
	}
	return v
}

// Round 13.

// checkDohBodyReadWhole (C01-R11): the DoH exchange takes the reply from the response body only with calls that read it
// whole (ReadFrom / io.ReadAll / io.ReadFull / io.Copy): a partial read (io.ReadAtLeast, a bare Read) into a pooled
// buffer of the announced size leaves the tail of the buffer as the pool handed it out — another query's reply.
func checkDohBodyReadWhole(c *Ctx) {
	n := 0
	for _, f := range c.P.funcsIn(relDoh) {
		fn := f
		eachInstr(f, func(in ssa.Instruction) {
			ci, ok := in.(*ssa.Call)
			if !ok {
				return
			}
			// does the call get the response body?
			body := false
			for _, a := range ci.Call.Args {
				v := a
				for {
					if mi, ok := v.(*ssa.MakeInterface); ok {
						v = mi.X
						continue
					}
					if chg, ok := v.(*ssa.ChangeInterface); ok {
						v = chg.X
						continue
					}
					break
				}
				if k, ok := loadedField(v); ok && k == "net/http.Response.Body" {
					body = true
				}
			}
			if ci.Call.IsInvoke() {
				if k, ok := loadedField(ci.Call.Value); ok && k == "net/http.Response.Body" && ci.Call.Method.Name() == "Read" {
					n++
					c.fail("doh-body-read-whole@"+funcName(fn), instrPos(in), "the response body is read with a bare Read: a short read returns a partial reply")
				}
				return
			}
			if !body {
				return
			}
			cn := callName(ci)
			switch cn {
			case "(*bytes.Buffer).ReadFrom", "io.ReadAll", "io.ReadFull", "io.Copy", "io.CopyN", "io.LimitReader":
				n++
				c.ok("doh-body-read-whole@"+funcName(fn), instrPos(in), "the body is read with %s", cn)
			case "io.ReadAtLeast":
				n++
				c.fail("doh-body-read-whole@"+funcName(fn), instrPos(in), "the response body is read with io.ReadAtLeast: the call returns once the minimum is in, the rest of the buffer it was given keeps what the pool handed out (an earlier reply), the caller gets its own header with another query's answer")
			}
		})
	}
	if n == 0 {
		c.anchorMissing("read of the DoH response body")
	}
}

// checkDohNoHTTPClient (C18-R7): the DoH upstream sends its request with the RoundTripper it was given; an http.Client
// on top of it follows redirects — to a host name (SNI, Host header) the server chose, over the configured dial address.
func checkDohNoHTTPClient(c *Ctx) {
	rt := 0
	bad := ""
	var badPos = token.NoPos
	for _, f := range c.P.funcsIn(relDoh) {
		eachInstr(f, func(in ssa.Instruction) {
			ci, ok := in.(ssa.CallInstruction)
			if !ok {
				return
			}
			cm := ci.Common()
			if cm.IsInvoke() && cm.Method.Name() == "RoundTrip" {
				rt++
			}
			if n := callNameCommon(cm); strings.HasPrefix(n, "(*net/http.Client).") || n == "net/http.Get" || n == "net/http.Post" {
				bad, badPos = n, instrPos(in)
			}
		})
	}
	c.check(bad == "" && rt > 0, "doh-sends-with-roundtripper", badPos, "requests go out through RoundTrip of the given transport only",
		"the DoH upstream sends with "+bad+": net/http's client follows redirects, the next connection carries the server name and Host of the redirect target instead of the configured URL host")
}

// checkNoTypedNilExchanger (C09-R6): a function that returns the ReservedExchanger interface never wraps a pointer
// that can be nil: `var e *T; if room { e = … }; return e` yields a non-nil interface around a nil pointer, the
// callers' `== nil` tests ("this connection is full, try the next / dial") never see the refusal.
func checkNoTypedNilExchanger(c *Ctx) {
	n := 0
	for _, f := range c.P.funcsIn(relTransport) {
		res := f.Signature.Results()
		if res.Len() == 0 {
			continue
		}
		fn := f
		for _, ret := range returnsOf(f) {
			rv := returnedValues(ret)
			for i, v := range rv {
				if i >= res.Len() || !strings.HasSuffix(res.At(i).Type().String(), "transport.ReservedExchanger") {
					continue
				}
				mi, ok := v.(*ssa.MakeInterface)
				if !ok {
					continue
				}
				n++
				canBeNil := false
				var walk func(x ssa.Value, d int)
				walk = func(x ssa.Value, d int) {
					if d > 6 {
						return
					}
					switch y := x.(type) {
					case *ssa.Phi:
						for _, e := range y.Edges {
							walk(e, d+1)
						}
					case *ssa.Const:
						if y.IsNil() {
							canBeNil = true
						}
					case *ssa.ChangeType:
						walk(y.X, d+1)
					}
				}
				walk(mi.X, 0)
				c.check(!canBeNil, "no-typed-nil-exchanger@"+funcName(fn), instrPos(ret), "the exchanger wrapped into the interface is never a nil pointer",
					"a nil "+shortName(mi.X.Type().String())+" can be returned inside a non-nil ReservedExchanger: the callers' nil tests do not see the refusal, a full connection is used instead of dialling another one")
			}
		}
	}
	if n == 0 {
		c.anchorMissing("functions returning a ReservedExchanger built from a pointer")
	}
}

// ctxResultSelects: every blocking select of the module that has a case on a context's Done channel and a receive from
// a channel that carries a value (element type other than struct{}): the population of the D22 family.
type ctxResultSelect struct {
	fn    *ssa.Function
	sel   *ssa.Select
	polls bool   // the ctx case looks into the result channel before every exit
	elem  string // element type of the result channel
}

func ctxResultSelects(p *Prog) []ctxResultSelect {
	var out []ctxResultSelect
	for _, f := range p.Funcs {
		if !inMosdns(f) {
			continue
		}
		fn := f
		eachInstr(f, func(in ssa.Instruction) {
			sel, ok := in.(*ssa.Select)
			if !ok || !sel.Blocking {
				return
			}
			var resultChans []ssa.Value
			hasDone := false
			elem := ""
			for _, st := range sel.States {
				if st.Dir != types.RecvOnly {
					continue
				}
				if cl, ok := st.Chan.(*ssa.Call); ok && cl.Call.IsInvoke() && cl.Call.Method.Name() == "Done" {
					hasDone = true
					continue
				}
				ch, ok := st.Chan.Type().Underlying().(*types.Chan)
				if !ok {
					continue
				}
				if stt, isS := ch.Elem().Underlying().(*types.Struct); isS && stt.NumFields() == 0 {
					continue // a pure signal
				}
				if n, isN := ch.Elem().(*types.Named); isN && n.Obj().Pkg() != nil && n.Obj().Pkg().Path() == "time" && n.Obj().Name() == "Time" {
					continue // timer / ticker channel
				}
				resultChans = append(resultChans, st.Chan)
				elem = ch.Elem().String()
			}
			if !hasDone || len(resultChans) == 0 {
				return
			}
			cases, _, okD := decodeSelect(sel)
			polls := okD
			if okD {
				isPoll := func(x ssa.Instruction) bool {
					// the poll as a NEW helper of its own (`pollResp(respChan, id)`: one non-blocking receive)
					if cl, ok := x.(*ssa.Call); ok {
						if hc, sum := pollHelperCall(cl); hc != nil && sum.chanIdx >= 0 && sum.chanIdx < len(hc.Call.Args) {
							a := stripChanConv(hc.Call.Args[sum.chanIdx])
							for _, rc := range resultChans {
								if a == rc || sameLoadedPlace(a, rc) {
									return true
								}
							}
						}
					}
					s2, ok := x.(*ssa.Select)
					if !ok || s2.Blocking {
						return false
					}
					for _, st := range s2.States {
						if st.Dir != types.RecvOnly {
							continue
						}
						for _, rc := range resultChans {
							if st.Chan == rc || sameLoadedPlace(st.Chan, rc) {
								return true
							}
						}
					}
					return false
				}
				for _, cs := range cases {
					cl, ok := cs.State.Chan.(*ssa.Call)
					if !ok || !cl.Call.IsInvoke() || cl.Call.Method.Name() != "Done" || cs.Body == nil {
						continue
					}
					if _, leak := reachFromBlock(cs.Body, isExit, isPoll); leak {
						polls = false
					}
				}
			}
			out = append(out, ctxResultSelect{fn, sel, polls, elem})
		})
	}
	return out
}

// checkCtxResultSelectsPoll (C02-R14): the D22 family as a rule over the whole module instead of a list of functions.
// Five siblings (D22, D46, D47, D49, D52) were found one audit at a time, each in a function the rule of the day did not
// name. Every blocking select that waits for a context and for a value-carrying channel polls that channel in its
// ctx.Done() case — or is listed here with the reason why a value lost to the coin toss is not a lost reply.
var ctxResultSelectExempt = map[string]string{
	"(*pkg/upstream/transport.ReuseConnTransport).getNewConn": "the value is a dialled connection, not a reply: the dial goroutine keeps a connection nobody took (it pools or closes it, C07-R11 / C09-R9)",
	"(*pkg/upstream/bootstrap.Bootstrap).resolve":             "the value is the bootstrap lookup's address: losing it fails one dial, which the transports report or retry (no property is anchored in the bootstrap resolver's wait)",
	"(*plugin/executable/dual_selector.Selector).Exec":        "the value is the sub-query's error status, the reply itself is taken from the sub-query's context afterwards; the selector is outside the anchors of C02 / C14 / C20",
}

func checkCtxResultSelectsPoll(c *Ctx) {
	n := 0
	for _, s := range ctxResultSelects(c.P) {
		n++
		name := funcName(s.fn)
		key := "ctx-result-select-polls@" + name
		if why, ok := ctxResultSelectExempt[name]; ok {
			c.ok(key, instrPos(s.sel), "exempt: %s", why)
			continue
		}
		c.check(s.polls, key, instrPos(s.sel), "the ctx.Done() case looks into the "+shortName(s.elem)+" channel before it gives up",
			"a wait for {ctx.Done(), a "+shortName(s.elem)+" result} whose ctx case does not poll the result: when both are ready the result that arrived in time is dropped in about half of the calls (the D22 / D46 / D47 / D49 / D52 family; list the function in ctxResultSelectExempt only with a reason why the value is not a reply)")
	}
	if n == 0 {
		c.anchorMissing("selects on a context and a result channel")
	}
}

// checkHeaderWritersCovered (C01-R4): the rules about the wire id (rewrite at the framing's id offset, restore on every
// returning path) are written against a list of functions. This obligation closes the list: every call of
// binary.BigEndian.PutUint16 in the upstream packages lies in one of those functions (or their closures), in a framing
// constructor, or in a NEW helper reached only from them — a new place that writes a 16-bit header field into a query
// or reply is reported instead of silently escaping the id rules.
var headerWriterFuncs = map[string]string{
	"(*pkg/upstream/transport.TraditionalDnsConn).exchange":         "restores the caller's id (C01-R5/R8)",
	"(*pkg/upstream/transport.TraditionalDnsConn).writeQuery":       "writes the registered wire id at the framing's offset (C01-R4)",
	"(*pkg/upstream/transport.reusableConn).exchange":               "wire id per connection and restore (C01-R12)",
	"(*pkg/upstream/transport.quicReservedExchanger).ExchangeReserved": "id 0 on the wire and restore (C01-R5)",
	"(*pkg/upstream/doh.Upstream).ExchangeContext":                  "restore (C01-R5)",
	"pkg/upstream/transport.copyMsgWithLenHdr":                      "framing constructor: the length header (C16-W2)",
}

func checkHeaderWritersCovered(c *Ctx) {
	n := 0
	for _, f := range c.P.funcsIn(relTransport, relDoh, relUpstream, relBootstrap()) {
		fn := f
		eachInstr(f, func(in ssa.Instruction) {
			pc, ok := in.(*ssa.Call)
			if !ok || callName(pc) != binPut16 {
				return
			}
			n++
			top := fn
			for top.Parent() != nil {
				top = top.Parent()
			}
			name := funcName(top)
			_, covered := headerWriterFuncs[name]
			if !covered && isNewHelper(top) {
				// a NEW helper all of whose call sites lie in covered functions (e.g. the poll-and-restore helper)
				sites, asValue := callSitesOf(top)
				covered = !asValue && len(sites) > 0
				for _, st := range sites {
					r := st.Parent()
					for r.Parent() != nil {
						r = r.Parent()
					}
					if _, ok := headerWriterFuncs[funcName(r)]; !ok {
						covered = false
					}
				}
			}
			c.check(covered, "header-writer-covered@"+name, instrPos(in), "the 16-bit header write lies in a function the id / framing rules are written against",
				"a 16-bit header field is written in "+name+", which none of the wire-id rules (C01-R4/R5/R8/R12) or framing rules covers: an id rewrite or restore outside the checked functions escapes them (add the function to headerWriterFuncs together with the rule that covers it)")
		})
	}
	if n == 0 {
		c.anchorMissing("PutUint16 calls in the upstream packages")
	}
}

func relBootstrap() string { return "pkg/upstream/bootstrap" }

// checkWaitingFlagWriters (round 14; C02-R14): the "a query waits for its reply" flag of TraditionalDnsConn is written
// by the reader when it claims a reply (takeQueueC: Store under the table lock) and by the exchange that arms the
// waiting-reply deadline (armWaitingResp: CompareAndSwap false -> true), and by nobody else. A third writer — e.g.
// deleteQueueC "keeping the flag in line with the queue" from the deferred removal of an already answered query —
// can set the flag behind the back of a query that is queued but has not armed yet: its CompareAndSwap then fails, the
// waiting-reply deadline is never installed, the reader keeps the idle deadline and closes the healthy connection under
// a reply that would have arrived in time.
func checkWaitingFlagWriters(c *Ctx) {
	T := relTransport + "."
	allowed := map[string]string{"takeQueueC": "(*sync/atomic.Bool).Store", "armWaitingResp": "(*sync/atomic.Bool).CompareAndSwap"}
	n := 0
	for _, f := range c.P.funcsIn(relTransport) {
		fn := f
		eachInstr(f, func(in ssa.Instruction) {
			ci, ok := in.(ssa.CallInstruction)
			if !ok || len(ci.Common().Args) == 0 {
				return
			}
			cn := callNameCommon(ci.Common())
			switch cn {
			case "(*sync/atomic.Bool).Store", "(*sync/atomic.Bool).CompareAndSwap", "(*sync/atomic.Bool).Swap":
			default:
				return
			}
			if k, _ := fieldKey(ci.Common().Args[0]); k != T+"TraditionalDnsConn.waitingResp" {
				return
			}
			n++
			top := fn
			for top.Parent() != nil {
				top = top.Parent()
			}
			c.check(allowed[top.Name()] == cn, "waiting-flag-writer@"+funcName(top), instrPos(in), "the waiting flag is written by the reader's claim and by the arming exchange only",
				"the waiting-reply flag is also written in "+funcName(top)+" ("+shortName(cn)+"): a query that is queued but has not armed yet finds the flag already set, its CompareAndSwap fails and the waiting-reply deadline is never installed — the idle deadline closes the connection under its reply")
		})
	}
	if n == 0 {
		c.anchorMissing("writes of TraditionalDnsConn.waitingResp")
	}
}

// checkExchangeFunctionsCovered (C01-R8): the rules about which reply an exchange returns are written against named
// functions (the four that take a reply off a channel or a body, and the wrappers that pass an inner exchange's result
// on). This obligation closes the list: every function of the upstream packages and the forward plugin that has the
// shape of an exchange — takes a context, returns (*[]byte, error) — is in the table below with the rule that covers
// it; a new exchange-shaped function is reported until someone decides which rule covers it.
var exchangeFuncs = map[string]string{
	"(*pkg/upstream/transport.TraditionalDnsConn).exchange":                          "C01-R5/R8, C02-R14: reply from its own channel, id restored",
	"(*pkg/upstream/transport.reusableConn).exchange":                                "C01-R8/R12, C02-R14",
	"(*pkg/upstream/transport.quicReservedExchanger).ExchangeReserved":               "C01-R5/R8, C02-R14",
	"(*pkg/upstream/doh.Upstream).ExchangeContext":                                   "C01-R5/R8, C02-R14",
	"(*pkg/upstream/doh.Upstream).exchange":                                          "C01-R11: body read whole, fresh URL",
	"(*pkg/upstream/transport.PipelineTransport).ExchangeContext":                    "C08-R1..R3: returns the attempt's reply",
	"(*pkg/upstream/transport.ReuseConnTransport).ExchangeContext":                   "C08-R1..R3: returns the attempt's reply",
	"(*pkg/upstream/transport.tdcOneTimeExchanger).ExchangeReserved":                 "C09-R3: pass-through to TraditionalDnsConn.exchange",
	"(*pkg/upstream/transport.lazyDnsConnEarlyReservedExchanger).ExchangeReserved":   "C09-R3: pass-through to the dialled connection's exchanger",
	"(*pkg/upstream.udpWithFallback).ExchangeContext":                                "C17-R1: the UDP reply or the TCP exchange's results",
	"(*pkg/upstream.dohWithClose).ExchangeContext":                                   "pass-through (embedding wrapper)",
	"(*plugin/executable/forward.upstreamWrapper).ExchangeContext":                   "C14-R10: returns the upstream's results unchanged",
}

func checkExchangeFunctionsCovered(c *Ctx) {
	n := 0
	for _, f := range c.P.funcsIn(relTransport, relDoh, relUpstream, relForward) {
		if f.Parent() != nil || f.Synthetic != "" {
			continue
		}
		sig := f.Signature
		res := sig.Results()
		if res.Len() != 2 || res.At(0).Type().String() != "*[]byte" || res.At(1).Type().String() != "error" {
			continue
		}
		hasCtx := false
		for i := 0; i < sig.Params().Len(); i++ {
			if sig.Params().At(i).Type().String() == "context.Context" {
				hasCtx = true
			}
		}
		if !hasCtx {
			continue
		}
		n++
		name := funcName(f)
		why, ok := exchangeFuncs[name]
		if !ok && isNewHelper(f) {
			// a NEW helper called only from covered functions is part of them (the write-error tail of exchange, one
			// attempt of the retry loop)
			sites, asValue := callSitesOf(f)
			all := !asValue && len(sites) > 0
			for _, st := range sites {
				r := st.Parent()
				for r.Parent() != nil {
					r = r.Parent()
				}
				if _, cov := exchangeFuncs[funcName(r)]; !cov {
					all = false
				}
			}
			if all {
				ok, why = true, "a new helper of covered functions only"
			}
		}
		if ok {
			c.ok("exchange-function-covered@"+name, f.Pos(), "covered by %s", why)
		} else {
			c.fail("exchange-function-covered@"+name, f.Pos(), "%s has the shape of an exchange (context in, (*[]byte, error) out) but none of the reply rules names it: a new path that hands a reply to a caller escapes them (add it to exchangeFuncs with the rule that covers it)", name)
		}
	}
	if n == 0 {
		c.anchorMissing("exchange-shaped functions")
	}
}
