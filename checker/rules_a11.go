package main

import (
	"go/token"
	"strings"

	"golang.org/x/tools/go/ssa"
)

// Audit round A11.

const msgTruncateName = "(*github.com/miekg/dns.Msg).Truncate"

// truncHelper: a function of this module that hands two of its parameters on, as (message, size), to its only
// dns.Msg.Truncate call.
type truncHelper struct {
	fn              *ssa.Function
	msgIdx, sizeIdx int
	inner           *ssa.Call
}

func truncHelperOf(ci *ssa.Call) *truncHelper {
	callee := staticCallee(ci)
	if callee == nil || callee.Pkg == nil || len(callee.Blocks) == 0 || !strings.HasPrefix(callee.Pkg.Pkg.Path(), modPath) {
		return nil
	}
	var inner []*ssa.Call
	eachInstr(callee, func(in ssa.Instruction) {
		if cl, ok := in.(*ssa.Call); ok && callName(cl) == msgTruncateName {
			inner = append(inner, cl)
		}
	})
	if len(inner) != 1 {
		return nil
	}
	th := &truncHelper{fn: callee, msgIdx: -1, sizeIdx: -1, inner: inner[0]}
	for i, p := range callee.Params {
		if inner[0].Call.Args[0] == ssa.Value(p) {
			th.msgIdx = i
		}
		if inner[0].Call.Args[1] == ssa.Value(p) {
			th.sizeIdx = i
		}
	}
	if th.msgIdx < 0 || th.sizeIdx < 0 {
		return nil
	}
	return th
}

// checkTruncateMeasured (D51). dns.Msg.Truncate decides with dns.Msg.Len(), which is an upper bound only (text that
// needs escaping is counted in presentation form, up to four bytes for one on the wire): a reply that fits loses
// records and gets TC, over stream transports too. Obligations, for the function F holding the Truncate call T(msg, size):
//   - truncate-measured: every path from F's entry to T passes an edge on which Len(msg) <= size is known (T drops
//     nothing then), or an edge on which a real Pack of msg failed or gave more than size bytes;
//   - skip-only-if-fits (F is a helper): every path from F's entry to a return that avoids T passes the edges
//     "Pack(msg) gave no error" and "len(packed) <= size", and Compress is not stored to between that Pack and the return
//     (the size that was measured is the size that is sent).
func checkTruncateMeasured(c *Ctx, h *ssa.Function) {
	var sites []*ssa.Call // Truncate calls, in Handle or in a helper
	helper := map[*ssa.Call]bool{}
	eachInstr(h, func(in ssa.Instruction) {
		ci, ok := in.(*ssa.Call)
		if !ok {
			return
		}
		if callName(ci) == msgTruncateName {
			sites = append(sites, ci)
		} else if th := truncHelperOf(ci); th != nil {
			dup := false
			for _, s := range sites {
				dup = dup || s == th.inner
			}
			if !dup {
				sites = append(sites, th.inner)
				helper[th.inner] = true
			}
		}
	})
	for _, T := range sites {
		F := T.Parent()
		msg, size := T.Call.Args[0], T.Call.Args[1]
		isPackOfMsg := func(v ssa.Value) bool {
			cl, ok := v.(*ssa.Call)
			if !ok {
				return false
			}
			n := callName(cl)
			return (n == "(*github.com/miekg/dns.Msg).Pack" || n == "(*github.com/miekg/dns.Msg).PackBuffer") && cl.Call.Args[0] == msg
		}
		packedLen := func(v ssa.Value) bool {
			cl, ok := v.(*ssa.Call)
			if !ok || callName(cl) != "builtin:len" {
				return false
			}
			ex, ok := cl.Call.Args[0].(*ssa.Extract)
			return ok && ex.Index == 0 && isPackOfMsg(ex.Tuple)
		}
		packErr := func(v ssa.Value) bool {
			ex, ok := v.(*ssa.Extract)
			return ok && ex.Index == 1 && isPackOfMsg(ex.Tuple)
		}
		lenUpper := func(v ssa.Value) bool {
			cl, ok := v.(*ssa.Call)
			return ok && callName(cl) == "(*github.com/miekg/dns.Msg).Len" && cl.Call.Args[0] == msg
		}
		// facts of one branch edge
		type fact int
		const (
			none fact = iota
			upperFits
			measuredTooBig
			packFailed
			packOK
			measuredFits
		)
		edgeFact := func(g guard) fact {
			cm, ok := g.asCmp()
			if !ok {
				return none
			}
			if cm.Y != nil && (lenUpper(cm.Y) || packedLen(cm.Y) || packErr(cm.Y)) {
				cm = cmp{Op: flipOp(cm.Op), X: cm.Y, Y: cm.X}
			}
			switch {
			case packErr(cm.X) && isNilConst(cm.Y):
				if cm.Op == token.NEQ {
					return packFailed
				}
				if cm.Op == token.EQL {
					return packOK
				}
			case cm.Y == size && lenUpper(cm.X):
				if cm.Op == token.LEQ || cm.Op == token.LSS {
					return upperFits
				}
			case cm.Y == size && packedLen(cm.X):
				if cm.Op == token.LEQ || cm.Op == token.LSS {
					return measuredFits
				}
				if cm.Op == token.GTR {
					return measuredTooBig
				}
			}
			return none
		}
		// (1) a path to T with no discharging edge
		var offending *ssa.BasicBlock
		seen := map[*ssa.BasicBlock]bool{F.Blocks[0]: true}
		var walk func(b *ssa.BasicBlock) bool
		walk = func(b *ssa.BasicBlock) bool {
			if b == T.Block() {
				return true
			}
			iff, isIf := terminator(b).(*ssa.If)
			for i, s := range b.Succs {
				if isIf {
					switch edgeFact(guard{Cond: iff.Cond, Truth: i == 0, If: iff}) {
					case upperFits, measuredTooBig, packFailed:
						continue
					}
				}
				if !seen[s] {
					seen[s] = true
					if walk(s) {
						if offending == nil {
							offending = b
						}
						return true
					}
				}
			}
			return false
		}
		unmeasured := walk(F.Blocks[0])
		c.check(!unmeasured, "truncate-measured@"+funcName(F), instrPos(T),
			"records are dropped only after the upper bound said it might not fit and a real Pack said it does not",
			"Truncate("+exprStr(size)+") is reached without the packed size having been measured: dns.Msg.Len() is an upper bound only (escaped text counts up to four times), a reply that fits loses records and gets TC")
		if !helper[T] {
			continue
		}
		// (2) returns that avoid T need packOK and measuredFits on the way
		type st struct {
			b       *ssa.BasicBlock
			ok, fit bool
		}
		seen2 := map[st]bool{}
		var bad ssa.Instruction
		var walk2 func(s st)
		walk2 = func(s st) {
			if seen2[s] || bad != nil {
				return
			}
			seen2[s] = true
			for _, in := range s.b.Instrs {
				if in == ssa.Instruction(T) {
					return
				}
				if isReturn(in) && !(s.ok && s.fit) {
					bad = in
					return
				}
			}
			iff, isIf := terminator(s.b).(*ssa.If)
			for i, nb := range s.b.Succs {
				n := st{nb, s.ok, s.fit}
				if isIf {
					switch edgeFact(guard{Cond: iff.Cond, Truth: i == 0, If: iff}) {
					case packOK:
						n.ok = true
					case measuredFits:
						n.fit = true
					}
				}
				walk2(n)
			}
		}
		walk2(st{F.Blocks[0], false, false})
		good, why := bad == nil, ""
		if bad != nil {
			why = "the helper returns without Truncate although no Pack of the message was measured to fit " + exprStr(size) + ": replies exceed the size the client advertised"
		} else {
			// Compress must keep the value the measurement saw
			isT := func(x ssa.Instruction) bool { return x == ssa.Instruction(T) }
			eachInstr(F, func(in ssa.Instruction) {
				cl, ok := in.(*ssa.Call)
				if !ok || !isPackOfMsg(cl) {
					return
				}
				eachInstr(F, func(s ssa.Instruction) {
					sto, ok := s.(*ssa.Store)
					if !ok {
						return
					}
					if k, _ := fieldKey(sto.Addr); k != "github.com/miekg/dns.Msg.Compress" || fieldBase(sto.Addr) != msg {
						return
					}
					if _, r := reachAvoiding(cl, func(x ssa.Instruction) bool { return x == s }, isT); !r {
						return
					}
					if _, r := reachAvoiding(s, isReturn, isT); r {
						good, why = false, "Compress is changed between the measuring Pack and the return: what is sent is not what was measured"
					}
				})
			})
		}
		c.check(good, "skip-only-if-fits@"+funcName(F), instrPos(T), "Truncate is skipped only for a message that was packed and found to fit", why)
	}
	if len(sites) == 0 {
		c.anchorMissing("dns.Msg.Truncate call on the reply (Handle or its helper)")
	}
}
