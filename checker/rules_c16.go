package main

import (
	"fmt"
	"go/token"
	"go/types"
	"strings"

	"golang.org/x/tools/go/ssa"
)

const relServer = "pkg/server"
const relPool = "pkg/pool"
const relHandler = "pkg/server_handler"

func init() {
	register(&propDef{
		ID: "C16",
		Explanation: "Decides the structural conditions of exact stream framing: (W1) every Write on a stream connection in the transports, the stream servers and dnsutils sends one buffer " +
			"produced by a framing constructor (or the datagram copy on the datagram branch) and is the only write of that frame; the stream servers obtain their reply from the handler " +
			"with the length-prefixing packer, and the handler returns only what that packer produced; vectored or split writes are refused; (W2) each of the three framing constructors " +
			"rejects lengths above 65535 before framing, writes uint16(len) at offset 0 of a buffer of len+2 bytes and copies the body to offset 2 of that same buffer; (R1) the frame reader " +
			"reads header and body with io.ReadFull, rejects lengths <= 12 before allocating, reads into a buffer of exactly the announced length and releases it on error; (R2) every stream " +
			"reader goes through that function. io.ReadFull under arbitrary chunking and the kernel's write atomicity are trusted.",
		Assumptions: []string{"io.ReadFull semantics", "one Write call on a net.Conn / tls.Conn / quic stream is not interleaved with other Write calls"},
		Run:         runC16,
	})
}

func runC16(c *Ctx) {
	p := c.P
	T := relTransport + "."
	framers := map[string]bool{relTransport + ".copyMsgWithLenHdr": true, relPool + ".PackTCPBuffer": true}
	tr := p.newTracer()
	tr.throughFields = false
	tr.throughCalls = false
	tr.throughParams = true
	tr.maxDepth = 6

	// ---------------------------------------------------------------- W1
	c.rule("W1", "every stream Write sends one framed buffer from a framing constructor; no split / vectored writes", 7)
	scope := p.funcsIn(relTransport, relServer, relDnsutils)
	c.see(scope...)
	handle := c.fn(relHandler, "EntryHandler", "Handle")
	for _, f := range scope {
		fn := f
		eachInstr(f, func(in ssa.Instruction) {
			ci, ok := in.(*ssa.Call)
			if !ok {
				return
			}
			n := callName(ci)
			if strings.Contains(n, "net.Buffers).WriteTo") || strings.HasSuffix(n, ".ReadFrom") && strings.Contains(n, "net.") {
				c.fail("vectored-write@"+funcName(fn), instrPos(in), "a vectored write (net.Buffers.WriteTo) is only atomic on *net.TCPConn: on TLS or wrapped connections header and body become separate writes and concurrent replies interleave")
				return
			}
			if !ci.Call.IsInvoke() || ci.Call.Method.Name() != "Write" {
				return
			}
			// datagram and HTTP-body writers are not stream framing
			if strings.Contains(typeKey(ci.Call.Value.Type()), "net/http.ResponseWriter") || strings.Contains(strings.ToLower(fn.Name()), "udp") {
				return
			}
			key := "write@" + funcName(fn)
			arg := ci.Call.Args[0]
			var ptrs []ssa.Value
			if prm, isPrm := arg.(*ssa.Parameter); isPrm && isNewHelper(fn) && fn.Parent() == nil {
				// a NEW write helper handed the frame bytes: what its callers dereference
				_ = prm
				for _, r := range tr.origins(arg) {
					l2, ok := r.(*ssa.UnOp)
					if !ok || l2.Op != token.MUL {
						ptrs = nil
						break
					}
					ptrs = append(ptrs, l2.X)
				}
			} else if ld, ok := arg.(*ssa.UnOp); ok && ld.Op == token.MUL {
				ptrs = []ssa.Value{ld.X}
			}
			if len(ptrs) == 0 {
				c.fail(key, instrPos(in), "writes %s, not a whole framed buffer", exprStr(arg))
				return
			}
			good := true
			var why []string
			nRoots := 0
			for _, pv := range ptrs {
				ld := &ssa.UnOp{Op: token.MUL, X: pv}
				for _, r := range tr.origins(ld.X) {
					if isNilConst(r) {
						continue
					}
					nRoots++
					src := r
					if ex, ok := r.(*ssa.Extract); ok {
						src = ex.Tuple
					}
					cl, ok := src.(*ssa.Call)
					if !ok {
						good = false
						why = append(why, exprStr(r))
						continue
					}
					cn := callName(cl)
					switch {
					case framers[cn]:
					case cn == relTransport+".copyMsg":
						// datagram branch only: the write's connection must be the pipelined conn with isTcp == false on this path
						okDatagram := false
						if phi, ok := ld.X.(*ssa.Phi); ok {
							for i, e := range phi.Edges {
								if e == ssa.Value(cl) {
									for _, g := range guardsOf(phi.Block().Preds[i]) {
										if v, truth := g.asBool(); !truth {
											if k, _ := loadedField(v); k == T+"TraditionalDnsConn.isTcp" {
												okDatagram = true
											}
										}
									}
									pred := phi.Block().Preds[i]
									if iff, ok := terminator(pred).(*ssa.If); ok {
										if v, truth := (guard{Cond: iff.Cond, Truth: pred.Succs[0] == phi.Block()}).asBool(); !truth {
											if k, _ := loadedField(v); k == T+"TraditionalDnsConn.isTcp" {
												okDatagram = true
											}
										}
									}
								}
							}
						}
						if !okDatagram {
							good = false
							why = append(why, "unframed copyMsg outside the datagram branch")
						}
					case cn == poolGet && fn.Name() == "WriteRawMsgToTCP":
						// the constructor's own buffer (checked by W2)
					case cn == "invoke:("+relServer+".Handler).Handle":
						// reply from the handler: the packer passed must be the length-prefixing one
						pk := cl.Call.Args[len(cl.Call.Args)-1]
						if fnv, ok := pk.(*ssa.Function); !ok || fnFullName(fnv) != relPool+".PackTCPBuffer" {
							good = false
							why = append(why, "handler invoked with packer "+exprStr(pk)+" (stream servers must pass pool.PackTCPBuffer)")
						}
					default:
						good = false
						why = append(why, cn)
					}
				}
			}
			if nRoots == 0 {
				good = false
				why = append(why, "no origin found")
			}
			// the only write of the frame: no second Write on the same receiver reachable before the function exits / next read
			second := false
			if _, found := reachAvoiding(in, func(x ssa.Instruction) bool {
				c2, ok := x.(*ssa.Call)
				return ok && x != in && c2.Call.IsInvoke() && c2.Call.Method.Name() == "Write" && exprStr(c2.Call.Value) == exprStr(ci.Call.Value)
			}, func(x ssa.Instruction) bool {
				// a new frame starts with a new framing call / read
				c2, ok := x.(*ssa.Call)
				return ok && (framers[callName(c2)] || strings.HasSuffix(callName(c2), "ReadMsgFromTCP") || strings.HasSuffix(callName(c2), "ReadRawMsgFromTCP"))
			}); found {
				second = true
			}
			if good && !second {
				c.ok(key, instrPos(in), "one Write of a buffer from a framing constructor")
			} else {
				c.fail(key, instrPos(in), "stream write is not a single write of a framed buffer (origins: %s; second write on the path: %v)", strings.Join(why, "; "), second)
			}
		})
	}
	// the handler returns only what its packer produced
	if handle != nil {
		c.see(handle)
		pk := handle.Params[len(handle.Params)-1]
		good := true
		n := 0
		for _, r := range returnsOf(handle) {
			v := returnedValues(r)[0]
			if isNilConst(v) {
				continue
			}
			n++
			leaves := expandCases(v, nil, 0)
			if len(leaves) == 0 {
				good = false
			}
			for _, lfv := range leaves {
				ex, ok := lfv.val.(*ssa.Extract)
				if !ok {
					good = false
					continue
				}
				cl, ok := ex.Tuple.(*ssa.Call)
				if !ok || ex.Index != 0 || !isParamValue(p, cl.Call.Value, pk) {
					good = false
				}
			}
		}
		c.check(good && n > 0, "handler-returns-packed", handle.Pos(), "Handle returns only the result of the packer it was given", "Handle returns a buffer that was not produced by the transport's packer: the stream servers write unframed bytes")
	}

	// ---------------------------------------------------------------- W2
	c.rule("W2", "framing constructors: size check first, uint16(len) at offset 0 of a len+2 buffer, body at offset 2 of the same buffer", 3)
	type ctor struct{ rel, name string }
	for _, ct := range []ctor{{relTransport, "copyMsgWithLenHdr"}, {relPool, "PackTCPBuffer"}, {relDnsutils, "WriteRawMsgToTCP"}} {
		f := c.fn(ct.rel, "", ct.name)
		if f == nil {
			continue
		}
		key := "constructor:" + ct.name
		// every header store frames one buffer; every buffer handed out (returned / written) is such a buffer,
		// with header store and body copy on every path to the hand-over
		type framed struct {
			put, cp ssa.Instruction
		}
		good := map[ssa.Value]framed{}
		var puts []*ssa.Call
		eachInstr(f, func(in ssa.Instruction) {
			if ci, ok := in.(*ssa.Call); ok && callName(ci) == binPut16 {
				puts = append(puts, ci)
			}
		})
		// second form: the framing tail was extracted into a new helper that the constructor calls once (the size check
		// stays in the constructor, in front of the call)
		var outer *ssa.Function
		var site *ssa.Call
		if len(puts) == 0 {
			eachInstr(f, func(in ssa.Instruction) {
				ci, ok := in.(*ssa.Call)
				if !ok {
					return
				}
				h := ci.Call.StaticCallee()
				if h == nil || !isNewHelper(h) || soleCallSite(h) != in {
					return
				}
				var hp []*ssa.Call
				eachInstr(h, func(x ssa.Instruction) {
					if cx, ok := x.(*ssa.Call); ok && callName(cx) == binPut16 {
						hp = append(hp, cx)
					}
				})
				if len(hp) > 0 && site == nil {
					outer, site, puts = f, ci, hp
				}
			})
			if site != nil {
				f = site.Call.StaticCallee()
			}
		}
		if len(puts) == 0 {
			c.fail(key, f.Pos(), "no 2-byte length header is written")
			continue
		}
		failed := false
		for _, put := range puts {
			// target buffer: *(buf) [optionally [:2]] where buf = GetBuf(L + 2)
			target := put.Call.Args[1]
			if sl, ok := target.(*ssa.Slice); ok {
				if sl.Low != nil {
					if n, ok := constInt(sl.Low); !ok || n != 0 {
						c.fail(key, instrPos(put), "the length header is written at a non-zero offset")
						failed = true
						break
					}
				}
				target = sl.X
			}
			var bufPtr ssa.Value
			if ld, ok := target.(*ssa.UnOp); ok && ld.Op == token.MUL {
				bufPtr = ld.X
			}
			get, ok := bufPtr.(*ssa.Call)
			if !ok || callName(get) != poolGet {
				c.fail(key, instrPos(put), "the length header is not written into a freshly obtained frame buffer (target %s)", exprStr(target))
				failed = true
				break
			}
			// size = L + 2
			var L ssa.Value
			if bo, ok := get.Call.Args[0].(*ssa.BinOp); ok && bo.Op == token.ADD {
				if n, ok := constInt(bo.Y); ok && n == 2 {
					L = bo.X
				} else if n, ok := constInt(bo.X); ok && n == 2 {
					L = bo.Y
				}
			}
			if L == nil {
				c.fail(key, instrPos(get), "the frame buffer is not len+2 bytes long (%s): the body is not guaranteed to be in it", exprStr(get.Call.Args[0]))
				failed = true
				break
			}
			// header value = uint16(L')  where L' is the same length expression
			hv, ok := put.Call.Args[2].(*ssa.Convert)
			if !ok || exprStr(hv.X) != exprStr(L) {
				c.fail(key, instrPos(put), "the header is %s but the buffer holds %s body bytes", exprStr(put.Call.Args[2]), exprStr(L))
				failed = true
				break
			}
			// guard: L <= MaxMsgSize on the path (error return under L > 65535 dominates)
			guarded := false
			for _, g := range guardsOfInstr(put) {
				if cm, ok := g.asCmp(); ok && exprStr(cm.X) == exprStr(L) && cm.Op == token.LEQ {
					if n, ok := constInt(cm.Y); ok && n == 65535 {
						guarded = true
					}
				}
			}
			if !guarded && site != nil {
				// the check sits in front of the helper call: len(<argument>) <= 65535 for the argument whose length the
				// helper frames
				if ll, ok := L.(*ssa.Call); ok && callName(ll) == "builtin:len" {
					for i, prm := range f.Params {
						if ll.Call.Args[0] != ssa.Value(prm) || i >= len(site.Call.Args) {
							continue
						}
						for _, g := range guardsOfInstr(site) {
							cm, ok := g.asCmp()
							if !ok || cm.Op != token.LEQ {
								continue
							}
							if n, ok := constInt(cm.Y); !ok || n != 65535 {
								continue
							}
							if cl, ok := cm.X.(*ssa.Call); ok && callName(cl) == "builtin:len" && cl.Call.Args[0] == site.Call.Args[i] {
								guarded = true
							}
						}
					}
				}
			}
			// body: copy((*buf)[2:], src) with len(src) == L
			var bodyCopy ssa.Instruction
			eachInstr(f, func(in ssa.Instruction) {
				ci, ok := in.(*ssa.Call)
				if !ok || callName(ci) != "builtin:copy" {
					return
				}
				dst, ok := ci.Call.Args[0].(*ssa.Slice)
				if !ok || dst.Low == nil {
					return
				}
				if n, ok := constInt(dst.Low); !ok || n != 2 {
					return
				}
				if ld, ok := dst.X.(*ssa.UnOp); !ok || ld.X != bufPtr {
					return
				}
				src := ci.Call.Args[1]
				if exprStr(L) == "builtin:len("+exprStr(src)+")" {
					bodyCopy = ci
				}
			})
			if !guarded || bodyCopy == nil {
				c.fail(key, instrPos(put), "framing constructor is not exact (size check before framing: %v, body copied to [2:] of the frame buffer with the announced length: %v)", guarded, bodyCopy != nil)
				failed = true
				break
			}
			good[bufPtr] = framed{put, bodyCopy}
		}
		if failed {
			continue
		}
		// every buffer handed out is a framed buffer, framed on every path
		outs, badOut := 0, ""
		var badPos token.Pos
		handOver := func(at ssa.Instruction, ptr ssa.Value) {
			outs++
			fr, ok := good[ptr]
			if !ok {
				if badOut == "" {
					badOut, badPos = "hands out "+exprStr(ptr)+", which is not a len+2 buffer holding header and copied body", instrPos(at)
				}
				return
			}
			if !instrDominates(fr.put, at) || !instrDominates(fr.cp, at) {
				if badOut == "" {
					badOut, badPos = "hands out the frame buffer on a path that skips the header store or the body copy", instrPos(at)
				}
			}
		}
		eachInstr(f, func(in ssa.Instruction) {
			switch x := in.(type) {
			case *ssa.Return:
				if x.Block().Comment == "recover" {
					return
				}
				rv := returnedValues(x)
				if len(rv) > 0 && !isNilConst(rv[0]) {
					if _, isPtr := rv[0].Type().Underlying().(*types.Pointer); isPtr {
						handOver(x, rv[0])
					}
				}
			case *ssa.Call:
				if x.Call.IsInvoke() && x.Call.Method.Name() == "Write" {
					if ld, ok := x.Call.Args[0].(*ssa.UnOp); ok && ld.Op == token.MUL {
						handOver(x, ld.X)
					} else {
						handOver(x, x.Call.Args[0])
					}
				}
			}
		})
		if site != nil {
			// the constructor itself hands out exactly what the helper framed
			for _, r := range returnsOf(outer) {
				rv := returnedValues(r)
				if len(rv) == 0 || isNilConst(rv[0]) {
					continue
				}
				if _, isPtr := rv[0].Type().Underlying().(*types.Pointer); !isPtr {
					continue
				}
				v := rv[0]
				if ex, ok := v.(*ssa.Extract); ok && ex.Index == 0 {
					v = ex.Tuple
				}
				if v != ssa.Value(site) && badOut == "" {
					badOut, badPos = "hands out "+exprStr(rv[0])+", which is not the buffer its framing helper built", instrPos(r)
				}
			}
		}
		if outs == 0 {
			c.fail(key, f.Pos(), "the constructor hands out no buffer")
			continue
		}
		if badOut != "" {
			c.fail(key, badPos, "framing constructor %s: the frame on the wire would carry a correct-looking length followed by other bytes", badOut)
			continue
		}
		c.ok(key, instrPos(puts[0]), "len <= 65535 checked, header uint16(len) at 0, body at [2:], that buffer handed out at all %d hand-over sites", outs)
	}

	// ---------------------------------------------------------------- R1
	c.rule("R1", "frame reader: ReadFull twice, minimum length check before allocating, exact-size buffer, release on error", 4)
	rd := c.fn(relDnsutils, "", "ReadRawMsgFromTCP")
	if rd != nil {
		var reads []*ssa.Call
		eachInstr(rd, func(in ssa.Instruction) {
			if ci, ok := in.(*ssa.Call); ok {
				n := callName(ci)
				if n == "io.ReadFull" {
					reads = append(reads, ci)
				}
				if ci.Call.IsInvoke() && ci.Call.Method.Name() == "Read" {
					c.fail("reader:readfull", instrPos(in), "a plain Read is used: a short read yields a partial header or body")
				}
				if n == "io.ReadAtLeast" || n == "io.ReadAll" {
					c.fail("reader:readfull", instrPos(in), "%s is used instead of io.ReadFull", n)
				}
			}
		})
		c.check(len(reads) == 2, "reader:readfull", rd.Pos(), "header and body are read with io.ReadFull", fmt.Sprintf("expected two io.ReadFull calls (header, body), found %d", len(reads)))
		if len(reads) == 2 {
			hdr, body := reads[0], reads[1]
			if instrDominates(body, hdr) {
				hdr, body = body, hdr
			}
			// header buffer: GetBuf(2)
			hOK := false
			var hPtr ssa.Value
			if ld, ok := hdr.Call.Args[1].(*ssa.UnOp); ok {
				if g, ok := ld.X.(*ssa.Call); ok && callName(g) == poolGet {
					if n, ok := constInt(g.Call.Args[0]); ok && n == 2 {
						hOK, hPtr = true, g
					}
				}
			}
			c.check(hOK, "reader:header", instrPos(hdr), "2-byte header read", "the header read does not fill exactly 2 bytes")
			// body buffer: GetBuf(int(Uint16(*h)))
			bOK, minOK, relOK := false, false, false
			var bPtr *ssa.Call
			if ld, ok := body.Call.Args[1].(*ssa.UnOp); ok {
				if g, ok := ld.X.(*ssa.Call); ok && callName(g) == poolGet {
					bPtr = g
					if cv, ok := g.Call.Args[0].(*ssa.Convert); ok {
						if u, ok := cv.X.(*ssa.Call); ok && callName(u) == binU16 {
							if l2, ok := u.Call.Args[1].(*ssa.UnOp); ok && l2.X == hPtr {
								bOK = true
								// the accepted lengths start at exactly 12 (a header-only message is a message, D14): `>= 12` / `> 11`
								for _, gd := range guardsOfInstr(g) {
									// the comparison is on the decoded value, or on its widening conversion (int(length))
									if cm, ok := gd.asCmp(); ok && (cm.X == ssa.Value(u) || cm.X == ssa.Value(cv)) {
										n, isC := constInt(cm.Y)
										if isC && ((cm.Op == token.GEQ && n == 12) || (cm.Op == token.GTR && n == 11)) {
											minOK = true
										}
									}
								}
							}
						}
					}
				}
			}
			c.check(bOK, "reader:body-size", instrPos(body), "body buffer has exactly the announced length", "the body buffer's size is not the decoded 16-bit length: the caller gets a buffer of another size than the frame")
			c.check(minOK, "reader:min-length", instrPos(body), "exactly the lengths < 12 are rejected before allocating", "the reader does not accept exactly the lengths >= 12 (the size of a DNS header): either a length smaller than a header is read, or a header-only message (12 bytes, e.g. a FORMERR reply) is refused and kills a pipelined connection with every query in flight")
			// on body error: release + nil
			if bPtr != nil {
				for _, r := range referrers(body) {
					ex, ok := r.(*ssa.Extract)
					if !ok || ex.Type().String() != "error" {
						continue
					}
					for _, r2 := range referrers(ex) {
						bo, ok := r2.(*ssa.BinOp)
						if !ok || bo.Op != token.NEQ {
							continue
						}
						for _, r3 := range referrers(bo) {
							iff, ok := r3.(*ssa.If)
							if !ok {
								continue
							}
							tb := iff.Block().Succs[0]
							released := false
							for _, x := range tb.Instrs {
								if ci, ok := x.(*ssa.Call); ok && callName(ci) == poolRel && ci.Call.Args[0] == ssa.Value(bPtr) {
									released = true
								}
							}
							if ret, ok := terminator(tb).(*ssa.Return); ok && released && isNilConst(returnedValues(ret)[0]) {
								relOK = true
							}
						}
					}
				}
			}
			c.check(relOK, "reader:error-path", instrPos(body), "a short body read releases the buffer and returns nil", "on a short read the partially filled buffer is returned or leaked")
		}
	}

	// ---------------------------------------------------------------- R3
	c.rule("R3", "every source of a reply payload guarantees at least a DNS header (12 bytes) before header fields are indexed", 3)
	{
		// datagram reader: a read shorter than the header is never returned
		if f := c.fn(relTransport, "", "readMsgUdp"); f != nil {
			good := false
			for _, r := range returnsOf(f) {
				rv := returnedValues(r)
				if isNilConst(rv[0]) {
					continue
				}
				for _, g := range guardsOfInstr(r) {
					if cm, ok := g.asCmp(); ok && cm.Op == token.GEQ {
						if n, ok := constInt(cm.Y); ok && n >= 12 {
							if ex, ok := cm.X.(*ssa.Extract); ok {
								if cl, ok := ex.Tuple.(*ssa.Call); ok && cl.Call.IsInvoke() && cl.Call.Method.Name() == "Read" {
									good = true
								}
							}
						}
					}
				}
			}
			c.check(good, "min-length@readMsgUdp", f.Pos(), "datagrams shorter than 12 bytes are never returned", "a datagram shorter than a DNS header can be returned: the reader indexes the id of a 0/1-byte payload and panics")
		}
		// DoH body
		if f := c.fn(relDoh, "Upstream", "exchange"); f != nil {
			good := false
			for _, r := range returnsOf(f) {
				rv := returnedValues(r)
				if isNilConst(rv[0]) {
					continue
				}
				for _, g := range guardsOfInstr(r) {
					if cm, ok := g.asCmp(); ok && cm.Op == token.GEQ {
						if n, ok := constInt(cm.Y); ok && n >= 12 {
							if cl, ok := cm.X.(*ssa.Call); ok && strings.HasSuffix(callName(cl), ".Len") {
								good = true
							}
						}
					}
				}
			}
			c.check(good, "min-length@doh.exchange", f.Pos(), "HTTP bodies shorter than 12 bytes are rejected", "a DoH body shorter than a DNS header is returned as a reply")
		}
		// header accesses on reply payloads use constant offsets < 12
		n := 0
		bad := ""
		for _, f := range p.funcsIn(relTransport, relDoh, relUpstream) {
			eachInstr(f, func(in ssa.Instruction) {
				ia, ok := in.(*ssa.IndexAddr)
				if !ok {
					return
				}
				if _, isParam := ia.X.(*ssa.Parameter); !isParam {
					return
				}
				if f.Name() != "msgTruncated" {
					return
				}
				n++
				if k, ok := constInt(ia.Index); !ok || k >= 12 {
					bad = exprStr(ia)
				}
			})
		}
		c.check(bad == "" && n > 0, "header-offsets", 0, "header bytes are indexed at constant offsets below 12", "a reply is indexed at "+bad+" which the 12-byte minimum does not cover")
	}

	// ---------------------------------------------------------------- R4
	c.rule("R4", "raw message bytes are indexed at constant offsets only under a length guard, a construction length, or the 12-byte minimum of the readers", 30)
	checkRawIndexGuarded(c, p.funcsIn(relTransport, relDoh, relUpstream, relDnsutils, relServer, relPool), map[string]string{})

	// ---------------------------------------------------------------- R6
	c.rule("R6", "which framing a connection object uses is decided by how it was dialled: WithLengthHeader is true for every stream connection handed to NewDnsConn and false only for the datagram socket; the frame reader reads the connection itself (no read-ahead wrapper); nothing writes into a framed reply after it was packed", 5)
	{
		tr := p.newTracer()
		tr.throughCalls, tr.throughParams, tr.throughFields = false, false, false
		n := 0
		for _, f := range p.funcsIn(relUpstream) {
			fn := f
			eachInstr(f, func(in ssa.Instruction) {
				ci, ok := in.(*ssa.Call)
				if !ok || callName(ci) != relTransport+".NewDnsConn" {
					return
				}
				n++
				c.see(fn)
				// the option value
				hdr := "unset"
				for _, o := range tr.origins(ci.Call.Args[0]) {
					al, ok := o.(*ssa.Alloc)
					if !ok {
						if ld, ok2 := o.(*ssa.UnOp); ok2 {
							al, ok = ld.X.(*ssa.Alloc)
							if fv, isFv := ld.X.(*ssa.FreeVar); isFv {
								for _, b := range bindingOf(fv) {
									if a2, isA := b.(*ssa.Alloc); isA {
										al, ok = a2, true
									}
								}
							}
						}
					}
					if !ok || al == nil {
						hdr = "unknown"
						continue
					}
					for _, r := range referrers(al) {
						fa, ok := r.(*ssa.FieldAddr)
						if !ok {
							continue
						}
						if k, _ := fieldKey(fa); !strings.HasSuffix(k, ".TraditionalDnsConnOpts.WithLengthHeader") {
							continue
						}
						for _, r2 := range referrers(fa) {
							if st, ok := r2.(*ssa.Store); ok {
								if b, isB := constBool(st.Val); isB {
									hdr = map[bool]string{true: "true", false: "false"}[b]
								} else {
									hdr = "non-constant"
								}
							}
						}
					}
				}
				// datagram? the connection handed over was dialled with network "udp" in this closure
				udp := false
				eachInstr(fn, func(y ssa.Instruction) {
					cl, ok := y.(*ssa.Call)
					if !ok {
						return
					}
					if strings.HasSuffix(callName(cl), "DialContext") || strings.HasSuffix(callName(cl), ".Dial") || (isNewHelper(cl.Call.StaticCallee()) && strings.Contains(strings.ToLower(cl.Call.StaticCallee().Name()), "dial")) {
						for _, a := range cl.Call.Args {
							if cst, ok := a.(*ssa.Const); ok && cst.Value != nil && strings.HasPrefix(strings.Trim(cst.Value.ExactString(), "\""), "udp") {
								udp = true
							}
						}
					}
				})
				key := "framing-option@" + funcName(fn)
				if udp {
					c.check(hdr == "false" || hdr == "unset", key, instrPos(in), "datagram socket: no length header", "a datagram socket is wrapped with WithLengthHeader "+hdr)
				} else {
					c.check(hdr == "true", key, instrPos(in), "stream connection: WithLengthHeader true", "a stream connection is handed to NewDnsConn with WithLengthHeader "+hdr+": queries are written without the two-byte length and replies are read as datagrams — nothing on that connection is a frame")
				}
			})
		}
		if n == 0 {
			c.anchorMissing("transport.NewDnsConn call sites in pkg/upstream")
		}
	}
	checkFrameReaderReadFull(c)
	// no store into the packed payload in the handler after packing
	if hh := c.fn(relHandler, "EntryHandler", "Handle"); hh != nil {
		bad := ""
		var badPos token.Pos
		eachInstr(hh, func(in ssa.Instruction) {
			switch x := in.(type) {
			case *ssa.Call:
				cn := callName(x)
				if cn == binPut16 || cn == "builtin:copy" || strings.HasPrefix(cn, "(encoding/binary.bigEndian).Put") {
					bad, badPos = cn, instrPos(in)
				}
			case *ssa.Store:
				if ia, ok := x.Addr.(*ssa.IndexAddr); ok {
					if st, ok := ia.X.Type().Underlying().(*types.Slice); ok {
						if b, ok := st.Elem().Underlying().(*types.Basic); ok && b.Kind() == types.Uint8 {
							bad, badPos = "a byte store", instrPos(in)
						}
					}
				}
			}
		})
		c.check(bad == "", "handler-leaves-frame-alone", badPos, "the handler never writes into packed bytes", "the handler writes into the packed payload ("+bad+") after the packer framed it: with the length-prefixing packer bytes 0..1 are the frame length, so the frame announces a wrong size")
	}

	// ---------------------------------------------------------------- R5
	c.rule("R5", "a reply Write on a shared server connection cannot end half-done and be followed by another frame: no write deadline is armed unless a failed Write closes the connection", 2)
	helperConnTypes := map[*ssa.Call][]string{}
	for _, f := range p.funcsIn(relServer) {
		fn := f
		var writes []*ssa.Call
		var ddl ssa.Instruction
		eachInstr(f, func(in ssa.Instruction) {
			ci, ok := in.(*ssa.Call)
			if !ok || !ci.Call.IsInvoke() {
				return
			}
			switch ci.Call.Method.Name() {
			case "Write":
				if strings.HasSuffix(typeKey(ci.Call.Value.Type()), "net.Conn") || strings.Contains(ci.Call.Value.Type().String(), "quic") {
					writes = append(writes, ci)
				} else if prm, isPrm := ci.Call.Value.(*ssa.Parameter); isPrm && isNewHelper(fn) && fn.Parent() == nil {
					// a NEW write helper of the servers: what it writes to is what its callers hand it
					pi := -1
					for i, q := range fn.Params {
						if q == prm {
							pi = i
						}
					}
					sites, _ := callSitesOf(fn)
					for _, st := range sites {
						args := st.(ssa.CallInstruction).Common().Args
						if pi >= 0 && pi < len(args) {
							a := args[pi]
							for {
								if mi, ok := a.(*ssa.MakeInterface); ok {
									a = mi.X
									continue
								}
								if ch, ok := a.(*ssa.ChangeInterface); ok {
									a = ch.X
									continue
								}
								break
							}
							ts := a.Type().String()
							if strings.HasSuffix(typeKey(a.Type()), "net.Conn") || strings.Contains(ts, "quic") {
								helperConnTypes[ci] = append(helperConnTypes[ci], ts)
							}
						}
					}
					if len(helperConnTypes[ci]) > 0 {
						writes = append(writes, ci)
					}
				}
			case "SetWriteDeadline", "SetDeadline":
				ddl = in
			}
		})
		if len(writes) == 0 {
			continue
		}
		// a write deadline armed anywhere in the server package counts (helpers included)
		wts := map[string]bool{writes[0].Call.Value.Type().String(): true}
		for _, t := range helperConnTypes[writes[0]] {
			wts[t] = true
		}
		if ddl != nil && !wts[ddl.(*ssa.Call).Call.Value.Type().String()] {
			ddl = nil
		}
		for _, g := range p.funcsIn(relServer) {
			if ddl != nil {
				continue
			}
			eachInstr(g, func(in ssa.Instruction) {
				if ci, ok := in.(*ssa.Call); ok && ci.Call.IsInvoke() {
					// on the same kind of connection object as the one written to
					if n := ci.Call.Method.Name(); (n == "SetWriteDeadline" || n == "SetDeadline") && wts[ci.Call.Value.Type().String()] {
						ddl = in
					}
				}
			})
		}
		c.see(fn)
		key := "no-partial-frame@" + funcName(fn)
		if len(helperConnTypes[writes[0]]) > 1 && ddl == nil {
			// one write helper shared by several servers stands for each of them
			for i := 1; i < len(helperConnTypes[writes[0]]); i++ {
				c.ok(fmt.Sprintf("%s#%d", key, i), instrPos(writes[0]), "shared stream write helper, no write deadline is armed")
			}
		}
		if ddl == nil {
			c.ok(key, instrPos(writes[0]), "%d stream Write(s), no write deadline is armed: a Write returns only when the whole frame is written or the connection is broken", len(writes))
			continue
		}
		good := true
		for _, w := range writes {
			closes := false
			for _, r := range referrers(w) {
				ex, ok := r.(*ssa.Extract)
				if !ok || ex.Type().String() != "error" {
					continue
				}
				for _, r2 := range referrers(ex) {
					bo, ok := r2.(*ssa.BinOp)
					if !ok || bo.Op != token.NEQ {
						continue
					}
					for _, r3 := range referrers(bo) {
						if iff, ok := r3.(*ssa.If); ok {
							isClose := func(x ssa.Instruction) bool {
								cc, ok := x.(*ssa.Call)
								return ok && cc.Call.IsInvoke() && cc.Call.Method.Name() == "Close"
							}
							if _, leak := reachFromBlock(iff.Block().Succs[0], isExit, isClose); !leak {
								closes = true
							}
						}
					}
				}
			}
			if !closes {
				good = false
			}
		}
		c.check(good, key, instrPos(ddl), "a write deadline is armed, and every failed Write closes the connection",
			"a write deadline is armed on the connection ("+p.pos(instrPos(ddl))+") but a failed Write does not close it: a Write that times out after part of the frame leaves the connection in service, and the next reply is written behind the half frame — every later frame boundary is wrong")
	}

	// ---------------------------------------------------------------- R2
	c.rule("R2", "every stream reader uses the frame reader; after a framing error the stream is not read again; no length cap besides the minimum; no per-frame buffering wrapper", 10)
	checkFrameDiscipline(c)
	// after a read / framing error the stream servers stop reading that connection (the stream position is unknown)
	// frame readers: the two dnsutils readers and every server function that wraps one of them and hands its error back
	// (readQueryFromStream since D48) — the obligation then also holds at the wrapper's call sites
	frameReaders := map[string]bool{relDnsutils + ".ReadMsgFromTCP": true, relDnsutils + ".ReadRawMsgFromTCP": true}
	for changed := true; changed; {
		changed = false
		for _, f := range p.funcsIn(relServer) {
			if frameReaders[funcName(f)] || f.Signature.Results().Len() == 0 {
				continue
			}
			eachInstr(f, func(in ssa.Instruction) {
				ci, ok := in.(*ssa.Call)
				if !ok || !frameReaders[callName(ci)] {
					return
				}
				if ok2, _ := errCheckedAndReturned(ci); ok2 && !frameReaders[funcName(f)] {
					frameReaders[funcName(f)] = true
					changed = true
				}
			})
		}
	}
	for _, f := range p.funcsIn(relServer) {
		fn := f
		eachInstr(f, func(in ssa.Instruction) {
			ci, ok := in.(*ssa.Call)
			if !ok {
				return
			}
			cn := callName(ci)
			if !frameReaders[cn] {
				return
			}
			ok2, why := errCheckedAndReturned(ci)
			c.check(ok2, "read-error-ends-connection@"+funcName(fn), instrPos(in), "a read or framing error ends the connection's read loop", "after a read/framing error the server goes on reading the same connection ("+why+"): the bytes of the bad frame were not consumed, every later frame boundary is wrong")
		})
	}

	if rd != nil {
		rmt := p.Func(relDnsutils, "", "ReadMsgFromTCP")
		n := 0
		for _, f := range p.funcsIn(relTransport, relServer, relDnsutils) {
			fn := f
			eachInstr(f, func(in ssa.Instruction) {
				ci, ok := in.(*ssa.Call)
				if !ok {
					return
				}
				sc := staticCallee(ci)
				if sc == rd || (rmt != nil && sc == rmt) {
					n++
					c.ok("frame-read@"+funcName(fn), instrPos(in), "reads a frame through the frame reader")
				}
			})
		}
		// a stream conn is never read directly in the transports / stream servers (datagram reader excepted)
		for _, f := range p.funcsIn(relTransport, relServer) {
			fn := f
			eachInstr(f, func(in ssa.Instruction) {
				ci, ok := in.(*ssa.Call)
				if !ok || !ci.Call.IsInvoke() || ci.Call.Method.Name() != "Read" {
					return
				}
				if fn.Name() == "readMsgUdp" || strings.Contains(funcName(fn), "udp") || strings.Contains(funcName(fn), "UDP") {
					return
				}
				c.fail("direct-read@"+funcName(fn), instrPos(in), "a stream is read with a plain Read instead of the frame reader")
			})
		}
		_ = n
	}
}
