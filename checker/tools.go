package main

// Blank imports so that `go mod vendor` keeps the analysis packages the checker may use.
import (
	_ "golang.org/x/tools/go/ast/astutil"
	_ "golang.org/x/tools/go/ast/inspector"
	_ "golang.org/x/tools/go/callgraph"
	_ "golang.org/x/tools/go/callgraph/cha"
	_ "golang.org/x/tools/go/callgraph/static"
	_ "golang.org/x/tools/go/callgraph/vta"
	_ "golang.org/x/tools/go/cfg"
	_ "golang.org/x/tools/go/types/typeutil"
)
