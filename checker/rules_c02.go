package main

import (
	"go/token"
	"go/types"
	"strings"

	"golang.org/x/tools/go/ssa"
)

const relTransport = "pkg/upstream/transport"
const relDoh = "pkg/upstream/doh"

func init() {
	register(&propDef{
		ID: "C02",
		Explanation: "Decides structural necessary conditions of 'a reply that arrives in time is never lost' on every path of the transport package: " +
			"(R1) every channel a connection reader sends on without blocking is created with capacity >= 1 at every make site that can reach it, so the hand-off cannot be dropped whatever the schedule; " +
			"(R2) the waiter is registered before the query is written; (R3) every wait that can wake on the connection's close notification re-checks the reply channel before failing; " +
			"(R4) the reader re-arms the idle read deadline before every read. Timing itself is not decided.",
		Assumptions: []string{"Go channel semantics (a send on a channel with free buffer space never blocks)", "lock/field identity by type, not instance"},
		Run:         runC02,
	})
}

// isReplyChanType: chan *[]byte (any direction).
func isReplyChanType(t types.Type) bool {
	ch, ok := t.Underlying().(*types.Chan)
	if !ok {
		return false
	}
	p, ok := ch.Elem().(*types.Pointer)
	if !ok {
		return false
	}
	sl, ok := p.Elem().Underlying().(*types.Slice)
	if !ok {
		return false
	}
	b, ok := sl.Elem().Underlying().(*types.Basic)
	return ok && b.Kind() == types.Uint8
}

// closeNotifyFields: fields of type chan struct{} (in the given packages) on which close() is called.
func closeNotifyFields(p *Prog, rels ...string) map[string]bool {
	out := map[string]bool{}
	for _, f := range p.funcsIn(rels...) {
		eachInstr(f, func(in ssa.Instruction) {
			if ci, ok := isCall(in, "builtin:close"); ok {
				if k, ok := loadedField(ci.Common().Args[0]); ok {
					out[k] = true
				}
			}
		})
	}
	return out
}

func runC02(c *Ctx) {
	p := c.P
	fns := p.funcsIn(relTransport)
	c.see(fns...)

	// ---------------------------------------------------------------- R1
	c.rule("R1", "every make site reaching a channel that a reader sends on without blocking has constant capacity >= 1", 2)
	tr := p.newTracer()
	for _, f := range fns {
		eachInstr(f, func(in ssa.Instruction) {
			sel, ok := in.(*ssa.Select)
			if !ok || sel.Blocking {
				return
			}
			for _, st := range sel.States {
				if st.Dir != types.SendOnly {
					continue
				}
				key := "nonblocking-send@" + funcName(f)
				roots := tr.origins(st.Chan)
				nMake := 0
				bad := false
				for _, r := range roots {
					if isNilConst(r) {
						continue
					}
					mk, isMake := r.(*ssa.MakeChan)
					if !isMake {
						bad = true
						c.undecided(key, instrPos(in), "channel origin %s (%T) is not a make site; cannot bound its capacity", r.String(), r)
						continue
					}
					nMake++
					n, isConst := constInt(mk.Size)
					if !isConst || n < 1 {
						bad = true
						c.fail(key, valuePos(mk), "channel made at %s has capacity %s: the reader's non-blocking send in %s drops the reply whenever the waiter is not yet parked in its receive", p.pos(valuePos(mk)), mk.Size.String(), funcName(f))
					}
				}
				if nMake == 0 && !bad {
					c.undecided(key, instrPos(in), "no make site found for the channel of this non-blocking send")
				} else if !bad {
					c.ok(key, instrPos(in), "all %d make site(s) have capacity >= 1", nMake)
				}
			}
		})
	}

	// ---------------------------------------------------------------- R2
	c.rule("R2", "the waiter registration dominates the connection Write of the query", 3)
	// writers / registrars by role
	connWriteIn := func(f *ssa.Function, connField string) bool {
		found := false
		eachInstr(f, func(in ssa.Instruction) {
			if ci, ok := in.(ssa.CallInstruction); ok && ci.Common().IsInvoke() && ci.Common().Method.Name() == "Write" {
				if k, ok := loadedField(ci.Common().Value); ok && k == connField {
					found = true
				}
			}
		})
		return found
	}
	type pairing struct {
		typ, connField, regField, regKind string
	}
	for _, pr := range []pairing{
		{"TraditionalDnsConn", relTransport + ".TraditionalDnsConn.c", relTransport + ".TraditionalDnsConn.queue", "mapupdate"},
		{"reusableConn", relTransport + ".reusableConn.c", relTransport + ".reusableConn.waitingResp", "store"},
	} {
		writers := map[*ssa.Function]bool{}
		registrars := map[*ssa.Function]bool{}
		for _, f := range fns {
			if connWriteIn(f, pr.connField) {
				writers[f] = true
			}
		}
		regInstrs := map[ssa.Instruction]bool{}
		for _, w := range p.whoWrites().byField[pr.regField] {
			if w.Kind == pr.regKind && w.Val != nil && !isNilConst(w.Val) {
				regInstrs[w.Instr] = true
				registrars[w.Fn] = true
			}
		}
		if len(writers) == 0 {
			c.anchorMissing("Write on " + pr.connField)
			continue
		}
		if len(registrars) == 0 {
			c.anchorMissing("registration into " + pr.regField)
			continue
		}
		isReg := func(in ssa.Instruction) bool {
			if regInstrs[in] {
				return true
			}
			if ci, ok := in.(*ssa.Call); ok {
				if sc := staticCallee(ci); sc != nil && registrars[sc] {
					return true
				}
			}
			return false
		}
		hasReg := func(f *ssa.Function) bool {
			r := false
			eachInstr(f, func(in ssa.Instruction) {
				if isReg(in) {
					r = true
				}
			})
			return r
		}
		pureWriters := map[*ssa.Function]bool{}
		for w := range writers {
			if !hasReg(w) {
				pureWriters[w] = true
			}
		}
		isDirectWrite := func(in ssa.Instruction) bool {
			if ci, ok := in.(*ssa.Call); ok && ci.Common().IsInvoke() && ci.Common().Method.Name() == "Write" {
				if k, ok := loadedField(ci.Common().Value); ok && k == pr.connField {
					return true
				}
			}
			return false
		}
		called := map[*ssa.Function]bool{}
		for _, f := range fns {
			eachInstr(f, func(in ssa.Instruction) {
				var site bool
				if ci, ok := in.(*ssa.Call); ok {
					if sc := staticCallee(ci); sc != nil && pureWriters[sc] {
						site = true
						called[sc] = true
					}
				}
				if isDirectWrite(in) && !pureWriters[f] {
					site = true
				}
				if !site {
					return
				}
				key := "write@" + funcName(f) + "/" + pr.typ
				dominated := false
				eachInstr(f, func(r ssa.Instruction) {
					if isReg(r) && instrDominates(r, in) {
						dominated = true
					}
				})
				c.check(dominated, key, instrPos(in),
					"registration of the waiter dominates this write",
					"the query is written before the waiter is registered in "+pr.regField+": a reply arriving in between is discarded by the reader")
			})
		}
		for w := range pureWriters {
			if !called[w] {
				c.fail("write@"+funcName(w)+"/"+pr.typ, w.Pos(), "writes the connection without any waiter registration on the path")
			}
		}
	}

	// ---------------------------------------------------------------- R3
	c.rule("R3", "a wait that wakes on the close notification re-checks the reply channel (non-blocking receive) before returning the close error", 2)
	cn := closeNotifyFields(p, relTransport)
	for _, f := range fns {
		eachInstr(f, func(in ssa.Instruction) {
			sel, ok := in.(*ssa.Select)
			if !ok || !sel.Blocking {
				return
			}
			var replyCh ssa.Value
			closeIdx := -1
			for i, st := range sel.States {
				if st.Dir != types.RecvOnly {
					continue
				}
				if isReplyChanType(st.Chan.Type()) {
					replyCh = st.Chan
				}
				if k, ok := loadedField(st.Chan); ok && cn[k] {
					closeIdx = i
				}
			}
			if replyCh == nil || closeIdx < 0 {
				return
			}
			key := "reply-wait@" + funcName(f)
			cases, _, ok := decodeSelect(sel)
			if !ok || cases[closeIdx].Body == nil {
				c.undecided(key, instrPos(in), "cannot decode the select's case blocks")
				return
			}
			pollCalls := map[ssa.Instruction]*ssa.Call{}
			isRecheck := func(x ssa.Instruction) bool {
				// a reply poll helper handed this very channel
				if cl, ok := x.(*ssa.Call); ok {
					if sum := replyPollSummary(cl.Call.StaticCallee()); sum != nil && sum.pollsLast && sum.chanIdx < len(cl.Call.Args) {
						a := cl.Call.Args[sum.chanIdx]
						if ct, isCT := a.(*ssa.ChangeType); isCT {
							a = ct.X
						}
						if a == replyCh {
							pollCalls[x] = cl
							return true
						}
					}
				}
				s2, ok := x.(*ssa.Select)
				if !ok || s2.Blocking {
					return false
				}
				for _, st := range s2.States {
					if st.Dir == types.RecvOnly && st.Chan == replyCh {
						return true
					}
				}
				return false
			}
			off, found := reachFromBlock(cases[closeIdx].Body, isReturn, isRecheck)
			if found {
				c.fail(key, instrPos(off), "the close-notification case returns without re-checking the reply channel: when the peer closes right after its reply both cases are ready and select picks at random, losing a delivered reply")
				return
			}
			// the re-check must hand the received reply back
			good := true
			eachInstr(f, func(x ssa.Instruction) {
				if !isRecheck(x) || !cases[closeIdx].Body.Dominates(x.Block()) {
					return
				}
				if cl := pollCalls[x]; cl != nil {
					// the helper's reply is returned when it is non-nil
					handed := false
					for _, r := range returnsOf(f) {
						rv := returnedValues(r)
						if len(rv) > 0 {
							if hc, _ := pollHelperCall(rv[0]); hc == cl {
								handed = true
							}
						}
					}
					if !handed {
						good = false
					}
					return
				}
				s2 := x.(*ssa.Select)
				cs2, _, ok2 := decodeSelect(s2)
				if !ok2 {
					good = false
					return
				}
				for _, cs := range cs2 {
					if cs.State.Dir != types.RecvOnly || cs.State.Chan != replyCh || cs.Body == nil {
						continue
					}
					ret, ok := terminator(cs.Body).(*ssa.Return)
					if !ok || cs.Recv == nil || len(ret.Results) == 0 || returnedValues(ret)[0] != cs.Recv {
						good = false
					}
				}
			})
			c.check(good, key, instrPos(in), "close case re-checks the reply channel and returns the delivered reply",
				"the re-check in the close case does not return the received reply")
		})
	}

	// ---------------------------------------------------------------- R6
	c.rule("R6", "after a successful write every path to a return consults the reply channel (no early exit between send and wait)", 3)
	for _, f := range fns {
		// functions that contain a reply wait: blocking select with a receive on a reply channel
		var replyCh ssa.Value
		eachInstr(f, func(in ssa.Instruction) {
			if sel, ok := in.(*ssa.Select); ok && sel.Blocking {
				for _, st := range sel.States {
					if st.Dir == types.RecvOnly && isReplyChanType(st.Chan.Type()) {
						replyCh = st.Chan
					}
				}
			}
		})
		if replyCh == nil {
			continue
		}
		consults := func(x ssa.Instruction) bool {
			sel, ok := x.(*ssa.Select)
			if !ok {
				return false
			}
			for _, st := range sel.States {
				if st.Dir == types.RecvOnly && st.Chan == replyCh {
					return true
				}
			}
			return false
		}
		fn := f
		eachInstr(f, func(in ssa.Instruction) {
			ci, ok := in.(*ssa.Call)
			if !ok {
				return
			}
			// a write of the query: direct Write on the connection or a call of a pure writer helper of this package
			isW := false
			if ci.Call.IsInvoke() && ci.Call.Method.Name() == "Write" {
				if k, ok := loadedField(ci.Call.Value); ok && (strings.HasSuffix(k, "TraditionalDnsConn.c") || strings.HasSuffix(k, "reusableConn.c")) {
					isW = true
				}
			}
			if sc := staticCallee(ci); sc != nil && sc.Pkg == fn.Pkg && sc != fn {
				eachInstr(sc, func(y ssa.Instruction) {
					if c2, ok := y.(*ssa.Call); ok && c2.Call.IsInvoke() && c2.Call.Method.Name() == "Write" {
						if k, ok := loadedField(c2.Call.Value); ok && strings.HasSuffix(k, "TraditionalDnsConn.c") {
							isW = true
						}
					}
				})
			}
			if !isW {
				return
			}
			// the success edge: err == nil
			var errV ssa.Value
			if ci.Type().String() == "error" {
				errV = ci
			}
			for _, r := range referrers(ci) {
				if ex, ok := r.(*ssa.Extract); ok && ex.Type().String() == "error" {
					errV = ex
				}
			}
			key := "after-write@" + funcName(fn)
			if errV == nil {
				c.undecided(key, instrPos(in), "the write's error is not examined")
				return
			}
			checked := false
			for _, r := range referrers(errV) {
				bo, ok := r.(*ssa.BinOp)
				if !ok || !isNilConst(bo.Y) {
					continue
				}
				for _, r2 := range referrers(bo) {
					iff, ok := r2.(*ssa.If)
					if !ok {
						continue
					}
					okBlk := succOnTruth(iff, bo.Op == token.EQL)
					checked = true
					if off, leak := reachFromBlock(okBlk, isReturn, consults); leak {
						c.fail(key, instrPos(off), "a return is reachable after the query was written without looking at the reply channel: a reply that was already delivered (and the error that follows it) makes the exchange fail although the answer arrived in time")
					} else {
						c.ok(key, instrPos(in), "every exit after a successful write passes the wait on the reply channel")
					}
				}
			}
			if !checked {
				c.undecided(key, instrPos(in), "no success branch of the write found")
			}
		})
	}

	// ---------------------------------------------------------------- R7
	c.rule("R7", "the single waiter slot of a non-pipelined connection is cleared only by the reader that consumed the reply (or under an identity check)", 1)
	{
		slot := relTransport + ".reusableConn.waitingResp"
		n := 0
		for _, w := range p.whoWrites().byField[slot] {
			if w.Kind != "store" || w.Val == nil || !isNilConst(w.Val) {
				continue
			}
			if fa, ok := w.Instr.(*ssa.Store).Addr.(*ssa.FieldAddr); ok {
				if _, isAlloc := fa.X.(*ssa.Alloc); isAlloc {
					continue
				}
			}
			n++
			key := "clear-waiter@" + funcName(w.Fn)
			// the reader: a successful frame read dominates the clear
			reader := false
			eachInstr(w.Fn, func(x ssa.Instruction) {
				if ci, ok := x.(*ssa.Call); ok && callName(ci) == "pkg/dnsutils.ReadRawMsgFromTCP" && instrDominates(x, w.Instr) {
					reader = true
				}
			})
			identity := false
			for _, g := range guardsOfInstr(w.Instr) {
				if cm, ok := g.asCmp(); ok && cm.Op == token.EQL && !isNilConst(cm.Y) {
					if k, ok := loadedField(cm.X); ok && k == slot {
						identity = true
					}
					if k, ok := loadedField(cm.Y); ok && k == slot {
						identity = true
					}
				}
			}
			c.check(reader || identity, key, instrPos(w.Instr), "cleared by the reader after it read the reply",
				"the waiter slot is cleared outside the reader without checking that it still holds the clearing caller's own channel: a cancelled caller wipes the registration of the next caller on the same connection, whose reply is then dropped as unexpected")
		}
		if n == 0 {
			c.anchorMissing("clearing store of reusableConn.waitingResp")
		}
	}

	// ---------------------------------------------------------------- R5
	c.rule("R5", "a registered waiter is never overwritten: inserts happen only on the absent edge of a same-key lookup", 1)
	{
		lf := p.newLockFacts()
		lf.analyseScope(fns)
		inserter, keyBase := checkWaiterInsertAbsent(c, lf)

		c.rule("R9", "the waiter is registered under the 16-bit id that goes on the wire and that the reader looks up (a reply to a registered query always finds its waiter)", 2)
		if inserter != nil {
			is16 := false
			if keyBase != nil {
				if b, ok := keyBase.Type().Underlying().(*types.Basic); ok && b.Kind() == types.Uint16 {
					is16 = true
				}
			}
			ret := false
			for _, r := range returnsOf(inserter) {
				rv := returnedValues(r)
				if len(rv) > 0 && keyBase != nil && (rv[0] == keyBase || sameCellValue(keyBase, rv[0])) {
					ret = true
				}
			}
			c.check(is16 && ret, "registered-key-is-wire-id@"+funcName(inserter), inserter.Pos(), "the table key is uint32(id) of the uint16 id returned for the wire",
				"the key under which the waiter is registered is not the widened 16-bit id returned for the wire: once they differ (e.g. a counter past 65535) the reader's lookup by the reply's 16-bit id misses and a reply that arrived in time is dropped")
			// the reader looks up by uint32(uint16 id read at offset 0)
			n := 0
			for _, f := range fns {
				eachInstr(f, func(in ssa.Instruction) {
					lk, ok := in.(*ssa.Lookup)
					if !ok {
						return
					}
					if k, ok := loadedField(lk.X); !ok || k != relTransport+".TraditionalDnsConn.queue" {
						return
					}
					n++
					cv, ok := lk.Index.(*ssa.Convert)
					good := false
					if ok {
						if b, ok := cv.X.Type().Underlying().(*types.Basic); ok && b.Kind() == types.Uint16 {
							good = true
						}
					}
					c.check(good, "lookup-key-is-wire-id@"+funcName(f), instrPos(lk), "the reader's lookup key is uint32(16-bit id)", "the reader does not look the waiter up by the widened 16-bit id")
				})
			}
			if n == 0 {
				c.anchorMissing("reader lookup in TraditionalDnsConn.queue")
			}
		}
	}

	// ---------------------------------------------------------------- R11
	c.rule("R11", "a reply channel is consumed only by the exchange that registered it, and what it receives is what it returns", 4)
	checkReplyChanConsumers(c, fns)

	// ---------------------------------------------------------------- R12
	c.rule("R12", "a registered waiter stays registered until its exchange returns (removed only by deferred calls; registered once; the table is never emptied)", 3)
	{
		var ins *ssa.Function
		for _, w := range p.whoWrites().byField[relTransport+".TraditionalDnsConn.queue"] {
			if w.Kind == "mapupdate" {
				ins = w.Fn
			}
		}
		if ins == nil {
			c.anchorMissing("insert into TraditionalDnsConn.queue")
		} else {
			checkWaiterLifetime(c, fns, ins)
		}
	}

	// ---------------------------------------------------------------- R14
	c.rule("R14", "a reply that is already delivered wins over the caller's context and over write errors; the reply wait ends when the reader has returned, not when the connection was closed; module-wide: every wait on {context, result} polls the result in its ctx case; the waiting flag has two writers", 15)
	checkDeliveredReplyWins(c)
	checkReaderDoneWakesWaiters(c)
	checkWaitingDeadlineUnconditional(c)
	checkErrorExitWaitsForReader(c)
	checkClaimedReplyDelivered(c)
	checkCtxCasePollsResult(c)
	checkCtxResultSelectsPoll(c)
	checkWaitingFlagWriters(c)
	checkNoDeadlineAfterRelease(c)
	if ex := c.fn(relTransport, "TraditionalDnsConn", "exchange"); ex != nil {
		// D38: a flag set for a query that was answered during its send closes the connection under the next query's reply
		lfA := p.newLockFacts()
		lfA.analyseScope(p.funcsIn(relTransport))
		checkWaitingDeadlineArmed(c, lfA, ex)
	}

	// ---------------------------------------------------------------- R13
	c.rule("R13", "the datagram reader offers the whole receive buffer to every read (a buffer cut to an earlier, short datagram makes the reader drop every later reply)", 1)
	checkDatagramReadBuffer(c)

	// ---------------------------------------------------------------- R10
	c.rule("R10", "every exchange-path function passes its own context, unchanged, to the inner exchange (no added deadline between the caller and the wait)", 6)
	checkCallerCtxPassedOn(c, p.funcsIn(relTransport, relUpstream))

	// ---------------------------------------------------------------- R8
	c.rule("R8", "the stream frame reader takes bytes from the connection only through io.ReadFull on the reader it was given (no reply bytes are dropped at EOF or read ahead)", 2)
	checkFrameReaderReadFull(c)

	// ---------------------------------------------------------------- R4
	c.rule("R4", "the pipelined reader re-arms the idle read deadline before every read", 1)
	for _, f := range fns {
		if f.Signature.Recv() == nil || typeKey(f.Signature.Recv().Type()) != relTransport+".TraditionalDnsConn" {
			continue
		}
		// the reader: the function that sends on channels loaded from queue
		isReader := false
		eachInstr(f, func(in ssa.Instruction) {
			if sel, ok := in.(*ssa.Select); ok && !sel.Blocking {
				for _, st := range sel.States {
					if st.Dir == types.SendOnly {
						isReader = true
					}
				}
			}
		})
		if !isReader {
			continue
		}
		var reads, arms []ssa.Instruction
		eachInstr(f, func(in ssa.Instruction) {
			ci, ok := in.(*ssa.Call)
			if !ok {
				return
			}
			n := callName(ci)
			if n == "invoke:(net.Conn).SetReadDeadline" || strings.HasSuffix(n, ".SetReadDeadline") {
				arms = append(arms, in)
			}
			if sc := staticCallee(ci); sc != nil && len(sc.Blocks) > 0 && sc.Pkg == f.Pkg {
				// a callee that reads from the connection
				rd := false
				eachInstr(sc, func(x ssa.Instruction) {
					if c2, ok := x.(*ssa.Call); ok {
						n2 := callName(c2)
						if n2 == "pkg/dnsutils.ReadRawMsgFromTCP" || n2 == relTransport+".readMsgUdp" {
							rd = true
						}
					}
				})
				if rd {
					reads = append(reads, in)
				}
			}
			if n == "pkg/dnsutils.ReadRawMsgFromTCP" || n == relTransport+".readMsgUdp" {
				reads = append(reads, in)
			}
		})
		for _, rd := range reads {
			key := "read@" + funcName(f)
			okArm := false
			for _, a := range arms {
				if !instrDominates(a, rd) {
					continue
				}
				// re-armed on every iteration: no path from the read back to the read avoiding the arm
				_, loopsWithout := reachAvoiding(rd, func(x ssa.Instruction) bool { return x == rd }, func(x ssa.Instruction) bool { return x == a })
				if !loopsWithout {
					okArm = true
				}
			}
			c.check(okArm, key, instrPos(rd), "SetReadDeadline is re-armed before every read of the loop",
				"a read can be reached without re-arming the read deadline: the short waiting-reply deadline of an earlier exchange stays armed and kills a healthy connection")
		}
	}
}
