package main

import (
	"fmt"
	"go/token"
	"strings"

	"golang.org/x/tools/go/ssa"
)

func init() {
	register(&propDef{
		ID: "C03",
		Explanation: "Decides the structural conditions of 'one reply with the query's own id and question': (R1) the entry handler rejects malformed queries (QR, question count, answer/authority " +
			"records, more than one additional record) before anything runs and returns no reply for them; (R2) the message that is packed is the plugins' response, or a fresh message built with " +
			"SetReply(query) carrying SERVFAIL on the error path / REFUSED on the no-answer path; (R3) RA is forced before packing; (R4) the response OPT is re-attached before the UDP " +
			"truncation, truncation happens iff the query came over UDP with a size from getValidUDPSize, proven within [512, 65535] by interval analysis, and packing comes last; " +
			"(R5) every response a built-in plugin sets originates from SetReply/SetRcode(the query), from unpacking an upstream reply to that query, from the cache copy with rewritten id, " +
			"or from the response of a copy of the same context; (R6) the query's question/id is only modified on a context copy or under a deferred restore registered before anything else " +
			"runs; (R7) redirect restores the question in the reply and prepends the CNAME; (R8) the cache key is injective in the question (else a hit echoes another spelling). " +
			"Arbitrary plugin compositions and miekg's Truncate/Pack are trusted.",
		Assumptions: []string{"dns.Msg.SetReply copies id and question and sets QR", "dns.Msg.Truncate(size) fits the packed message into size bytes and sets TC when records were dropped", "dns.Msg.Len() is an upper bound of the packed size and Truncate drops nothing when Len() <= size (D51)", "upstreams echo the question"},
		Run:         runC03,
	})
}

func runC03(c *Ctx) {
	p := c.P
	h := c.fn(relHandler, "EntryHandler", "Handle")
	if h == nil {
		return
	}
	q := h.Params[2]
	var execCall, packCall, truncCall *ssa.Call
	var streamTruncs []*ssa.Call
	var newCtx *ssa.Call
	// a truncation site is a dns.Msg.Truncate call or a call of a helper that hands (message, size) on to one (D51)
	truncIdx := map[*ssa.Call][2]int{}
	tMsg := func(ci *ssa.Call) ssa.Value {
		if ix, ok := truncIdx[ci]; ok {
			return ci.Call.Args[ix[0]]
		}
		return ci.Call.Args[0]
	}
	tSize := func(ci *ssa.Call) ssa.Value {
		if ix, ok := truncIdx[ci]; ok {
			return ci.Call.Args[ix[1]]
		}
		return ci.Call.Args[1]
	}
	eachInstr(h, func(in ssa.Instruction) {
		ci, ok := in.(*ssa.Call)
		if !ok {
			return
		}
		n := callName(ci)
		switch {
		case ci.Call.IsInvoke() && ci.Call.Method.Name() == "Exec":
			execCall = ci
		case n == "(*github.com/miekg/dns.Msg).Truncate" || truncHelperOf(ci) != nil:
			// the UDP truncation takes a computed size; the stream one (D34) the constant maximum message size
			if th := truncHelperOf(ci); th != nil {
				truncIdx[ci] = [2]int{th.msgIdx, th.sizeIdx}
			}
			if _, isConst := constInt(tSize(ci)); isConst {
				streamTruncs = append(streamTruncs, ci)
			} else {
				truncCall = ci
			}
		case n == relQctx+".NewContext":
			newCtx = ci
		}
	})
	sites := handlerPackSites(p, h)
	if sites.primary != nil {
		packCall = sites.primary.call
	}
	// merged form: `maxSize := 65535; if FromUDP { maxSize = getValidUDPSize(opt) }; resp.Truncate(maxSize)` — one call
	// whose size is a two-way choice on exactly "the query came over UDP"
	var mergedUDPSize ssa.Value
	if truncCall != nil && len(streamTruncs) == 0 {
		if ph, ok := tSize(truncCall).(*ssa.Phi); ok && len(ph.Edges) == 2 {
			var udpV ssa.Value
			streamOK := false
			for _, lf := range expandCases(ph, nil, 0) {
				fromUDP, known, extra := false, false, false
				for _, g := range lf.guards {
					v, truth := g.asBool()
					if k, _ := loadedField(v); strings.HasSuffix(k, ".QueryMeta.FromUDP") {
						fromUDP, known = truth, true
					} else if !g.Derived {
						extra = true
					}
				}
				if !known || extra {
					udpV, streamOK = nil, false
					break
				}
				if fromUDP {
					udpV = lf.val
				} else if n, isC := constInt(lf.val); isC && n == 65535 {
					streamOK = true
				}
			}
			if udpV != nil && streamOK {
				mergedUDPSize = udpV
			}
		}
	}

	c.rule("R2", "the packed message is the plugins' response or SetReply(query) with SERVFAIL (error) / REFUSED (no answer)", 3)
	checkSinglePackSite(c, h)

	// ---------------------------------------------------------------- R1
	c.rule("R1", "malformed queries are rejected before the entry runs and get no reply", 5)
	checkServerUnpackChecksCounts(c)
	if execCall == nil || newCtx == nil {
		c.anchorMissing("Entry.Exec / NewContext in Handle")
	} else {
		type need struct {
			name string
			test func(cm cmp) bool
		}
		lenOf := func(v ssa.Value, field string) bool {
			cl, ok := v.(*ssa.Call)
			if !ok || callName(cl) != "builtin:len" {
				return false
			}
			k, ok := loadedField(cl.Call.Args[0])
			return ok && k == "github.com/miekg/dns.Msg."+field && fieldBase(cl.Call.Args[0].(*ssa.UnOp).X) == ssa.Value(q)
		}
		gs := guardsOfInstr(newCtx)
		has := func(test func(g guard) bool) bool {
			for _, g := range gs {
				if test(g) {
					return true
				}
			}
			return false
		}
		c.check(has(func(g guard) bool {
			v, truth := g.asBool()
			k, ok := loadedField(v)
			return ok && !truth && k == "github.com/miekg/dns.MsgHdr.Response"
		}), "validate:QR", instrPos(newCtx), "QR=1 is rejected", "a message with QR=1 is processed as a query")
		c.check(has(func(g guard) bool {
			cm, ok := g.asCmp()
			if !ok || !lenOf(cm.X, "Question") {
				return false
			}
			n, ok := constInt(cm.Y)
			return ok && n == 1 && cm.Op == token.EQL
		}), "validate:one-question", instrPos(newCtx), "exactly one question required", "queries without exactly one question are processed (the context assumes one question)")
		c.check(has(func(g guard) bool {
			cm, ok := g.asCmp()
			if !ok {
				return false
			}
			n, isC := constInt(cm.Y)
			if !isC || n != 0 || cm.Op != token.LEQ {
				return false
			}
			s := exprStr(cm.X)
			return strings.Contains(s, ".Answer") && strings.Contains(s, ".Ns")
		}), "validate:no-answer-ns", instrPos(newCtx), "queries carrying answer/authority records are rejected", "queries carrying answer or authority records are processed")
		c.check(has(func(g guard) bool {
			cm, ok := g.asCmp()
			if !ok || !lenOf(cm.X, "Extra") {
				return false
			}
			n, ok := constInt(cm.Y)
			return ok && n == 1 && cm.Op == token.LEQ
		}), "validate:extra", instrPos(newCtx), "at most one additional record", "queries with more than one additional record are processed")
		// the rejecting exit returns nil and nothing else happened
		okNil := true
		for _, r := range returnsOf(h) {
			if instrDominates(newCtx, r) {
				continue
			}
			if !isNilConst(returnedValues(r)[0]) {
				okNil = false
			}
		}
		c.check(okNil && instrDominates(newCtx, execCall), "validate:no-reply", instrPos(newCtx), "rejected queries return nil before any processing", "a rejected query still produces a reply or is processed")
	}

	// ---------------------------------------------------------------- R2 / R3 / R4
	c.rule("R2", "the packed message is the plugins' response or SetReply(query) with SERVFAIL (error) / REFUSED (no answer)", 3)
	if packCall == nil {
		c.anchorMissing("call of the pack function in Handle")
		return
	}
	resp := packCall.Call.Args[0]
	errV := ssa.Value(execCall)
	// every return after validation hands back a packed payload; nil only when packing itself failed — and (D40) only
	// when the packing of the fallback SERVFAIL failed too: a response that cannot be packed is still answered
	{
		allSites := append([]*packSite{sites.primary}, sites.fallbacks...)
		isPayload := func(v ssa.Value) bool {
			for _, st := range allSites {
				if st.payload != nil && v == st.payload {
					return true
				}
			}
			return false
		}
		good, n := true, 0
		why := ""
		answered := true
		for _, r := range returnsOf(h) {
			if newCtx == nil || !instrDominates(newCtx, r) {
				continue
			}
			n++
			rv := returnedValues(r)[0]
			leaves := expandCases(rv, nil, 0)
			allPayload := len(leaves) > 0
			for _, l := range leaves {
				if !isPayload(l.val) {
					allPayload = false
				}
			}
			if allPayload {
				continue
			}
			if isNilConst(rv) {
				onPackErr, onFallbackErr := false, false
				for _, g := range guardsOfInstr(r) {
					cm, ok := g.asCmp()
					if !ok || !isNilConst(cm.Y) || cm.Op != token.NEQ {
						continue
					}
					for i, st := range allSites {
						if st.err != nil && cm.X == st.err {
							onPackErr = true
							if i > 0 {
								onFallbackErr = true
							}
						}
					}
				}
				if onPackErr {
					if !onFallbackErr {
						answered = false
					}
					continue
				}
				good, why = false, "a validated query can end without a reply (return nil not caused by a packing error)"
				continue
			}
			good, why = false, "Handle returns "+exprStr(rv)+" instead of the packed reply"
		}
		c.check(good && n > 0, "reply:returned", instrPos(packCall), "after validation every return hands back the packed reply (nil only when packing failed)", why)
		c.check(answered && len(sites.fallbacks) > 0, "pack-failure-answered", instrPos(packCall), "a response that cannot be packed is answered with a fresh SERVFAIL (nil only if that cannot be packed either)",
			"when the response cannot be packed (miekg/dns unpacks some records it refuses to pack, e.g. an HTTPS record with an empty alpn-id) Handle returns nil: the UDP client gets no reply, a TCP connection is closed, and with the cache in front every later query for the question fails the same way until the entry expires (D40)")
		for _, fb := range sites.fallbacks {
			checkFallbackReply(c, h, q, fb, "reply:synth:pack-failure")
		}
	}
	for _, lf := range expandCases(resp, nil, 0) {
		if cl, isCall := lf.val.(*ssa.Call); isCall {
			// a synthesised reply built by a helper: newReply(q, rcode) { m := new(dns.Msg); m.SetReply(q); m.Rcode = rcode }
			if qi, rc, okS := synthReplyCall(cl); okS {
				checkSynthReply(c, lf.val, qi == ssa.Value(q), rc, lf.guards, errV)
				continue
			}
		}
		switch v := lf.val.(type) {
		case *ssa.Call:
			good := callName(v) == "(*"+relQctx+".Context).R" && v.Call.Args[0] == ssa.Value(newCtx)
			noErr := false
			for _, g := range lf.guards {
				if cm, ok := g.asCmp(); ok && cm.X == errV && isNilConst(cm.Y) && cm.Op == token.EQL {
					noErr = true
				}
			}
			c.check(good && noErr, "reply:plugins", valuePos(v), "the plugins' response of this query's context, only when the chain returned no error", "the reply is taken from "+exprStr(v)+" (must be qCtx.R() of this query, only without error)")
		case *ssa.Alloc:
			// fresh message: SetReply(q) and a constant rcode
			setReply := false
			rcode := int64(-1)
			for _, r := range referrers(v) {
				if cl, ok := r.(*ssa.Call); ok && callName(cl) == "(*github.com/miekg/dns.Msg).SetReply" && cl.Call.Args[0] == ssa.Value(v) && cl.Call.Args[1] == ssa.Value(q) {
					setReply = true
				}
				if fa, ok := r.(*ssa.FieldAddr); ok {
					for _, r2 := range referrers(fa) {
						if fa2, ok := r2.(*ssa.FieldAddr); ok {
							if k, _ := fieldKey(fa2); k == "github.com/miekg/dns.MsgHdr.Rcode" {
								for _, r3 := range referrers(fa2) {
									if st, ok := r3.(*ssa.Store); ok {
										rcode, _ = constInt(st.Val)
									}
								}
							}
						}
					}
				}
			}
			checkSynthReply(c, v, setReply, rcode, lf.guards, errV)
		default:
			c.fail("reply:other", valuePos(lf.val), "the packed message can be %s", exprStr(lf.val))
		}
	}

	checkExtRcodeSendable(c)

	c.rule("R3", "RA is forced on every reply before packing", 1)
	{
		good := false
		eachInstr(h, func(in ssa.Instruction) {
			if st, ok := in.(*ssa.Store); ok && instrDominates(in, packCall) {
				if k, _ := fieldKey(st.Addr); k == "github.com/miekg/dns.MsgHdr.RecursionAvailable" && fieldBase(st.Addr) == resp {
					if b, ok := constBool(st.Val); ok && b {
						good = true
					}
				}
			}
		})
		nRA := 0
		eachInstr(h, func(in ssa.Instruction) {
			if st, ok := in.(*ssa.Store); ok {
				if k, _ := fieldKey(st.Addr); k == "github.com/miekg/dns.MsgHdr.RecursionAvailable" {
					nRA++
				}
			}
		})
		// helper form: a NEW helper called with the reply sets RA on its parameter, unconditionally (one count per call)
		raCalls := map[*ssa.Call]bool{}
		eachInstr(h, func(in ssa.Instruction) {
			ci, ok := in.(*ssa.Call)
			if !ok {
				return
			}
			for _, a := range ci.Call.Args {
				for _, hs := range helperFieldStores(h, a) {
					if hs.call != ci || hs.key != "github.com/miekg/dns.MsgHdr.RecursionAvailable" || raCalls[ci] {
						continue
					}
					raCalls[ci] = true
					nRA++
					if b, isB := constBool(hs.st.Val); isB && b && hs.unconditional() && a == resp && instrDominates(ci, packCall) {
						good = true
					}
				}
			}
		})
		c.check(good && nRA == 1+len(sites.fallbacks), "ra-forced", instrPos(packCall), "RecursionAvailable = true is the only RA write (besides the fallback reply's own) and dominates packing", "RA is not set on every reply, or is overwritten afterwards")
	}

	c.rule("R4", "OPT re-attach, then UDP truncation to a size in [512,65507] iff the query came over UDP, then pack; records are dropped only from a reply measured not to fit", 6)
	checkTruncateMeasured(c, h)
	{
		// the append of RespOpt into resp.Extra
		var optStore ssa.Instruction
		eachInstr(h, func(in ssa.Instruction) {
			if st, ok := in.(*ssa.Store); ok {
				if k, _ := fieldKey(st.Addr); k == "github.com/miekg/dns.Msg.Extra" && fieldBase(st.Addr) == resp {
					optStore = in
				}
			}
		})
		if optStore == nil {
			for _, hs := range helperFieldStores(h, resp) {
				if hs.key == "github.com/miekg/dns.Msg.Extra" {
					optStore = hs.call // the append happens inside the helper called here
				}
			}
		}
		if truncCall == nil {
			c.fail("truncate", h.Pos(), "UDP replies are never truncated to the client's advertised size")
		} else {
			// order: optStore before truncate on every path: no path from truncate to optStore, and truncate reachable only after the OPT block
			order := optStore != nil
			if optStore != nil {
				if _, back := reachAvoiding(truncCall, func(x ssa.Instruction) bool { return x == optStore }, nil); back {
					order = false
				}
				// the branch that decides on the OPT append dominates the truncation
				if !optStore.Block().Idom().Dominates(truncCall.Block()) || instrDominates(truncCall, optStore) {
					order = false
				}
			}
			c.check(order, "opt-before-truncate", instrPos(truncCall), "the response OPT is attached before the size is enforced",
				"Truncate runs before the response OPT is re-attached: the 11-byte OPT is not counted and a UDP reply can exceed the advertised size without TC")
			// iff FromUDP: beyond the validation guards, the truncation runs under exactly {FromUDP}
			udp := false
			extra := ""
			base := map[string]bool{}
			for _, g := range guardsOfInstr(newCtx) {
				base[guardKey(g)] = true
			}
			for _, g := range guardsOfInstr(truncCall) {
				if base[guardKey(g)] {
					continue
				}
				v, truth := g.asBool()
				if k, _ := loadedField(v); strings.HasSuffix(k, ".QueryMeta.FromUDP") && truth {
					udp = true
					continue
				}
				if g.Derived {
					continue
				}
				extra = guardText(g)
			}
			if mergedUDPSize != nil && extra == "" {
				udp = true // the choice of the size is what is tied to FromUDP; the call itself runs for every reply
			}
			c.check(udp && extra == "" && tMsg(truncCall) == resp, "truncate-iff-udp", instrPos(truncCall), "the packed reply is truncated exactly for UDP queries",
				"truncation is not tied to exactly 'query arrived over UDP' (extra condition: "+extra+") or does not apply to the reply being packed: some UDP replies exceed the size the client advertised")
			// stream transports (D34): plugins hand over unpacked, uncompressed messages; Truncate(maximum message size) is
			// what turns compression on when the message does not fit 65535 bytes without it. It runs exactly when the query
			// did not come over UDP, on the reply being packed, with the constant 65535, before packing.
			{
				good := len(streamTruncs) == 1
				why := fmt.Sprintf("%d constant-size Truncate calls", len(streamTruncs))
				if mergedUDPSize != nil {
					_, packFirst2 := reachAvoiding(packCall, func(x ssa.Instruction) bool { return x == ssa.Instruction(truncCall) }, nil)
					good = tMsg(truncCall) == resp && !packFirst2
					why = "merged Truncate call"
				} else if good {
					st := streamTruncs[0]
					notUDP, extra2 := false, ""
					for _, g := range guardsOfInstr(st) {
						if base[guardKey(g)] {
							continue
						}
						v, truth := g.asBool()
						if k, _ := loadedField(v); strings.HasSuffix(k, ".QueryMeta.FromUDP") && !truth {
							notUDP = true
							continue
						}
						if g.Derived {
							continue
						}
						extra2 = guardText(g)
					}
					n, _ := constInt(tSize(st))
					_, packFirst2 := reachAvoiding(packCall, func(x ssa.Instruction) bool { return x == ssa.Instruction(st) }, nil)
					switch {
					case !notUDP || extra2 != "":
						good, why = false, "it does not run exactly for non-UDP queries (extra condition: "+extra2+")"
					case tMsg(st) != resp:
						good, why = false, "it is not applied to the reply being packed"
					case n != 65535:
						good, why = false, fmt.Sprintf("its size is %d, not the maximum message size 65535", n)
					case packFirst2:
						good, why = false, "it runs after packing"
					}
				}
				c.check(good, "stream-reply-fits", h.Pos(), "stream replies are compressed (worst case truncated) to 65535 bytes before packing",
					"a TCP/DoT/DoQ reply that only fits 65535 bytes when compressed cannot be packed ("+why+"): the client gets no reply and its connection is closed")
			}
			// truncation before packing
			_, packFirst := reachAvoiding(packCall, func(x ssa.Instruction) bool { return x == ssa.Instruction(truncCall) }, nil)
			c.check(!packFirst, "truncate-before-pack", instrPos(packCall), "packing comes last", "the reply is packed before it is truncated")
			// size from getValidUDPSize(ClientOpt()) within [512, 65535]
			sz := tSize(truncCall)
			if mergedUDPSize != nil {
				sz = mergedUDPSize
			}
			if cl, ok := sz.(*ssa.Call); ok && callName(cl) == relHandler+".getValidUDPSize" {
				argOK := false
				if a, ok := cl.Call.Args[0].(*ssa.Call); ok && callName(a) == "(*"+relQctx+".Context).ClientOpt" && a.Call.Args[0] == ssa.Value(newCtx) {
					argOK = true
				}
				g := staticCallee(cl)
				lo, hi := int64(1<<62), int64(-1)
				okIv := true
				for _, r := range returnsOf(g) {
					iv, ok := rangeAt(g, r, returnedValues(r)[0], "", nil)
					if !ok {
						okIv = false
						continue
					}
					if iv.lo < lo {
						lo = iv.lo
					}
					if iv.hi > hi {
						hi = iv.hi
					}
				}
				// the size is the advertised one, raised only to the 512-byte minimum
				if g != nil {
					eachInstr(g, func(y ssa.Instruction) {
						if ph, ok := y.(*ssa.Phi); ok {
							for i, e := range ph.Edges {
								n, isC := constInt(e)
								if !isC || n == 0 {
									continue
								}
								// a constant comes in either as the floor (s < 512 -> 512) or as the datagram cap
								// (s > K -> K, D41: K is at most what a UDP datagram carries)
								kind := ""
								for _, g := range guardsOf(ph.Block().Preds[i]) {
									if cm, ok := g.asCmp(); ok {
										if k, isK := constInt(cm.Y); isK && k == n {
											switch cm.Op {
											case token.LSS, token.LEQ:
												kind = "floor"
											case token.GTR, token.GEQ:
												kind = "cap"
											}
											break
										}
									}
								}
								if !(kind == "floor" && n == 512) && !(kind == "cap" && n >= 512 && n <= 65507) {
									okIv = false
								}
							}
						}
					})
				}
				c.check(argOK && okIv && lo >= 512 && hi <= 65507, "udp-size", instrPos(cl), fmt.Sprintf("size = getValidUDPSize(client OPT) in [%d,%d]", lo, hi),
					fmt.Sprintf("the UDP size limit is in [%d,%d] (client OPT used: %v); it must be the advertised size, raised only to the 512-byte minimum and capped at no more than the 65507 bytes a datagram can carry (a larger reply cannot be sent at all: EMSGSIZE, the client gets no reply — D41)", lo, hi, argOK))
			} else {
				c.fail("udp-size", instrPos(truncCall), "the truncation size is %s, not getValidUDPSize(client OPT)", exprStr(sz))
			}
		}
	}

	// ---------------------------------------------------------------- R5
	c.rule("R5", "every response set by a built-in plugin derives from the query it answers", 12)
	runC03R5(c)
	checkHitID(c) // the cache copy must carry the id of the query it now answers

	// ---------------------------------------------------------------- R6
	c.rule("R6", "the query's question / id is modified only on a context copy or under a deferred restore", 2)
	runC03R6(c)

	// ---------------------------------------------------------------- R7
	c.rule("R7", "redirect restores the question name in the reply and prepends a CNAME from the original name to the target", 2)
	if rd := c.fn("plugin/executable/redirect", "Redirect", "Exec"); rd != nil {
		// a store of the saved name into r.Question[i].Name guarded by == target
		restoreOK, cnameOK := false, false
		eachInstr(rd, func(in ssa.Instruction) {
			st, ok := in.(*ssa.Store)
			if !ok {
				return
			}
			k, _ := fieldKey(st.Addr)
			if k == "github.com/miekg/dns.Question.Name" {
				base := exprStr(st.Addr)
				if strings.Contains(base, "Context).R(") {
					for _, g := range guardsOfInstr(in) {
						if cm, ok := g.asCmp(); ok && cm.Op == token.EQL && strings.Contains(exprStr(cm.X), "Context).R(") {
							restoreOK = true
						}
					}
				}
			}
			if k == "github.com/miekg/dns.RR_Header.Name" {
				if al, ok := fieldBase(st.Addr).(*ssa.Alloc); ok && strings.HasSuffix(typeKey(al.Type()), "dns.CNAME") {
					cnameOK = true
				}
			}
		})
		c.check(restoreOK, "redirect:reply-question", rd.Pos(), "question names equal to the target are reset to the original in the reply", "redirect does not restore the original name in the reply's question section")
		c.check(cnameOK, "redirect:cname", rd.Pos(), "a CNAME owner=original is prepended", "redirect does not insert the CNAME from the original name")
	}

	// ---------------------------------------------------------------- R9
	c.rule("R9", "context copies are deep: a copy's query and response are Copy()s of the original's", 2)
	checkContextCopyDeep(c)

	// ---------------------------------------------------------------- R8
	c.rule("R8", "the cache key is injective in the question (a hit must carry the asker's own question)", 37)
	checkCacheKeyLayout(c)
	checkStoreAnswersQuestion(c)
	// the second writer of the key -> answer table: a reloaded dump pairs each key with its own answer
	checkDumpWriterPairing(c)
	if rd := c.fn(relCachePlugin, "Cache", "readDump"); rd != nil {
		checkDumpReaderFields(c, rd)
	}

	// ---------------------------------------------------------------- R12
	c.rule("R12", "what the cache stores shares no memory with the live response (a later plugin's in-place rewrite of the reply's question must not end up in the entry that answers another name)", 5)
	checkCopyHelperDeep(c)

	// ---------------------------------------------------------------- R15
	c.rule("R15", "a stream server answers every query it has read: the connection is closed only after its in-flight handlers finished", 1)
	checkStreamServerAnswersInflight(c)

	// ---------------------------------------------------------------- R16
	c.rule("R16", "every pipelined query on a stream is read: the frame reader gets the connection itself (no per-frame buffering wrapper), after a framing error the stream is not read again", 6)
	checkFrameDiscipline(c)

	// ---------------------------------------------------------------- R14
	c.rule("R14", "a query that fits DNS also fits the DoH GET request: the HTTP server's header limit leaves room for the base64 query", 1)
	checkHTTPHeaderLimit(c)

	// ---------------------------------------------------------------- R13
	c.rule("R13", "who may write a message's identity (id, question): only the known sites; a reply gets its question once", 18)
	checkIdentityWriters(c)

	// ---------------------------------------------------------------- R11
	c.rule("R11", "the server tells the handler how the query arrived: FromUDP is the constant true exactly at the datagram server's Handle call", 3)
	for _, f := range p.funcsIn(relServer) {
		fn := f
		eachInstr(f, func(in ssa.Instruction) {
			ci, ok := in.(*ssa.Call)
			if !ok || !ci.Call.IsInvoke() || ci.Call.Method.Name() != "Handle" || len(ci.Call.Args) < 3 {
				return
			}
			c.see(fn)
			top := fn
			for top.Parent() != nil {
				top = top.Parent()
			}
			isUDP := top.Name() == "ServeUDP"
			if !isUDP && isNewHelper(top) {
				// the per-query goroutine of the datagram server as a function of its own
				sites, asValue := callSitesOf(top)
				all := !asValue && len(sites) > 0
				for _, st := range sites {
					r := st.Parent()
					for r.Parent() != nil {
						r = r.Parent()
					}
					if r.Name() != "ServeUDP" {
						all = false
					}
				}
				isUDP = all
			}
			key := "from-udp@" + funcName(top)
			// the QueryMeta argument: a struct value; find the store into its FromUDP field
			val := "unset"
			meta := ci.Call.Args[2]
			// the struct is built by the caller of a NEW per-query function and handed in as a parameter
			if prm, isP := meta.(*ssa.Parameter); isP && isNewHelper(top) && prm.Parent() == top {
				idx := -1
				for i, q := range top.Params {
					if q == prm {
						idx = i
					}
				}
				if sites, asValue := callSitesOf(top); idx >= 0 && !asValue && len(sites) == 1 {
					if cc, ok := sites[0].(ssa.CallInstruction); ok && idx < len(cc.Common().Args) {
						meta = cc.Common().Args[idx]
					}
				}
			}
			if ld, ok := meta.(*ssa.UnOp); ok && ld.Op == token.MUL {
				if al, ok := ld.X.(*ssa.Alloc); ok {
					for _, r := range referrers(al) {
						if fa, ok := r.(*ssa.FieldAddr); ok {
							if k, _ := fieldKey(fa); strings.HasSuffix(k, ".QueryMeta.FromUDP") {
								for _, r2 := range referrers(fa) {
									if st, ok := r2.(*ssa.Store); ok {
										if b, isB := constBool(st.Val); isB {
											val = map[bool]string{true: "true", false: "false"}[b]
										} else {
											val = "non-constant"
										}
									}
								}
							}
						}
					}
				} else {
					val = "unknown"
				}
			} else if _, isC := meta.(*ssa.Const); !isC {
				val = "unknown"
			}
			if isUDP {
				c.check(val == "true", key, instrPos(in), "the datagram server passes FromUDP: true", "the datagram server calls the handler with FromUDP "+val+": replies are never truncated to the size the client can receive")
			} else {
				c.check(val == "unset" || val == "false", key, instrPos(in), "stream/HTTP servers do not claim UDP", "a stream or HTTP server calls the handler with FromUDP "+val+": its replies are truncated as if they went over UDP")
			}
		})
	}

	// ---------------------------------------------------------------- R10
	c.rule("R10", "the bytes sent are the packed reply: the packer returns a pool buffer of its own holding the message, and no pooled buffer (module-wide) is used, stored, returned or released again after its release", 26)
	checkPackBufferExact(c)
	checkBufferTypestate(c, p.Funcs)
}

// runC03R5: provenance of SetResponse arguments.
func runC03R5(c *Ctx) {
	p := c.P
	tr := p.newTracer()
	tr.throughChans = true
	tr.throughFields = true
	tr.throughParams = true
	tr.throughCalls = true
	tr.maxDepth = 10
	var lastQCalls []*ssa.Call
	isQ := func(v ssa.Value) bool {
		// value derived from (*Context).Q() (possibly passed down as a parameter)
		t2 := p.newTracer()
		t2.throughCalls = false
		t2.throughFields = false
		t2.throughParams = true
		roots := t2.origins(v)
		lastQCalls = nil
		if len(roots) == 0 {
			return false
		}
		for _, r := range roots {
			if cl, ok := r.(*ssa.Call); ok && callName(cl) == "(*"+relQctx+".Context).Q" {
				lastQCalls = append(lastQCalls, cl)
			}
			if prm, ok := r.(*ssa.Parameter); ok {
				// an exported entry point without callers inside mosdns: its caller supplies the query
				fn := prm.Parent()
				if fn.Object() != nil && fn.Object().Exported() && len(t2.callersOf(fn)) == 0 && strings.HasSuffix(prm.Type().String(), "dns.Msg") {
					continue
				}
			}
			cl, ok := r.(*ssa.Call)
			if !ok || callName(cl) != "(*"+relQctx+".Context).Q" {
				return false
			}
		}
		return true
	}
	tr.stop = func(v ssa.Value) bool {
		if cl, ok := v.(*ssa.Call); ok {
			n := callName(cl)
			if n == "(*"+relQctx+".Context).R" {
				return true
			}
		}
		if ex, ok := v.(*ssa.Extract); ok {
			if cl, ok := ex.Tuple.(*ssa.Call); ok && callName(cl) == relCachePlugin+".getRespFromCache" {
				return true
			}
		}
		return false
	}
	for _, f := range p.Funcs {
		if f.Pkg == nil || !strings.Contains(f.Pkg.Pkg.Path(), "/plugin/") {
			continue
		}
		fn := f
		eachInstr(f, func(in ssa.Instruction) {
			ci, ok := in.(*ssa.Call)
			if !ok || callName(ci) != "(*"+relQctx+".Context).SetResponse" {
				return
			}
			c.see(fn)
			key := "set-response@" + funcName(fn)
			arg := ci.Call.Args[1]
			if isNilConst(arg) {
				c.ok(key, instrPos(in), "clears the response")
				return
			}
			var bad []string
			n := 0
			for _, r := range tr.origins(arg) {
				if isNilConst(r) {
					continue
				}
				n++
				switch v := r.(type) {
				case *ssa.Alloc:
					// new(dns.Msg): SetReply/SetRcode(Q) or Unpack(upstream reply)
					okAlloc := false
					for _, rr := range referrers(v) {
						cl, ok := rr.(*ssa.Call)
						if !ok || len(cl.Call.Args) < 2 || cl.Call.Args[0] != ssa.Value(v) {
							continue
						}
						switch callName(cl) {
						case "(*github.com/miekg/dns.Msg).SetReply", "(*github.com/miekg/dns.Msg).SetRcode":
							if isQ(cl.Call.Args[1]) {
								okAlloc = true
								// the query of the very context the response is set on (not of a copy whose question may
								// have been rewritten)
								tl := p.newTracer()
								tl.throughCalls, tl.throughFields, tl.throughParams = false, false, false
								want := map[ssa.Value]bool{}
								for _, o := range tl.origins(ci.Call.Args[0]) {
									want[o] = true
								}
								for _, qc := range lastQCalls {
									if qc.Parent() != fn && (fn.Parent() == nil || qc.Parent() != fn.Parent()) && (qc.Parent().Parent() != fn) {
										continue // Q() taken in another function (passed down): not comparable here
									}
									same := false
									for _, o := range tl.origins(qc.Call.Args[0]) {
										if want[o] {
											same = true
										}
									}
									if !same {
										okAlloc = false
										bad = append(bad, "a reply built from the query of another context ("+exprStr(qc.Call.Args[0])+") than the one it is set on")
									}
								}
							}
						case "(*github.com/miekg/dns.Msg).Unpack":
							// bytes from an upstream ExchangeContext result
							t3 := p.newTracer()
							t3.throughCalls, t3.throughFields, t3.throughParams = false, false, false
							src := cl.Call.Args[1]
							if ld, ok := src.(*ssa.UnOp); ok && ld.Op == token.MUL {
								src = ld.X
							}
							for _, b := range t3.origins(src) {
								if ex, ok := b.(*ssa.Extract); ok {
									if c2, ok := ex.Tuple.(*ssa.Call); ok && strings.HasSuffix(callName(c2), ".ExchangeContext") {
										okAlloc = true
									}
								}
							}
						}
					}
					if !okAlloc {
						bad = append(bad, "a new message at "+p.pos(v.Pos())+" that is neither SetReply/SetRcode(query) nor an unpacked upstream reply")
					}
				case *ssa.Call:
					if callName(v) == "(*"+relQctx+".Context).R" {
						// response of a copy of this context
						t3 := p.newTracer()
						t3.throughCalls, t3.throughFields, t3.throughParams = false, false, true // a worker function gets its copy as an argument
						okCopy := true
						for _, b := range t3.origins(v.Call.Args[0]) {
							if c2, ok := b.(*ssa.Call); !ok || callName(c2) != "(*"+relQctx+".Context).Copy" {
								okCopy = false
							}
						}
						if !okCopy {
							bad = append(bad, "R() of a context that is not a copy of this query's context")
						}
					} else {
						bad = append(bad, exprStr(v))
					}
				case *ssa.Extract:
					// cache copy (id rewritten: C10-R3 / checked there)
				default:
					bad = append(bad, exprStr(r))
				}
			}
			if n == 0 {
				bad = append(bad, "no origin found")
			}
			if len(bad) == 0 {
				c.ok(key, instrPos(in), "response derives from the query (%d origin(s))", n)
			} else {
				c.fail(key, instrPos(in), "the response set here can be %s: the client may get a reply with another id or question", strings.Join(bad, "; "))
			}
		})
	}
}

// runC03R6: stores into the query message outside query_context.
func runC03R6(c *Ctx) {
	p := c.P
	for _, f := range p.Funcs {
		if f.Pkg == nil || strings.HasSuffix(f.Pkg.Pkg.Path(), relQctx) || strings.HasSuffix(f.Pkg.Pkg.Path(), "/tools") {
			continue
		}
		fn := f
		eachInstr(f, func(in ssa.Instruction) {
			st, ok := in.(*ssa.Store)
			if !ok {
				return
			}
			k, ok := fieldKey(st.Addr)
			if !ok || !(strings.HasPrefix(k, "github.com/miekg/dns.Question.") || k == "github.com/miekg/dns.MsgHdr.Id") {
				return
			}
			// base message = Q() of some context? (structural walk; locals and captured variables resolved)
			msgBase := func(addr ssa.Value) ssa.Value {
				base := fieldBase(addr)
				for i := 0; i < 8; i++ {
					switch x := base.(type) {
					case *ssa.IndexAddr:
						base = fieldBase(x.X)
						continue
					case *ssa.UnOp:
						if x.Op == token.MUL {
							if _, isFA := x.X.(*ssa.FieldAddr); isFA {
								base = fieldBase(x.X)
								continue
							}
						}
					}
					break
				}
				return base
			}
			t4 := p.newTracer()
			t4.throughCalls, t4.throughFields, t4.throughParams = false, false, false
			roots := t4.origins(msgBase(st.Addr))
			var qCall *ssa.Call
			for _, r := range roots {
				if cl, ok := r.(*ssa.Call); ok && callName(cl) == "(*"+relQctx+".Context).Q" {
					qCall = cl
				}
			}
			if qCall == nil || len(roots) != 1 {
				return
			}
			c.see(fn)
			key := "query-write@" + funcName(fn) + ":" + fieldTail(k)
			// (a) on a copy
			onCopy := true
			for _, r := range t4.origins(qCall.Call.Args[0]) {
				if cl, ok := r.(*ssa.Call); !ok || callName(cl) != "(*"+relQctx+".Context).Copy" {
					onCopy = false
				}
			}
			if onCopy {
				c.ok(key, instrPos(in), "modifies the query of a context copy")
				return
			}
			// (b) inside a deferred restore closure itself
			if fn.Parent() != nil {
				deferred := false
				eachInstr(fn.Parent(), func(x ssa.Instruction) {
					if d, ok := x.(*ssa.Defer); ok && staticCallee(d) == fn {
						deferred = true
					}
				})
				if deferred {
					// the very message that was changed is restored: the message is the one fetched by the enclosing function
					// before the change (captured), not whatever qCtx.Q() returns when the defer runs (a later plugin may
					// have replaced the context's contents, while the server still holds the original message)
					if qCall.Parent() != fn.Parent() {
						c.fail(key, instrPos(in), "the deferred restore writes into the message that qCtx.Q() returns at that time, not into the message that was changed: when a later plugin replaced the context (dual-stack selector) the server's query message keeps the rewritten name and the reply carries it")
						return
					}
					c.check(isSavedOriginal(p, st.Val, k), key, instrPos(in), "the deferred restore writes back the value loaded before the change",
						"the deferred restore writes "+exprStr(st.Val)+", not the unmodified value that was loaded from the query before it was changed: the reply is built for another spelling of the question than the client asked")
					return
				}
			}
			// (c) followed immediately by a deferred restore of the same location with the saved original
			restored := false
			eachInstr(fn, func(x ssa.Instruction) {
				d, ok := x.(*ssa.Defer)
				if !ok || !instrDominates(in, x) {
					return
				}
				cf := staticCallee(d)
				if cf == nil {
					return
				}
				// no call between the store and the defer
				if _, call := reachAvoiding(in, func(y ssa.Instruction) bool {
					_, isCall := y.(*ssa.Call)
					return isCall && y != x
				}, func(y ssa.Instruction) bool { return y == x }); call {
					return
				}
				eachInstr(cf, func(y ssa.Instruction) {
					if s2, ok := y.(*ssa.Store); ok {
						if k2, _ := fieldKey(s2.Addr); k2 == k {
							restored = true
						}
					}
				})
			})
			c.check(restored, key, instrPos(in), "restored by a defer registered right after the change", "the query's "+fieldTail(k)+" is changed without a deferred restore: when the rest of the chain fails or panics the reply is built for the rewritten question")
		})
	}
	// setter-helper form: `setQName(q, target); defer setQName(q, original)` — a NEW helper whose body stores its value
	// parameter into the question / id of its message parameter
	for _, h := range p.Funcs {
		if !isNewHelper(h) || len(withAnon(h)) != 1 {
			continue
		}
		mi, vi, k := -1, -1, ""
		nStores := 0
		eachInstr(h, func(in ssa.Instruction) {
			st, ok := in.(*ssa.Store)
			if !ok {
				return
			}
			kk, ok := fieldKey(st.Addr)
			if !ok || !(strings.HasPrefix(kk, "github.com/miekg/dns.Question.") || kk == "github.com/miekg/dns.MsgHdr.Id") {
				return
			}
			nStores++
			base := fieldBase(st.Addr)
			for i := 0; i < 8; i++ {
				switch x := base.(type) {
				case *ssa.IndexAddr:
					base = fieldBase(x.X)
					continue
				case *ssa.UnOp:
					if x.Op == token.MUL {
						if _, isFA := x.X.(*ssa.FieldAddr); isFA {
							base = fieldBase(x.X)
							continue
						}
					}
				}
				break
			}
			for i, prm := range h.Params {
				if base == ssa.Value(prm) {
					mi = i
				}
				if st.Val == ssa.Value(prm) {
					vi = i
				}
			}
			k = kk
		})
		if nStores != 1 || mi < 0 || vi < 0 {
			continue
		}
		sites, asValue := callSitesOf(h)
		if asValue {
			continue
		}
		t4 := p.newTracer()
		t4.throughCalls, t4.throughFields, t4.throughParams = false, false, false
		for _, site := range sites {
			ci := site.(ssa.CallInstruction)
			if len(ci.Common().Args) <= mi || len(ci.Common().Args) <= vi {
				continue
			}
			msg := ci.Common().Args[mi]
			isQ := false
			for _, r := range t4.origins(msg) {
				if cl, ok := r.(*ssa.Call); ok && callName(cl) == "(*"+relQctx+".Context).Q" {
					isQ = true
				}
			}
			if !isQ {
				continue
			}
			fn := site.Parent()
			c.see(fn)
			key := "query-write@" + funcName(fn) + ":" + fieldTail(k)
			if _, isDefer := site.(*ssa.Defer); isDefer {
				c.check(isSavedOriginal(p, ci.Common().Args[vi], k), key+":restore", instrPos(site), "the deferred restore writes back the value loaded before the change",
					"the deferred restore writes "+exprStr(ci.Common().Args[vi])+", not the unmodified value that was loaded from the query before it was changed")
				continue
			}
			restored := false
			eachInstr(fn, func(x ssa.Instruction) {
				d, ok := x.(*ssa.Defer)
				if !ok || !instrDominates(site, x) || staticCallee(d) != h || d.Call.Args[mi] != msg {
					return
				}
				if _, call := reachAvoiding(site, func(y ssa.Instruction) bool {
					_, isCall := y.(*ssa.Call)
					return isCall && y != x
				}, func(y ssa.Instruction) bool { return y == x }); call {
					return
				}
				restored = true
			})
			c.check(restored, key, instrPos(site), "restored by a deferred call of the same setter on the same message, registered right after the change", "the query's "+fieldTail(k)+" is changed without a deferred restore: when the rest of the chain fails or panics the reply is built for the rewritten question")
		}
	}
}

// guardText renders a guard position-independently (condition and truth).
func guardText(g guard) string {
	if cm, ok := g.asCmp(); ok {
		return exprStr(cm.X) + " " + cm.Op.String() + " " + exprStr(cm.Y)
	}
	v, truth := g.asBool()
	if v != nil {
		if truth {
			return exprStr(v)
		}
		return "!" + exprStr(v)
	}
	return "?"
}

// checkContextCopyDeep implements C03-R9 / C15-R8.
func checkContextCopyDeep(c *Ctx) {
	if ct := c.fn(relQctx, "Context", "CopyTo"); ct != nil {
		for _, fld := range []string{"query", "resp"} {
			good, n := true, 0
			eachInstr(ct, func(in ssa.Instruction) {
				st, ok := in.(*ssa.Store)
				if !ok {
					return
				}
				if k, _ := fieldKey(st.Addr); k != relQctx+".Context."+fld {
					return
				}
				n++
				cl, ok := st.Val.(*ssa.Call)
				if !ok || callName(cl) != "(*github.com/miekg/dns.Msg).Copy" {
					good = false
					return
				}
				if k, _ := loadedField(cl.Call.Args[0]); k != relQctx+".Context."+fld {
					good = false
				}
			})
			c.check(good && n > 0, "deep-copy:"+fld, ct.Pos(), "copy."+fld+" = original."+fld+".Copy()",
				"a context copy shares its "+fld+" message with the original: plugins that rewrite the question or response on a 'copy' (dual-stack selector, fallback, lazy refresh) change the live query")
		}
	}
}

// checkSinglePackSite (C03-R2, C15-R5): the pack function handed to Handle is called at exactly one place and not
// passed on, so every reply goes through the steps that dominate that call (RA, OPT re-attachment, truncation).
func checkSinglePackSite(c *Ctx, h *ssa.Function) {
	p := c.P
	// the pack function is used exactly once, directly: every reply goes through the steps checked below
	{
		sites := handlerPackSites(p, h)
		c.check(sites.primary != nil && sites.problem == "", "single-pack-site", h.Pos(), "the reply is packed at exactly one place in Handle (plus the fallback for a reply that cannot be packed)",
			fmt.Sprintf("the pack function is not called at one place (%s): some replies bypass RA forcing, OPT re-attachment or UDP truncation", sites.problem))
	}
}

// isSavedOriginal: v is (through local variables and closure bindings, not through calls) a plain load of the
// query field with key k.
func isSavedOriginal(p *Prog, v ssa.Value, k string) bool {
	tl := p.newTracer()
	tl.throughCalls, tl.throughFields, tl.throughParams = false, false, false
	os := tl.origins(v)
	if len(os) == 0 {
		return false
	}
	for _, o := range os {
		ld, ok := o.(*ssa.UnOp)
		if !ok || ld.Op != token.MUL {
			return false
		}
		if k2, _ := fieldKey(ld.X); k2 != k {
			return false
		}
	}
	return true
}

// identityWriters: functions that may store into MsgHdr.Id / Question fields / Msg.Question of a
// message that is not a function-local dns.Question value. Each was read; what it writes is decided
// by the rule named.
var identityWriters = map[string]string{
	"(*plugin/executable/redirect.Redirect).Exec":      "rewrites the query name under a deferred restore (R6) and restores it in the reply (R7)",
	"(*plugin/executable/redirect.Redirect).Exec$1":    "the deferred restore (R6)",
	"(*plugin/executable/dual_selector.Selector).Exec": "changes the type on a context copy (R6)",
	"(*plugin/executable/cache.Cache).Exec":            "gives the cached copy the asker's id (R5 hit-id / C10-R3)",
	"plugin/executable/cache.copyNoOpt":                "builds the private copy (R12)",
}

// checkIdentityWriters: (a) no other function stores into the id / question of a message,
// (b) SetQuestion is used only where mosdns is the client (tools, bootstrap), (c) a message gets its
// identity (SetReply / SetRcode / SetQuestion / Unpack) at most once on any path.
func checkIdentityWriters(c *Ctx) {
	p := c.P
	w := p.whoWrites()
	localQuestion := func(addr ssa.Value) bool {
		// a dns.Question value that lives in a local variable (map key, log object, loop copy)
		b := addr
		for i := 0; i < 6; i++ {
			switch x := b.(type) {
			case *ssa.FieldAddr:
				b = x.X
				continue
			case *ssa.IndexAddr:
				b = x.X
				continue
			}
			break
		}
		al, ok := b.(*ssa.Alloc)
		if !ok {
			return false
		}
		tk := typeKey(al.Type())
		return strings.HasSuffix(tk, "dns.Question") || strings.HasSuffix(tk, "dns.MsgHdr")
	}
	seen := map[ssa.Instruction]bool{}
	for _, k := range []string{"github.com/miekg/dns.Question.Name", "github.com/miekg/dns.Question.Qtype", "github.com/miekg/dns.Question.Qclass", "github.com/miekg/dns.MsgHdr.Id", "github.com/miekg/dns.Msg.Question", "github.com/miekg/dns.Msg.MsgHdr"} {
		for _, fw := range w.byField[k] {
			if fw.Fn.Pkg == nil || strings.HasSuffix(fw.Fn.Pkg.Pkg.Path(), "/tools") || seen[fw.Instr] {
				continue
			}
			seen[fw.Instr] = true
			if st, ok := fw.Instr.(*ssa.Store); ok && localQuestion(st.Addr) {
				continue
			}
			// a whole message copied by value into a local (`m := *r`): id and question come along unchanged
			if st, ok := fw.Instr.(*ssa.Store); ok {
				if al, isAl := st.Addr.(*ssa.Alloc); isAl && strings.HasSuffix(typeKey(al.Type()), "dns.Msg") {
					if ld, isLd := st.Val.(*ssa.UnOp); isLd && ld.Op == token.MUL {
						continue
					}
				}
			}
			c.see(fw.Fn)
			key := "identity-write@" + funcName(fw.Fn) + ":" + fieldTail(k)
			why, known := identityWriters[funcName(fw.Fn)]
			if !known && isNewHelper(fw.Fn) {
				// a NEW helper that only the known writers call does their writing for them (the rules named there decide
				// what is written: they look into such helpers)
				sites, asValue := callSitesOf(fw.Fn)
				all := !asValue && len(sites) > 0
				for _, st := range sites {
					par := st.Parent()
					if _, ok := identityWriters[funcName(par)]; !ok {
						all = false
					}
				}
				if all {
					known, why = true, "helper of a known writer"
				}
			}
			c.check(known, key, instrPos(fw.Instr), why,
				"writes the "+fieldTail(k)+" of a DNS message outside the known sites: a reply whose id or question was rewritten on the way out is not the reply to the client's query (if this is a new, correct writer it must be added to the table with the rule that decides it)")
		}
	}
	idCalls := map[string]bool{
		"(*github.com/miekg/dns.Msg).SetReply": true, "(*github.com/miekg/dns.Msg).SetRcode": true, "(*github.com/miekg/dns.Msg).SetQuestion": true,
		"(*github.com/miekg/dns.Msg).SetRcodeFormatError": true, "(*github.com/miekg/dns.Msg).Unpack": true, "(*github.com/miekg/dns.Msg).SetUpdate": true,
		"(*github.com/miekg/dns.Msg).SetNotify": true, "(*github.com/miekg/dns.Msg).SetAxfr": true, "(*github.com/miekg/dns.Msg).SetIxfr": true,
	}
	for _, f := range p.Funcs {
		if f.Pkg == nil || strings.HasSuffix(f.Pkg.Pkg.Path(), "/tools") {
			continue
		}
		fn := f
		eachInstr(f, func(in ssa.Instruction) {
			cl, ok := in.(*ssa.Call)
			if !ok || !idCalls[callName(cl)] || len(cl.Call.Args) == 0 {
				return
			}
			c.see(fn)
			n := callName(cl)
			short := n[strings.LastIndex(n, ".")+1:]
			if short == "SetQuestion" || short == "SetUpdate" || short == "SetNotify" || short == "SetAxfr" || short == "SetIxfr" {
				okPkg := strings.HasSuffix(fn.Pkg.Pkg.Path(), "/pkg/upstream/bootstrap")
				c.check(okPkg, "set-question@"+funcName(fn), instrPos(in), "mosdns is the client here (bootstrap resolver)",
					short+" on a message outside the bootstrap resolver: a reply must carry the question of the query it answers, not one made up here")
			}
			recv := cl.Call.Args[0]
			if _, bad := reachAvoiding(in, func(y ssa.Instruction) bool {
				c2, ok := y.(*ssa.Call)
				if !ok || y == in || !idCalls[callName(c2)] || len(c2.Call.Args) == 0 || c2.Call.Args[0] != recv {
					return false
				}
				// SetReply / SetRcode again from the very same request: same id and question
				n2 := callName(c2)
				if (strings.HasSuffix(n2, ".SetReply") || strings.HasSuffix(n2, ".SetRcode")) && (short == "SetReply" || short == "SetRcode") &&
					len(cl.Call.Args) > 1 && len(c2.Call.Args) > 1 && c2.Call.Args[1] == cl.Call.Args[1] {
					return false
				}
				return true
			}, nil); bad {
				c.fail("identity-once@"+funcName(fn), instrPos(in), "the message %s gets its id/question a second time after this %s: the later call decides what the client sees", exprStr(recv), short)
			} else {
				c.ok("identity-once@"+funcName(fn)+":"+short, instrPos(in), "no second identity-setting call on the same message")
			}
		})
	}
}

// checkSynthReply classifies one synthesised reply by the conditions it is built under and checks its rcode.
func checkSynthReply(c *Ctx, v ssa.Value, setReply bool, rcode int64, guards []guard, errV ssa.Value) {
	onErr, onNil, onExt, noRespOpt := false, false, false, false
	for _, g := range guards {
		if cm, ok := g.asCmp(); ok && cm.X == errV && isNilConst(cm.Y) && cm.Op == token.NEQ {
			onErr = true
		}
		if cm, ok := g.asCmp(); ok && isNilConst(cm.Y) && cm.Op == token.EQL && cm.X != errV {
			if cl, isC := cm.X.(*ssa.Call); isC && callName(cl) == "(*"+relQctx+".Context).RespOpt" {
				noRespOpt = true
			} else {
				onNil = true
			}
		}
		// resp.Rcode > 15 (an extended rcode)
		if cm, ok := g.asCmp(); ok && cm.Op == token.GTR {
			if k, isF := loadedField(cm.X); isF && k == "github.com/miekg/dns.MsgHdr.Rcode" {
				if n, isC := constInt(cm.Y); isC && n == 15 {
					onExt = true
				}
			}
		}
	}
	want := int64(-1)
	what := "?"
	if onErr {
		want, what = 2, "SERVFAIL on the error path"
	} else if onExt && noRespOpt {
		// D20: an rcode > 15 needs an OPT; a client without EDNS0 cannot get it (the message cannot even be packed)
		want, what = 2, "SERVFAIL when an extended rcode cannot be sent (no OPT for this client)"
	} else if onNil {
		want, what = 5, "REFUSED when no answer was produced"
	}
	c.check(setReply && rcode == want && want > 0, "reply:synth:"+what, valuePos(v), "fresh SetReply(q) with "+what,
		fmt.Sprintf("synthesised reply is wrong (SetReply(query): %v, rcode %d, expected %s): the client gets a reply without its id/question or with the wrong rcode", setReply, rcode, what))
}

// synthReplyCall: cl calls a helper of the analysed module whose every return hands back a message it allocated,
// on which it called SetReply(<parameter qi>) and stored <parameter ri or a constant> into Rcode, and nothing else.
// Returns the query argument and the rcode (constant argument or constant of the helper) at this call site.
func synthReplyCall(cl *ssa.Call) (ssa.Value, int64, bool) {
	h := cl.Call.StaticCallee()
	if h == nil || len(h.Blocks) == 0 || !inMosdns(h) {
		return nil, 0, false
	}
	var al *ssa.Alloc
	for _, r := range returnsOf(h) {
		if len(r.Results) != 1 {
			return nil, 0, false
		}
		a, ok := r.Results[0].(*ssa.Alloc)
		if !ok || (al != nil && al != a) {
			return nil, 0, false
		}
		al = a
	}
	if al == nil || !strings.HasSuffix(typeKey(al.Type()), "dns.Msg") {
		return nil, 0, false
	}
	qi, ri := -1, -1
	rconst := int64(-1)
	clean := true
	eachInstr(h, func(in ssa.Instruction) {
		switch x := in.(type) {
		case *ssa.Call:
			if callName(x) == "(*github.com/miekg/dns.Msg).SetReply" && x.Call.Args[0] == ssa.Value(al) {
				for i, prm := range h.Params {
					if x.Call.Args[1] == ssa.Value(prm) {
						qi = i
					}
				}
				return
			}
			clean = false
		case *ssa.Store:
			if fieldBase(x.Addr) != ssa.Value(al) {
				clean = false
				return
			}
			if k, _ := fieldKey(x.Addr); k != "github.com/miekg/dns.MsgHdr.Rcode" {
				clean = false
				return
			}
			if n, isC := constInt(x.Val); isC {
				rconst = n
				return
			}
			for i, prm := range h.Params {
				if x.Val == ssa.Value(prm) {
					ri = i
				}
			}
		}
	})
	if !clean || qi < 0 || qi >= len(cl.Call.Args) {
		return nil, 0, false
	}
	rc := rconst
	if ri >= 0 && ri < len(cl.Call.Args) {
		n, isC := constInt(cl.Call.Args[ri])
		if !isC {
			return nil, 0, false
		}
		rc = n
	}
	if rc < 0 {
		return nil, 0, false
	}
	return cl.Call.Args[qi], rc, true
}
