package main

import (
	"fmt"
	"go/ast"
	"go/token"
	"go/types"
	"os"
	"sort"
	"strings"

	"golang.org/x/tools/go/callgraph"
	"golang.org/x/tools/go/callgraph/cha"
	"golang.org/x/tools/go/callgraph/vta"
	"golang.org/x/tools/go/packages"
	"golang.org/x/tools/go/ssa"
	"golang.org/x/tools/go/ssa/ssautil"
)

const modPath = "github.com/IrineSistiana/mosdns/v5"

// Prog is the loaded, type-checked, SSA-built view of /repo's working tree.
type Prog struct {
	Dir     string
	Fset    *token.FileSet
	Pkgs    []*packages.Package // mosdns packages only (non-test)
	ByPath  map[string]*packages.Package
	SSA     *ssa.Program
	SSAPkg  map[string]*ssa.Package
	Funcs   []*ssa.Function // every source function (incl. anonymous) of mosdns packages
	Env     []string
	Config  string // e.g. linux/amd64
	astFunc map[*ssa.Function]ast.Node

	who *whoWrites // lazily built field-store index
	cg  *callgraph.Graph
}

// vta returns the VTA call graph (seeded by CHA) over all functions with bodies; built lazily.
func (p *Prog) vta() *callgraph.Graph {
	if p.cg == nil {
		fns := ssautil.AllFunctions(p.SSA)
		p.cg = vta.CallGraph(fns, cha.CallGraph(p.SSA))
	}
	return p.cg
}

// vtaCallees: functions a call site may invoke according to VTA.
func (p *Prog) vtaCallees(ci ssa.CallInstruction) []*ssa.Function {
	g := p.vta()
	n := g.Nodes[ci.Parent()]
	if n == nil {
		return nil
	}
	var out []*ssa.Function
	for _, e := range n.Out {
		if e.Site == ci && e.Callee != nil && e.Callee.Func != nil {
			out = append(out, e.Callee.Func)
		}
	}
	return out
}

type loadOpts struct {
	dir     string
	goos    string
	goarch  string
	overlay map[string][]byte
}

func load(o loadOpts) (*Prog, error) {
	env := append(os.Environ(),
		"GOFLAGS=-mod=mod", "GOPROXY=off", "GOSUMDB=off", "GOWORK=off", "GOTOOLCHAIN=local", "CGO_ENABLED=0")
	cfgName := "default"
	if o.goos != "" {
		env = append(env, "GOOS="+o.goos)
		cfgName = o.goos
	}
	if o.goarch != "" {
		env = append(env, "GOARCH="+o.goarch)
		cfgName += "/" + o.goarch
	}
	fset := token.NewFileSet()
	cfg := &packages.Config{
		Mode: packages.NeedName | packages.NeedFiles | packages.NeedCompiledGoFiles | packages.NeedImports |
			packages.NeedTypes | packages.NeedTypesSizes | packages.NeedSyntax | packages.NeedTypesInfo | packages.NeedDeps,
		Dir:     o.dir,
		Env:     env,
		Fset:    fset,
		Overlay: o.overlay,
		Tests:   false,
	}
	pkgs, err := packages.Load(cfg, "./...")
	if err != nil {
		return nil, fmt.Errorf("packages.Load: %w", err)
	}
	var errs []string
	packages.Visit(pkgs, nil, func(p *packages.Package) {
		for _, e := range p.Errors {
			errs = append(errs, e.Error())
		}
	})
	if len(errs) > 0 {
		sort.Strings(errs)
		if len(errs) > 10 {
			errs = errs[:10]
		}
		return nil, fmt.Errorf("type/load errors: %s", strings.Join(errs, "; "))
	}
	p := &Prog{Dir: o.dir, Fset: fset, ByPath: map[string]*packages.Package{}, SSAPkg: map[string]*ssa.Package{}, Env: env, Config: cfgName}
	for _, pk := range pkgs {
		if strings.HasPrefix(pk.PkgPath, modPath) {
			p.Pkgs = append(p.Pkgs, pk)
			p.ByPath[pk.PkgPath] = pk
		}
	}
	sort.Slice(p.Pkgs, func(i, j int) bool { return p.Pkgs[i].PkgPath < p.Pkgs[j].PkgPath })
	if len(p.Pkgs) < 60 {
		return nil, fmt.Errorf("only %d mosdns packages loaded (expected >= 60)", len(p.Pkgs))
	}
	// canonical declaring type of every struct (see structCanon)
	canon := map[*types.Struct]*types.Named{}
	for _, pk := range p.Pkgs {
		for _, file := range pk.Syntax {
			ast.Inspect(file, func(n ast.Node) bool {
				ts, ok := n.(*ast.TypeSpec)
				if !ok {
					return true
				}
				if _, isStruct := ts.Type.(*ast.StructType); !isStruct {
					return true
				}
				if obj, ok := pk.TypesInfo.Defs[ts.Name].(*types.TypeName); ok {
					if named, ok := obj.Type().(*types.Named); ok {
						if st, ok := named.Underlying().(*types.Struct); ok {
							canon[st] = named
						}
					}
				}
				return true
			})
		}
	}
	structCanonMu.Lock()
	for k, v := range canon {
		structCanon[k] = v
	}
	structCanonMu.Unlock()
	prog, spkgs := ssautil.Packages(p.Pkgs, ssa.InstantiateGenerics*0)
	p.SSA = prog
	for i, sp := range spkgs {
		if sp == nil {
			return nil, fmt.Errorf("no SSA package for %s", p.Pkgs[i].PkgPath)
		}
		sp.Build()
		p.SSAPkg[p.Pkgs[i].PkgPath] = sp
	}
	// collect every source function of the mosdns packages, including methods and closures
	seen := map[*ssa.Function]bool{}
	var add func(f *ssa.Function)
	add = func(f *ssa.Function) {
		if f == nil || seen[f] || f.Blocks == nil {
			return
		}
		seen[f] = true
		p.Funcs = append(p.Funcs, f)
		for _, a := range f.AnonFuncs {
			add(a)
		}
	}
	for _, pk := range p.Pkgs {
		sp := p.SSAPkg[pk.PkgPath]
		for _, m := range sp.Members {
			switch m := m.(type) {
			case *ssa.Function:
				add(m)
			case *ssa.Type:
				if named, ok := m.Type().(*types.Named); ok {
					for i := 0; i < named.NumMethods(); i++ {
						add(prog.FuncValue(named.Method(i)))
					}
				}
			}
		}
	}
	sort.Slice(p.Funcs, func(i, j int) bool {
		a, b := p.Funcs[i], p.Funcs[j]
		pa, pb := p.Fset.Position(a.Pos()), p.Fset.Position(b.Pos())
		if pa.Filename != pb.Filename {
			return pa.Filename < pb.Filename
		}
		if pa.Offset != pb.Offset {
			return pa.Offset < pb.Offset
		}
		return a.String() < b.String()
	})
	return p, nil
}

// pkgPath expands a module-relative package dir ("pkg/upstream/transport") to its import path.
func pkgPath(rel string) string {
	if rel == "" || rel == "." {
		return modPath
	}
	return modPath + "/" + rel
}

// Func finds a package-level function or a method by name. recv=="" for functions.
func (p *Prog) Func(relPkg, recv, name string) *ssa.Function {
	sp := p.SSAPkg[pkgPath(relPkg)]
	if sp == nil {
		return nil
	}
	if recv == "" {
		return sp.Func(name)
	}
	t := sp.Type(recv)
	if t == nil {
		return nil
	}
	named, ok := t.Type().(*types.Named)
	if !ok {
		return nil
	}
	for i := 0; i < named.NumMethods(); i++ {
		m := named.Method(i)
		if m.Name() == name {
			return p.SSA.FuncValue(m)
		}
	}
	return nil
}

// Named returns the named type relPkg.name (origin for generics).
func (p *Prog) Named(relPkg, name string) *types.Named {
	pk := p.ByPath[pkgPath(relPkg)]
	if pk == nil {
		return nil
	}
	obj := pk.Types.Scope().Lookup(name)
	if obj == nil {
		return nil
	}
	n, _ := obj.Type().(*types.Named)
	return n
}

// FieldIndex returns the index of field f in struct type named, or -1.
func fieldIndex(n *types.Named, f string) int {
	if n == nil {
		return -1
	}
	st, ok := n.Underlying().(*types.Struct)
	if !ok {
		return -1
	}
	for i := 0; i < st.NumFields(); i++ {
		if st.Field(i).Name() == f {
			return i
		}
	}
	return -1
}

func (p *Prog) pos(pos token.Pos) string {
	if !pos.IsValid() {
		return "-"
	}
	ps := p.Fset.Position(pos)
	fn := ps.Filename
	if strings.HasPrefix(fn, p.Dir+"/") {
		fn = fn[len(p.Dir)+1:]
	}
	return fmt.Sprintf("%s:%d", fn, ps.Line)
}

// funcsIn returns all source functions (incl. closures) whose package is relPkg.
func (p *Prog) funcsIn(relPkgs ...string) []*ssa.Function {
	want := map[string]bool{}
	for _, r := range relPkgs {
		want[pkgPath(r)] = true
	}
	var out []*ssa.Function
	for _, f := range p.Funcs {
		if f.Pkg != nil && want[f.Pkg.Pkg.Path()] {
			out = append(out, f)
		}
	}
	return out
}

// withAnon returns f and all closures nested in it.
func withAnon(f *ssa.Function) []*ssa.Function {
	if f == nil {
		return nil
	}
	out := []*ssa.Function{f}
	for _, a := range f.AnonFuncs {
		out = append(out, withAnon(a)...)
	}
	return out
}

// funcName is a stable, position-free name for obligations.
func funcName(f *ssa.Function) string {
	if f == nil {
		return "<nil>"
	}
	s := f.String()
	s = strings.ReplaceAll(s, modPath+"/", "")
	return s
}

// FuncDecl finds the syntax of a package-level function or method.
func (p *Prog) FuncDecl(relPkg, recv, name string) (*ast.FuncDecl, *packages.Package) {
	pk := p.ByPath[pkgPath(relPkg)]
	if pk == nil {
		return nil, nil
	}
	for _, f := range pk.Syntax {
		for _, d := range f.Decls {
			fd, ok := d.(*ast.FuncDecl)
			if !ok || fd.Name.Name != name {
				continue
			}
			r := ""
			if fd.Recv != nil && len(fd.Recv.List) == 1 {
				t := fd.Recv.List[0].Type
				if st, ok := t.(*ast.StarExpr); ok {
					t = st.X
				}
				if ix, ok := t.(*ast.IndexExpr); ok {
					t = ix.X
				}
				if ix, ok := t.(*ast.IndexListExpr); ok {
					t = ix.X
				}
				if id, ok := t.(*ast.Ident); ok {
					r = id.Name
				}
			}
			if r == recv {
				return fd, pk
			}
		}
	}
	return nil, pk
}
