package main

import (
	"fmt"
	"go/token"
	"go/types"
	"sort"
	"strings"

	"golang.org/x/tools/go/ssa"
)

const relDnsutils = "pkg/dnsutils"

func init() {
	register(&propDef{
		ID: "C05",
		Explanation: "Decides the structural conditions of correct ageing and expiry: (R1) the admission table of saveRespToCache — by expanding the lifetime values over every branch: " +
			"NXDOMAIN 30 s, SERVFAIL 5 s, empty NOERROR min(minTTL,300) s, other rcodes 0, each with cache lifetime equal to message lifetime, and only non-empty NOERROR may live for " +
			"lazy_cache_ttl; truncated and non-positive lifetimes are refused; stored/expiry times derive from one clock reading; (R2) only saveRespToCache and the dump loader store; " +
			"(R3) TTL subtraction writes ttl-delta only under ttl>delta, else 1; (R4) a fresh hit is returned only under now.Before(expiry) with delta = now-storedTime, a stale hit only " +
			"with lazy caching enabled and the constant stale TTL 5, everything else misses; (R5) the refresh runs only inside the singleflight function and its key is forgotten only after " +
			"the refresh finished; (R6) Get hides expired entries, the sweep deletes only expired ones; (R7) every TTL-rewriting loop skips OPT. Clock arithmetic at the boundaries is not decided.",
		Assumptions: []string{"golang.org/x/sync/singleflight de-duplicates concurrent calls per key until Forget", "time.Time arithmetic"},
		Run:         runC05,
	})
}

type leafCase struct {
	val    ssa.Value
	guards []guard
	pred   *ssa.BasicBlock // block the value flows from into the innermost phi (nil if v is not a phi)
}

type synthKey struct{ inner, factor ssa.Value }

var synthDur cmap[synthKey, ssa.Value]

// expandCases expands nested phis into (guards, value) leaves.
func expandCases(v ssa.Value, inherited []guard, depth int) []leafCase {
	phi, ok := v.(*ssa.Phi)
	if !ok && depth <= 4 {
		// `time.Duration(x) * time.Second` with the choice made on x (the conversion hoisted out of the branches): the
		// same cases, each wrapped in the conversion again (synthetic values, one per (edge value, factor))
		if bo, isBo := v.(*ssa.BinOp); isBo && bo.Op == token.MUL {
			cvV, k := bo.X, bo.Y
			if _, isC := constInt(cvV); isC {
				cvV, k = k, cvV
			}
			if _, isC := constInt(k); isC {
				if cv, isCv := cvV.(*ssa.Convert); isCv {
					if inner, isPhi := cv.X.(*ssa.Phi); isPhi {
						var out []leafCase
						for _, lf := range expandCases(inner, inherited, depth) {
							key := synthKey{lf.val, k}
							sv, have := synthDur.get(key)
							if !have {
								sv = &ssa.BinOp{Op: token.MUL, X: &ssa.Convert{X: lf.val}, Y: k}
								synthDur.set(key, sv)
							}
							out = append(out, leafCase{val: sv, guards: lf.guards, pred: lf.pred})
						}
						return out
					}
				}
			}
		}
	}
	if !ok || depth > 4 {
		return []leafCase{{val: v, guards: inherited}}
	}
	var out []leafCase
	base := map[string]bool{}
	for _, g := range guardsOf(phi.Block()) {
		base[guardKey(g)] = true
	}
	for i, e := range phi.Edges {
		gs := append([]guard(nil), inherited...)
		pred := phi.Block().Preds[i]
		for _, g := range guardsOf(pred) {
			if !base[guardKey(g)] {
				gs = append(gs, g)
			}
		}
		// the edge pred -> phi block itself may be a conditional edge
		if iff, ok := terminator(pred).(*ssa.If); ok && pred.Succs[0] != pred.Succs[1] {
			gs = append(gs, guard{Cond: iff.Cond, Truth: pred.Succs[0] == phi.Block(), If: iff})
		}
		sub := expandCases(e, gs, depth+1)
		for i := range sub {
			if sub[i].pred == nil {
				sub[i].pred = pred
			}
		}
		out = append(out, sub...)
	}
	return out
}

func runC05(c *Ctx) {
	p := c.P
	save := c.fn(relCachePlugin, "", "saveRespToCache")
	get := c.fn(relCachePlugin, "", "getRespFromCache")
	if save == nil || get == nil {
		return
	}
	c.see(p.funcsIn(relCachePlugin, relDnsutils, relCachePkg)...)
	IT := relCachePlugin + ".item"

	// ---------------------------------------------------------------- R1
	c.rule("R1", "admission table: lifetimes per rcode, cache lifetime = message lifetime except lazy non-empty NOERROR, refusal of TC and non-positive lifetimes", 10)
	var storeCall *ssa.Call
	var msgTtl, cacheTtl, nowV ssa.Value
	eachInstr(save, func(in ssa.Instruction) {
		if ci, ok := in.(*ssa.Call); ok && callName(ci) == "(*pkg/cache.Cache).Store" {
			storeCall = ci
		}
		if st, ok := in.(*ssa.Store); ok {
			if k, _ := fieldKey(st.Addr); k == IT+".expirationTime" {
				if cl, ok := st.Val.(*ssa.Call); ok && callName(cl) == "(time.Time).Add" {
					nowV, msgTtl = cl.Call.Args[0], cl.Call.Args[1]
				}
			}
		}
	})
	if storeCall == nil || msgTtl == nil {
		c.anchorMissing("backend.Store / item.expirationTime = now.Add(msgTtl) in saveRespToCache")
	} else {
		if cl, ok := storeCall.Call.Args[3].(*ssa.Call); ok && callName(cl) == "(time.Time).Add" {
			cacheTtl = cl.Call.Args[1]
			c.check(cl.Call.Args[0] == nowV, "one-clock", instrPos(storeCall), "message expiry and cache expiry derive from the same clock reading", "message expiry and cache expiry are computed from different clock readings")
		}
		// storedTime = now
		okStored := false
		eachInstr(save, func(in ssa.Instruction) {
			if st, ok := in.(*ssa.Store); ok {
				if k, _ := fieldKey(st.Addr); k == IT+".storedTime" && st.Val == nowV {
					if cl, ok := nowV.(*ssa.Call); ok && callName(cl) == "time.Now" {
						okStored = true
					}
				}
			}
		})
		c.check(okStored, "stored-time", instrPos(storeCall), "storedTime is the same time.Now() the expiries are computed from", "item.storedTime is not the clock reading the expiry was computed from")
		if cacheTtl == nil {
			c.undecided("cache-lifetime", instrPos(storeCall), "the cache expiry is not now.Add(<lifetime>)")
		}
		// guards
		tcOK, msgPos, cachePos := false, false, false
		for _, g := range guardsOfInstr(storeCall) {
			if cm, ok := g.asCmp(); ok {
				if k, isF := loadedField(cm.X); isF && strings.HasSuffix(k, "dns.MsgHdr.Truncated") {
					if b, isB := constBool(cm.Y); isB && ((cm.Op == token.EQL && !b) || (cm.Op == token.NEQ && b)) {
						tcOK = true
					}
				}
				if n, isC := constInt(cm.Y); isC && n == 0 && cm.Op == token.GTR {
					if cm.X == msgTtl {
						msgPos = true
					}
					if cm.X == cacheTtl {
						cachePos = true
					}
				}
			}
			if v, truth := g.asBool(); !truth {
				if k, isF := loadedField(v); isF && strings.HasSuffix(k, "dns.MsgHdr.Truncated") {
					tcOK = true
				}
			}
		}
		c.check(tcOK, "refuse-truncated", instrPos(storeCall), "truncated replies are never stored", "a truncated (TC) reply can be stored")
		c.check(msgPos && cachePos, "refuse-nonpositive", instrPos(storeCall), "lifetimes <= 0 are never stored", "a reply with a zero/negative lifetime can be stored")

		// the table
		rParam := save.Params[1]
		lazyParam := save.Params[3]
		const sec = int64(1000000000)
		isMinTTL := func(v ssa.Value) bool {
			cl, ok := v.(*ssa.Call)
			return ok && callName(cl) == relDnsutils+".GetMinimalTTL" && cl.Call.Args[0] == ssa.Value(rParam)
		}
		durOf := func(v ssa.Value) (ssa.Value, bool) { // Convert(X) * 1e9
			bo, ok := v.(*ssa.BinOp)
			if !ok || bo.Op != token.MUL {
				return nil, false
			}
			x, y := bo.X, bo.Y
			if n, isC := constInt(x); isC && n == sec {
				x, y = y, x
			}
			if n, isC := constInt(y); !isC || n != sec {
				return nil, false
			}
			cv, ok := x.(*ssa.Convert)
			if !ok {
				return nil, false
			}
			return cv.X, true
		}
		type class struct {
			name  string
			rc    int64 // -1 default
			empty int   // -1 n/a, 1 empty, 0 non-empty
			lazy  int   // -1 n/a, 1 lazy>0, 0 not
			msgOK func(v ssa.Value) bool
			what  string
		}
		isConst := func(n int64) func(ssa.Value) bool {
			return func(v ssa.Value) bool { k, ok := constInt(v); return ok && k == n }
		}
		// D15: a negative reply lives min(cap, smallest TTL of its records) — a fixed cap alone stores zero-TTL replies and
		// serves a reply after its (shorter) TTL ran out. The helper's body: Duration(x)*second with x = cap, or
		// min(cap, GetMinimalTTL(r)) when the reply has a record with a TTL.
		negOK := func(cap int64) func(ssa.Value) bool {
			return func(v ssa.Value) bool {
				cl, ok := v.(*ssa.Call)
				if !ok {
					return false
				}
				h := staticCallee(cl)
				if h == nil || len(cl.Call.Args) != 2 || len(h.Params) != 2 {
					return false
				}
				if n, isC := constInt(cl.Call.Args[1]); !isC || n != cap {
					return false
				}
				if cl.Call.Args[0] != ssa.Value(rParam) {
					return false
				}
				capped, sawMin := true, false
				for _, r := range returnsOf(h) {
					x, ok := durOf(returnedValues(r)[0])
					if !ok {
						return false
					}
					for _, lf := range expandCases(x, nil, 0) {
						switch y := lf.val.(type) {
						case *ssa.Parameter:
							if y != h.Params[1] {
								capped = false
							}
						case *ssa.Call:
							n := callName(y)
							if !(strings.HasSuffix(n, ".min") || n == "builtin:min") || len(y.Call.Args) != 2 {
								capped = false
								continue
							}
							a, b := y.Call.Args[0], y.Call.Args[1]
							if a != ssa.Value(h.Params[1]) {
								a, b = b, a
							}
							g, isG := b.(*ssa.Call)
							if a != ssa.Value(h.Params[1]) || !isG || !strings.HasSuffix(callName(g), "dnsutils.GetMinimalTTL") || g.Call.Args[0] != ssa.Value(h.Params[0]) {
								capped = false
								continue
							}
							sawMin = true
						default:
							capped = false
						}
					}
				}
				return capped && sawMin
			}
		}
		_ = isConst
		classes := []class{
			{"NXDOMAIN", 3, -1, -1, negOK(30), "min(30 s, smallest record TTL)"},
			{"SERVFAIL", 2, -1, -1, negOK(5), "min(5 s, smallest record TTL)"},
			{"other-rcode", -1, -1, -1, func(v ssa.Value) bool { k, ok := constInt(v); return ok && k <= 0 }, "0 (not stored)"},
			{"NOERROR-empty", 0, 1, -1, func(v ssa.Value) bool {
				x, ok := durOf(v)
				if !ok {
					return false
				}
				cl, ok := x.(*ssa.Call)
				if !ok || !(strings.HasSuffix(callName(cl), ".min") || callName(cl) == "builtin:min") || len(cl.Call.Args) != 2 {
					return false
				}
				a, b := cl.Call.Args[0], cl.Call.Args[1]
				if n, isC := constInt(a); isC && n == 300 {
					a, b = b, a
				}
				n, isC := constInt(b)
				return isC && n == 300 && isMinTTL(a)
			}, "min(minimal TTL, 300) s"},
			{"NOERROR-answer-lazy", 0, 0, 1, func(v ssa.Value) bool { x, ok := durOf(v); return ok && isMinTTL(x) }, "minimal TTL s"},
			{"NOERROR-answer", 0, 0, 0, func(v ssa.Value) bool { x, ok := durOf(v); return ok && isMinTTL(x) }, "minimal TTL s"},
		}
		compatible := func(cl class, gs []guard) bool {
			for _, g := range gs {
				cm, ok := g.asCmp()
				if !ok {
					continue
				}
				if k, isF := loadedField(cm.X); isF && strings.HasSuffix(k, "dns.MsgHdr.Rcode") {
					n, isC := constInt(cm.Y)
					if !isC {
						continue
					}
					switch cm.Op {
					case token.EQL:
						if cl.rc != n {
							if !(cl.rc == -1 && n != 0 && n != 2 && n != 3) {
								return false
							}
						}
					case token.NEQ:
						if cl.rc == n {
							return false
						}
					}
				}
				if ln, isCall := cm.X.(*ssa.Call); isCall && callName(ln) == "builtin:len" {
					if k, isF := loadedField(ln.Call.Args[0]); isF && strings.HasSuffix(k, "dns.Msg.Answer") {
						n, isC := constInt(cm.Y)
						if isC && n == 0 && cl.empty >= 0 {
							isEmpty := cm.Op == token.EQL || cm.Op == token.LEQ
							if cm.Op == token.NEQ || cm.Op == token.GTR {
								isEmpty = false
							}
							if (cl.empty == 1) != isEmpty {
								return false
							}
						}
					}
				}
				if cm.X == ssa.Value(lazyParam) {
					if n, isC := constInt(cm.Y); isC && n == 0 && cl.lazy >= 0 {
						on := cm.Op == token.GTR
						if (cl.lazy == 1) != on {
							return false
						}
					}
				}
			}
			return true
		}
		msgLeaves := splitBoolPhiGuards(expandCases(msgTtl, nil, 0))
		var cacheLeaves []leafCase
		if cacheTtl != nil {
			cacheLeaves = splitBoolPhiGuards(expandCases(cacheTtl, nil, 0))
		}
		for _, cl := range classes {
			key := "lifetime:" + cl.name
			var mv, cv []ssa.Value
			bad := ""
			for _, lf := range msgLeaves {
				if compatible(cl, lf.guards) {
					mv = append(mv, lf.val)
					if !cl.msgOK(lf.val) {
						bad = fmt.Sprintf("message lifetime for %s is %s, expected %s", cl.name, exprStr(lf.val), cl.what)
					}
				}
			}
			if len(mv) == 0 {
				bad = "no message lifetime is defined for " + cl.name
				if cl.name == "other-rcode" {
					// `default: return false`: the other rcodes leave before any lifetime is computed
					for _, r := range returnsOf(save) {
						rv := returnedValues(r)
						if len(rv) != 1 {
							continue
						}
						if b, isC := constBool(rv[0]); !isC || b {
							continue
						}
						ne := map[int64]bool{}
						for _, g := range guardsOfInstr(r) {
							if cm, ok := g.asCmp(); ok && cm.Op == token.NEQ {
								if k, isF := loadedField(cm.X); isF && strings.HasSuffix(k, "dns.MsgHdr.Rcode") {
									if n, isK := constInt(cm.Y); isK {
										ne[n] = true
									}
								}
							}
						}
						if ne[0] && ne[2] && ne[3] {
							bad = ""
							mv = append(mv, rv[0])
						}
					}
				}
			}
			for _, lf := range cacheLeaves {
				if !compatible(cl, lf.guards) {
					continue
				}
				cv = append(cv, lf.val)
				if cl.name == "NOERROR-answer-lazy" {
					x, ok := durOf(lf.val)
					if !ok || x != ssa.Value(lazyParam) {
						bad = fmt.Sprintf("cache lifetime of a non-empty NOERROR answer with lazy caching is %s, expected lazy_cache_ttl s", exprStr(lf.val))
					}
					continue
				}
				same := false
				for _, m := range mv {
					if m == lf.val {
						same = true
					}
					if a, okA := constInt(m); okA {
						if b, okB := constInt(lf.val); okB && a == b {
							same = true
						}
					}
					// two calls of the same (pure) lifetime helper with the same arguments
					if ca, okA := m.(*ssa.Call); okA {
						if cb, okB := lf.val.(*ssa.Call); okB && staticCallee(ca) != nil && staticCallee(ca) == staticCallee(cb) && len(ca.Call.Args) == len(cb.Call.Args) {
							eq := true
							for i := range ca.Call.Args {
								x, y := ca.Call.Args[i], cb.Call.Args[i]
								if x == y {
									continue
								}
								nx, okx := constInt(x)
								ny, oky := constInt(y)
								if !(okx && oky && nx == ny) {
									eq = false
								}
							}
							if eq {
								same = true
							}
						}
					}
				}
				if !same {
					bad = fmt.Sprintf("cache lifetime for %s is %s but must equal the message lifetime (%s): the entry outlives its cap and is served stale", cl.name, exprStr(lf.val), cl.what)
				}
			}
			if bad == "" {
				c.ok(key, instrPos(storeCall), "%s: message lifetime %s; cache lifetime consistent (%d/%d leaf values)", cl.name, cl.what, len(mv), len(cv))
			} else {
				c.fail(key, instrPos(storeCall), "%s", bad)
			}
		}
	}

	// ---------------------------------------------------------------- R2
	c.rule("R2", "only saveRespToCache and the dump loader store into the backend", 2)
	for _, f := range p.funcsIn(relCachePlugin) {
		eachInstr(f, func(in ssa.Instruction) {
			ci, ok := in.(*ssa.Call)
			if !ok || callName(ci) != "(*pkg/cache.Cache).Store" {
				return
			}
			top := f
			for top.Parent() != nil {
				top = top.Parent()
			}
			// a new helper with a single call site belongs to the function that calls it (extract-helper refactoring)
			for d := 0; d < 3 && isNewHelper(top); d++ {
				site := soleCallSite(top)
				if site == nil {
					break
				}
				top = site.Parent()
				for top.Parent() != nil {
					top = top.Parent()
				}
			}
			okSite := top == save || top.Name() == "readDump"
			c.check(okSite, "store-site@"+funcName(f), instrPos(in), "store through the admission function / dump loader", "the backend is written outside saveRespToCache/readDump: the admission rules (TC, lifetimes) are bypassed")
		})
	}

	// ---------------------------------------------------------------- R3
	c.rule("R3", "SubtractTTL writes ttl-delta only under ttl>delta, otherwise the constant 1", 2)
	if sub := c.fn(relDnsutils, "", "SubtractTTL"); sub != nil {
		delta := sub.Params[1]
		isDelta := func(v ssa.Value) bool { return sameAsParam(p, v, delta) }
		eachInstrDeep(sub, func(_ *ssa.Function, in ssa.Instruction) {
			st, ok := in.(*ssa.Store)
			if !ok {
				return
			}
			if k, _ := fieldKey(st.Addr); k != "github.com/miekg/dns.RR_Header.Ttl" {
				return
			}
			key := "ttl-store@" + funcName(sub)
			if n, isC := constInt(st.Val); isC {
				c.check(n == 1, key, instrPos(in), "floor of 1", fmt.Sprintf("the TTL floor is %d, must be 1", n))
				return
			}
			bo, ok := st.Val.(*ssa.BinOp)
			good := false
			if ok && bo.Op == token.SUB && isDelta(bo.Y) {
				for _, g := range guardsOfInstr(in) {
					if cm, ok := g.asCmp(); ok && sameLoadedPlace(cm.X, bo.X) && isDelta(cm.Y) && cm.Op == token.GTR {
						good = true
					}
					if cm, ok := g.asCmp(); ok && sameLoadedPlace(cm.Y, bo.X) && isDelta(cm.X) && cm.Op == token.LSS {
						good = true
					}
				}
			}
			c.check(good, key, instrPos(in), "ttl - delta under ttl > delta", "the subtraction is not guarded by ttl > delta: the TTL wraps around or reaches 0")
		})
	}

	// SetTTL: every non-OPT header gets exactly the parameter, unconditionally
	if stf := c.fn(relDnsutils, "", "SetTTL"); stf != nil {
		n, good := 0, true
		why := ""
		eachInstrDeep(stf, func(g *ssa.Function, in ssa.Instruction) {
			st, ok := in.(*ssa.Store)
			if !ok {
				return
			}
			if k, _ := fieldKey(st.Addr); k != "github.com/miekg/dns.RR_Header.Ttl" {
				return
			}
			n++
			if !sameAsParam(p, st.Val, stf.Params[1]) {
				good, why = false, "stores "+exprStr(st.Val)+" instead of the ttl parameter"
			}
			// callback form: the iteration helper invokes the callback for every non-OPT record
			if fa, isFA := st.Addr.(*ssa.FieldAddr); isFA && g != stf {
				if prm, isPrm := fa.X.(*ssa.Parameter); isPrm {
					okG, helper := headerCallbackGuarded(g, prm)
					if helper == nil || !okG {
						good, why = false, "the callback's invocation is not recognised"
					} else {
						eachInstr(helper, func(y ssa.Instruction) {
							ci, ok := y.(*ssa.Call)
							if !ok || ci.Call.IsInvoke() {
								return
							}
							if _, isP := ci.Call.Value.(*ssa.Parameter); !isP {
								return
							}
							optEdge := func(iff *ssa.If, truth bool) bool {
								gd := guard{Cond: iff.Cond, Truth: truth, If: iff}
								if cm, ok := gd.asCmp(); ok && cm.Op == token.EQL {
									if k, _ := loadedField(cm.X); k == "github.com/miekg/dns.RR_Header.Rrtype" {
										if n, ok := constInt(cm.Y); ok && n == 41 {
											return true
										}
									}
								}
								return false
							}
							if sk, _ := iterationCanSkip(y, optEdge); sk {
								good, why = false, "the iteration helper skips some non-OPT record"
							}
						})
					}
				}
			}
			hdr := innermostLoopHeader(st.Block())
			for _, g := range guardsOfInstr(st) {
				if hdr == nil || !hdr.Dominates(g.If.Block()) {
					continue
				}
				if cm, ok := g.asCmp(); ok {
					if k, _ := loadedField(cm.X); k == "github.com/miekg/dns.RR_Header.Rrtype" {
						continue // the OPT skip
					}
					if cm.Op == token.LSS {
						continue // range-over-slice index test
					}
				}
				if v, _ := g.asBool(); v != nil {
					if ex, ok := v.(*ssa.Extract); ok {
						if _, isNext := ex.Tuple.(*ssa.Next); isNext {
							continue
						}
					}
				}
				good, why = false, "the store is conditional on "+guardText(g)
			}
		})
		eachInstr(stf, func(in ssa.Instruction) {
			st, ok := in.(*ssa.Store)
			if !ok {
				return
			}
			if k, _ := fieldKey(st.Addr); k != "github.com/miekg/dns.RR_Header.Ttl" {
				return
			}
			optEdge := func(iff *ssa.If, truth bool) bool {
				g := guard{Cond: iff.Cond, Truth: truth, If: iff}
				if cm, ok := g.asCmp(); ok && cm.Op == token.EQL {
					if k, _ := loadedField(cm.X); k == "github.com/miekg/dns.RR_Header.Rrtype" {
						if n, ok := constInt(cm.Y); ok && n == 41 {
							return true
						}
					}
				}
				return false
			}
			if sk, _ := iterationCanSkip(in, optEdge); sk {
				good, why = false, "some non-OPT record is skipped"
			}
		})
		c.check(good && n == 1, "set-ttl-exact", stf.Pos(), "SetTTL writes the parameter into every non-OPT record, unconditionally", "SetTTL does not set every record to exactly the given TTL ("+why+"): a stale answer is served with other TTLs than 5")
	}

	// ---------------------------------------------------------------- R4
	c.rule("R4", "hit path: fresh only before expiry with delta = now - storedTime; stale only with lazy caching, from an entry that has a stale life, and TTL 5; else miss", 6)
	{
		lazyFlag, lazyTtl := get.Params[2], get.Params[3]
		for _, r := range returnsOf(get) {
			rv := returnedValues(r)
			if isNilConst(rv[0]) {
				continue
			}
			stale, _ := constBool(rv[1])
			key := "fresh-hit"
			if stale {
				key = "stale-hit"
			}
			// what is aged and returned is a copy of the stored message, never the stored message itself (else every
			// hit subtracts the age again from what the next hit starts with)
			isCopy := false
			if cl, ok := rv[0].(*ssa.Call); ok && callName(cl) == "(*github.com/miekg/dns.Msg).Copy" {
				if k, ok := loadedField(cl.Call.Args[0]); ok && k == IT+".resp" {
					isCopy = true
				}
			}
			c.check(isCopy, key+":copy", instrPos(r), "the answer handed out and aged is item.resp.Copy()", "the hit path ages and returns "+exprStr(rv[0])+", not a copy of the stored message: the TTL rewrite lands in the cache entry and every further hit is aged again")
			// the aging call is the only TTL writer of the answer handed out: a second rewrite (a cap by the remaining
			// lifetime, a floor) after it undoes "aged by whole seconds, never below 1"
			if isCopy {
				nWriters := 0
				for _, rr := range referrers(rv[0]) {
					ci, ok := rr.(ssa.CallInstruction)
					if !ok || ci.Common().IsInvoke() {
						continue
					}
					isArg := false
					for _, a := range ci.Common().Args {
						if a == rv[0] {
							isArg = true
						}
					}
					if isArg && writesTTL(ci.Common().StaticCallee(), 0) && reachesInstr(rr, r) {
						nWriters++
					}
				}
				c.check(nWriters <= 1, key+":one-ttl-writer", instrPos(r), "the answer's TTLs are rewritten by the aging call only",
					fmt.Sprintf("%d calls rewrite the TTLs of the answer before it is returned: a rewrite after the aging call (e.g. a cap by the entry's remaining lifetime, which truncates to 0 in the last second) undoes 'aged by whole seconds, never below 1'", nWriters))
			}
			var beforeGuard, lazyGuard bool
			var nowVal ssa.Value
			for _, g := range guardsOnAllPaths(r.Block()) {
				v, truth := g.asBool()
				if cl, ok := v.(*ssa.Call); ok && callName(cl) == "(time.Time).Before" && truth {
					if k, ok := loadedField(cl.Call.Args[1]); ok && k == IT+".expirationTime" {
						beforeGuard = true
						nowVal = cl.Call.Args[0]
					}
				}
				if v == ssa.Value(lazyFlag) && truth {
					lazyGuard = true
				}
			}
			if !stale {
				// SubtractTTL(r, uint32(now.Sub(storedTime).Seconds()))
				deltaOK := false
				eachInstr(get, func(x ssa.Instruction) {
					ci, ok := x.(*ssa.Call)
					if !ok || callName(ci) != relDnsutils+".SubtractTTL" || ci.Call.Args[0] != rv[0] || !instrDominates(x, r) {
						return
					}
					s := exprStr(ci.Call.Args[1])
					if strings.Contains(s, "(time.Duration).Seconds((time.Time).Sub(") && strings.Contains(s, ".storedTime") && nowVal != nil && strings.Contains(s, exprStr(nowVal)) {
						deltaOK = true
					}
				})
				c.check(beforeGuard && deltaOK, key, instrPos(r), "returned only under now.Before(expiry), aged by now-storedTime",
					fmt.Sprintf("fresh hit not guarded/aged correctly (now.Before(expiry) guard: %v, SubtractTTL by whole seconds since storedTime: %v)", beforeGuard, deltaOK))
			} else {
				ttlOK := false
				eachInstr(get, func(x ssa.Instruction) {
					ci, ok := x.(*ssa.Call)
					if !ok || callName(ci) != relDnsutils+".SetTTL" || ci.Call.Args[0] != rv[0] || !instrDominates(x, r) {
						return
					}
					if cv, ok := ci.Call.Args[1].(*ssa.Convert); ok && cv.X == ssa.Value(lazyTtl) {
						ttlOK = true
					}
				})
				c.check(lazyGuard && ttlOK && !beforeGuard, key, instrPos(r), "stale answer only with lazy caching, TTL from the stale-TTL parameter",
					fmt.Sprintf("stale hit not guarded correctly (lazy flag guard: %v, SetTTL(stale ttl): %v)", lazyGuard, ttlOK))
				// D53: stale means "stored with a stale life": the backend's expiry is later than the message's. An entry
				// without one (negative and empty answers) reaches this branch when the lookup straddles its expiry instant
				// (the backend read the clock before it, this function after) and must be a miss.
				staleLife := false
				for _, g := range guardsOnAllPaths(r.Block()) {
					v, truth := g.asBool()
					cl, ok := v.(*ssa.Call)
					if !ok || !truth {
						continue
					}
					x, y := ssa.Value(nil), ssa.Value(nil)
					switch callName(cl) {
					case "(time.Time).After":
						x, y = cl.Call.Args[0], cl.Call.Args[1]
					case "(time.Time).Before":
						x, y = cl.Call.Args[1], cl.Call.Args[0]
					default:
						continue
					}
					// x (later) is the expiry Cache.Get returned, y the item's own
					ex, isEx := x.(*ssa.Extract)
					if !isEx || ex.Index != 1 {
						continue
					}
					if gc, isC := ex.Tuple.(*ssa.Call); !isC || !strings.HasSuffix(stripTypeArgs(callName(gc)), ".Cache).Get") {
						continue
					}
					if k, isF := loadedField(y); isF && k == IT+".expirationTime" {
						staleLife = true
					}
				}
				c.check(staleLife, "stale-hit:has-stale-life", instrPos(r), "a stale answer is served only from an entry whose cache expiry is later than its message expiry",
					"the stale branch does not ask whether the entry has a stale life (cache expiry later than message expiry): a negative or empty answer, stored without one, is served once more as a lazy hit when the lookup straddles its expiry instant (D53)")
			}
		}
		// call sites: lazy flag = LazyCacheTTL > 0, stale TTL constant 5
		for _, f := range p.funcsIn(relCachePlugin) {
			eachInstr(f, func(in ssa.Instruction) {
				ci, ok := in.(*ssa.Call)
				if !ok || staticCallee(ci) != get {
					return
				}
				n, isC := constInt(ci.Call.Args[3])
				flagOK := false
				if bo, ok := ci.Call.Args[2].(*ssa.BinOp); ok && bo.Op == token.GTR {
					if k, ok := loadedField(bo.X); ok && strings.HasSuffix(k, ".Args.LazyCacheTTL") {
						if z, ok := constInt(bo.Y); ok && z == 0 {
							flagOK = true
						}
					}
				}
				// the caller hands the aged answer on as it is
				for _, r := range referrers(ci) {
					ex, ok := r.(*ssa.Extract)
					if !ok || ex.Index != 0 {
						continue
					}
					for _, r2 := range referrers(ex) {
						cc, ok := r2.(ssa.CallInstruction)
						if !ok || cc.Common().IsInvoke() {
							continue
						}
						for _, a := range cc.Common().Args {
							if a == ssa.Value(ex) && writesTTL(cc.Common().StaticCallee(), 0) {
								c.fail("hit-call@"+funcName(f)+":no-ttl-rewrite", instrPos(r2), "the TTLs of a cache hit are rewritten again by %s after the lookup aged them", callName(cc))
							}
						}
					}
				}
				c.check(isC && n == 5 && flagOK, "hit-call@"+funcName(f), instrPos(in), "lookup called with lazy = (lazy_cache_ttl > 0) and stale TTL 5",
					fmt.Sprintf("lookup called with stale TTL %s / lazy flag %s (expected 5 and lazy_cache_ttl > 0)", exprStr(ci.Call.Args[3]), exprStr(ci.Call.Args[2])))
			})
		}
	}

	// ---------------------------------------------------------------- R5
	c.rule("R5", "the refresh runs only inside the singleflight function; its key is forgotten only after the refresh finished", 2)
	if dl := c.fn(relCachePlugin, "Cache", "doLazyUpdate"); dl != nil {
		var sfFn *ssa.Function
		eachInstr(dl, func(in ssa.Instruction) {
			if ci, ok := in.(*ssa.Call); ok && callName(ci) == "(*golang.org/x/sync/singleflight.Group).DoChan" {
				if mc, ok := ci.Call.Args[2].(*ssa.MakeClosure); ok {
					sfFn = mc.Fn.(*ssa.Function)
				}
				// one group for the whole plugin (a per-call group de-duplicates nothing)
				k, _ := fieldKey(ci.Call.Args[0])
				c.check(k == relCachePlugin+".Cache.lazyUpdateSF", "singleflight-group", instrPos(in), "the refresh is de-duplicated in the plugin's own singleflight group", "DoChan runs on "+exprStr(ci.Call.Args[0])+", not on the plugin's lazyUpdateSF field: concurrent stale hits are not de-duplicated")
				// key = msgKey param
				c.check(isParamValue(p, ci.Call.Args[1], dl.Params[1]), "singleflight-key", instrPos(in), "de-duplicated by the message key", "the refresh is not de-duplicated by the message key")
			}
		})
		nExec := 0
		sfBody := withNewHelpers(sfFn)
		eachInstrDeep(dl, func(f *ssa.Function, in ssa.Instruction) {
			ci, ok := in.(ssa.CallInstruction)
			if !ok || !strings.HasSuffix(callName(ci), ".ExecNext") {
				return
			}
			nExec++
			_, isGo := in.(*ssa.Go)
			c.check(sfBody[f] && !isGo, "refresh-inside-singleflight", instrPos(in), "the refresh executes inside the singleflight function", "a background refresh is started outside the singleflight function: every stale hit starts its own upstream query")
			// Forget must not run before the refresh
			eachInstr(f, func(x ssa.Instruction) {
				cc, ok := x.(ssa.CallInstruction)
				if !ok || callName(cc) != "(*golang.org/x/sync/singleflight.Group).Forget" {
					return
				}
				_, isDefer := x.(*ssa.Defer)
				after := instrDominates(in, x)
				c.check(isDefer || after, "forget-after-refresh", instrPos(x), "the key is forgotten only when the refresh is over", "the singleflight key is forgotten before the refresh ran: the next stale hit starts another refresh while this one is in flight")
			})
		})
		if sfFn == nil || nExec == 0 {
			c.anchorMissing("singleflight refresh function in doLazyUpdate")
		}
		// nobody else forgets a key: a Forget outside the refresh function (timer, watchdog, another goroutine) can
		// hit a later refresh of the same question while it is in flight
		for _, f := range p.funcsIn(relCachePlugin) {
			fn := f
			eachInstr(f, func(x ssa.Instruction) {
				cc, ok := x.(ssa.CallInstruction)
				if !ok || callName(cc) != "(*golang.org/x/sync/singleflight.Group).Forget" || sfBody[fn] {
					return
				}
				c.fail("forget-only-by-refresh@"+funcName(fn), instrPos(x), "the singleflight key is forgotten outside the refresh function: the Forget is not tied to the refresh it was meant for, so it can release the key of a later refresh that is still in flight and a second refresh for the same question starts")
			})
		}
	}

	// ---------------------------------------------------------------- R8
	c.rule("R8", "the refresh starts from a context that does not carry the stale answer; only a non-nil refreshed answer is stored", 2)
	if ex := c.fn(relCachePlugin, "Cache", "Exec"); ex != nil {
		var lazyCall, setResp ssa.Instruction
		eachInstr(ex, func(in ssa.Instruction) {
			if ci, ok := in.(*ssa.Call); ok {
				switch {
				case strings.HasSuffix(callName(ci), "Cache).doLazyUpdate"):
					lazyCall = in
				case callName(ci) == "(*pkg/query_context.Context).SetResponse":
					if ex2, ok := ci.Call.Args[1].(*ssa.Extract); ok {
						if cl, ok := ex2.Tuple.(*ssa.Call); ok && staticCallee(cl) == get {
							setResp = in
						}
					}
				}
			}
		})
		if lazyCall == nil || setResp == nil {
			c.anchorMissing("doLazyUpdate / SetResponse(cached) in Cache.Exec")
		} else {
			_, after := reachAvoiding(setResp, func(x ssa.Instruction) bool { return x == lazyCall }, nil)
			c.check(!after, "refresh-before-stale-attached", instrPos(lazyCall), "the refresh context is copied before the stale answer is attached to the query context",
				"the background refresh is started after the stale answer was attached: its context copy carries the stale answer, and when the refresh does not replace it (upstream failure, guarded chain) the stale answer is stored again as a fresh entry")
		}
	}
	if dl := c.fn(relCachePlugin, "Cache", "doLazyUpdate"); dl != nil {
		good := false
		eachInstrDeep(dl, func(f *ssa.Function, in ssa.Instruction) {
			ci, ok := in.(*ssa.Call)
			if !ok || staticCallee(ci) != save {
				return
			}
			for _, g := range guardsWithin(in, dl) {
				if cm, ok := g.asCmp(); ok && cm.X == ci.Call.Args[1] && isNilConst(cm.Y) && cm.Op == token.NEQ {
					acts := actualsWithin(cm.X, dl)
					all := len(acts) > 0
					for _, a := range acts {
						if cl, ok := a.(*ssa.Call); !ok || callName(cl) != "(*pkg/query_context.Context).R" {
							all = false
						}
					}
					if all {
						good = true
					}
				}
			}
		})
		c.check(good, "refresh-stores-own-answer", dl.Pos(), "the refresh stores qCtx.R() of its own context only when non-nil", "the refresh stores something else than the non-nil response of its own context")
	}

	// ---------------------------------------------------------------- R9
	c.rule("R9", "a served cache hit is not stored again; the minimal TTL is the minimum over all non-OPT records", 2)
	if ex := c.fn(relCachePlugin, "Cache", "Exec"); ex != nil {
		// D42: "is the response the served copy" cannot be decided by comparing pointers — dual_selector and fallback run
		// the rest of the chain on copies of the context and hand back the copy's response. Only a miss stores: every
		// store in Exec is guarded by `cached == nil` for the message the lookup returned.
		good, n := true, 0
		eachInstrDeep(ex, func(_ *ssa.Function, in ssa.Instruction) {
			ci, ok := in.(*ssa.Call)
			if !ok || staticCallee(ci) != save {
				return
			}
			n++
			miss := false
			for _, g := range guardsWithin(in, ex) {
				if cm, ok := g.asCmp(); ok && cm.Op == token.EQL && isNilConst(cm.Y) {
					if e2, ok := cm.X.(*ssa.Extract); ok && e2.Index == 0 {
						if cl, ok := e2.Tuple.(*ssa.Call); ok && staticCallee(cl) == get {
							miss = true
						}
					}
				}
			}
			if !miss {
				good = false
			}
		})
		c.check(good && n > 0, "hit-not-restored", ex.Pos(), "the response is stored only after a miss",
			"after a hit the response is stored again when a later plugin hands back a copy of the served answer (dual_selector, fallback; a pointer comparison cannot tell): a stale (lazy) answer with its 5 s TTL is re-admitted as a fresh entry, every hit restarts the entry's age and a name asked more than once a second is never fetched again (D42)")
	}
	if gm := c.fn(relDnsutils, "", "GetMinimalTTL"); gm != nil {
		// result: 0 without records, else a value that is only ever replaced by a smaller header TTL of a non-OPT record
		minOK, optOK := false, false
		extraGuard := ""
		eachInstr(gm, func(in ssa.Instruction) {
			phi, ok := in.(*ssa.Phi)
			if !ok {
				return
			}
			for i, e := range phi.Edges {
				k, isTtl := loadedField(e)
				if !isTtl || k != "github.com/miekg/dns.RR_Header.Ttl" {
					continue
				}
				lh := innermostLoopHeader(phi.Block().Preds[i])
				for _, g := range guardsOf(phi.Block().Preds[i]) {
					cm, ok := g.asCmp()
					if !ok {
						if lh != nil && lh.Dominates(g.If.Block()) {
							if v, _ := g.asBool(); v != nil {
								if ex, isEx := v.(*ssa.Extract); isEx {
									if _, isNext := ex.Tuple.(*ssa.Next); isNext {
										continue
									}
								}
							}
							extraGuard = guardText(g)
						}
						continue
					}
					if lh != nil && lh.Dominates(g.If.Block()) {
						isMin := cm.X == e && cm.Op == token.LSS
						k3, _ := loadedField(cm.X)
						isOpt := k3 == "github.com/miekg/dns.RR_Header.Rrtype"
						isIdx := cm.Op == token.LSS && !isMin
						if !isMin && !isOpt && !isIdx {
							extraGuard = guardText(g)
						}
					}
					if cm.X == e && cm.Op == token.LSS {
						if _, isPhi := cm.Y.(*ssa.Phi); isPhi {
							minOK = true
						}
					}
					if k2, ok := loadedField(cm.X); ok && k2 == "github.com/miekg/dns.RR_Header.Rrtype" && cm.Op == token.NEQ {
						if n, ok := constInt(cm.Y); ok && n == 41 {
							optOK = true
						}
					}
				}
			}
		})
		touchesAll := map[string]bool{}
		eachInstr(gm, func(in ssa.Instruction) {
			if fa, ok := in.(*ssa.FieldAddr); ok {
				k, _ := fieldKey(fa)
				touchesAll[fieldTail(k)] = true
			}
		})
		// callback form: the loop lives in a NEW iteration helper and the minimum is kept in a captured variable:
		// `each(m, func(hdr) { if hdr.Ttl < minTTL { minTTL = hdr.Ttl } })`
		if !minOK {
			for _, cl := range gm.AnonFuncs {
				if len(cl.Params) != 1 {
					continue
				}
				okG, helper := headerCallbackGuarded(cl, cl.Params[0])
				if helper == nil || !okG {
					continue
				}
				// the helper visits all three sections and skips nothing but OPT
				eachInstr(helper, func(in ssa.Instruction) {
					if fa, ok := in.(*ssa.FieldAddr); ok {
						k, _ := fieldKey(fa)
						touchesAll[fieldTail(k)] = true
					}
					ci, ok := in.(*ssa.Call)
					if !ok || ci.Call.IsInvoke() {
						return
					}
					if _, isP := ci.Call.Value.(*ssa.Parameter); !isP {
						return
					}
					optEdge := func(iff *ssa.If, truth bool) bool {
						gd := guard{Cond: iff.Cond, Truth: truth, If: iff}
						if cm, ok := gd.asCmp(); ok && cm.Op == token.EQL {
							if k, _ := loadedField(cm.X); k == "github.com/miekg/dns.RR_Header.Rrtype" {
								if n, ok := constInt(cm.Y); ok && n == 41 {
									return true
								}
							}
						}
						return false
					}
					if sk, _ := iterationCanSkip(in, optEdge); sk {
						extraGuard = "the iteration helper skips some non-OPT record"
					}
				})
				optOK = true
				// in the closure: every store of a header TTL into a captured uint32 cell is guarded by "smaller than the
				// cell's current value", and by nothing else
				eachInstr(cl, func(in ssa.Instruction) {
					st, ok := in.(*ssa.Store)
					if !ok {
						return
					}
					k, isTtl := loadedField(st.Val)
					if !isTtl || k != "github.com/miekg/dns.RR_Header.Ttl" {
						return
					}
					if _, isFV := st.Addr.(*ssa.FreeVar); !isFV {
						return
					}
					smaller := false
					for _, g := range guardsOfInstr(in) {
						cm, ok := g.asCmp()
						if ok && cm.Op == token.LSS && sameLoadedPlace(cm.X, st.Val) {
							if ld, isLd := cm.Y.(*ssa.UnOp); isLd && ld.Op == token.MUL && ld.X == st.Addr {
								smaller = true
								continue
							}
						}
						extraGuard = guardText(g)
					}
					if smaller {
						minOK = true
					}
				})
			}
		}
		c.check(minOK && optOK && extraGuard == "" && touchesAll["Answer"] && touchesAll["Ns"] && touchesAll["Extra"], "minimal-ttl", gm.Pos(),
			"minimum over answer, authority and additional records, OPT excluded, no record skipped",
			fmt.Sprintf("GetMinimalTTL is not the minimum over all non-OPT records of all three sections (replace-if-smaller: %v, OPT skipped: %v, sections: %v, extra condition: %q): e.g. zero-TTL records are skipped and a zero-TTL reply is stored", minOK, optOK, touchesAll, extraGuard))
	}

	// ---------------------------------------------------------------- R6
	c.rule("R6", "Get hides expired entries; the sweep deletes only expired ones", 2)
	checkExpiryGuards(c)

	// ---------------------------------------------------------------- R7
	c.rule("R7", "every loop that rewrites record TTLs skips the OPT pseudo-record", 4)
	checkTTLLoopsSkipOPT(c)
	_ = sort.Strings

	// ---------------------------------------------------------------- R11
	c.rule("R11", "the refresh starts from a snapshot taken before the stale answer is attached (else it re-stores the stale answer as fresh)", 1)
	checkRefreshOnEarlyCopy(c)

	// ---------------------------------------------------------------- R10
	c.rule("R10", "entries loaded from a dump keep their age: stored time, message expiry and cache expiry are rebuilt from the dumped fields", 5)
	if rd := c.fn(relCachePlugin, "Cache", "readDump"); rd != nil {
		checkDumpReaderFields(c, rd)
	}

}

// checkTTLLoopsSkipOPT (C05-R7, C15-R6): every store to RR_Header.Ttl is guarded by Rrtype != TypeOPT of the same header.
func checkTTLLoopsSkipOPT(c *Ctx) {
	p := c.P
	for _, f := range p.Funcs {
		if f.Pkg == nil || strings.HasSuffix(f.Pkg.Pkg.Path(), "/tools") {
			continue
		}
		fn := f
		eachInstr(f, func(in ssa.Instruction) {
			st, ok := in.(*ssa.Store)
			if !ok {
				return
			}
			fa, ok := st.Addr.(*ssa.FieldAddr)
			if !ok {
				return
			}
			if k, _ := fieldKey(fa); k != "github.com/miekg/dns.RR_Header.Ttl" {
				return
			}
			// only headers of arbitrary records (obtained through the RR interface) are in scope: literals of
			// records being built and the OPT-specific DO-bit setter are not TTL rewrites of a message
			if cl, ok := fa.X.(*ssa.Call); !ok || !cl.Call.IsInvoke() || cl.Call.Method.Name() != "Header" {
				// callback form: the loop lives in a NEW iteration helper `each(m, func(hdr *dns.RR_Header))` and the
				// store in the closure handed to it; the helper's invocation of the callback carries the OPT guard
				if prm, isPrm := fa.X.(*ssa.Parameter); isPrm && fn.Parent() != nil {
					if ok, where := headerCallbackGuarded(fn, prm); where != nil {
						c.see(fn)
						c.check(ok, "ttl-rewrite@"+funcName(fn), instrPos(in), "TTL store in a callback that the iteration helper invokes only for non-OPT headers",
							"a record TTL is rewritten in a callback that "+funcName(where)+" also invokes for the OPT pseudo-record, whose TTL field holds the extended rcode and flags (DO bit)")
					}
				}
				return
			}
			// OPT lives in the additional section only: loops that never touch Msg.Extra cannot meet it
			touchesExtra := false
			eachInstr(fn, func(y ssa.Instruction) {
				if fa3, ok := y.(*ssa.FieldAddr); ok {
					if k, _ := fieldKey(fa3); k == "github.com/miekg/dns.Msg.Extra" {
						touchesExtra = true
					}
				}
			})
			if !touchesExtra {
				return
			}
			c.see(fn)
			guarded := false
			for _, g := range guardsOfInstr(in) {
				cm, ok := g.asCmp()
				if !ok || cm.Op != token.NEQ {
					continue
				}
				n, isC := constInt(cm.Y)
				if !isC || n != 41 {
					continue
				}
				if ld, ok := cm.X.(*ssa.UnOp); ok {
					if fa2, ok := ld.X.(*ssa.FieldAddr); ok && fa2.X == fa.X {
						if k, _ := fieldKey(fa2); k == "github.com/miekg/dns.RR_Header.Rrtype" {
							guarded = true
						}
					}
				}
			}
			c.check(guarded, "ttl-rewrite@"+funcName(fn), instrPos(in), "TTL store guarded by Rrtype != OPT of the same header",
				"a record TTL is rewritten without excluding the OPT pseudo-record, whose TTL field holds the extended rcode and flags (DO bit)")
		})
	}
}

// writesTTL: f (or a static callee of the analysed module, two levels down) stores into a record header's Ttl field.
func writesTTL(f *ssa.Function, depth int) bool {
	if f == nil || len(f.Blocks) == 0 || depth > 2 {
		return false
	}
	found := false
	for _, g := range withAnon(f) {
		eachInstr(g, func(in ssa.Instruction) {
			if st, ok := in.(*ssa.Store); ok {
				if k, _ := fieldKey(st.Addr); k == "github.com/miekg/dns.RR_Header.Ttl" {
					found = true
				}
			}
			if ci, ok := in.(ssa.CallInstruction); ok && !found {
				if sc := ci.Common().StaticCallee(); sc != nil && sc != f && inMosdns(sc) && writesTTL(sc, depth+1) {
					found = true
				}
			}
		})
	}
	return found
}

// reachesInstr: control can flow from instruction a to instruction b.
func reachesInstr(a, b ssa.Instruction) bool {
	if a.Block() == b.Block() {
		ia, ib := -1, -1
		for i, in := range a.Block().Instrs {
			if in == a {
				ia = i
			}
			if in == b {
				ib = i
			}
		}
		if ia < ib {
			return true
		}
	}
	seen := map[*ssa.BasicBlock]bool{}
	var walk func(x *ssa.BasicBlock) bool
	walk = func(x *ssa.BasicBlock) bool {
		for _, s := range x.Succs {
			if s == b.Block() {
				return true
			}
			if !seen[s] {
				seen[s] = true
				if walk(s) {
					return true
				}
			}
		}
		return false
	}
	return walk(a.Block())
}

// splitBoolPhiGuards: a leaf guarded by a named boolean that is itself a phi (`keepStale := false; switch { case …:
// keepStale = lazy > 0 }; if keepStale {…}`) is split into one leaf per incoming edge of that boolean: the edge's own
// guards plus "edge value == truth"; edges whose constant value contradicts the truth are dropped.
func splitBoolPhiGuards(leaves []leafCase) []leafCase {
	var out []leafCase
	for _, lf := range leaves {
		work := []leafCase{lf}
		for round := 0; round < 3; round++ {
			var next []leafCase
			changed := false
			for _, w := range work {
				idx := -1
				for i, g := range w.guards {
					if ph, ok := g.Cond.(*ssa.Phi); ok && len(ph.Edges) > 1 {
						if b, isB := ph.Type().Underlying().(*types.Basic); isB && b.Kind() == types.Bool {
							idx = i
							break
						}
					}
				}
				if idx < 0 {
					next = append(next, w)
					continue
				}
				changed = true
				g := w.guards[idx]
				ph := g.Cond.(*ssa.Phi)
				rest := append(append([]guard(nil), w.guards[:idx]...), w.guards[idx+1:]...)
				base := map[string]bool{}
				for _, bg := range guardsOf(ph.Block()) {
					base[guardKey(bg)] = true
				}
				for i, e := range ph.Edges {
					if b, isC := constBool(e); isC && b != g.Truth {
						continue
					}
					gs := append([]guard(nil), rest...)
					pred := ph.Block().Preds[i]
					for _, pg := range guardsOf(pred) {
						if !base[guardKey(pg)] {
							gs = append(gs, pg)
						}
					}
					if iff, ok := terminator(pred).(*ssa.If); ok && pred.Succs[0] != pred.Succs[1] {
						gs = append(gs, guard{Cond: iff.Cond, Truth: pred.Succs[0] == ph.Block(), If: iff})
					}
					if _, isC := constBool(e); !isC {
						gs = append(gs, guard{Cond: e, Truth: g.Truth})
					}
					next = append(next, leafCase{val: w.val, guards: gs, pred: w.pred})
				}
			}
			work = next
			if !changed {
				break
			}
		}
		out = append(out, work...)
	}
	return out
}

// headerCallbackGuarded: closure cl (whose parameter prm is a record header) is handed to a NEW iteration helper; every
// invocation of that callback in the helper passes rr.Header() of a record and is guarded by Rrtype != OPT of that very
// header, and the helper walks the additional section. Returns the helper (nil: not the callback form).
func headerCallbackGuarded(cl *ssa.Function, prm *ssa.Parameter) (bool, *ssa.Function) {
	pi := -1
	for i, q := range cl.Params {
		if q == prm {
			pi = i
		}
	}
	par := cl.Parent()
	if pi < 0 || par == nil {
		return false, nil
	}
	var helper *ssa.Function
	ai := -1
	eachInstr(par, func(in ssa.Instruction) {
		ci, ok := in.(*ssa.Call)
		if !ok {
			return
		}
		h := ci.Call.StaticCallee()
		if !isNewHelper(h) {
			return
		}
		for i, a := range ci.Call.Args {
			if mc, ok := a.(*ssa.MakeClosure); ok && mc.Fn == ssa.Value(cl) {
				helper, ai = h, i
			}
		}
	})
	if helper == nil || ai >= len(helper.Params) {
		return false, nil
	}
	good, n, extra := true, 0, false
	eachInstr(helper, func(in ssa.Instruction) {
		if fa, ok := in.(*ssa.FieldAddr); ok {
			if k, _ := fieldKey(fa); k == "github.com/miekg/dns.Msg.Extra" {
				extra = true
			}
		}
		ci, ok := in.(*ssa.Call)
		if !ok || ci.Call.IsInvoke() || ci.Call.Value != ssa.Value(helper.Params[ai]) {
			return
		}
		n++
		if pi >= len(ci.Call.Args) {
			good = false
			return
		}
		hv := ci.Call.Args[pi]
		if hc, ok := hv.(*ssa.Call); !ok || !hc.Call.IsInvoke() || hc.Call.Method.Name() != "Header" {
			good = false
			return
		}
		guarded := false
		for _, g := range guardsOfInstr(in) {
			cm, ok := g.asCmp()
			if !ok || cm.Op != token.NEQ {
				continue
			}
			if k, isC := constInt(cm.Y); !isC || k != 41 {
				continue
			}
			if ld, ok := cm.X.(*ssa.UnOp); ok {
				if fa2, ok := ld.X.(*ssa.FieldAddr); ok && fa2.X == hv {
					if k, _ := fieldKey(fa2); k == "github.com/miekg/dns.RR_Header.Rrtype" {
						guarded = true
					}
				}
			}
		}
		if !guarded {
			good = false
		}
	})
	// the callback is used for nothing else in the helper
	for _, r := range referrers(helper.Params[ai]) {
		switch x := r.(type) {
		case *ssa.Call:
			if x.Call.Value != ssa.Value(helper.Params[ai]) {
				good = false
			}
		case *ssa.DebugRef:
		default:
			good = false
		}
	}
	if !extra {
		return true, helper // never meets an OPT
	}
	return good && n > 0, helper
}

// sameAsParam: v is the parameter prm, or a load of the variable cell that holds it (a parameter captured by a closure
// lives in a cell; the only store into the cell is the parameter itself).
func sameAsParam(p *Prog, v ssa.Value, prm *ssa.Parameter) bool {
	if v == ssa.Value(prm) {
		return true
	}
	ld, ok := v.(*ssa.UnOp)
	if !ok || ld.Op != token.MUL {
		return false
	}
	al, ok := resolveAddr(ld.X).(*ssa.Alloc)
	if !ok {
		return false
	}
	vals := p.newTracer().storesTo(al)
	return len(vals) == 1 && vals[0] == ssa.Value(prm)
}
