package main

import (
	"go/token"

	"golang.org/x/tools/go/ssa"
)

// guardSpec: every read of Field needs Lock held in mode >= R, every write needs it in mode W.
type guardSpec struct {
	Field  string
	Lock   string
	Exempt func(f *ssa.Function, in ssa.Instruction, kind string) string // reason or ""
	// AtomicReadOK: plain reads need no lock (field is only advisory when read unlocked)
	ReadsFree bool
}

type fieldAccess struct {
	Fn    *ssa.Function
	Instr ssa.Instruction
	Kind  string // read | write
	What  string
}

// fieldAccesses enumerates the accesses to field key `field` in f.
func fieldAccesses(f *ssa.Function, field string) []fieldAccess {
	var out []fieldAccess
	add := func(in ssa.Instruction, kind, what string) {
		out = append(out, fieldAccess{Fn: f, Instr: in, Kind: kind, What: what})
	}
	fresh := func(fa ssa.Value) bool {
		// field of an object allocated in this very function and addressed directly: constructor
		x, ok := fa.(*ssa.FieldAddr)
		if !ok {
			return false
		}
		_, isAlloc := x.X.(*ssa.Alloc)
		return isAlloc
	}
	eachInstr(f, func(in ssa.Instruction) {
		switch x := in.(type) {
		case *ssa.Store:
			if k, ok := fieldKey(x.Addr); ok && k == field {
				if !fresh(x.Addr) {
					add(in, "write", "store")
				}
			}
			if ia, ok := x.Addr.(*ssa.IndexAddr); ok {
				if k, ok := baseFieldOfContainer(ia.X); ok && k == field {
					add(in, "write", "element store")
				}
			}
		case *ssa.UnOp:
			if x.Op != token.MUL {
				return
			}
			if k, ok := fieldKey(x.X); ok && k == field {
				if fresh(x.X) {
					return
				}
				add(in, "read", "load")
				// uses of the loaded container
				for _, r := range referrers(x) {
					switch y := r.(type) {
					case *ssa.Lookup:
						add(y, "read", "map lookup")
					case *ssa.Range:
						add(y, "read", "map range")
						for _, r2 := range referrers(y) {
							if nx, ok := r2.(*ssa.Next); ok {
								add(nx, "read", "map iteration step")
							}
						}
					case *ssa.MapUpdate:
						if y.Map == ssa.Value(x) {
							add(y, "write", "map update")
						}
					case *ssa.Call:
						switch callName(y) {
						case "builtin:len":
							add(y, "read", "len")
						case "builtin:delete", "builtin:clear":
							if y.Call.Args[0] == ssa.Value(x) {
								add(y, "write", "map delete")
							}
						}
					case *ssa.IndexAddr:
						for _, r2 := range referrers(y) {
							if _, ok := r2.(*ssa.UnOp); ok {
								add(r2, "read", "element load")
							}
						}
					}
				}
			}
		}
	})
	return out
}

// checkFieldGuard evaluates one guardSpec over scope and records one obligation per access.
func checkFieldGuard(c *Ctx, lf *lockFacts, scope []*ssa.Function, g guardSpec) int {
	n := 0
	for _, f := range scope {
		for _, a := range fieldAccesses(f, g.Field) {
			key := g.Field + ":" + a.Kind + "@" + funcName(f)
			if g.Exempt != nil {
				if why := g.Exempt(f, a.Instr, a.Kind); why != "" {
					c.ok(key, instrPos(a.Instr), "%s exempt: %s", a.What, why)
					n++
					continue
				}
			}
			held := lf.held(a.Instr)[g.Lock]
			need := lockR
			if a.Kind == "write" {
				need = lockW
			}
			if a.Kind == "read" && g.ReadsFree {
				c.ok(key, instrPos(a.Instr), "%s (reads of this field are advisory)", a.What)
				n++
				continue
			}
			n++
			if held >= need {
				c.ok(key, instrPos(a.Instr), "%s under %s (%s)", a.What, g.Lock, modeName(held))
			} else {
				c.fail(key, instrPos(a.Instr), "%s of %s with %s held in mode %s, needs %s: data race with concurrent accesses", a.What, g.Field, g.Lock, modeName(held), modeName(need))
			}
		}
	}
	return n
}

func modeName(m lockMode) string {
	switch m {
	case lockR:
		return "R"
	case lockW:
		return "W"
	}
	return "none"
}
