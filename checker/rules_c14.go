package main

import (
	"fmt"
	"go/token"
	"go/types"
	"strings"

	"golang.org/x/tools/go/ssa"
)

const relForward = "plugin/executable/forward"

func init() {
	register(&propDef{
		ID: "C14",
		Explanation: "Decides the structural conditions of forward's fan-out: (R1) by interval analysis over all paths, the concurrency used by both loops is within [1,3] for every configured value; " +
			"(R2) every helper sends the bytes of its own per-iteration copy of the packed query, released only by itself; no goroutine touches the shared packed query whose release is " +
			"deferred by the caller; (R3) a helper hands its result over inside a select with the caller's done channel (closed by defer) and runs under WithTimeout(Background, 5 s); " +
			"(R4) the collecting select watches the caller's context; (R5) a result is accepted early exactly for rcode NOERROR/NXDOMAIN, any result is accepted at the last iteration " +
			"(i >= helpers-1), failed results are skipped, and both loops use the same helper count; (R6) helper i queries us[(r+i) % len(us)] with r = rand.IntN(len(us)); (R7) an unknown tag " +
			"is an error and no tag selects all upstreams. Arrival order and timing are not decided.",
		Assumptions: []string{"math/rand/v2.IntN(n) in [0,n)"},
		Run:         runC14,
	})
}

func runC14(c *Ctx) {
	p := c.P
	f := c.fn(relForward, "Forward", "exchange")
	if f == nil {
		return
	}
	c.see(f)
	// the helper
	var helper *ssa.Function
	var goIn *ssa.Go
	eachInstr(f, func(in ssa.Instruction) {
		if g, ok := in.(*ssa.Go); ok {
			if fn := staticCallee(g); fn != nil && (fn.Parent() == f || (fn.Pkg == f.Pkg && len(fn.Blocks) > 0)) {
				// the helper: a closure of exchange, or (closure-to-method refactoring) a function of the package that
				// the `go` statement starts with the former captures as arguments
				helper, goIn = fn, g
			}
		}
	})
	if helper == nil {
		c.rule("R1", "concurrency clamp", 1)
		c.anchorMissing("helper goroutine in Forward.exchange")
		return
	}
	// loops: `i < N` headers
	type loop struct {
		iff   *ssa.If
		phi   *ssa.Phi
		bound ssa.Value
		down  bool // counts down from bound to 1 (`for pending := n; pending > 0; pending--`)
	}
	var loops []loop
	for _, b := range f.Blocks {
		iff, ok := terminator(b).(*ssa.If)
		if !ok {
			continue
		}
		bo, ok := iff.Cond.(*ssa.BinOp)
		if ok && bo.Op == token.GTR {
			// count-down form: `pending > 0` on a phi that starts at the bound and is decremented by one
			if z, isC := constInt(bo.Y); isC && z == 0 {
				if ph, isPhi := bo.X.(*ssa.Phi); isPhi && ph.Block() == b && len(ph.Edges) == 2 {
					var init ssa.Value
					dec := false
					for _, e := range ph.Edges {
						if sub, isSub := e.(*ssa.BinOp); isSub && sub.Op == token.SUB && sub.X == ssa.Value(ph) {
							if k, isK := constInt(sub.Y); isK && k == 1 {
								dec = true
								continue
							}
						}
						init = e
					}
					if dec && init != nil {
						loops = append(loops, loop{iff, ph, init, true})
					}
				}
			}
			continue
		}
		if !ok || bo.Op != token.LSS {
			continue
		}
		phi, ok := bo.X.(*ssa.Phi)
		if !ok || phi.Block() != b {
			// `for i := range n` (Go 1.22) is lowered to a rotated loop: a pre-test `0 < n` in front of the body, whose
			// phi starts at 0, and the latch test `i+1 < n` at the end of the body
			if z, isC := constInt(bo.X); isC && z == 0 && len(b.Succs) == 2 {
				for _, in := range b.Succs[0].Instrs {
					ph, isPhi := in.(*ssa.Phi)
					if !isPhi {
						break
					}
					for _, e := range ph.Edges {
						inc, isInc := e.(*ssa.BinOp)
						if !isInc || inc.Op != token.ADD || inc.X != ssa.Value(ph) {
							continue
						}
						if k, isK := constInt(inc.Y); !isK || k != 1 {
							continue
						}
						for _, r := range referrers(inc) {
							if lt, isLt := r.(*ssa.BinOp); isLt && lt.Op == token.LSS && lt.X == ssa.Value(inc) && lt.Y == bo.Y {
								loops = append(loops, loop{iff, ph, bo.Y, false})
							}
						}
					}
				}
			}
			continue
		}
		loops = append(loops, loop{iff, phi, bo.Y, false})
	}
	var spawn, collect *loop
	for i := range loops {
		l := &loops[i]
		if l.iff.Block().Dominates(goIn.Block()) && succOnTruth(l.iff, true).Dominates(goIn.Block()) {
			spawn = l
		}
	}
	var callerSel *ssa.Select
	eachInstr(f, func(in ssa.Instruction) {
		if s, ok := in.(*ssa.Select); ok && s.Blocking {
			callerSel = s
		}
	})
	var callerRecv ssa.Instruction
	if callerSel != nil {
		callerRecv = callerSel
	} else {
		eachInstr(f, func(in ssa.Instruction) {
			if u, ok := in.(*ssa.UnOp); ok && u.Op == token.ARROW {
				callerRecv = in
			}
		})
	}
	for i := range loops {
		l := &loops[i]
		if callerRecv != nil && succOnTruth(l.iff, true).Dominates(callerRecv.Block()) {
			collect = l
		}
	}

	// ---------------------------------------------------------------- R1
	c.rule("R1", "the helper count is within [1,3] at both loops for every configured concurrency", 2)
	if spawn == nil || collect == nil {
		c.undecided("loops", f.Pos(), "cannot find the spawning and the collecting loop")
		return
	}
	for name, l := range map[string]*loop{"spawn": spawn, "collect": collect} {
		iv, ok := rangeAt(f, l.iff, l.bound, "", nil)
		if !ok {
			c.undecided("clamp@"+name, instrPos(l.iff), "interval analysis did not terminate")
			continue
		}
		c.check(iv.lo >= 1 && iv.hi <= 3, "clamp@"+name, instrPos(l.iff), "helper count in "+iv.String(),
			"the helper count is in "+iv.String()+" (must be within [1,3]): a non-positive value queries nobody, a large one floods the upstreams")
	}
	c.check(spawn.bound == collect.bound, "same-count", instrPos(collect.iff), "both loops use the same helper count", "the collecting loop does not wait for exactly as many results as helpers were started")
	{
		// the bound is the only thing that limits the number of helpers: inside the spawning loop the `go` runs under no
		// further condition (otherwise fewer helpers start than the collecting loop waits for)
		outer := map[string]bool{}
		for _, g := range guardsOf(spawn.iff.Block()) {
			outer[guardKey(g)] = true
		}
		extra := ""
		for _, g := range guardsOfInstr(goIn) {
			if outer[guardKey(g)] || g.If == spawn.iff {
				continue
			}
			if g.Derived {
				continue
			}
			extra = guardText(g)
		}
		if sk, _ := iterationCanSkip(goIn, nil); sk && extra == "" {
			extra = "a condition that moves on to the next iteration without starting a helper"
		}
		c.check(extra == "", "spawn-unconditional", instrPos(goIn), "every iteration of the spawning loop starts a helper",
			"inside the spawning loop the helper is started only under "+extra+": fewer helpers run than the collecting loop waits for, so the last real result is not recognised as the last and the call ends with the context's error instead of that result")
	}

	// ---------------------------------------------------------------- R2
	c.rule("R2", "each helper sends its own per-iteration copy of the query; nobody touches the shared, defer-released packed query", 3)
	var packed ssa.Value
	eachInstr(f, func(in ssa.Instruction) {
		if ci, ok := in.(*ssa.Call); ok && callName(ci) == "pkg/pool.PackBuffer" {
			for _, r := range referrers(ci) {
				if ex, ok := r.(*ssa.Extract); ok && ex.Index == 0 {
					packed = ex
				}
			}
		}
	})
	var upCall *ssa.Call
	eachInstr(helper, func(in ssa.Instruction) {
		if ci, ok := in.(*ssa.Call); ok && strings.HasSuffix(callName(ci), ".ExchangeContext") {
			upCall = ci
		}
	})
	if packed == nil || upCall == nil {
		c.anchorMissing("PackBuffer result / upstream ExchangeContext call")
	} else {
		tr := p.newTracer()
		tr.throughParams, tr.throughFields, tr.throughCalls = false, false, false
		if helper.Parent() != f {
			tr.throughParams = true // the helper is a function of its own: what it works on are the `go` statement's arguments
		}
		// payload = *(*qc)
		payload := upCall.Call.Args[2]
		var ptr ssa.Value
		if ld, ok := payload.(*ssa.UnOp); ok && ld.Op == token.MUL {
			ptr = ld.X
		}
		good, why := false, "the helper does not send a dereferenced buffer pointer"
		var copyCall *ssa.Call
		if ptr != nil {
			roots := tr.origins(ptr)
			good = len(roots) == 1
			for _, r := range roots {
				cl, ok := r.(*ssa.Call)
				if !ok || callName(cl) != relForward+".copyPayload" || cl.Parent() != f || cl.Call.Args[0] != packed {
					good = false
					why = "the bytes sent upstream come from " + exprStr(r) + ", not from a private copyPayload(packed query)"
					continue
				}
				copyCall = cl
				// per iteration: inside the spawn loop body
				if !succOnTruth(spawn.iff, true).Dominates(cl.Block()) {
					good = false
					why = "the copy is made once outside the loop and shared by all helpers"
				}
			}
		}
		c.check(good, "private-copy", instrPos(upCall), "each helper sends its own copyPayload(packed) made in its loop iteration", why+": a slow helper reads the query bytes after they were released to the pool and reused")
		// the helper releases its copy (deferred) and only that
		relOK := false
		eachInstr(helper, func(in ssa.Instruction) {
			if d, ok := in.(*ssa.Defer); ok && callName(d) == poolRel {
				roots := tr.origins(d.Call.Args[0])
				if len(roots) == 1 && copyCall != nil && roots[0] == ssa.Value(copyCall) {
					relOK = true
				}
			}
		})
		c.check(relOK, "copy-released-by-helper", helper.Pos(), "the helper releases its own copy when it ends", "the helper does not release (exactly) its own copy of the query")
		// the shared packed buffer is not captured by the helper
		captured := false
		var handedOver []ssa.Value
		if mc, isMC := goIn.Call.Value.(*ssa.MakeClosure); isMC {
			handedOver = mc.Bindings
		} else {
			handedOver = goIn.Call.Args
		}
		for _, b := range handedOver {
			for _, r := range tr.origins(b) {
				if r == packed {
					captured = true
				}
			}
			if al, ok := b.(*ssa.Alloc); ok {
				for _, v := range tr.storesTo(al) {
					if v == packed {
						captured = true
					}
				}
			}
		}
		c.check(!captured, "shared-buffer-not-captured", instrPos(goIn), "the goroutine does not capture the packed query whose release is deferred by the caller",
			"the helper goroutine captures the caller's packed query, which the caller releases when it returns while helpers may still be running")
	}

	// ---------------------------------------------------------------- R3
	c.rule("R3", "the helper cannot get stuck: result handed over in a select with done (closed by defer); fixed 5 s timeout context, which every exchange-path function below passes on", 10)
	{
		var doneID ssa.Value
		eachInstr(f, func(in ssa.Instruction) {
			if d, ok := in.(*ssa.Defer); ok && callName(d) == "builtin:close" {
				doneID = chanID(d.Call.Args[0])
			}
		})
		c.check(doneID != nil, "done-closed-by-defer", f.Pos(), "the caller closes the done channel by defer", "the caller does not close a done channel on return: helpers finishing later block forever on their send")
		good := false
		extraCase := false
		nSend := 0
		eachInstr(helper, func(in ssa.Instruction) {
			switch x := in.(type) {
			case *ssa.Send:
				nSend++
			case *ssa.Select:
				hasSend, hasDone := false, false
				for _, st := range x.States {
					if st.Dir == types.SendOnly {
						hasSend = true
					}
					if st.Dir == types.RecvOnly && doneID != nil && (chanID(st.Chan) == doneID || chanID(stripChanConv(goArg(goIn, helper, st.Chan))) == doneID) {
						hasDone = true
					}
				}
				if hasSend && hasDone && x.Blocking {
					good = true
				}
				// nothing else may end the hand-over: a third case (e.g. the helper's own expired 5 s context) drops
				// the result, the collector waits for a report that never comes (round 12)
				if hasSend && len(x.States) != 2 {
					extraCase = true
				}
			}
		})
		c.check(good && nSend == 0, "send-or-done", helper.Pos(), "the helper's only send is a select case next to <-done", "the helper sends its result without selecting on the caller's done channel: when the caller already returned, the goroutine leaks")
		c.check(!extraCase, "send-or-done-only", helper.Pos(), "the hand-over select has exactly the send and the done case", "the helper's hand-over select has a case besides the send and <-done (or is non-blocking): a result can be dropped while the collector still waits for it — the call then ends with the caller's context instead of the last reply / 'all upstream servers failed'")
		// context
		ctxOK := false
		if upCall != nil {
			if ex, ok := upCall.Call.Args[1].(*ssa.Extract); ok {
				if cl, ok := ex.Tuple.(*ssa.Call); ok && callName(cl) == "context.WithTimeout" {
					if bg, ok := cl.Call.Args[0].(*ssa.Call); ok && callName(bg) == "context.Background" {
						if n, ok := constInt(cl.Call.Args[1]); ok && n == 5*1000000000 {
							ctxOK = true
						}
					}
				}
			}
		}
		c.check(ctxOK, "helper-timeout", helper.Pos(), "upstream exchange under WithTimeout(Background, 5 s)", "the helper's exchange does not run under the fixed 5 s timeout context")
		// and nothing below the helper detaches from that context: every exchange-path function of the upstream packages
		// passes its own context on (round 13: the TCP retry of a truncated UDP reply ran under a context of its own, the
		// helper outlived its 5 s bound)
		checkCallerCtxPassedOn(c, p.funcsIn(relTransport, relUpstream))
	}

	// ---------------------------------------------------------------- R4
	c.rule("R4", "the collecting select watches the caller's context", 1)
	if callerSel != nil {
		has := false
		for _, st := range callerSel.States {
			if cl, ok := st.Chan.(*ssa.Call); ok && callName(cl) == "invoke:(context.Context).Done" && isParamValue(p, cl.Call.Value, f.Params[1]) {
				has = true
			}
		}
		c.check(has, "collect-ctx", instrPos(callerSel), "select has <-ctx.Done()", "the collection does not watch the caller's context: the call can outlive it")
		// D49: a good reply that arrived before the context ended is not lost to the coin toss between the two cases
		checkCtxCasePollsResultIn(c, f)
	} else {
		c.fail("collect-ctx", f.Pos(), "no collecting select")
	}
	checkNoSynchronousDetachedExchange(c, relForward)

	// ---------------------------------------------------------------- R5
	c.rule("R5", "acceptance: early only for NOERROR/NXDOMAIN, anything at the last iteration, failures skipped", 2)
	{
		// the success return: returns the received message with nil error
		var accept *ssa.Return
		var msg ssa.Value
		// accepting returns inside the ctx.Done() case of the collecting select (D49: a reply that arrived before the
		// context ended still counts) are checked on their own below
		var ctxBody *ssa.BasicBlock
		if callerSel != nil {
			if cases, _, okd := decodeSelect(callerSel); okd {
				for _, cs := range cases {
					if cs.State.Dir == types.RecvOnly && isCtxDone(cs.State.Chan) && cs.Body != nil {
						ctxBody = cs.Body
					}
				}
			}
		}
		var ctxAccepts []*ssa.Return
		for _, r := range returnsOf(f) {
			rv := returnedValues(r)
			if isNilConst(rv[1]) && !isNilConst(rv[0]) {
				if ctxBody != nil && ctxBody.Dominates(r.Block()) {
					ctxAccepts = append(ctxAccepts, r)
					continue
				}
				accept, msg = r, rv[0]
			}
		}
		// D54: a result polled after the context ended is judged by the ordinary rule — the ctx case has no acceptance
		// rule of its own (the D49 shape returned only NOERROR / NXDOMAIN from there and dropped the last upstream's
		// SERVFAIL / REFUSED reply that had arrived in time)
		for _, r := range ctxAccepts {
			c.fail("accept-rule:after-ctx", instrPos(r), "the ctx.Done() case accepts replies by a rule of its own: a reply that arrived before the context ended is not judged like any other (the last upstream's reply must be returned whatever its rcode)")
		}
		if ctxBody != nil && len(ctxAccepts) == 0 {
			feeds := false
			eachInstr(f, func(in ssa.Instruction) {
				sel, ok := in.(*ssa.Select)
				if !ok || sel.Blocking || !ctxBody.Dominates(sel.Block()) {
					return
				}
				cases, _, okd := decodeSelect(sel)
				if !okd {
					return
				}
				for _, cs := range cases {
					if cs.State.Dir != types.RecvOnly || cs.Body == nil {
						continue
					}
					// from the polled receive the ordinary accepting return is reachable without going through the
					// collecting select again
					for _, r := range returnsOf(f) {
						rv := returnedValues(r)
						if !isNilConst(rv[1]) || isNilConst(rv[0]) {
							continue
						}
						if _, reach := reachFromBlock(cs.Body, func(x ssa.Instruction) bool { return x == ssa.Instruction(r) }, func(x ssa.Instruction) bool { return x == ssa.Instruction(callerSel) }); reach {
							feeds = true
						}
					}
				}
			})
			c.check(feeds, "ctx-poll-feeds-ordinary-rule", instrPos(callerSel), "a result polled in the ctx.Done() case reaches the ordinary acceptance rule",
				"a result polled after the context ended does not reach the ordinary acceptance rule: the last upstream's reply that arrived in time is dropped (D54)")
		}
		if accept == nil {
			c.anchorMissing("accepting return in Forward.exchange")
		} else {
			// err == nil guard
			errSkipped := false
			for _, g := range guardsOfInstr(accept) {
				if cm, ok := g.asCmp(); ok && isNilConst(cm.Y) && cm.Op == token.EQL && cm.X.Type().String() == "error" {
					// the error that came with the received result
					if k, ok := loadedField(cm.X); ok && strings.HasSuffix(k, ".res.err") {
						errSkipped = true
					}
					// whatever the result type is called: an error field of the value received from the result channel
					var base ssa.Value
					switch x := cm.X.(type) {
					case *ssa.Field:
						base = fieldBase(x)
					case *ssa.UnOp:
						base = fieldBase(x.X)
					}
					if al, isAl := base.(*ssa.Alloc); isAl {
						// a local copy of the received value
						for _, r := range referrers(al) {
							if st, isSt := r.(*ssa.Store); isSt && st.Addr == ssa.Value(al) {
								base = st.Val
							}
						}
					}
					if ex, isEx := base.(*ssa.Extract); isEx {
						if _, isSel := ex.Tuple.(*ssa.Select); isSel && ex.Index >= 2 {
							errSkipped = true
						}
					}
					if u, isU := base.(*ssa.UnOp); isU && u.Op == token.ARROW {
						errSkipped = true
					}
				}
			}
			c.check(errSkipped, "skip-failed", instrPos(accept), "a failed or unparsable result is never returned", "a result with an error can be returned as the answer")
			// preds of the accept block: each predecessor edge carries one reason to accept
			blk := accept.Block()
			var reasons []string
			okShape := true
			// the conditions under which control enters the accept block, named booleans (`isGood := a || b`) expanded
			type condT struct {
				cond  ssa.Value
				truth bool
			}
			var conds []condT
			var expand func(cond ssa.Value, truth bool, depth int)
			expand = func(cond ssa.Value, truth bool, depth int) {
				if ph, isPhi := cond.(*ssa.Phi); isPhi && truth && depth < 3 {
					for i, e := range ph.Edges {
						if b, isC := constBool(e); isC {
							if !b {
								continue
							}
							pp := ph.Block().Preds[i]
							if pif, ok := terminator(pp).(*ssa.If); ok {
								expand(pif.Cond, pp.Succs[0] == ph.Block(), depth+1)
							} else {
								okShape = false
							}
							continue
						}
						expand(e, true, depth+1)
					}
					return
				}
				conds = append(conds, condT{cond, truth})
			}
			for _, pr := range blk.Preds {
				iff, ok := terminator(pr).(*ssa.If)
				if !ok {
					okShape = false
					continue
				}
				expand(iff.Cond, pr.Succs[0] == blk, 0)
			}
			for _, cd := range conds {
				g := guard{Cond: cd.cond, Truth: cd.truth}
				cm, ok := g.asCmp()
				if !ok {
					okShape = false
					continue
				}
				// rcode == 0 / rcode == 3
				if k, isF := loadedField(cm.X); isF && strings.HasSuffix(k, "dns.MsgHdr.Rcode") && cm.Op == token.EQL {
					if n, ok := constInt(cm.Y); ok && (n == 0 || n == 3) {
						base := fieldBase(cm.X.(*ssa.UnOp).X)
						if base == msg || sameLoadedPlace(base, msg) {
							reasons = append(reasons, fmt.Sprintf("rcode==%d", n))
							continue
						}
					}
				}
				// i >= count-1
				// count-down loop: the last result is awaited when one is outstanding
				if collect.down && cm.X == ssa.Value(collect.phi) && (cm.Op == token.EQL || cm.Op == token.LEQ) {
					if n, ok := constInt(cm.Y); ok && n == 1 {
						reasons = append(reasons, "last")
						continue
					}
				}
				// (inside the loop i < count holds, so i == count-1 says the same)
				if !collect.down && cm.X == ssa.Value(collect.phi) && (cm.Op == token.GEQ || cm.Op == token.EQL) {
					if bo, ok := cm.Y.(*ssa.BinOp); ok && bo.Op == token.SUB && bo.X == collect.bound {
						if n, ok := constInt(bo.Y); ok && n == 1 {
							reasons = append(reasons, "last")
							continue
						}
					}
				}
				okShape = false
				reasons = append(reasons, "?"+exprStr(g.Cond)+fmt.Sprintf("=%v", g.Truth))
			}
			has := func(s string) bool {
				for _, r := range reasons {
					if r == s {
						return true
					}
				}
				return false
			}
			c.check(okShape && has("rcode==0") && has("rcode==3") && has("last") && len(reasons) == 3, "accept-rule", instrPos(accept),
				"accepted iff last iteration or rcode in {NOERROR, NXDOMAIN}",
				"the acceptance rule is "+strings.Join(reasons, " | ")+"; expected exactly {i >= helpers-1, rcode==NOERROR, rcode==NXDOMAIN}: a SERVFAIL can mask a good answer still to come, or the last reply is dropped")
		}
	}

	// ---------------------------------------------------------------- R6
	c.rule("R6", "helper i queries us[(r+i) % len(us)], r = rand.IntN(len(us))", 1)
	{
		us := f.Params[3]
		good := false
		eachInstr(f, func(in ssa.Instruction) {
			ia, ok := in.(*ssa.IndexAddr)
			if !ok || ia.X != ssa.Value(us) {
				return
			}
			rem, ok := ia.Index.(*ssa.BinOp)
			if !ok || rem.Op != token.REM {
				return
			}
			isLenUs := func(v ssa.Value) bool {
				cl, ok := v.(*ssa.Call)
				return ok && callName(cl) == "builtin:len" && cl.Call.Args[0] == ssa.Value(us)
			}
			add, ok := rem.X.(*ssa.BinOp)
			if !ok || add.Op != token.ADD || !isLenUs(rem.Y) {
				return
			}
			a, b := add.X, add.Y
			if b != ssa.Value(spawn.phi) {
				a, b = b, a
			}
			if b != ssa.Value(spawn.phi) {
				return
			}
			if cl, ok := a.(*ssa.Call); ok && callName(cl) == "math/rand/v2.IntN" && isLenUs(cl.Call.Args[0]) {
				good = true
			}
		})
		c.check(good, "selection", f.Pos(), "cyclic selection from a random start", "upstreams are not selected as us[(rand.IntN(len(us))+i) % len(us)]")
	}

	// ---------------------------------------------------------------- R7
	c.rule("R10", "the collecting loop ends only by accepting a result or because the caller's context ended; the per-upstream wrapper sends the query once, under its caller's context; each helper has its own upstream variable", 5)
	{
		body := succOnTruth(collect.iff, true)
		for _, r := range returnsOf(f) {
			if !body.Dominates(r.Block()) {
				continue
			}
			rv := returnedValues(r)
			key := "collect-return:other"
			switch {
			case len(rv) == 2 && isNilConst(rv[1]) && !isNilConst(rv[0]):
				c.ok("collect-return:accept", instrPos(r), "the accepting return")
			case len(rv) == 2 && isNilConst(rv[0]):
				cl, ok := rv[1].(*ssa.Call)
				if ok && callName(cl) == "context.Cause" {
					key = "collect-return:context"
				}
				c.check(ok && callName(cl) == "context.Cause", key, instrPos(r), "ends with the context's error", "the collecting loop returns "+exprStr(rv[1])+" before all helpers reported: one failing upstream masks the good answer of another queried upstream")
			default:
				c.fail(key, instrPos(r), "unexpected return inside the collecting loop")
			}
		}
		// the wrapper
		if wf := c.fn(relForward, "upstreamWrapper", "ExchangeContext"); wf != nil {
			var calls []*ssa.Call
			eachInstr(wf, func(in ssa.Instruction) {
				if ci, ok := in.(*ssa.Call); ok && ci.Call.IsInvoke() && ci.Call.Method.Name() == "ExchangeContext" {
					calls = append(calls, ci)
				}
			})
			good := len(calls) == 1
			why := fmt.Sprintf("%d ExchangeContext calls", len(calls))
			if good {
				ci := calls[0]
				if _, cyc := reachAvoiding(ci, func(x ssa.Instruction) bool { return x == ssa.Instruction(ci) }, nil); cyc {
					good, why = false, "the exchange is repeated in a loop"
				}
				if !isParamValue(p, ci.Call.Args[0], wf.Params[1]) {
					good, why = false, "the exchange runs under "+exprStr(ci.Call.Args[0])+", not the context it was given"
				}
				if ci.Call.Args[1] != ssa.Value(wf.Params[2]) {
					good, why = false, "the exchange sends "+exprStr(ci.Call.Args[1])+", not the bytes it was given"
				}
			}
			// what the wrapper returns is what the upstream returned (round 12: a "does the reply echo the question" test
			// turned legal replies — empty question section, lower-cased name — into errors)
			if len(calls) == 1 {
				same := true
				nRet := 0
				for _, ret := range returnsOf(wf) {
					rv := returnedValues(ret)
					if len(rv) != 2 {
						continue
					}
					nRet++
					for i := 0; i < 2; i++ {
						ex, ok := rv[i].(*ssa.Extract)
						if !ok || ex.Tuple != ssa.Value(calls[0]) || ex.Index != i {
							same = false
						}
					}
				}
				c.check(same && nRet > 0, "wrapper-returns-upstream-result", wf.Pos(), "the wrapper returns the upstream's reply and error unchanged",
					"the per-upstream wrapper does not return exactly what the upstream's ExchangeContext returned: a reply is replaced or turned into an error before the collecting loop sees it")
			}
			c.check(good, "wrapper-sends-once", wf.Pos(), "the wrapper forwards the query once, under the helper's context, unchanged", "the per-upstream wrapper does not forward exactly one exchange under its caller's context ("+why+"): the helper outlives the fixed 5 s bound or the query is sent twice")
		}
		// the helper reports what the upstream gave: it does not judge the rcode (that is the collector's job: the
		// last reply counts whatever its rcode)
		rc := false
		eachInstr(helper, func(in ssa.Instruction) {
			if fa, ok := in.(*ssa.FieldAddr); ok {
				if k, _ := fieldKey(fa); strings.HasSuffix(k, "dns.MsgHdr.Rcode") {
					rc = true
				}
			}
		})
		c.check(!rc, "helper-does-not-judge-rcode", helper.Pos(), "the helper passes replies on whatever their rcode", "the helper goroutine inspects the reply's rcode (e.g. turns SERVFAIL into an error): the last reply is no longer returned whatever its rcode")
		// per-helper variables
		var mc *ssa.MakeClosure
		if m, ok := goIn.Call.Value.(*ssa.MakeClosure); ok {
			mc = m
		}
		if mc != nil {
			spawnBody := succOnTruth(spawn.iff, true)
			shared := ""
			for i, b := range mc.Bindings {
				al, ok := b.(*ssa.Alloc)
				if !ok {
					continue
				}
				storedInLoop := false
				for _, r := range referrers(al) {
					if st, ok := r.(*ssa.Store); ok && st.Addr == ssa.Value(al) && spawnBody.Dominates(st.Block()) {
						storedInLoop = true
					}
				}
				if storedInLoop && !spawnBody.Dominates(al.Block()) {
					shared = helper.FreeVars[i].Name()
				}
			}
			c.check(shared == "", "helper-variables-per-iteration", instrPos(goIn), "variables assigned in the spawning loop and used by the helper are per-iteration", "the variable "+shared+" is declared outside the spawning loop, assigned in it and captured by the helpers: all helpers see its last value and query the same upstream")
		}
	}

	c.rule("R9", "the query is packed into a pool buffer of its own (what the helpers copy and the deferred release returns is that buffer)", 1)
	checkPackBufferExact(c)

	c.rule("R8", "raw replies are not indexed before Unpack unless a length guard covers the index (garbage of any length is an error, not a panic)", 3)
	checkRawIndexGuarded(c, p.funcsIn(relForward), nil)

	c.rule("R7", "tag subsets: unknown tag is an error; no tag means all upstreams", 2)
	if q := c.fn(relForward, "Forward", "QuickConfigureExec"); q != nil {
		unknownErr, allDefault := false, false
		wholeListElsewhere := false
		// the tag string as seen inside a function of q's body: q's own parameter, or the parameter of a new helper that
		// is handed it at the helper's only call site (whose error q must pass on)
		argsIn := func(g *ssa.Function) ssa.Value {
			if g == q || g.Parent() != nil {
				return q.Params[1]
			}
			site, _ := soleCallSite(g).(*ssa.Call)
			if site == nil || site.Parent() != q {
				return nil
			}
			if ok, _ := errCheckedAndReturned(site); !ok {
				return nil
			}
			for i, a := range site.Call.Args {
				if a == ssa.Value(q.Params[1]) && i < len(g.Params) {
					return g.Params[i]
				}
			}
			return nil
		}
		eachInstrDeep(q, func(q *ssa.Function, in ssa.Instruction) {
			argsV := argsIn(q)
			if argsV == nil {
				return
			}
			if lk, ok := in.(*ssa.Lookup); ok {
				if k, _ := loadedField(lk.X); k == relForward+".Forward.tag2Upstream" {
					// comma-ok form: `u, ok := m[tag]; if !ok { return error }`
					if lk.CommaOk {
						for _, r := range referrers(lk) {
							ex, isEx := r.(*ssa.Extract)
							if !isEx || ex.Index != 1 {
								continue
							}
							eachInstr(q, func(y ssa.Instruction) {
								iff, isIf := y.(*ssa.If)
								if !isIf {
									return
								}
								for _, truth := range []bool{true, false} {
									g := guard{Cond: iff.Cond, Truth: truth, If: iff}
									if v, t := g.asBool(); v == ssa.Value(ex) && !t {
										if ret, ok := reachFromBlock(succOnTruth(iff, truth), isReturn, nil); ok {
											rv := returnedValues(ret.(*ssa.Return))
											if !isNilConst(rv[1]) {
												unknownErr = true
											}
										}
									}
								}
							})
						}
					}
					for _, r := range referrers(lk) {
						if bo, ok := r.(*ssa.BinOp); ok && bo.Op == token.EQL && isNilConst(bo.Y) {
							for _, r2 := range referrers(bo) {
								if iff, ok := r2.(*ssa.If); ok {
									if ret, ok := reachFromBlock(iff.Block().Succs[0], isReturn, nil); ok {
										rv := returnedValues(ret.(*ssa.Return))
										if !isNilConst(rv[1]) {
											unknownErr = true
										}
									}
								}
							}
						}
					}
				}
			}
			if u, ok := in.(*ssa.UnOp); ok && u.Op == token.MUL {
				if k, _ := fieldKey(u.X); k == relForward+".Forward.us" {
					under := false
					for _, g := range guardsOfInstr(in) {
						if cm, ok := g.asCmp(); ok && (cm.Op == token.EQL || cm.Op == token.LEQ) { // len(args) == 0, or "not len(args) > 0"
							if cl, ok := cm.X.(*ssa.Call); ok && callName(cl) == "builtin:len" && argsV != nil && cl.Call.Args[0] == argsV {
								if n, ok := constInt(cm.Y); ok && n == 0 {
									allDefault = true
									under = true
								}
							}
						}
					}
					if !under {
						wholeListElsewhere = true
					}
				}
			}
		})
		c.check(unknownErr, "unknown-tag", q.Pos(), "an unknown tag is rejected", "an unknown upstream tag is silently ignored")
		c.check(allDefault && !wholeListElsewhere, "no-tag-all", q.Pos(), "the whole upstream list is used exactly when no tag is given", "the whole upstream list is used without / outside the 'no tag given' test: a tag subset can silently become all upstreams (e.g. when the tag list is as long as the upstream list)")
	}
}

// goArg: for a helper that is a function of its own (started with `go helper(args...)`), the argument bound to the
// parameter v; v itself otherwise.
func goArg(g *ssa.Go, helper *ssa.Function, v ssa.Value) ssa.Value {
	prm, ok := v.(*ssa.Parameter)
	if !ok || g == nil {
		return v
	}
	for i, q := range helper.Params {
		if q == prm && i < len(g.Call.Args) {
			return g.Call.Args[i]
		}
	}
	return v
}
