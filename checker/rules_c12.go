package main

import (
	"fmt"
	"go/token"
	"strings"

	"golang.org/x/tools/go/ssa"
)

const relDomain = "pkg/matcher/domain"

func init() {
	register(&propDef{
		ID: "C12",
		Explanation: "The 'if and only if' of domain matching over all rule sets and names (trie walk, scanner arithmetic, substring and regexp semantics) quantifies over inputs and is NOT decided. " +
			"Decided are its structural necessary conditions: (R1) rule side and query side of the full/domain/keyword matchers normalise through the same function before any other use, " +
			"regular expressions are compiled exactly as written and only the name is normalised, and the mixed matcher hands the pattern to the sub-matcher unchanged; (R2) the domain matcher " +
			"tokenises rules and names with the same reverse label scanner whose only separator is '.'; (R3) the type dispatch table maps full/domain/regexp/keyword to the matcher of that kind " +
			"and the constructor fills all four; (R4) lookups consult full, domain, regexp, keyword in this order and return the first hit; (R5) sets use the documented default rule type; " +
			"(R6) the trie walk only replaces its result by the value of a visited node that has one (deepest match wins).",
		Assumptions: []string{"strings.ToLower / regexp / strings.Contains as documented"},
		Run:         runC12,
	})
}

func runC12(c *Ctx) {
	p := c.P
	D := relDomain + "."
	c.see(p.funcsIn(relDomain)...)
	norm := c.fn(relDomain, "", "NormalizeDomain")
	if norm == nil {
		return
	}

	// ---------------------------------------------------------------- R1
	c.rule("R1", "rule side and query side normalise identically; regexps are compiled as written; patterns reach sub-matchers unchanged", 9)
	var throughNorm func(s *ssa.Parameter, depth int) (bool, string)
	onlyThroughNorm := func(f *ssa.Function) (bool, string) { return throughNorm(f.Params[1], 0) }
	throughNorm = func(s *ssa.Parameter, depth int) (bool, string) {
		n := 0
		for _, r := range referrers(s) {
			switch x := r.(type) {
			case *ssa.DebugRef:
			case *ssa.Call:
				if staticCallee(x) == norm {
					n++
					continue
				}
				// a NEW helper that itself uses the string only through NormalizeDomain
				if h := x.Call.StaticCallee(); isNewHelper(h) && depth < 2 && len(h.Params) == len(x.Call.Args) {
					okAll, any := true, false
					for i, a := range x.Call.Args {
						if a == ssa.Value(s) {
							any = true
							if ok, _ := throughNorm(h.Params[i], depth+1); !ok {
								okAll = false
							}
						}
					}
					if any && okAll {
						n++
						continue
					}
				}
				return false, "the raw string is passed to " + callName(x)
			default:
				return false, "the raw string is used by " + strings.TrimSpace(r.String())
			}
		}
		if n == 0 {
			return false, "the string is never normalised"
		}
		return true, ""
	}
	for _, typ := range []string{"FullMatcher", "SubDomainMatcher", "KeywordMatcher"} {
		for _, m := range []string{"Add", "Match"} {
			f := c.fn(relDomain, typ, m)
			if f == nil {
				continue
			}
			ok, why := onlyThroughNorm(f)
			c.check(ok, "normalise@"+typ+"."+m, f.Pos(), "the string is used only through NormalizeDomain", why+": rules and names are compared in different spellings")
		}
	}
	if f := c.fn(relDomain, "RegexMatcher", "Match"); f != nil {
		ok, why := onlyThroughNorm(f)
		c.check(ok, "normalise@RegexMatcher.Match", f.Pos(), "the name is normalised before regexp matching", why)
	}
	if f := c.fn(relDomain, "RegexMatcher", "Add"); f != nil {
		expr := f.Params[1]
		good := false
		bad := ""
		for _, r := range referrers(expr) {
			if cl, ok := r.(*ssa.Call); ok {
				switch callName(cl) {
				case "regexp.Compile", "regexp.MustCompile":
					good = true
				default:
					bad = callName(cl)
				}
			}
		}
		c.check(good && bad == "", "regexp-as-written@RegexMatcher.Add", f.Pos(), "the expression is compiled exactly as written", "the regular expression is altered before compiling ("+bad+"): escapes like \\D or a trailing '.' change meaning")
	}
	if f := c.fn(relDomain, "MixMatcher", "Add"); f != nil {
		good := false
		why := "no Add call on the sub-matcher"
		eachInstr(f, func(in ssa.Instruction) {
			ci, ok := in.(*ssa.Call)
			if !ok || !ci.Call.IsInvoke() || ci.Call.Method.Name() != "Add" {
				return
			}
			pat := ci.Call.Args[0]
			if ex, ok := pat.(*ssa.Extract); ok && ex.Index == 1 {
				if cl, ok := ex.Tuple.(*ssa.Call); ok && strings.HasSuffix(callName(cl), ".splitTypeAndPattern") && cl.Call.Args[1] == ssa.Value(f.Params[1]) {
					good = true
					return
				}
			}
			why = "the pattern handed to the sub-matcher is " + exprStr(pat)
		})
		c.check(good, "pattern-unchanged@MixMatcher.Add", f.Pos(), "the pattern after the type prefix is passed on unchanged", why+": e.g. normalising a regexp pattern turns \\D into \\d")
	}
	if f := c.fn(relDomain, "MixMatcher", "splitTypeAndPattern"); f != nil {
		good := true
		for _, r := range returnsOf(f) {
			for _, lf := range expandCases(returnedValues(r)[1], nil, 0) {
				v := lf.val
				if v == ssa.Value(f.Params[1]) {
					continue
				}
				if ex, ok := v.(*ssa.Extract); ok {
					// the split operates on the rule text itself, as written, at the first ':'
					if cl, ok := ex.Tuple.(*ssa.Call); ok && callName(cl) == "pkg/utils.SplitString2" && cl.Call.Args[0] == ssa.Value(f.Params[1]) {
						if sep, ok := cl.Call.Args[1].(*ssa.Const); ok && sep.Value != nil && sep.Value.ExactString() == `":"` {
							continue
						}
					}
				}
				good = false
			}
		}
		c.check(good, "split@MixMatcher", f.Pos(), "the pattern is the text after the first ':' (or the whole string)", "splitTypeAndPattern alters the pattern")
	}

	{
		// the normaliser itself: lower-casing of the dot-trimmed string on every path (no conditional bypass)
		good := true
		n := 0
		for _, r := range returnsOf(norm) {
			n++
			v := returnedValues(r)[0]
			cl, ok := v.(*ssa.Call)
			if !ok || callName(cl) != "strings.ToLower" {
				good = false
				continue
			}
			in, ok := cl.Call.Args[0].(*ssa.Call)
			if !ok || callName(in) != relDomain+".TrimDot" || in.Call.Args[0] != ssa.Value(norm.Params[0]) {
				good = false
			}
		}
		c.check(good && n == 1, "normaliser-shape", norm.Pos(), "NormalizeDomain = strings.ToLower(TrimDot(s)) on its only path",
			"NormalizeDomain is not strings.ToLower(TrimDot(s)) on every path (a fast path or custom case folding cannot be checked here): rules and names may be folded differently")
	}

	// ---------------------------------------------------------------- R2
	c.rule("R2", "domain rules and names are tokenised by the same reverse label scanner, separator '.' only", 3)
	scanUse := func(f *ssa.Function) bool {
		newScan, scan, label := false, false, false
		eachInstrDeep(f, func(_ *ssa.Function, in ssa.Instruction) {
			ci, ok := in.(*ssa.Call)
			if !ok {
				return
			}
			switch callName(ci) {
			case relDomain + ".NewReverseDomainScanner":
				if a, ok := ci.Call.Args[0].(*ssa.Call); ok && staticCallee(a) == norm {
					newScan = true
				}
			case "(*" + D + "ReverseDomainScanner).Scan":
				scan = true
			case "(*" + D + "ReverseDomainScanner).NextLabel":
				label = true
			}
		})
		return newScan && scan && label
	}
	for _, m := range []string{"Add", "Match"} {
		if f := c.fn(relDomain, "SubDomainMatcher", m); f != nil {
			c.check(scanUse(f), "scanner@SubDomainMatcher."+m, f.Pos(), "iterates NewReverseDomainScanner(NormalizeDomain(s)) with Scan/NextLabel", "does not tokenise with the shared reverse label scanner over the normalised string")
		}
	}
	if f := c.fn(relDomain, "ReverseDomainScanner", "Scan"); f != nil {
		// the separator search: strings.LastIndexByte(…, '.') in Scan itself or in the one helper it calls; and (D18) the
		// search is escape-aware: names are in presentation format, a dot that is part of a label is written "\\." — the
		// searching function consults a helper that looks at the bytes in front of the dot for backslashes
		good, escapeAware := false, false
		seenFns := map[*ssa.Function]bool{}
		var visit func(g *ssa.Function, d int)
		visit = func(g *ssa.Function, d int) {
			if g == nil || seenFns[g] || d > 2 || !inMosdns(g) {
				return
			}
			seenFns[g] = true
			eachInstr(g, func(in ssa.Instruction) {
				if ci, ok := in.(*ssa.Call); ok {
					if callName(ci) == "strings.LastIndexByte" {
						if n, ok := constInt(ci.Call.Args[1]); ok && n == '.' {
							good = true
						}
					}
					visit(staticCallee(ci), d+1)
				}
				if bo, ok := in.(*ssa.BinOp); ok && (bo.Op == token.EQL || bo.Op == token.NEQ) {
					if n, isC := constInt(bo.Y); isC && n == '\\' {
						escapeAware = true
					}
				}
			})
		}
		visit(f, 0)
		c.check(good, "separator@Scan", f.Pos(), "labels are separated by '.' only", "the label separator is not '.': 'domain:' rules match on something other than a label boundary")
		// D43: the normaliser agrees with the scanner on what a separator is — TrimDot cuts the trailing dot only when
		// the escape predicate the scanner uses says it is not escaped (a name whose last label ends in "\\." keeps it)
		if td := c.fn(relDomain, "", "TrimDot"); td != nil {
			esc := map[*ssa.Function]bool{}
			for g := range seenFns {
				hasBS := false
				eachInstr(g, func(in ssa.Instruction) {
					if bo, ok := in.(*ssa.BinOp); ok && (bo.Op == token.EQL || bo.Op == token.NEQ) {
						if n, isC := constInt(bo.Y); isC && n == '\\' {
							hasBS = true
						}
					}
				})
				if hasBS {
					esc[g] = true
				}
			}
			good, n := true, 0
			why := ""
			eachInstr(td, func(in ssa.Instruction) {
				sl, ok := in.(*ssa.Slice)
				if !ok {
					return
				}
				n++
				guarded := false
				for _, g := range guardsOfInstr(sl) {
					v, truth := g.asBool()
					cl, isC := v.(*ssa.Call)
					if !isC || truth || !esc[staticCallee(cl)] || len(cl.Call.Args) != 2 || cl.Call.Args[0] != ssa.Value(td.Params[0]) {
						continue
					}
					// the index asked about is the last byte: len(s) - 1
					if bo, isB := cl.Call.Args[1].(*ssa.BinOp); isB && bo.Op == token.SUB {
						if k, isK := constInt(bo.Y); isK && k == 1 {
							if lc, isL := bo.X.(*ssa.Call); isL && callName(lc) == "builtin:len" && lc.Call.Args[0] == ssa.Value(td.Params[0]) {
								guarded = true
							}
						}
					}
				}
				if !guarded {
					good, why = false, "the cut at "+c.P.pos(instrPos(sl))+" does not ask the scanner's escape predicate about the last byte"
				}
			})
			c.check(good && n > 0 && len(esc) > 0, "trim-agrees-with-scanner@TrimDot", td.Pos(), "the trailing dot is cut only when the scanner's escape predicate says it is a separator",
				"TrimDot cuts a trailing dot that the label scanner treats as part of the last label ("+why+"): a rule or name whose last label ends in an escaped dot (com\\.) loses it in one place and keeps it in the other — domain:com\\. does not match a.com\\. nor its own fully-qualified spelling (D43)")
		}
		// universal form of the same: every '.' search reachable from Scan lives in a function that hands an index back
		// only after the escape predicate said "not escaped" about that very index
		{
			esc2 := map[*ssa.Function]bool{}
			for g := range seenFns {
				eachInstr(g, func(in ssa.Instruction) {
					if bo, ok := in.(*ssa.BinOp); ok && (bo.Op == token.EQL || bo.Op == token.NEQ) {
						if n, isC := constInt(bo.Y); isC && n == '\\' {
							esc2[g] = true
						}
					}
				})
			}
			for g := range seenFns {
				var search *ssa.Call
				eachInstr(g, func(in ssa.Instruction) {
					if ci, ok := in.(*ssa.Call); ok && callName(ci) == "strings.LastIndexByte" {
						if n, ok := constInt(ci.Call.Args[1]); ok && n == '.' {
							search = ci
						}
					}
				})
				if search == nil {
					continue
				}
				why := ""
				if g.Signature.Results().Len() != 1 || g.Signature.Results().At(0).Type().String() != "int" {
					why = "the search result is used in place (" + funcName(g) + "), without asking whether the dot is escaped"
				} else {
					for _, r := range returnsOf(g) {
						v := returnedValues(r)[0]
						if _, isC := constInt(v); isC {
							continue
						}
						asked := false
						for _, gd := range guardsOfInstr(r) {
							bv, truth := gd.asBool()
							if cl, ok := bv.(*ssa.Call); ok && !truth && esc2[staticCallee(cl)] && len(cl.Call.Args) == 2 && cl.Call.Args[1] == v {
								asked = true
							}
						}
						if !asked {
							why = "an index is returned at " + c.P.pos(instrPos(r)) + " without the escape predicate being asked about it"
						}
					}
				}
				c.check(why == "", "separator-search-escape-checked@"+funcName(g), g.Pos(), "every index handed back by the '.' search was tested by the escape predicate",
					"the label separator search treats an escaped dot as a separator ("+why+"): a\\.example.com. matches domain:example.com (D18)")
			}
		}
		c.check(escapeAware, "separator-unescaped@Scan", f.Pos(), "an escaped dot (part of a label) is not a separator",
			"the label scanner splits at every '.', also at an escaped one: the name a\\.example.com. (labels \"a.example\", \"com\") matches the rule domain:example.com although it is no subdomain of it — a string suffix, not a label boundary")
	}

	// ---------------------------------------------------------------- R3
	c.rule("R3", "type dispatch table and constructor", 8)
	wantType := map[string]string{"full": D + "FullMatcher", "domain": D + "SubDomainMatcher", "regexp": D + "RegexMatcher", "keyword": D + "KeywordMatcher"}
	if f := c.fn(relDomain, "MixMatcher", "GetSubMatcher"); f != nil {
		seen := map[string]bool{}
		for _, r := range returnsOf(f) {
			v := returnedValues(r)[0]
			if isNilConst(v) {
				continue
			}
			mi, ok := v.(*ssa.MakeInterface)
			if !ok {
				c.fail("dispatch", instrPos(r), "returns %s", exprStr(v))
				continue
			}
			got := typeKey(mi.X.Type())
			var lit string
			for _, g := range guardsOfInstr(r) {
				if cm, ok := g.asCmp(); ok && cm.Op == token.EQL && cm.X == ssa.Value(f.Params[1]) {
					lit, _ = constString(cm.Y)
				}
			}
			seen[lit] = true
			c.check(wantType[lit] == got && lit != "", "dispatch:"+lit, instrPos(r), fmt.Sprintf("%q -> %s", lit, strings.TrimPrefix(got, D)),
				fmt.Sprintf("rule type %q is dispatched to %s (expected %s): e.g. 'domain:' rules are matched as whole names", lit, got, wantType[lit]))
		}
		for k := range wantType {
			if !seen[k] {
				c.fail("dispatch:"+k, f.Pos(), "rule type %q is not dispatched", k)
			}
		}
	}
	if f := c.fn(relDomain, "", "NewMixMatcher"); f != nil {
		ctorOf := map[string]string{"full": "NewFullMatcher", "domain": "NewSubDomainMatcher", "regex": "NewRegexMatcher", "keyword": "NewKeywordMatcher"}
		for fld, ctor := range ctorOf {
			good := false
			eachInstr(f, func(in ssa.Instruction) {
				if st, ok := in.(*ssa.Store); ok {
					if k, _ := fieldKey(st.Addr); k == D+"MixMatcher."+fld {
						if cl, ok := st.Val.(*ssa.Call); ok && strings.HasSuffix(callName(cl), "."+ctor) {
							good = true
						}
					}
				}
			})
			c.check(good, "constructor:"+fld, f.Pos(), fld+" = "+ctor+"()", "NewMixMatcher does not initialise "+fld+" with "+ctor)
		}
	}

	// ---------------------------------------------------------------- R4
	c.rule("R4", "lookup order full, domain, regexp, keyword; first hit wins", 1)
	if f := c.fn(relDomain, "MixMatcher", "Match"); f != nil {
		order := map[int64]string{}
		eachInstr(f, func(in ssa.Instruction) {
			st, ok := in.(*ssa.Store)
			if !ok {
				return
			}
			ia, ok := st.Addr.(*ssa.IndexAddr)
			if !ok {
				return
			}
			idx, ok := constInt(ia.Index)
			if !ok {
				return
			}
			if mi, ok := st.Val.(*ssa.MakeInterface); ok {
				order[idx] = strings.TrimPrefix(typeKey(mi.X.Type()), D)
			}
		})
		want := []string{"FullMatcher", "SubDomainMatcher", "RegexMatcher", "KeywordMatcher"}
		good := len(order) == 4
		var got []string
		for i := int64(0); i < 4; i++ {
			got = append(got, order[i])
			if order[i] != want[i] {
				good = false
			}
		}
		// first hit returns: a return of (v, true) guarded by ok of the Match call inside the loop
		first := false
		for _, r := range returnsOf(f) {
			rv := returnedValues(r)
			if b, ok := constBool(rv[1]); ok && b {
				for _, g := range guardsOfInstr(r) {
					v, truth := g.asBool()
					if ex, ok := v.(*ssa.Extract); ok && truth && ex.Index == 1 {
						if cl, ok := ex.Tuple.(*ssa.Call); ok && cl.Call.IsInvoke() && cl.Call.Method.Name() == "Match" {
							first = true
						}
					}
				}
			}
		}
		if len(order) == 0 {
			// second form: four explicit statements instead of a range over an array literal
			fields := []string{"full", "domain", "regex", "keyword"}
			calls := make([]*ssa.Call, 4)
			nCalls := 0
			eachInstr(f, func(in ssa.Instruction) {
				cl, ok := in.(*ssa.Call)
				if !ok || cl.Call.IsInvoke() || len(cl.Call.Args) == 0 {
					return
				}
				sc := cl.Call.StaticCallee()
				if sc == nil || !isMatchMethod(sc) {
					return
				}
				nCalls++
				k, _ := loadedField(cl.Call.Args[0])
				for i, fld := range fields {
					if k == D+"MixMatcher."+fld {
						calls[i] = cl
					}
				}
			})
			okOf := func(cl *ssa.Call) ssa.Value {
				for _, r := range referrers(cl) {
					if ex, ok := r.(*ssa.Extract); ok && ex.Index == 1 {
						return ex
					}
				}
				return nil
			}
			good = nCalls == 4
			first = true
			got = got[:0]
			for i, cl := range calls {
				if cl == nil {
					good = false
					got = append(got, "")
					continue
				}
				got = append(got, want[i])
				if cl.Call.Args[1] != ssa.Value(f.Params[1]) {
					good = false
				}
				if i == 0 {
					continue
				}
				prev := calls[i-1]
				if prev == nil {
					continue
				}
				// reached only after the previous matcher missed
				gated := false
				for _, g := range guardsOfInstr(cl) {
					if v, truth := g.asBool(); v != nil && v == okOf(prev) && !truth {
						gated = true
					}
				}
				if !gated || !instrDominates(prev, cl) {
					good = false
				}
			}
			// a hit ends the lookup with that matcher's value
			isMatch := func(x ssa.Instruction) bool {
				cl, ok := x.(*ssa.Call)
				return ok && cl.Call.StaticCallee() != nil && isMatchMethod(cl.Call.StaticCallee())
			}
			for i, cl := range calls {
				if cl == nil || okOf(cl) == nil {
					continue
				}
				for _, r := range referrers(okOf(cl)) {
					iff, isIf := r.(*ssa.If)
					if !isIf {
						continue
					}
					if _, more := reachFromBlock(succOnTruth(iff, true), isMatch, nil); more {
						first = false
					}
					if ret, ok := reachFromBlock(succOnTruth(iff, true), isReturn, nil); ok {
						rv := returnedValues(ret.(*ssa.Return))
						if ex, isEx := rv[0].(*ssa.Extract); !isEx || ex.Tuple != ssa.Value(cl) || ex.Index != 0 {
							first = false
						}
						if b, isC := constBool(rv[1]); (!isC || !b) && rv[1] != okOf(cl) {
							first = false
						}
					}
				}
				if i == 3 {
					// the last matcher's result is final: returned as it is (or through the same hit test)
					used := false
					for _, ret := range returnsOf(f) {
						rv := returnedValues(ret)
						if ex, isEx := rv[0].(*ssa.Extract); isEx && ex.Tuple == ssa.Value(cl) {
							used = true
						}
					}
					if !used {
						first = false
					}
				}
			}
		}
		c.check(good && first, "precedence@MixMatcher.Match", f.Pos(), "full > domain > regexp > keyword, first hit returned",
			"lookup order is "+strings.Join(got, ", ")+" (first hit returned: "+fmt.Sprint(first)+"); expected full, domain, regexp, keyword")
	}

	// ---------------------------------------------------------------- R5
	c.rule("R5", "default rule type per set kind", 3)
	wantDefault := map[string]string{
		"pkg/matcher/domain":         "domain", // domain_set / base_domain load helper
		"plugin/executable/hosts":    "full",
		"plugin/executable/redirect": "full",
	}
	seenPkgs := map[string]bool{}
	for _, f := range p.Funcs {
		fn := f
		eachInstr(f, func(in ssa.Instruction) {
			ci, ok := in.(*ssa.Call)
			if !ok || !strings.HasSuffix(callName(ci), "MixMatcher).SetDefaultMatcher") {
				return
			}
			rel := strings.TrimPrefix(fn.Pkg.Pkg.Path(), modPath+"/")
			s, isC := constString(ci.Call.Args[1])
			w, known := wantDefault[rel]
			seenPkgs[rel] = true
			c.see(fn)
			if !known {
				c.undecided("default-type@"+rel, instrPos(in), "unexpected SetDefaultMatcher site")
				return
			}
			c.check(isC && s == w, "default-type@"+rel, instrPos(in), "default rule type "+w, fmt.Sprintf("default rule type is %q, documented default is %q", s, w))
		})
	}
	for rel := range wantDefault {
		if !seenPkgs[rel] {
			c.fail("default-type@"+rel, 0, "no default rule type is set in %s", rel)
		}
	}
	if f := c.fn(relDomain, "MixMatcher", "Add"); f != nil {
		// typ defaults to m.defaultMatcher exactly when the prefix is empty
		good := false
		eachInstr(f, func(in ssa.Instruction) {
			phi, ok := in.(*ssa.Phi)
			if !ok {
				return
			}
			for i, e := range phi.Edges {
				if k, _ := loadedField(e); k == D+"MixMatcher.defaultMatcher" {
					for _, g := range guardsOf(phi.Block().Preds[i]) {
						if cm, ok := g.asCmp(); ok && cm.Op == token.EQL {
							if cl, ok := cm.X.(*ssa.Call); ok && callName(cl) == "builtin:len" {
								if n, ok := constInt(cm.Y); ok && n == 0 {
									good = true
								}
							}
						}
					}
				}
			}
		})
		c.check(good, "default-iff-no-prefix@MixMatcher.Add", f.Pos(), "the default type is used exactly when the rule has no prefix", "the default rule type is not applied exactly when the prefix is empty")
	}

	// ---------------------------------------------------------------- R6
	c.rule("R6", "the trie walk keeps the deepest value: only nodes that have a value overwrite the result", 1)
	if f := c.fn(relDomain, "SubDomainMatcher", "Match"); f != nil {
		good := true
		n := 0
		why := ""
		eachInstrDeep(f, func(gf *ssa.Function, in ssa.Instruction) {
			ci, ok := in.(*ssa.Call)
			if !ok || !strings.HasSuffix(stripTypeArgs(callName(ci)), "labelNode).getValue") {
				return
			}
			node := ci.Call.Args[0]
			// the root's value is the initial result
			if k, _ := loadedField(node); k == D+"SubDomainMatcher.root" {
				return
			}
			// the walk as a method of the node type, started on the root: its receiver is the root
			if prm, isP := node.(*ssa.Parameter); isP && gf != f && len(gf.Params) > 0 && prm == gf.Params[0] {
				return
			}
			n++
			g := false
			for _, gd := range guardsOfInstr(in) {
				v, truth := gd.asBool()
				if cl, ok := v.(*ssa.Call); ok && truth && strings.HasSuffix(stripTypeArgs(callName(cl)), "labelNode).hasValue") && cl.Call.Args[0] == node {
					g = true
				}
			}
			if !g {
				good = false
				why = "a visited node overwrites the result even when it carries no rule"
			}
		})
		c.check(good && n > 0, "deepest-value@SubDomainMatcher.Match", f.Pos(), "a visited node replaces the result only if it has a value", why+": passing an intermediate label without a rule forgets the shallower 'domain:' match")
	}

	// ---------------------------------------------------------------- R7
	c.rule("R7", "text loading: each line is cleaned by recognised steps only (leading blanks stripped before any cut at a blank, '#' comments), parsed iff non-empty, errors reported", 1)
	if f := c.fn(relDomain, "", "LoadFromTextReader"); f != nil {
		checkLineLoader(c, f, func(ci *ssa.Call) bool { return callName(ci) == relDomain+".Load" }, "the rule")
	}

	// ---------------------------------------------------------------- R8
	c.rule("R8", "the label trie only grows: children is made once (when nil) and filled by newChild, values are set by storeValue; nothing prunes, replaces or clears a subtree", 4)
	{
		ww := p.whoWrites()
		LN := relDomain + ".labelNode."
		type exp struct {
			field string
			ok    func(w fieldWrite) (bool, string)
		}
		inFn := func(w fieldWrite, name string) bool { return w.Fn != nil && w.Fn.Name() == name }
		for _, e := range []exp{
			{"children", func(w fieldWrite) (bool, string) {
				if !inFn(w, "newChild") {
					return false, "written outside newChild"
				}
				switch w.Kind {
				case "mapupdate":
					if _, isAlloc := w.Val.(*ssa.Alloc); !isAlloc {
						return false, "a node that is not freshly allocated is linked in"
					}
					return true, ""
				case "store":
					if _, isMake := w.Val.(*ssa.MakeMap); !isMake {
						return false, "children is assigned something other than a fresh map"
					}
					for _, g := range guardsOfInstr(w.Instr) {
						if cm, ok := g.asCmp(); ok && cm.Op == token.EQL && isNilConst(cm.Y) {
							if k, _ := loadedField(cm.X); k == LN+"children" {
								return true, ""
							}
						}
						// len(children) == 0: nil or empty, nothing is lost
						if cm, ok := g.asCmp(); ok && cm.Op == token.EQL {
							if n, isC := constInt(cm.Y); isC && n == 0 {
								if cl, ok := cm.X.(*ssa.Call); ok && callName(cl) == "builtin:len" {
									if k, _ := loadedField(cl.Call.Args[0]); k == LN+"children" {
										return true, ""
									}
								}
							}
						}
					}
					return false, "the map is replaced although it may already hold children"
				}
				return false, "children is modified by " + w.Kind
			}},
			{"v", func(w fieldWrite) (bool, string) {
				return inFn(w, "storeValue") && w.Kind == "store", "written outside storeValue"
			}},
			{"hasV", func(w fieldWrite) (bool, string) {
				b, isB := constBool(w.Val)
				return inFn(w, "storeValue") && w.Kind == "store" && isB && b, "hasV is written outside storeValue or not set to true"
			}},
		} {
			ws := ww.byField[LN+e.field]
			if len(ws) == 0 {
				c.anchorMissing("writes of labelNode." + e.field)
				continue
			}
			for _, w := range ws {
				ok, why := e.ok(w)
				c.check(ok, "trie-write:"+e.field+"@"+funcName(w.Fn)+":"+w.Kind, instrPos(w.Instr), "allowed trie write",
					"labelNode."+e.field+": "+why+" ("+funcName(w.Fn)+"): rules stored below or at this node are lost, so a name is matched by a shorter rule's value (or not at all)")
			}
		}
	}

	// ---------------------------------------------------------------- R9
	c.rule("R9", "keyword and regexp lookups consult every stored rule with the normalised name: no pre-filter skips a rule", 2)
	for _, mt := range []struct{ typ, callee string }{{"RegexMatcher", "(*regexp.Regexp).MatchString"}, {"KeywordMatcher", "strings.Contains"}} {
		f := c.fn(relDomain, mt.typ, "Match")
		if f == nil {
			continue
		}
		var test *ssa.Call
		nTests := 0
		eachInstr(f, func(in ssa.Instruction) {
			if ci, ok := in.(*ssa.Call); ok && callName(ci) == mt.callee {
				test = ci
				nTests++
			}
		})
		key := "every-rule-consulted@" + mt.typ
		if test == nil || nTests != 1 {
			c.fail(key, f.Pos(), "expected exactly one %s test in the loop, found %d", mt.callee, nTests)
			continue
		}
		extra := ""
		for _, g := range guardsOfInstr(test) {
			v, _ := g.asBool()
			if ex, ok := v.(*ssa.Extract); ok {
				if _, isNext := ex.Tuple.(*ssa.Next); isNext {
					continue // the range loop's own "more elements" test
				}
			}
			if g.Derived {
				continue
			}
			extra = guardText(g)
		}
		if sk, _ := iterationCanSkip(test, nil); sk && extra == "" {
			extra = "a condition that moves on to the next rule without running the test"
		}
		c.check(extra == "", key, instrPos(test), "the test runs for every element of the rule map", "the "+mt.callee+" test is skipped under "+extra+": a rule that describes the name is never consulted (false negative)")
	}

	// ---------------------------------------------------------------- R10
	// ---------------------------------------------------------------- R11
	c.rule("R11", "a set that has rules is never dropped as empty: the trie's len() counts the value of the node it is called on (the root node holds the rule \".\") as well as its descendants'", 1)
	if f := c.fn(relDomain, "labelNode", "len"); f != nil {
		own := false
		eachInstr(f, func(in ssa.Instruction) {
			if ci, ok := in.(*ssa.Call); ok {
				if sc := staticCallee(ci); sc != nil && sc.Name() == "hasValue" && len(ci.Call.Args) > 0 && ci.Call.Args[0] == ssa.Value(f.Params[0]) {
					own = true
				}
			}
		})
		c.check(own, "len-counts-own-value", f.Pos(), "len() counts the receiver's own value",
			"labelNode.len() does not count the value of the node it is called on: a matcher whose only rule is the root domain \".\" has Len() == 0, and domain_set / qname drop matchers with Len() == 0 — the set matches nothing instead of every name")
	}

	c.rule("R10", "the trie walk stops at the first label that has no child (labels must be consecutive from the right); every rule handed to MixMatcher.Add reaches a sub-matcher's Add, as written", 3)
	if mf := c.fn(relDomain, "SubDomainMatcher", "Match"); mf != nil {
		scans := map[*ssa.Function]ssa.Instruction{}
		eachInstrDeep(mf, func(g *ssa.Function, in ssa.Instruction) {
			if ci, ok := in.(*ssa.Call); ok && strings.HasSuffix(callName(ci), "ReverseDomainScanner).Scan") {
				scans[g] = in
			}
		})
		n := 0
		eachInstrDeep(mf, func(g *ssa.Function, in ssa.Instruction) {
			ci, ok := in.(*ssa.Call)
			if !ok || !strings.HasSuffix(stripTypeArgs(callName(ci)), ".getChild") {
				return
			}
			scan := scans[g]
			for _, r := range referrers(ci) {
				bo, ok := r.(*ssa.BinOp)
				if !ok || !isNilConst(bo.Y) {
					continue
				}
				for _, r2 := range referrers(bo) {
					iff, ok := r2.(*ssa.If)
					if !ok {
						continue
					}
					n++
					nilBlk := succOnTruth(iff, bo.Op == token.EQL)
					_, again := reachFromBlock(nilBlk, func(x ssa.Instruction) bool { return x == scan }, nil)
					c.check(scan != nil && !again, "walk-stops-at-missing-label", instrPos(iff), "a missing child ends the walk",
						"after a label without a child the walk goes on with the next label: the rule's labels only need to be a subsequence of the name's labels, so domain:login.example.com matches login.evil.example.com")
				}
			}
		})
		if n == 0 {
			c.anchorMissing("nil test of getChild in SubDomainMatcher.Match")
		}
	}
	if af := c.fn(relDomain, "MixMatcher", "Add"); af != nil {
		var addCall *ssa.Call
		matchCall := ""
		eachInstr(af, func(in ssa.Instruction) {
			ci, ok := in.(*ssa.Call)
			if !ok {
				return
			}
			if ci.Call.IsInvoke() && ci.Call.Method.Name() == "Add" {
				addCall = ci
			}
			if (ci.Call.IsInvoke() && ci.Call.Method.Name() == "Match") || strings.HasSuffix(callName(ci), ").Match") {
				matchCall = callName(ci)
			}
		})
		good, why := addCall != nil && matchCall == "", ""
		if matchCall != "" {
			why = "Add consults " + matchCall + " before storing"
		}
		for _, r := range returnsOf(af) {
			rv := returnedValues(r)[0]
			if addCall != nil && rv == ssa.Value(addCall) {
				continue
			}
			if isNilConst(rv) {
				good, why = false, "a path returns nil without handing the rule to a sub-matcher"
			}
		}
		c.check(good, "every-rule-stored@MixMatcher.Add", af.Pos(), "every accepted rule is handed to its sub-matcher's Add", why+": the rule is silently dropped, so the value of a more specific rule (full over domain) is lost")
	}
	if lf := p.Func(relDomain, "", "Load"); lf != nil {
		c.see(lf)
		good := false
		eachInstr(lf, func(in ssa.Instruction) {
			ci, ok := in.(*ssa.Call)
			if !ok || !ci.Call.IsInvoke() || ci.Call.Method.Name() != "Add" {
				return
			}
			if ex, ok := ci.Call.Args[0].(*ssa.Extract); ok && ex.Index == 0 {
				if cl, ok := ex.Tuple.(*ssa.Call); ok && callName(cl) == "dynamic" {
					good = true
				}
			}
		})
		c.check(good, "load-passes-pattern-as-parsed", lf.Pos(), "Load hands the parsed pattern to Add unchanged", "Load alters the pattern between the parse function and Add (e.g. case folding): regexp rules change meaning")
	} else {
		c.anchorMissing("domain.Load")
	}

}

// isMatchMethod: f is a method named Match (an instantiation prints as Match[T]).
func isMatchMethod(f *ssa.Function) bool {
	if f.Origin() != nil {
		f = f.Origin()
	}
	n := f.Name()
	if i := strings.IndexByte(n, '['); i >= 0 {
		n = n[:i]
	}
	return n == "Match" && f.Signature.Recv() != nil
}
