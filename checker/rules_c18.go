package main

import (
	"fmt"
	"go/ast"
	"go/constant"
	"go/token"
	"go/types"
	"strings"

	"golang.org/x/tools/go/ssa"
)

const relUpstream = "pkg/upstream"

func init() {
	register(&propDef{
		ID: "C18",
		Explanation: "Decides the structural conditions of 'connect to exactly the configured address': (R1) the scheme -> default port table of NewUpstream (resolved constants reaching every " +
			"address-parsing call in each switch case) is udp/'' 53, tcp 53, tls 853, https 443, quic/doq 853; (R2) every address handed to a network dial, UDP resolve or bootstrap resolver " +
			"originates, through host/port joins only, from the results of parseDialAddr(trimmed URL host, opt.DialAddr, default port), and parseDialAddr prefers dial_addr iff non-empty and " +
			"substitutes the default iff the parsed port is 0; (R3) the default TLS server name is tryRemovePort(trimmed URL host), only when none is configured; (R4) the bracket trimmer strips " +
			"exactly the delimiters it tested for; (R5) helper schemes rewrite to schemes of the main switch; (R6) errors of address parsing propagate to NewUpstream's result. The string " +
			"semantics of url.Parse / net.SplitHostPort over all inputs are not decided.",
		Assumptions: []string{"net/url, net.SplitHostPort, net.JoinHostPort as documented"},
		Run:         runC18,
	})
}

func runC18(c *Ctx) {
	p := c.P
	nu := c.fn(relUpstream, "", "NewUpstream")
	pda := c.fn(relUpstream, "", "parseDialAddr")
	trim := c.fn(relUpstream, "", "tryTrimIpv6Brackets")
	if nu == nil || pda == nil || trim == nil {
		return
	}
	c.see(p.funcsIn(relUpstream)...)

	// ---------------------------------------------------------------- R1 (AST + resolved constants)
	c.rule("R1", "scheme -> default port table (constants reaching the address-parsing calls of each case)", 5)
	want := map[string]int64{"": 53, "udp": 53, "tcp": 53, "tls": 853, "https": 443, "quic": 853, "doq": 853}
	fd, pk := p.FuncDecl(relUpstream, "", "NewUpstream")
	mainSchemes := map[string]bool{}
	var helperSwitch, mainSwitch *ast.SwitchStmt
	if fd == nil {
		c.anchorMissing("syntax of NewUpstream")
	} else {
		for _, st := range fd.Body.List {
			sw, ok := st.(*ast.SwitchStmt)
			if !ok {
				continue
			}
			sel, ok := sw.Tag.(*ast.SelectorExpr)
			if !ok || sel.Sel.Name != "Scheme" {
				continue
			}
			if helperSwitch == nil && mainSwitch == nil {
				// the first switch on Scheme that assigns to Scheme is the helper rewrite
				assigns := false
				ast.Inspect(sw, func(n ast.Node) bool {
					if as, ok := n.(*ast.AssignStmt); ok {
						for _, l := range as.Lhs {
							if s2, ok := l.(*ast.SelectorExpr); ok && s2.Sel.Name == "Scheme" {
								assigns = true
							}
						}
					}
					return true
				})
				if assigns {
					helperSwitch = sw
					continue
				}
			}
			mainSwitch = sw
		}
		if mainSwitch == nil {
			c.anchorMissing("switch addrURL.Scheme in NewUpstream")
		} else {
			parsers := map[string]bool{"parseDialAddr": true, "newTcpDialer": true, "newUdpAddrResolveFunc": true}
			for _, cl := range mainSwitch.Body.List {
				cc := cl.(*ast.CaseClause)
				var schemes []string
				for _, e := range cc.List {
					if tv, ok := pk.TypesInfo.Types[e]; ok && tv.Value != nil && tv.Value.Kind() == constant.String {
						s := constant.StringVal(tv.Value)
						schemes = append(schemes, s)
						mainSchemes[s] = true
					}
				}
				if len(schemes) == 0 {
					continue // default clause
				}
				var ports []int64
				var pos token.Pos
				for _, st := range cc.Body {
					ast.Inspect(st, func(n ast.Node) bool {
						call, ok := n.(*ast.CallExpr)
						if !ok {
							return true
						}
						id, ok := call.Fun.(*ast.Ident)
						if !ok || !parsers[id.Name] || len(call.Args) == 0 {
							return true
						}
						last := call.Args[len(call.Args)-1]
						if tv, ok := pk.TypesInfo.Types[last]; ok && tv.Value != nil {
							if n, ok := constant.Int64Val(tv.Value); ok {
								ports = append(ports, n)
								pos = call.Pos()
								return true
							}
						}
						ports = append(ports, -1)
						pos = call.Pos()
						return true
					})
				}
				key := "scheme:" + strings.Join(schemes, ",")
				for _, s := range schemes {
					w, known := want[s]
					if !known {
						c.undecided(key, cc.Pos(), "scheme %q is not in the expected table", s)
						continue
					}
					if len(ports) == 0 {
						c.fail(key, cc.Pos(), "no address-parsing call with a default port in the %q case", s)
						continue
					}
					good := true
					for _, pn := range ports {
						if pn != w {
							good = false
						}
					}
					if good {
						c.ok(key, pos, "default port %d reaches %d parsing call(s)", w, len(ports))
					} else {
						c.fail(key, pos, "scheme %q uses default port(s) %v, expected %d", s, ports, w)
					}
				}
			}
			for s := range want {
				if !mainSchemes[s] {
					c.fail("scheme:"+s, mainSwitch.Pos(), "scheme %q is no longer handled by NewUpstream", s)
				}
			}
		}
	}

	// ---------------------------------------------------------------- R5
	c.rule("R5", "helper schemes are rewritten to schemes of the main switch", 3)
	if helperSwitch == nil {
		c.anchorMissing("helper scheme switch in NewUpstream")
	} else {
		for _, cl := range helperSwitch.Body.List {
			cc := cl.(*ast.CaseClause)
			// what is assigned to Scheme?
			cut := int64(-1)
			lit := ""
			for _, st := range cc.Body {
				as, ok := st.(*ast.AssignStmt)
				if !ok || len(as.Lhs) != 1 {
					continue
				}
				if s2, ok := as.Lhs[0].(*ast.SelectorExpr); !ok || s2.Sel.Name != "Scheme" {
					continue
				}
				switch r := as.Rhs[0].(type) {
				case *ast.SliceExpr:
					if r.Low == nil && r.High != nil {
						if tv, ok := pk.TypesInfo.Types[r.High]; ok && tv.Value != nil {
							cut, _ = constant.Int64Val(tv.Value)
						}
					}
				default:
					if tv, ok := pk.TypesInfo.Types[as.Rhs[0]]; ok && tv.Value != nil && tv.Value.Kind() == constant.String {
						lit = constant.StringVal(tv.Value)
					}
				}
			}
			for _, e := range cc.List {
				tv, ok := pk.TypesInfo.Types[e]
				if !ok || tv.Value == nil {
					continue
				}
				s := constant.StringVal(tv.Value)
				target := lit
				if cut >= 0 && int(cut) <= len(s) {
					target = s[:cut]
				}
				c.check(mainSchemes[target] && target != "", "helper:"+s, e.Pos(), fmt.Sprintf("%q rewrites to %q, handled by the main switch", s, target),
					fmt.Sprintf("helper scheme %q rewrites to %q which the main switch does not handle", s, target))
			}
		}
	}

	// ---------------------------------------------------------------- R4
	c.rule("R4", "the bracket trimmer returns s[1:len(s)-1] exactly under s[0]=='[' && s[len(s)-1]==']', else s unchanged", 2)
	param := trim.Params[0]
	isLenS := func(v ssa.Value) bool {
		cl, ok := v.(*ssa.Call)
		return ok && callName(cl) == "builtin:len" && cl.Call.Args[0] == ssa.Value(param)
	}
	lenMinus := func(v ssa.Value) (int64, bool) {
		bo, ok := v.(*ssa.BinOp)
		if !ok || bo.Op != token.SUB || !isLenS(bo.X) {
			return 0, false
		}
		return constInt(bo.Y)
	}
	for _, r := range returnsOf(trim) {
		v := returnedValues(r)[0]
		if v == ssa.Value(param) {
			c.ok("trim:return-unchanged", instrPos(r), "returns s unchanged")
			continue
		}
		key := "trim:return-trimmed"
		sl, ok := v.(*ssa.Slice)
		if !ok || sl.X != ssa.Value(param) {
			c.undecided(key, instrPos(r), "returns %s: not a recognised trimming form (accepted: s, or s[1:len(s)-1] under both bracket tests)", exprStr(v))
			continue
		}
		lo, okLo := int64(0), true
		if sl.Low != nil {
			lo, okLo = constInt(sl.Low)
		}
		hiCut, okHi := int64(0), sl.High == nil
		if sl.High != nil {
			hiCut, okHi = lenMinus(sl.High)
		}
		// guards: s[0]=='[' (prefix of length 1) and s[len(s)-1]==']' (suffix of length 1)
		prefixOK, suffixOK := false, false
		for _, g := range guardsOfInstr(r) {
			cm, ok := g.asCmp()
			if !ok || cm.Op != token.EQL {
				continue
			}
			ch, isC := constInt(cm.Y)
			var base, index ssa.Value
			switch lk := cm.X.(type) {
			case *ssa.Lookup:
				base, index = lk.X, lk.Index
			case *ssa.Index:
				base, index = lk.X, lk.Index
			}
			if !isC || base != ssa.Value(param) {
				continue
			}
			if i, ok := constInt(index); ok && i == 0 && ch == '[' {
				prefixOK = true
			}
			if k, ok := lenMinus(index); ok && k == 1 && ch == ']' {
				suffixOK = true
			}
		}
		switch {
		case !okLo || !okHi:
			c.undecided(key, instrPos(r), "slice bounds of %s are not constant offsets from the ends", exprStr(v))
		case !(prefixOK && suffixOK):
			c.fail(key, instrPos(r), "trimmed return is not guarded by both s[0]=='[' and s[len(s)-1]==']'")
		case lo != 1 || hiCut != 1:
			c.fail(key, instrPos(r), "returns s[%d:len(s)-%d] but the tests cover a 1-byte prefix and a 1-byte suffix: the host is altered (e.g. \"[::1]\" loses its last digit)", lo, hiCut)
		default:
			c.ok(key, instrPos(r), "returns s[1:len(s)-1] under both bracket tests")
		}
	}

	// ---------------------------------------------------------------- R2
	c.rule("R2", "every dialled / resolved address originates from parseDialAddr(trimmed URL host, opt.DialAddr, default) via host:port joins only", 10)
	// (a) parseDialAddr's own logic (D27): host and port come from the URL host; a non-empty dial_addr replaces the host,
	// and the port only if it carries one; the default port is substituted exactly when the resulting port is 0
	{
		isSplitOf := func(v ssa.Value, idx int, prm *ssa.Parameter) bool {
			ex, ok := v.(*ssa.Extract)
			if !ok || ex.Index != idx {
				return false
			}
			cl, ok := ex.Tuple.(*ssa.Call)
			return ok && callName(cl) == relUpstream+".trySplitHostPort" && cl.Call.Args[0] == ssa.Value(prm)
		}
		dialGuard := func(gs []guard) (has bool, nonEmpty bool) {
			for _, g := range gs {
				cm, ok := g.asCmp()
				if !ok {
					continue
				}
				cl, isC := cm.X.(*ssa.Call)
				if !isC || callName(cl) != "builtin:len" || cl.Call.Args[0] != ssa.Value(pda.Params[1]) {
					continue
				}
				if n, okc := constInt(cm.Y); !okc || n != 0 {
					continue
				}
				switch cm.Op {
				case token.GTR, token.NEQ:
					return true, true
				case token.LEQ, token.EQL:
					return true, false
				}
			}
			return false, false
		}
		var okRet *ssa.Return
		for _, r := range returnsOf(pda) {
			vals := returnedValues(r)
			if len(vals) == 3 && isNilConst(vals[2]) {
				okRet = r
			}
		}
		if okRet == nil {
			c.anchorMissing("success return of parseDialAddr")
		} else {
			vals := returnedValues(okRet)
			// host
			hostOK, sawURL, sawDial := true, false, false
			for _, lf := range expandCases(vals[0], nil, 0) {
				has, nonEmpty := dialGuard(lf.guards)
				switch {
				case isSplitOf(lf.val, 0, pda.Params[0]) && has && !nonEmpty:
					sawURL = true
				case isSplitOf(lf.val, 0, pda.Params[1]) && has && nonEmpty:
					sawDial = true
				default:
					hostOK = false
				}
			}
			c.check(hostOK && sawURL && sawDial, "parseDialAddr:prefer-dial-addr", instrPos(okRet), "the host is dial_addr's iff dial_addr is non-empty, else the URL's; unchanged",
				"parseDialAddr does not return the split host of dial_addr exactly when dial_addr is non-empty and that of the URL otherwise")
			c.check(hostOK, "parseDialAddr:host", pda.Pos(), "host is a split host, unchanged", "parseDialAddr does not return the split host unchanged")
			// port
			portOK, sawDef, sawURLPort, sawURLPortWithDial, sawDialPort := true, false, false, false, false
			why := ""
			for _, lf := range expandCases(vals[1], nil, 0) {
				has, nonEmpty := dialGuard(lf.guards)
				switch {
				case lf.val == ssa.Value(pda.Params[2]):
					// under "<port> == 0"
					z := false
					for _, g := range lf.guards {
						if cm, ok := g.asCmp(); ok && cm.Op == token.EQL {
							if n, okc := constInt(cm.Y); okc && n == 0 && cm.X.Type().String() == "uint16" {
								z = true
							}
						}
					}
					if !z {
						portOK, why = false, "the default port is used without the resulting port being 0"
					}
					sawDef = true
				case isSplitOf(lf.val, 1, pda.Params[0]):
					sawURLPort = true
					if has && nonEmpty {
						sawURLPortWithDial = true
					}
				case isSplitOf(lf.val, 1, pda.Params[1]):
					nz := false
					for _, g := range lf.guards {
						if cm, ok := g.asCmp(); ok && cm.Op == token.NEQ && cm.X == lf.val {
							if n, okc := constInt(cm.Y); okc && n == 0 {
								nz = true
							}
						}
					}
					if !(has && nonEmpty && nz) {
						portOK, why = false, "dial_addr's port is used although it has none (0) or dial_addr is empty"
					}
					sawDialPort = true
				default:
					portOK, why = false, "the port can be "+exprStr(lf.val)
				}
			}
			if portOK && !(sawDef && sawURLPort && sawDialPort) {
				portOK, why = false, "not all of {URL port, dial_addr port, default port} can be chosen"
			}
			if portOK && !sawURLPortWithDial {
				portOK, why = false, "with a dial_addr that has no port the URL's port is dropped: tls://dns.example:8853 with dial_addr 198.51.100.7 connects to port 853"
			}
			c.check(portOK, "parseDialAddr:default-port", pda.Pos(), "port = dial_addr's if it has one, else the URL's, else the default", "parseDialAddr does not take the port from dial_addr (if it has one), else from the URL, else the scheme default ("+why+")")
		}
	}
	// (b) arguments of parseDialAddr at every call site
	isTrimCall := func(v ssa.Value) bool {
		cl, ok := v.(*ssa.Call)
		if !ok || staticCallee(cl) != trim {
			return false
		}
		k, ok := loadedField(cl.Call.Args[0])
		return ok && k == "net/url.URL.Host"
	}
	tr := p.newTracer()
	tr.throughFields = false
	tr.throughParams = false
	tr.throughCalls = false
	tr.stop = func(v ssa.Value) bool {
		if ex, ok := v.(*ssa.Extract); ok {
			if cl, ok := ex.Tuple.(*ssa.Call); ok && staticCallee(cl) == pda {
				return true
			}
		}
		return isTrimCall(v)
	}
	eachInstrDeep(nu, func(f *ssa.Function, in ssa.Instruction) {
		ci, ok := in.(*ssa.Call)
		if !ok || staticCallee(ci) != pda {
			return
		}
		key := "parseDialAddr-args@" + funcName(f)
		r0 := tr.origins(ci.Call.Args[0])
		ok0 := len(r0) == 1 && isTrimCall(r0[0])
		k1, isF := loadedField(ci.Call.Args[1])
		ok1 := isF && k1 == relUpstream+".Opt.DialAddr"
		if !ok1 {
			// opt captured by closure: *fv then field
			s := exprStr(ci.Call.Args[1])
			ok1 = strings.HasSuffix(s, ".DialAddr")
		}
		c.check(ok0 && ok1, key, instrPos(in), "called with (trimmed addrURL.Host, opt.DialAddr, default)",
			fmt.Sprintf("parseDialAddr is called with (%s, %s): not the trimmed URL host / opt.DialAddr", exprStr(ci.Call.Args[0]), exprStr(ci.Call.Args[1])))
	})
	// (c) dial / resolve sites
	tr2 := p.newTracer()
	tr2.throughFields = false
	tr2.throughParams = false
	tr2.throughCalls = false
	tr2.throughConvert = true
	tr2.stop = tr.stop
	tr2.argsThrough = map[string]bool{
		"net.JoinHostPort": true, "strconv.Itoa": true, relUpstream + ".joinPort": true,
		"net/netip.AddrPortFrom": true, "net.UDPAddrFromAddrPort": true, "net/netip.ParseAddr": true,
	}
	type site struct {
		name string
		arg  int // index in callArgs
	}
	sites := map[string]site{
		"(*net.Dialer).DialContext":                                 {"dial", 3},
		"invoke:(golang.org/x/net/proxy.ContextDialer).DialContext": {"socks5 dial", 3},
		"net.ResolveUDPAddr":                                        {"udp resolve", 1},
		"pkg/upstream/bootstrap.New":                                {"bootstrap host", 0},
	}
	fromPDA := func(v ssa.Value) bool {
		ex, ok := v.(*ssa.Extract)
		if !ok {
			return false
		}
		cl, ok := ex.Tuple.(*ssa.Call)
		return ok && staticCallee(cl) == pda && (ex.Index == 0 || ex.Index == 1)
	}
	eachInstrDeep(nu, func(f *ssa.Function, in ssa.Instruction) {
		ci, ok := in.(*ssa.Call)
		if !ok {
			return
		}
		n := callName(ci)
		st, ok := sites[n]
		if !ok {
			return
		}
		args := callArgs(ci)
		check := []ssa.Value{args[st.arg]}
		if n == "pkg/upstream/bootstrap.New" {
			check = append(check, args[1])
		}
		key := st.name + "@" + funcName(f)
		good := true
		var why []string
		for _, a := range check {
			for _, r := range tr2.originsNH(a) {
				if fromPDA(r) {
					continue
				}
				if cl, ok := r.(*ssa.Extract); ok {
					if c2, ok := cl.Tuple.(*ssa.Call); ok && callName(c2) == "(*pkg/upstream/bootstrap.Bootstrap).GetAddrPortStr" {
						continue // resolved by the bootstrap resolver, itself created from parseDialAddr's host/port
					}
				}
				if s, ok := constString(r); ok && (s == "tcp" || s == "udp") {
					continue
				}
				good = false
				why = append(why, exprStr(r))
			}
		}
		if good {
			c.ok(key, instrPos(in), "address originates from parseDialAddr results only")
		} else {
			c.fail(key, instrPos(in), "address has another origin than parseDialAddr's host/port: %s", strings.Join(why, "; "))
		}
	})

	// IP-literal hosts: the UDP address is AddrPortFrom(ParseAddr(host), port) of the very parseDialAddr results
	eachInstrDeep(nu, func(f *ssa.Function, in ssa.Instruction) {
		ci, ok := in.(*ssa.Call)
		if !ok || callName(ci) != "net/netip.AddrPortFrom" {
			return
		}
		key := "literal-udp-addr@" + funcName(f)
		portOK := false
		for _, r := range tr2.origins(ci.Call.Args[1]) {
			if ex, ok := r.(*ssa.Extract); ok && fromPDA(r) && ex.Index == 1 {
				portOK = true
			} else {
				portOK = false
				break
			}
		}
		hostOK := false
		for _, r := range tr2.origins(ci.Call.Args[0]) {
			ex, ok := r.(*ssa.Extract)
			if !ok {
				continue
			}
			if cl, ok := ex.Tuple.(*ssa.Call); ok && callName(cl) == "net/netip.ParseAddr" {
				for _, r2 := range tr2.origins(cl.Call.Args[0]) {
					if e2, ok := r2.(*ssa.Extract); ok && fromPDA(r2) && e2.Index == 0 {
						hostOK = true
					}
				}
			}
		}
		c.check(portOK && hostOK, key, instrPos(in), "AddrPortFrom(ParseAddr(parsed host), parsed port)", "the UDP address of an IP-literal host is not built from parseDialAddr's own host and port (e.g. the default port is used instead of the user's): quic/h3 upstreams with an explicit port connect elsewhere")
	})

	// ---------------------------------------------------------------- R3
	c.rule("R3", "the default TLS ServerName is the URL host — tryRemovePort(trimmed URL host), or URL.Hostname() of the bracket-normalised URL — set only when none is configured", 2)
	trp := c.P.Func(relUpstream, "", "tryRemovePort") // may be gone when the server name is taken from URL.Hostname()
	// (*url.URL).Hostname() cuts a bare IPv6 literal at its last colon; it is the URL host only because NewUpstream
	// puts a bare IPv6 host into brackets first (D26, checked as R8 bare-ipv6-bracketed)
	hostBracketed := false
	for _, w := range p.whoWrites().byField["net/url.URL.Host"] {
		if w.Fn == nu && isBracketingOfHost(w) {
			hostBracketed = true
		}
	}
	eachInstrDeep(nu, func(f *ssa.Function, in ssa.Instruction) {
		st, ok := in.(*ssa.Store)
		if !ok {
			return
		}
		if k, _ := fieldKey(st.Addr); k != "crypto/tls.Config.ServerName" {
			return
		}
		key := "sni@" + funcName(f)
		good := false
		if cl, ok := st.Val.(*ssa.Call); ok && trp != nil && staticCallee(cl) == trp {
			// in a NEW helper shared by the TLS cases the host is a parameter: every call site hands over the trimmed
			// URL host
			r := tr.originsNH(cl.Call.Args[0])
			good = len(r) > 0
			for _, o := range r {
				if !isTrimCall(o) {
					good = false
				}
			}
			if good && f != nu && f.Parent() == nil {
				// one helper used by several cases counts once per case
				if sites, _ := callSitesOf(f); len(sites) > 1 {
					for i := 1; i < len(sites); i++ {
						c.ok(fmt.Sprintf("%s#%d", key, i), instrPos(sites[i]), "ServerName defaulted by the shared helper")
					}
				}
			}
		}
		if cl, ok := st.Val.(*ssa.Call); ok && callName(cl) == "(*net/url.URL).Hostname" && hostBracketed {
			// the parsed address URL itself
			for _, o := range tr.origins(cl.Call.Args[0]) {
				if ex, isE := o.(*ssa.Extract); isE {
					if pc, isC := ex.Tuple.(*ssa.Call); isC && callName(pc) == "net/url.Parse" {
						good = true
					}
				}
			}
		}
		guarded := false
		for _, g := range guardsOfInstr(in) {
			if cm, ok := g.asCmp(); ok && cm.Op == token.EQL {
				if cl, ok := cm.X.(*ssa.Call); ok && callName(cl) == "builtin:len" {
					if k, _ := loadedField(cl.Call.Args[0]); k == "crypto/tls.Config.ServerName" {
						guarded = true
					}
				}
			}
		}
		c.check(good && guarded, key, instrPos(in), "ServerName defaults to tryRemovePort(trimmed URL host) when empty",
			fmt.Sprintf("ServerName is set from %s (guarded by 'empty': %v): the TLS server name must default to the URL host, not to dial_addr or anything else", exprStr(st.Val), guarded))
	})

	// ---------------------------------------------------------------- R6
	c.rule("R6", "errors of address parsing propagate to the caller", 8)
	closures := map[*ssa.Function]bool{}
	for _, a := range withAnon(nu) {
		uses := false
		eachInstr(a, func(in ssa.Instruction) {
			if ci, ok := in.(*ssa.Call); ok && staticCallee(ci) == pda {
				uses = true
			}
		})
		if uses && a != nu {
			closures[a] = true
		}
	}
	eachInstrDeep(nu, func(f *ssa.Function, in ssa.Instruction) {
		ci, ok := in.(*ssa.Call)
		if !ok {
			return
		}
		sc := staticCallee(ci)
		n := callName(ci)
		if !(sc == pda || (sc != nil && closures[sc]) || n == relUpstream+".parseBootstrapAp" || n == "net/url.Parse") {
			return
		}
		key := "err-propagates:" + strings.TrimPrefix(n, relUpstream+".") + "@" + funcName(f)
		var errV ssa.Value
		for _, r := range referrers(ci) {
			if ex, ok := r.(*ssa.Extract); ok && ex.Type().String() == "error" {
				errV = ex
			}
		}
		if errV == nil {
			c.fail(key, instrPos(in), "the error result is discarded")
			return
		}
		// the error may be stored to a named result cell first
		good := false
		checkIf := func(v ssa.Value) {
			for _, r := range referrers(v) {
				bo, ok := r.(*ssa.BinOp)
				if !ok || bo.Op != token.NEQ || !isNilConst(bo.Y) {
					continue
				}
				for _, r2 := range referrers(bo) {
					iff, ok := r2.(*ssa.If)
					if !ok {
						continue
					}
					tb := iff.Block().Succs[0]
					// the error branch must reach a return with a non-nil error and no further parsing
					if ret, ok := reachFromBlock(tb, isReturn, nil); ok {
						rv := returnedValues(ret.(*ssa.Return))
						if len(rv) > 0 && !isNilConst(rv[len(rv)-1]) {
							good = true
						}
					}
				}
			}
		}
		checkIf(errV)
		for _, r := range referrers(errV) {
			if st, ok := r.(*ssa.Store); ok {
				// err = ... ; if err != nil
				for _, r2 := range referrers(st.Addr) {
					if u, ok := r2.(*ssa.UnOp); ok && u.Op == token.MUL {
						checkIf(u)
					}
				}
			}
		}
		c.check(good, key, instrPos(in), "a non-nil error leads to an error return", "the error of this address-parsing step does not lead to an error return: an address that cannot be honoured is silently accepted")
	})

	// ---------------------------------------------------------------- R7
	c.rule("R7", "the bootstrap resolver created for an upstream carries that upstream's own host and port: New returns its own allocation, host/port fields are set only there, from the parameters, and the resolved address is joined with that port; the DoH upstream sends through the given RoundTripper only (no redirect following)", 5)
	checkDohNoHTTPClient(c)
	const relBootstrap = "pkg/upstream/bootstrap"
	if nf := c.fn(relBootstrap, "", "New"); nf != nil {
		c.see(nf)
		var alloc *ssa.Alloc
		good, n := true, 0
		why := ""
		for _, r := range returnsOf(nf) {
			rv := returnedValues(r)
			if len(rv) == 0 || isNilConst(rv[0]) {
				continue
			}
			n++
			al, ok := rv[0].(*ssa.Alloc)
			if !ok || al.Parent() != nf {
				good, why = false, "New returns "+exprStr(rv[0])+", not the resolver it allocated for this call"
				continue
			}
			alloc = al
		}
		c.check(good && n > 0, "own-allocation@bootstrap.New", nf.Pos(), "every non-nil result is the Bootstrap allocated by this call", why+": an upstream can get a resolver that was built for another upstream's port, and then dials <resolved ip>:<the other port>")
		// fields from parameters
		ww := p.whoWrites()
		for _, fd := range []struct {
			name string
			from func(v ssa.Value) bool
			desc string
		}{
			{"port", func(v ssa.Value) bool { return v == ssa.Value(nf.Params[1]) }, "the port parameter"},
			{"fqdn", func(v ssa.Value) bool {
				cl, ok := v.(*ssa.Call)
				return ok && callName(cl) == "github.com/miekg/dns.Fqdn" && cl.Call.Args[0] == ssa.Value(nf.Params[0])
			}, "dns.Fqdn(host parameter)"},
		} {
			ws := ww.byField[relBootstrap+".Bootstrap."+fd.name]
			okW := len(ws) == 1
			for _, w := range ws {
				if w.Fn != nf || w.Val == nil || !fd.from(w.Val) {
					okW = false
				}
				if fa, ok := w.Instr.(*ssa.Store); ok && alloc != nil {
					if a2, ok := fa.Addr.(*ssa.FieldAddr); !ok || a2.X != ssa.Value(alloc) {
						okW = false
					}
				}
			}
			c.check(okW, "field:"+fd.name+"@bootstrap.New", nf.Pos(), "Bootstrap."+fd.name+" is set once, in New, from "+fd.desc, "Bootstrap."+fd.name+" is not set exactly once in New from "+fd.desc)
		}
		// the resolved address is joined with sp.port
		ws := ww.byField[relBootstrap+".Bootstrap.addrStr"]
		okA := len(ws) > 0
		for _, w := range ws {
			found := false
			tr := p.newTracer()
			tr.throughCalls, tr.throughParams, tr.throughFields = false, false, false
			tr.argsThrough = map[string]bool{"(net/netip.AddrPort).String": true}
			for _, o := range tr.origins(w.Val) {
				if cl, ok := o.(*ssa.Call); ok && callName(cl) == "net/netip.AddrPortFrom" {
					if k, ok := loadedField(cl.Call.Args[1]); ok && k == relBootstrap+".Bootstrap.port" {
						found = true
					}
				}
			}
			if !found {
				okA = false
			}
		}
		c.check(okA, "addr-joined-with-own-port", nf.Pos(), "the resolved address is AddrPortFrom(ip, sp.port)", "the resolver's address string is not the resolved ip joined with its own port field")
	}

	// ---------------------------------------------------------------- R8
	c.rule("R8", "the address helpers do what their callers rely on: ports parse as 16-bit decimals (out of range is an error, never truncated), joinPort is JoinHostPort(host, decimal port), tryRemovePort is SplitHostPort's host; the default port reaches parseDialAddr as given; the parsed URL's host is never rewritten", 6)
	{
		if f := c.fn(relUpstream, "", "trySplitHostPort"); f != nil {
			c.see(f)
			good, why := false, "no uint16 conversion of a ParseUint result"
			eachInstr(f, func(in ssa.Instruction) {
				cv, ok := in.(*ssa.Convert)
				if !ok {
					return
				}
				if b, ok := cv.Type().Underlying().(*types.Basic); !ok || b.Kind() != types.Uint16 {
					return
				}
				ex, ok := cv.X.(*ssa.Extract)
				if !ok {
					why = "the port is converted from " + exprStr(cv.X)
					return
				}
				cl, ok := ex.Tuple.(*ssa.Call)
				if !ok || callName(cl) != "strconv.ParseUint" {
					why = "the port comes from " + exprStr(cv.X) + ", not from strconv.ParseUint(.., 10, 16): a port above 65535 is truncated to another port instead of being rejected"
					return
				}
				base, _ := constInt(cl.Call.Args[1])
				bits, _ := constInt(cl.Call.Args[2])
				if base != 10 || bits != 16 {
					why = fmt.Sprintf("ParseUint base %d bitSize %d (10 and 16 required)", base, bits)
					return
				}
				if ok2, w := errCheckedAndReturned(cl); !ok2 {
					why = "the parse error is not returned: " + w
					return
				}
				good = true
			})
			c.check(good, "helper:trySplitHostPort", f.Pos(), "port = uint16(ParseUint(port, 10, 16)), error returned", why)
			// "no port" is reported as 0 and as nothing else: parseDialAddr's `dialPort != 0` / `port == 0` tests and
			// parseBootstrapAp's default rely on it (round 12: a default-port parameter made dial_addr without a port
			// overwrite the URL's explicit port)
			{
				bad := ""
				var leaves func(v ssa.Value, depth int)
				seenPhi := map[*ssa.Phi]bool{}
				leaves = func(v ssa.Value, depth int) {
					switch x := v.(type) {
					case *ssa.Phi:
						if seenPhi[x] || depth > 8 {
							return
						}
						seenPhi[x] = true
						for _, e := range x.Edges {
							leaves(e, depth+1)
						}
					case *ssa.Convert:
						if ex, ok := x.X.(*ssa.Extract); ok {
							if cl, ok := ex.Tuple.(*ssa.Call); ok && callName(cl) == "strconv.ParseUint" {
								return
							}
						}
						bad = exprStr(v)
					case *ssa.Const:
						if n, ok := constInt(x); !ok || n != 0 {
							bad = exprStr(v)
						}
					default:
						bad = exprStr(v)
					}
				}
				n := 0
				for _, ret := range returnsOf(f) {
					rv := returnedValues(ret)
					if len(rv) != 3 || !isNilConst(rv[2]) {
						continue
					}
					n++
					leaves(rv[1], 0)
				}
				c.check(n > 0 && bad == "", "helper:trySplitHostPort:no-port-is-zero", f.Pos(), "the returned port is the parsed port or 0",
					"trySplitHostPort returns "+bad+" as the port of an address without one: the callers' 'has no port' tests (dialPort != 0, port == 0) no longer see it, a dial_addr without a port overwrites the URL's explicit port")
			}
		}
		checkSplitHostIsNameOrIP(c)
		if f := c.fn(relUpstream, "", "joinPort"); f != nil {
			c.see(f)
			good := false
			for _, r := range returnsOf(f) {
				if cl, ok := returnedValues(r)[0].(*ssa.Call); ok && callName(cl) == "net.JoinHostPort" && cl.Call.Args[0] == ssa.Value(f.Params[0]) {
					if it, ok := cl.Call.Args[1].(*ssa.Call); ok && callName(it) == "strconv.Itoa" {
						if cv, ok := it.Call.Args[0].(*ssa.Convert); ok && cv.X == ssa.Value(f.Params[1]) {
							good = true
						}
					}
				}
			}
			c.check(good, "helper:joinPort", f.Pos(), "joinPort = net.JoinHostPort(host, Itoa(port))", "joinPort is not net.JoinHostPort(host, strconv.Itoa(int(port))): IPv6 hosts are joined without brackets")
		}
		if f := c.P.Func(relUpstream, "", "tryRemovePort"); f != nil && f.Blocks != nil { // the helper may be gone (server name from URL.Hostname(), R3)
			c.see(f)
			good, n := true, 0
			for _, r := range returnsOf(f) {
				n++
				v := returnedValues(r)[0]
				if v == ssa.Value(f.Params[0]) {
					continue
				}
				if ex, ok := v.(*ssa.Extract); ok && ex.Index == 0 {
					if cl, ok := ex.Tuple.(*ssa.Call); ok && callName(cl) == "net.SplitHostPort" && cl.Call.Args[0] == ssa.Value(f.Params[0]) {
						continue
					}
				}
				good = false
			}
			c.check(good && n == 2, "helper:tryRemovePort", f.Pos(), "tryRemovePort = SplitHostPort(s) host, or s", "tryRemovePort is not {net.SplitHostPort(s)'s host, s on error}: the TLS server name of a bare IPv6 literal is cut at a colon")
		}
		// default port argument of parseDialAddr: a constant or the enclosing closure's own parameter
		nPd := 0
		for _, a := range withAnon(nu) {
			fn := a
			eachInstr(a, func(in ssa.Instruction) {
				ci, ok := in.(*ssa.Call)
				if !ok || callName(ci) != relUpstream+".parseDialAddr" || len(ci.Call.Args) < 3 {
					return
				}
				nPd++
				d := ci.Call.Args[2]
				good := false
				if _, isC := constInt(d); isC {
					good = true
				}
				for _, pa := range fn.Params {
					if isParamValue(p, d, pa) {
						good = true
					}
				}
				c.check(good, "default-port-as-given@"+funcName(fn), instrPos(in), "parseDialAddr gets the scheme's default port unchanged", "the default port handed to parseDialAddr is "+exprStr(d)+", not the constant chosen for the scheme: an address without port is dialled on another port than its scheme's default")
			})
		}
		if nPd == 0 {
			c.anchorMissing("parseDialAddr calls in NewUpstream")
		}
		// nobody rewrites the parsed URL (except the scheme rewrite of R5) or the options
		bracketed := false
		for _, fld := range []string{"net/url.URL.Host", "net/url.URL.Path", "net/url.URL.Opaque", relUpstream + ".Opt.DialAddr"} {
			for _, w := range p.whoWrites().byField[fld] {
				if w.Kind == "structstore" {
					continue // the by-value parameter's spill
				}
				if w.Fn.Pkg != nil && strings.HasSuffix(w.Fn.Pkg.Pkg.Path(), relUpstream) {
					// D26: a bare IPv6 literal is put into brackets — "[" + Host + "]" under ParseAddr(Host) ok && Is6() — so that
					// everything that re-parses the URL (net/http) sees the same host
					if fld == "net/url.URL.Host" && isBracketingOfHost(w) {
						bracketed = true
						continue
					}
					c.fail("config-not-rewritten:"+fieldTail(fld), instrPos(w.Instr), "%s is overwritten in %s before the address is derived from it: the connection goes to another host or port than the user wrote", fld, funcName(w.Fn))
				}
			}
		}
		c.ok("config-not-rewritten", nu.Pos(), "the parsed URL's host/path and opt.DialAddr are never written in pkg/upstream (except bracketing a bare IPv6 host)")
		c.check(bracketed, "bare-ipv6-bracketed", nu.Pos(), "a bare IPv6 URL host is normalised to the bracketed form before the URL is handed on",
			"a bare IPv6 URL host is handed on as written: net/http re-parses https://2001:db8::53/dns-query and takes the last group as a port — the TLS server name becomes \"2001:db8:\" (or, for 2001:db8::1:53, the other valid address 2001:db8::1, whose certificate is then accepted)")
	}

	// ---------------------------------------------------------------- R9
	c.rule("R9", "what the user configured reaches NewUpstream: forward passes the configured address as the address argument and dial_addr / bootstrap / bootstrap_version into the options, field by field", 4)
	if nf := c.fn(relForward, "", "NewForward"); nf != nil {
		c.see(nf)
		var nuCall *ssa.Call
		eachInstr(nf, func(in ssa.Instruction) {
			if ci, ok := in.(*ssa.Call); ok && callName(ci) == relUpstream+".NewUpstream" {
				nuCall = ci
			}
		})
		if nuCall == nil {
			c.anchorMissing("upstream.NewUpstream call in NewForward")
		} else {
			k, _ := loadedField(nuCall.Call.Args[0])
			c.check(strings.HasSuffix(k, ".UpstreamConfig.Addr"), "plumbing:Addr", instrPos(nuCall), "NewUpstream(c.Addr, ...)", "the address handed to NewUpstream is "+exprStr(nuCall.Call.Args[0])+", not the configured addr")
			// the option literal
			var lit *ssa.Alloc
			if ld, ok := nuCall.Call.Args[1].(*ssa.UnOp); ok {
				lit, _ = ld.X.(*ssa.Alloc)
			}
			for _, fld := range []string{"DialAddr", "Bootstrap", "BootstrapVer"} {
				good := false
				if lit != nil {
					for _, r := range referrers(lit) {
						fa, ok := r.(*ssa.FieldAddr)
						if !ok {
							continue
						}
						if fk, _ := fieldKey(fa); fk != relUpstream+".Opt."+fld {
							continue
						}
						for _, r2 := range referrers(fa) {
							if st, ok := r2.(*ssa.Store); ok {
								if sk, _ := loadedField(st.Val); strings.HasSuffix(sk, ".UpstreamConfig."+fld) {
									good = true
								}
							}
						}
					}
				}
				c.check(good, "plumbing:"+fld, instrPos(nuCall), "Opt."+fld+" = c."+fld, "the configured "+fld+" does not reach the upstream options: the upstream silently connects as if it were not set")
			}
		}
	}

}

// isBracketingOfHost: the write stores "[" + <URL.Host> + "]" and is guarded by netip.ParseAddr(<URL.Host>) having
// succeeded and Is6() of its result.
func isBracketingOfHost(w fieldWrite) bool {
	st, ok := w.Instr.(*ssa.Store)
	if !ok {
		return false
	}
	// value: ("[" + host) + "]"
	outer, ok := st.Val.(*ssa.BinOp)
	if !ok || outer.Op != token.ADD {
		return false
	}
	rc, ok := outer.Y.(*ssa.Const)
	if !ok || rc.Value == nil || rc.Value.ExactString() != `"]"` {
		return false
	}
	inner, ok := outer.X.(*ssa.BinOp)
	if !ok || inner.Op != token.ADD {
		return false
	}
	lc, ok := inner.X.(*ssa.Const)
	if !ok || lc.Value == nil || lc.Value.ExactString() != `"["` {
		return false
	}
	if k, isF := loadedField(inner.Y); !isF || k != "net/url.URL.Host" {
		return false
	}
	parsed, is6 := false, false
	for _, g := range guardsOfInstr(w.Instr) {
		if cm, ok := g.asCmp(); ok && cm.Op == token.EQL && isNilConst(cm.Y) {
			if ex, isE := cm.X.(*ssa.Extract); isE {
				if cl, isC := ex.Tuple.(*ssa.Call); isC && callName(cl) == "net/netip.ParseAddr" {
					parsed = true
				}
			}
		}
		if v, truth := g.asBool(); truth {
			if cl, isC := v.(*ssa.Call); isC && callName(cl) == "(net/netip.Addr).Is6" {
				is6 = true
			}
		}
	}
	return parsed && is6
}
