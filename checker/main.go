// mosverif: repository-specific static checks deciding structural necessary conditions of the
// mosdns properties C01..C20 (see /verif/DESIGN.md). Nothing under /repo is executed.
package main

import (
	"flag"
	"fmt"
	"os"
	"os/exec"
	"runtime/debug"
	"sort"
	"strconv"
	"strings"
	"time"
)

type propDef struct {
	ID          string
	Explanation string
	Assumptions []string
	Run         func(c *Ctx)
}

var registry = map[string]*propDef{}

func register(p *propDef) { registry[p.ID] = p }

var thoroughConfigs = [][2]string{
	{"linux", "amd64"}, {"linux", "386"}, {"linux", "arm64"},
	{"darwin", "arm64"}, {"windows", "amd64"}, {"freebsd", "amd64"},
}

func runProperty(pd *propDef, p *Prog) (c *Ctx, err error) {
	c = newCtx(p, pd.ID)
	defer func() {
		if r := recover(); r != nil {
			c.cur = pd.ID + "-internal"
			if _, ok := c.rules[c.cur]; !ok {
				c.rules[c.cur] = &ruleInfo{ID: c.cur, Doc: "analysis must not panic"}
				c.order = append(c.order, c.cur)
			}
			c.Obs = append(c.Obs, Obligation{Rule: c.cur, Construct: "panic", Pos: "-", Verdict: "undecided",
				Detail: fmt.Sprintf("analysis panicked: %v\n%s", r, debug.Stack()), Config: p.Config})
		}
	}()
	pd.Run(c)
	c.finish()
	return c, nil
}

func mergeResults(pd *propDef, ctxs []*Ctx) *propResult {
	res := &propResult{prop: pd.ID, explanation: pd.Explanation, assumptions: pd.Assumptions, extra: map[string]any{}}
	seen := map[string]bool{}
	ruleSeen := map[string]*ruleInfo{}
	for i, c := range ctxs {
		res.configs = append(res.configs, c.P.Config)
		if i == 0 {
			res.funcs = len(c.funcsSeen)
			res.blocks = c.blocksSeen
			res.calls = c.callsSeen
			res.packages = len(c.P.Pkgs)
		}
		for _, id := range c.order {
			ri := c.rules[id]
			if prev, ok := ruleSeen[id]; ok {
				if ri.Count > prev.Count {
					prev.Count = ri.Count
				}
			} else {
				cp := *ri
				ruleSeen[id] = &cp
				res.rules = append(res.rules, &cp)
			}
		}
		for _, o := range c.Obs {
			key := o.Rule + "|" + o.Construct + "|" + o.Pos + "|" + o.Verdict
			if i > 0 && seen[key] {
				continue // same obligation, same verdict under another build configuration
			}
			seen[key] = true
			res.obs = append(res.obs, o)
		}
	}
	return res
}

func checkProperty(id, tier, repo string, seed int) int {
	start := time.Now()
	pd := registry[id]
	if pd == nil {
		fmt.Printf("unknown property %s\n", id)
		return 2
	}
	configs := [][2]string{{"", ""}}
	if tier == "thorough" {
		configs = append(configs, thoroughConfigs...)
	}
	var ctxs []*Ctx
	for _, cf := range configs {
		p, err := load(loadOpts{dir: repo, goos: cf[0], goarch: cf[1]})
		if err != nil {
			// A tree that does not load cannot be certified: report as a violation of the loader rule.
			res := &propResult{prop: id, explanation: pd.Explanation, assumptions: pd.Assumptions,
				obs:   []Obligation{{Rule: id + "-load", Construct: "load:" + cf[0] + "/" + cf[1], Pos: "-", Verdict: "undecided", Detail: err.Error()}},
				rules: []*ruleInfo{{ID: id + "-load", Doc: "the tree must load and type-check", Min: 1, Count: 1}}}
			return emit(res, tier, seed, start, true)
		}
		c, _ := runProperty(pd, p)
		ctxs = append(ctxs, c)
	}
	res := mergeResults(pd, ctxs)
	if tier == "thorough" {
		addCallGraphCrossCheck(res, repo)
		addSelfTest(res, id, repo)
	}
	return emit(res, tier, seed, start, true)
}

func main() {
	if len(os.Args) < 2 {
		fmt.Println("usage: mosverif check <ID> [-tier quick|thorough] [-repo dir] | all | list | warm | mutants [ID]")
		os.Exit(2)
	}
	cmd := os.Args[1]
	fs := flag.NewFlagSet(cmd, flag.ExitOnError)
	tier := fs.String("tier", "quick", "quick|thorough")
	repo := fs.String("repo", "/repo", "repository root")
	seed := 0
	if s := os.Getenv("VERIF_SEED"); s != "" {
		if n, err := strconv.Atoi(s); err == nil {
			seed = n
		}
	}
	switch cmd {
	case "check":
		if len(os.Args) < 3 {
			fmt.Println("check needs a property id")
			os.Exit(2)
		}
		id := os.Args[2]
		fs.Parse(os.Args[3:])
		if t := os.Getenv("VERIF_TIER"); t != "" && *tier == "quick" && false {
			*tier = t
		}
		os.Exit(checkProperty(id, *tier, *repo, seed))
	case "all":
		fs.Parse(os.Args[2:])
		start := time.Now()
		p, err := load(loadOpts{dir: *repo})
		if err != nil {
			fmt.Println("load failed:", err)
			os.Exit(2)
		}
		fmt.Printf("loaded %d packages, %d functions in %.1fs\n", len(p.Pkgs), len(p.Funcs), time.Since(start).Seconds())
		var ids []string
		for id := range registry {
			ids = append(ids, id)
		}
		sort.Strings(ids)
		rc := 0
		for _, id := range ids {
			st := time.Now()
			c, _ := runProperty(registry[id], p)
			res := mergeResults(registry[id], []*Ctx{c})
			if r := emit(res, *tier, seed, st, false); r != 0 {
				rc = 1
			}
		}
		os.Exit(rc)
	case "list":
		var ids []string
		for id := range registry {
			ids = append(ids, id)
		}
		sort.Strings(ids)
		fmt.Println(strings.Join(ids, " "))
	case "warm":
		fs.Parse(os.Args[2:])
		start := time.Now()
		p, err := load(loadOpts{dir: *repo})
		if err != nil {
			fmt.Println("load failed:", err)
			os.Exit(2)
		}
		fmt.Printf("warm: %d packages, %d functions, %.1fs\n", len(p.Pkgs), len(p.Funcs), time.Since(start).Seconds())
	case "mutants":
		fs.Parse(os.Args[2:])
		only := ""
		if fs.NArg() > 0 {
			only = fs.Arg(0)
		}
		if only == "" {
			// one child process per property: every variant loads a whole program, and a single process for the
			// whole corpus (460+ variants) outgrows the machine's memory
			rc := 0
			self, _ := os.Executable()
			var ids []string
			for id := range registry {
				ids = append(ids, id)
			}
			sort.Strings(ids)
			for _, id := range ids {
				cmd := exec.Command(self, "mutants", "-repo", *repo, id)
				cmd.Stdout, cmd.Stderr = os.Stdout, os.Stderr
				if err := cmd.Run(); err != nil {
					rc = 1
				}
			}
			os.Exit(rc)
		}
		os.Exit(runMutants(*repo, only, true))
	case "baseline":
		// prints the names of all source functions of the analysed module: the functions the rules were written
		// against (checker/baseline_funcs.txt, embedded). A function that is not in this list is a NEW helper; where a
		// rule scans "f and its closures" (eachInstrDeep) a new helper with a single call site inside f is scanned too.
		fs.Parse(os.Args[2:])
		p, err := load(loadOpts{dir: *repo})
		if err != nil {
			fmt.Println("load failed:", err)
			os.Exit(2)
		}
		var names []string
		for _, f := range p.Funcs {
			if inMosdns(f) {
				names = append(names, funcName(f))
			}
		}
		sort.Strings(names)
		for _, n := range names {
			fmt.Println(n)
		}
	case "ctxselects":
		// lists every blocking select of the module with a ctx.Done() case and a value-carrying receive (the D22 family)
		fs.Parse(os.Args[2:])
		p, err := load(loadOpts{dir: *repo})
		if err != nil {
			fmt.Println("load failed:", err)
			os.Exit(2)
		}
		for _, s := range ctxResultSelects(p) {
			fmt.Printf("%s %s polls=%v elem=%s\n", p.pos(instrPos(s.sel)), funcName(s.fn), s.polls, s.elem)
		}
	case "dumpfacts":
		fs.Parse(os.Args[2:])
		p, err := load(loadOpts{dir: *repo})
		if err != nil {
			fmt.Println("load failed:", err)
			os.Exit(2)
		}
		dumpFacts(p, fs.Args())
	default:
		fmt.Println("unknown command", cmd)
		os.Exit(2)
	}
}
