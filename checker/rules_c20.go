package main

import (
	"fmt"
	"go/token"
	"go/types"
	"strings"

	"golang.org/x/tools/go/ssa"
)

const relFallback = "plugin/executable/sequence/fallback"

func init() {
	register(&propDef{
		ID: "C20",
		Explanation: "Decides the structural conditions of 'primary preferred, fail over only when it should' in doFallback and its two worker goroutines: (R1) a worker that signals a sibling by " +
			"closing a channel queues its own (possibly non-nil) result on the FIFO result channel before the close whenever the woken sibling can still send an answer, and the 'primary done' " +
			"signal is only given with a non-nil, error-free answer; (R2) without always_standby the secondary's Exec is only reachable through the gate select {done => return, failed, timer}; " +
			"(R3) with always_standby a non-nil secondary answer is released only after the hold select {done, failed, timer}, which has no other case; (R4) each worker sends at most once on every path and the " +
			"result channel's capacity covers all workers; (R5) the caller collects exactly as many results as workers, skips nil ones, watches its context, and reports failure only after all; " +
			"(R6) workers run on copies of the query context made before they start, under a context derived from the caller's deadline. Timing relative to the threshold is not decided.",
		Assumptions: []string{"Go channel FIFO order and close semantics"},
		Run:         runC20,
	})
}

// chanID identifies a channel variable across a function and its closures: the parent's cell for
// captured variables, else the value itself.
func chanID(v ssa.Value) ssa.Value {
	for i := 0; i < 4; i++ {
		// a channel handed to a worker function as an argument of its one `go` statement (closure-to-method
		// refactoring): the identity is that of the argument
		if prm, ok := v.(*ssa.Parameter); ok {
			if a := uniqueGoArg(prm); a != nil {
				v = stripChanConv(a)
				continue
			}
		}
		break
	}
	if u, ok := v.(*ssa.UnOp); ok && u.Op == token.MUL {
		return resolveAddr(u.X)
	}
	return v
}

// uniqueGoArg: prm's function is started by exactly one `go f(args...)` statement (and called nowhere else) — the
// argument bound to prm there; nil otherwise.
func uniqueGoArg(prm *ssa.Parameter) ssa.Value {
	fn := prm.Parent()
	if fn == nil || fn.Pkg == nil {
		return nil
	}
	idx := -1
	for i, q := range fn.Params {
		if q == prm {
			idx = i
		}
	}
	var found ssa.Value
	n := 0
	for _, m := range fn.Pkg.Members {
		walk := func(g *ssa.Function) {
			eachInstrDeep(g, func(_ *ssa.Function, in ssa.Instruction) {
				ci, ok := in.(ssa.CallInstruction)
				if !ok || ci.Common().StaticCallee() != fn {
					return
				}
				n++
				if _, isGo := in.(*ssa.Go); isGo && idx >= 0 && idx < len(ci.Common().Args) {
					found = ci.Common().Args[idx]
				} else {
					found = nil
					n += 10
				}
			})
		}
		switch x := m.(type) {
		case *ssa.Function:
			walk(x)
		case *ssa.Type:
			for _, t := range []types.Type{x.Type(), types.NewPointer(x.Type())} {
				ms := fn.Prog.MethodSets.MethodSet(t)
				for i := 0; i < ms.Len(); i++ {
					if g := fn.Prog.MethodValue(ms.At(i)); g != nil && g.Pkg == fn.Pkg {
						walk(g)
					}
				}
			}
		}
	}
	if n != 1 {
		return nil
	}
	return found
}

func runC20(c *Ctx) {
	p := c.P
	df := c.fn(relFallback, "fallback", "doFallback")
	if df == nil {
		return
	}
	// workers = closures started with `go`
	var workers []*ssa.Function
	goInstr := map[*ssa.Function]*ssa.Go{}
	eachInstr(df, func(in ssa.Instruction) {
		if g, ok := in.(*ssa.Go); ok {
			if fn := staticCallee(g); fn != nil && (fn.Parent() == df || (fn.Pkg == df.Pkg && len(fn.Blocks) > 0)) {
				workers = append(workers, fn)
				goInstr[fn] = g
			}
		}
	})
	if len(workers) != 2 {
		c.rule("R1", "result before signal", 1)
		c.undecided("workers", df.Pos(), "expected 2 worker goroutines in doFallback, found %d", len(workers))
		return
	}
	// result channel R: received in the caller's blocking select
	var R ssa.Value
	var callerSel *ssa.Select
	eachInstr(df, func(in ssa.Instruction) {
		if sel, ok := in.(*ssa.Select); ok && sel.Blocking {
			for _, st := range sel.States {
				if st.Dir == types.RecvOnly {
					if _, isMsg := st.Chan.Type().Underlying().(*types.Chan).Elem().(*types.Pointer); isMsg {
						R = chanID(st.Chan)
						callerSel = sel
					}
				}
			}
		}
	})
	if R == nil {
		// a plain receive (no select): still identifies the result channel; R5 then reports the missing ctx case
		eachInstr(df, func(in ssa.Instruction) {
			if u, ok := in.(*ssa.UnOp); ok && u.Op == token.ARROW {
				if ch, ok := u.X.Type().Underlying().(*types.Chan); ok {
					if _, isMsg := ch.Elem().(*types.Pointer); isMsg {
						R = chanID(u.X)
					}
				}
			}
		})
	}
	if R == nil {
		c.rule("R1", "result before signal", 1)
		c.anchorMissing("result channel received by doFallback")
		return
	}
	isSendR := func(in ssa.Instruction) (ssa.Value, bool) {
		if s, ok := in.(*ssa.Send); ok && chanID(s.Chan) == R {
			return s.X, true
		}
		return nil, false
	}
	// identify primary / secondary by the field whose Exec they invoke
	execOf := func(w *ssa.Function) (*ssa.Call, string) {
		var call *ssa.Call
		var which string
		eachInstr(w, func(in ssa.Instruction) {
			if ci, ok := in.(*ssa.Call); ok && ci.Call.IsInvoke() && ci.Call.Method.Name() == "Exec" {
				if k, ok := loadedField(ci.Call.Value); ok && strings.HasPrefix(k, relFallback+".fallback.") {
					call, which = ci, strings.TrimPrefix(k, relFallback+".fallback.")
				}
			}
		})
		return call, which
	}
	var prim, sec *ssa.Function
	var primExec, secExec *ssa.Call
	for _, w := range workers {
		ci, which := execOf(w)
		switch which {
		case "primary":
			prim, primExec = w, ci
		case "secondary":
			sec, secExec = w, ci
		}
	}
	if prim == nil || sec == nil {
		c.rule("R1", "result before signal", 1)
		c.anchorMissing("primary/secondary worker closures")
		return
	}
	c.see(df)

	// closes in the primary
	type closeSite struct {
		in ssa.Instruction
		ch ssa.Value
	}
	var closes []closeSite
	eachInstr(prim, func(in ssa.Instruction) {
		if ci, ok := isCall(in, "builtin:close"); ok {
			closes = append(closes, closeSite{in, chanID(ci.Common().Args[0])})
		}
	})
	// secondary's selects
	type selInfo struct {
		sel   ssa.Instruction // the select, or the call of a NEW wait helper that is nothing but one select over its parameters
		cases []selCase
	}
	var secSels []selInfo
	eachInstr(sec, func(in ssa.Instruction) {
		if sel, ok := in.(*ssa.Select); ok && sel.Blocking {
			cs, _, ok := decodeSelect(sel)
			if ok {
				secSels = append(secSels, selInfo{sel, cs})
			}
		}
		if cl, ok := in.(*ssa.Call); ok {
			if cs, ok := waitHelperCases(cl); ok {
				secSels = append(secSels, selInfo{cl, cs})
			}
		}
	})

	// ---------------------------------------------------------------- R1
	c.rule("R1", "a worker queues its own answer before waking a sibling that can still answer; 'done' is only signalled with an answer", 2)
	// which channel is the "done" signal: the one whose receive in a secondary select leads straight to return
	var doneCh ssa.Value
	for _, si := range secSels {
		for _, cs := range si.cases {
			if cs.State.Dir != types.RecvOnly || cs.Body == nil {
				continue
			}
			if _, sends := reachFromBlock(cs.Body, func(x ssa.Instruction) bool { _, ok := isSendR(x); return ok }, nil); !sends {
				if _, rets := reachFromBlock(cs.Body, isReturn, nil); rets {
					id := chanID(cs.State.Chan)
					for _, cl := range closes {
						if cl.ch == id {
							doneCh = id
						}
					}
				}
			}
		}
	}
	for _, cl := range closes {
		key := "close@" + funcName(prim) + ":" + exprStr(cl.ch)
		// can a sibling woken by this close still send a possibly non-nil value?
		siblingAnswers := false
		for _, si := range secSels {
			for _, cs := range si.cases {
				if cs.State.Dir != types.RecvOnly || cs.Body == nil || chanID(cs.State.Chan) != cl.ch {
					continue
				}
				if snd, ok := reachFromBlock(cs.Body, func(x ssa.Instruction) bool {
					v, ok := isSendR(x)
					return ok && !isNilConst(v)
				}, nil); ok {
					_ = snd
					siblingAnswers = true
				}
			}
		}
		// own send on this path
		var ownSend ssa.Instruction
		var ownVal ssa.Value
		eachInstr(prim, func(in ssa.Instruction) {
			if v, ok := isSendR(in); ok && (instrDominates(in, cl.in) || instrDominates(cl.in, in)) {
				ownSend, ownVal = in, v
			}
		})
		if ownSend == nil {
			c.fail(key, instrPos(cl.in), "the worker closes a signal channel on a path without sending its result")
			continue
		}
		if isNilConst(ownVal) || !siblingAnswers {
			c.ok(key, instrPos(cl.in), "no ordering obligation (own result nil: %v, woken sibling can answer: %v)", isNilConst(ownVal), siblingAnswers)
		} else {
			c.check(instrDominates(ownSend, cl.in), key, instrPos(cl.in), "own answer is queued before the signal",
				"the signal channel is closed BEFORE the worker queues its own answer while the sibling woken by it can send an answer: the sibling's answer can be queued first and wins although the primary succeeded in time")
		}
	}
	if doneCh == nil {
		c.undecided("done-signal", prim.Pos(), "cannot identify the 'primary done' signal (a channel closed by the primary whose receipt makes the secondary return)")
	} else {
		for _, cl := range closes {
			if cl.ch != doneCh {
				continue
			}
			// guards: err == nil and r != nil, where r is the value sent
			var sent ssa.Value
			eachInstr(prim, func(in ssa.Instruction) {
				if v, ok := isSendR(in); ok && in.Block() == cl.in.Block() {
					sent = v
				}
			})
			errNil, rNonNil := false, false
			for _, g := range guardsOfInstr(cl.in) {
				cm, ok := g.asCmp()
				if !ok || !isNilConst(cm.Y) {
					continue
				}
				if cm.Op == token.EQL && cm.X == ssa.Value(primExec) {
					errNil = true
				}
				if cm.Op == token.NEQ && sent != nil && cm.X == sent {
					rNonNil = true
				}
			}
			c.check(errNil && rNonNil, "done-implies-answer", instrPos(cl.in), "'done' is signalled only with err == nil and a non-nil answer that is sent",
				fmt.Sprintf("'primary done' is signalled although the primary may have failed or produced no answer (err==nil guarded: %v, answer!=nil guarded: %v): the secondary stands down and the caller waits for a result that never comes", errNil, rNonNil))
		}
	}

	// ---------------------------------------------------------------- R2
	c.rule("R2", "without always_standby, the secondary's Exec is reachable only through the gate select {done => return, failed, timer}", 1)
	isStandbyLoad := func(v ssa.Value) bool {
		k, ok := loadedField(v)
		return ok && k == relFallback+".fallback.alwaysStandby"
	}
	var gate *selInfo
	for i := range secSels {
		si := &secSels[i]
		if !instrDominates(si.sel, secExec) && !func() bool {
			_, ok := reachAvoiding(si.sel, func(x ssa.Instruction) bool { return x == ssa.Instruction(secExec) }, nil)
			return ok
		}() {
			continue
		}
		if instrDominates(secExec, si.sel) {
			continue
		}
		gate = si
	}
	if gate == nil {
		c.fail("gate@"+funcName(sec), instrPos(secExec), "no gate select before the secondary's Exec: the secondary is always started immediately")
	} else {
		hasDoneReturn, hasFailed, hasTimer := false, false, false
		for _, cs := range gate.cases {
			if cs.State.Dir != types.RecvOnly {
				continue
			}
			id := chanID(cs.State.Chan)
			known := id == doneCh || isNilConst(cs.State.Chan) // a nil channel is never ready
			if id == doneCh && cs.Body != nil {
				if _, reaches := reachFromBlock(cs.Body, func(x ssa.Instruction) bool { return x == ssa.Instruction(secExec) }, nil); !reaches {
					hasDoneReturn = true
				}
			}
			for _, cl := range closes {
				if cl.ch == id && id != doneCh {
					hasFailed, known = true, true
				}
			}
			if k, ok := loadedField(cs.State.Chan); ok && k == "time.Timer.C" {
				hasTimer, known = true, true
			}
			// any other case must not lead to the Exec (e.g. a ctx case that returns is fine; one that falls through starts
			// the secondary although the primary neither failed nor exceeded the threshold)
			if !known {
				leads := cs.Body == nil
				if cs.Body != nil {
					_, leads = reachFromBlock(cs.Body, func(x ssa.Instruction) bool { return x == ssa.Instruction(secExec) }, nil)
				}
				c.check(!leads, "gate-other-case-does-not-start-secondary@"+funcName(sec)+":"+exprStr(cs.State.Chan), instrPos(gate.sel),
					"a gate case other than failed/timer does not lead to the secondary's Exec",
					"the gate select also opens on "+exprStr(cs.State.Chan)+": the secondary is started although the primary neither failed nor exceeded the threshold")
			}
		}
		// Exec not reachable from entry avoiding the gate unless alwaysStandby is true
		bypass := false
		seen := map[*ssa.BasicBlock]bool{sec.Blocks[0]: true}
		work := []*ssa.BasicBlock{sec.Blocks[0]}
		for len(work) > 0 {
			b := work[0]
			work = work[1:]
			stop := false
			for _, in := range b.Instrs {
				if in == ssa.Instruction(gate.sel) {
					stop = true
					break
				}
				if in == ssa.Instruction(secExec) {
					bypass = true
				}
			}
			if stop || bypass {
				continue
			}
			iff, isIf := terminator(b).(*ssa.If)
			for i, s := range b.Succs {
				if isIf {
					v, truth := guard{Cond: iff.Cond, Truth: i == 0}.asBool()
					if isStandbyLoad(v) && truth {
						continue // always_standby: the gate is intentionally skipped
					}
				}
				if !seen[s] {
					seen[s] = true
					work = append(work, s)
				}
			}
		}
		c.check(hasDoneReturn && hasFailed && hasTimer && !bypass, "gate@"+funcName(sec), instrPos(gate.sel),
			"gate select {done => no Exec, failed, timer} guards the secondary's Exec",
			fmt.Sprintf("gate incomplete (done=>return: %v, failed: %v, timer: %v, Exec reachable around the gate without always_standby: %v)", hasDoneReturn, hasFailed, hasTimer, bypass))
	}

	// ---------------------------------------------------------------- R3
	c.rule("R3", "with always_standby a non-nil secondary answer is sent only after the hold select {done, failed, timer}, which has no other case", 1)
	{
		var finalSends []ssa.Instruction
		eachInstr(sec, func(in ssa.Instruction) {
			if v, ok := isSendR(in); ok && !isNilConst(v) {
				finalSends = append(finalSends, in)
			}
		})
		if len(finalSends) == 0 {
			c.anchorMissing("answer send in the secondary worker")
		}
		for _, snd := range finalSends {
			sv, _ := isSendR(snd)
			var hold *selInfo
			for i := range secSels {
				si := &secSels[i]
				if instrDominates(secExec, si.sel) {
					hold = si
				}
			}
			key := "hold@" + funcName(sec)
			if hold == nil {
				c.fail(key, instrPos(snd), "no hold select between the secondary's Exec and its send: a standby answer is released immediately")
				continue
			}
			hasFailed, hasTimer, hasDone := false, false, false
			for _, cs := range hold.cases {
				id := chanID(cs.State.Chan)
				known := isNilConst(cs.State.Chan) // a nil channel is never ready
				if id == doneCh {
					hasDone, known = true, true
				}
				for _, cl := range closes {
					if cl.ch == id && id != doneCh {
						hasFailed, known = true, true
					}
				}
				if k, ok := loadedField(cs.State.Chan); ok && k == "time.Timer.C" {
					hasTimer, known = true, true
				}
				// D50: the hold must not end for any other reason (the worker's own context carries the caller's
				// deadline; a standby answer released then races with the caller's ctx case)
				c.check(known, "hold-wakes-only-on-done-failed-timer@"+funcName(sec)+":"+exprStr(cs.State.Chan), instrPos(hold.sel),
					"hold case is one of done, failed, timer",
					"the hold select also wakes on "+exprStr(cs.State.Chan)+": a standby answer is released although the primary neither failed nor exceeded the threshold")
			}
			// from Exec, the send is reachable avoiding the hold only via edges alwaysStandby==false or r==nil
			bypass := false
			seen := map[*ssa.BasicBlock]bool{}
			var walk func(b *ssa.BasicBlock, from int)
			walk = func(b *ssa.BasicBlock, from int) {
				for i := from; i < len(b.Instrs); i++ {
					in := b.Instrs[i]
					if in == ssa.Instruction(hold.sel) {
						return
					}
					if in == snd {
						bypass = true
						return
					}
				}
				iff, isIf := terminator(b).(*ssa.If)
				for i, s := range b.Succs {
					if isIf {
						g := guard{Cond: iff.Cond, Truth: i == 0}
						if v, truth := g.asBool(); isStandbyLoad(v) && !truth {
							continue
						}
						if cm, ok := g.asCmp(); ok && isNilConst(cm.Y) && cm.Op == token.EQL && cm.X == sv {
							continue
						}
					}
					if !seen[s] {
						seen[s] = true
						walk(s, 0)
					}
				}
			}
			walk(secExec.Block(), idxInBlock(secExec)+1)
			c.check(hasFailed && hasTimer && hasDone && !bypass, key, instrPos(hold.sel), "hold select {done, failed, timer} precedes the standby answer",
				fmt.Sprintf("hold incomplete (done: %v, failed: %v, timer: %v, non-nil standby answer can bypass the hold: %v)", hasDone, hasFailed, hasTimer, bypass))
		}
	}

	// ---------------------------------------------------------------- R4
	c.rule("R4", "each worker sends at most once per path; the result channel's capacity covers all workers", 3)
	for _, w := range workers {
		pcs, ab := countEvents(w, func(in ssa.Instruction) int {
			if _, ok := isSendR(in); ok {
				return 1
			}
			return 0
		}, nil, nil)
		mx := 0
		for _, pc := range pcs {
			if pc.Count > mx {
				mx = pc.Count
			}
		}
		if ab {
			c.undecided("sends@"+funcName(w), w.Pos(), "too many paths")
		} else {
			c.check(mx <= 1, "sends@"+funcName(w), w.Pos(), fmt.Sprintf("at most %d send per path", mx), fmt.Sprintf("a path sends %d results: with capacity for one per worker the extra send blocks the goroutine forever", mx))
			// and a worker that ran its sequence reports: every path on which Exec was called contains a send (the
			// caller waits for one result per worker; a silent worker leaves it waiting until its context ends)
			if ex, _ := execOf(w); ex != nil {
				_, silent := reachAvoiding(ex, func(x ssa.Instruction) bool { return isReturn(x) && x.Block().Comment != "recover" }, func(x ssa.Instruction) bool {
					_, ok := isSendR(x)
					return ok
				})
				c.check(!silent, "reports@"+funcName(w), instrPos(ex), "after running its sequence the worker always sends a result (nil on failure)", "a path of the worker returns after running its sequence without sending a result: when both workers fail the caller keeps waiting for a result that never comes (forever with an unbounded context) instead of returning the failure")
			}
		}
	}
	{
		capOK := false
		var mk *ssa.MakeChan
		tr := p.newTracer()
		var rv ssa.Value = R
		if al, ok := R.(*ssa.Alloc); ok {
			for _, v := range tr.storesTo(al) {
				rv = v
			}
		}
		if m, ok := rv.(*ssa.MakeChan); ok {
			mk = m
			if n, ok := constInt(m.Size); ok && int(n) >= len(workers) {
				capOK = true
			}
		}
		pos := df.Pos()
		if mk != nil {
			pos = mk.Pos()
		}
		c.check(capOK, "capacity", pos, "result channel capacity >= number of workers", "the result channel's capacity is smaller than the number of workers: after the caller returns early, a worker blocks forever in its send")
	}

	// ---------------------------------------------------------------- R5
	c.rule("R5", "caller collects one result per worker, skips nil, watches ctx (and still takes an answer that is already queued when it ends), fails only after all", 5)
	if callerSel == nil {
		c.fail("caller-ctx", df.Pos(), "the caller receives results without a select on its context: the call can outlive it")
	}
	// D52: an answer that was queued before the caller's context ended is not lost to the coin toss between the two cases
	checkCtxCasePollsResultIn(c, df)
	if callerSel != nil {
		hasCtx := false
		for _, st := range callerSel.States {
			if cl, ok := st.Chan.(*ssa.Call); ok && callName(cl) == "invoke:(context.Context).Done" && isParamValue(p, cl.Call.Value, df.Params[1]) {
				hasCtx = true
			}
		}
		c.check(hasCtx, "caller-ctx", instrPos(callerSel), "the collection select watches the caller's ctx.Done()", "the collection loop does not watch the caller's context: the call can outlive it")
		// SetResponse guarded by r != nil
		eachInstr(df, func(in ssa.Instruction) {
			ci, ok := in.(*ssa.Call)
			if !ok || callName(ci) != "(*pkg/query_context.Context).SetResponse" {
				return
			}
			g := false
			for _, gd := range guardsOfInstr(in) {
				if cm, ok := gd.asCmp(); ok && cm.Op == token.NEQ && isNilConst(cm.Y) && cm.X == ci.Call.Args[1] {
					g = true
				}
			}
			recv := false
			if ch, ok := chanOfRecv(ci.Call.Args[1]); ok && chanID(ch) == R {
				recv = true
			}
			// and every non-nil result is accepted: beyond the receive case and `r != nil` nothing stands before it
			extra := ""
			for _, gd := range guardsOfInstr(in) {
				if callerSel != nil && !instrDominates(callerSel, gd.If) {
					continue
				}
				if cm, ok := gd.asCmp(); ok && cm.Op == token.NEQ && isNilConst(cm.Y) && cm.X == ci.Call.Args[1] {
					continue
				}
				if cm, ok := gd.asCmp(); ok {
					if ex, isEx := cm.X.(*ssa.Extract); isEx && ex.Index == 0 {
						if _, isSel := ex.Tuple.(*ssa.Select); isSel {
							continue // select case index
						}
					}
				}
				if gd.Derived {
					continue
				}
				extra = guardText(gd)
			}
			c.check(g && recv && extra == "", "caller-skips-nil", instrPos(in), "exactly the non-nil received results become the response", "the caller accepts a nil result, a value that was not received from the result channel, or skips some non-nil results ("+extra+"): a usable answer is thrown away and the call waits for nothing")
		})
		if md := c.fn(relFallback, "", "makeDdlCtx"); md != nil {
			// the workers' context carries the caller's deadline (or now+timeout), nothing later
			// every returned context is WithDeadline(_, <the caller's deadline>) or WithDeadline(_, now + timeout) /
			// WithTimeout(_, timeout) — the latter two only where the caller has no deadline; both kinds occur
			hasCaller, hasOwn, okAll := false, false, true
			isDeadlineOf := func(v ssa.Value, idx int) bool {
				e2, ok := v.(*ssa.Extract)
				if !ok || e2.Index != idx {
					return false
				}
				c2, ok := e2.Tuple.(*ssa.Call)
				return ok && callName(c2) == "invoke:(context.Context).Deadline" && c2.Call.Value == ssa.Value(md.Params[0])
			}
			noCallerDeadline := func(gs []guard) bool {
				for _, g := range gs {
					if v, truth := g.asBool(); !truth && isDeadlineOf(v, 1) {
						return true
					}
				}
				return false
			}
			nRet := 0
			for _, r := range returnsOf(md) {
				rv := returnedValues(r)
				nRet++
				for _, lfc := range expandCases(rv[0], nil, 0) {
					ex, ok := lfc.val.(*ssa.Extract)
					if !ok || ex.Index != 0 {
						okAll = false
						continue
					}
					cl, ok := ex.Tuple.(*ssa.Call)
					if !ok {
						okAll = false
						continue
					}
					gs := append(append([]guard{}, lfc.guards...), guardsOfInstr(cl)...)
					switch callName(cl) {
					case "context.WithDeadline":
						for _, lf := range expandCases(cl.Call.Args[1], nil, 0) {
							if isDeadlineOf(lf.val, 0) {
								hasCaller = true
								continue
							}
							if c3, ok := lf.val.(*ssa.Call); ok && callName(c3) == "(time.Time).Add" && c3.Call.Args[1] == ssa.Value(md.Params[1]) {
								hasOwn = true
								continue
							}
							okAll = false
						}
					case "context.WithTimeout":
						if cl.Call.Args[1] == ssa.Value(md.Params[1]) && noCallerDeadline(gs) {
							hasOwn = true
						} else {
							okAll = false
						}
					default:
						okAll = false
					}
				}
			}
			good := okAll && hasCaller && hasOwn && nRet > 0
			c.check(good, "worker-deadline:helper", md.Pos(), "makeDdlCtx = WithDeadline(Background, caller's deadline or now+timeout)", "makeDdlCtx does not carry the caller's deadline (or now+timeout): workers outlive the call")
		}
		// loop bound
		iv := int64(-1)
		var loopIf *ssa.If
		for _, b := range df.Blocks {
			iff, ok := terminator(b).(*ssa.If)
			if !ok {
				continue
			}
			if bo, ok := iff.Cond.(*ssa.BinOp); ok && bo.Op == token.LSS {
				_, isPhi := bo.X.(*ssa.Phi)
				// `for range n` (Go 1.22) is lowered to a loop that tests i+1 < n with i starting at -1
				if inc, isInc := bo.X.(*ssa.BinOp); isInc && inc.Op == token.ADD {
					if _, p1 := inc.X.(*ssa.Phi); p1 {
						if k, isK := constInt(inc.Y); isK && k == 1 {
							isPhi = true
						}
					}
				}
				if isPhi {
					if n, ok := constInt(bo.Y); ok && b.Dominates(callerSel.Block()) {
						iv, loopIf = n, iff
					}
				}
				// rotated form: the test sits in the latch block, its true edge re-enters the body whose phi it increments
				if inc, isInc := bo.X.(*ssa.BinOp); isInc && inc.Op == token.ADD && len(b.Succs) == 2 {
					if ph, p1 := inc.X.(*ssa.Phi); p1 && ph.Block() == b.Succs[0] && ph.Block().Dominates(callerSel.Block()) {
						if n, ok := constIntOrChanCap(bo.Y); ok {
							iv, loopIf = n, iff
						}
					}
				}
			}
		}
		c.check(iv == int64(len(workers)), "caller-loop-bound", instrPos(callerSel), "the caller waits for exactly one result per worker",
			fmt.Sprintf("the collection loop runs %d times for %d workers", iv, len(workers)))
		// ErrFailed only after the loop
		okFail := true
		for _, r := range returnsOf(df) {
			v := returnedValues(r)[0]
			if u, ok := v.(*ssa.UnOp); ok && strings.HasSuffix(exprStr(u), "ErrFailed") {
				if loopIf == nil || !(succOnTruth(loopIf, false) == r.Block() || succOnTruth(loopIf, false).Dominates(r.Block())) {
					okFail = false
				}
			}
		}
		c.check(okFail, "caller-fails-last", df.Pos(), "ErrFailed is returned only after all results were collected", "ErrFailed can be returned before all workers reported")
	}

	// ---------------------------------------------------------------- R7
	c.rule("R7", "the threshold timer comes from the pool undisturbed: pooled timers are drained when they already fired; the waiter owns its timer", 4)
	checkPooledTimers(c)
	// the goroutine that waits on the threshold timer is the one that took it from the pool and releases it: a timer
	// released by another goroutine (e.g. by doFallback's own defer when the call ends early) is re-armed by the next
	// call while this waiter still sits on its channel and steals the tick (round 12)
	{
		n := 0
		for i := range secSels {
			for _, cs := range secSels[i].cases {
				k, ok := loadedField(cs.State.Chan)
				if !ok || k != "time.Timer.C" {
					continue
				}
				n++
				var base ssa.Value
				if u, ok := cs.State.Chan.(*ssa.UnOp); ok {
					base = fieldBase(u.X)
				}
				own := false
				if cl, ok := base.(*ssa.Call); ok && cl.Parent() == sec {
					cn := callName(cl)
					own = cn == relPool+".GetTimer" || cn == "time.NewTimer"
				}
				released := false
				eachInstr(sec, func(in ssa.Instruction) {
					if d, ok := in.(*ssa.Defer); ok && callNameCommon(d.Common()) == relPool+".ReleaseTimer" && len(d.Call.Args) == 1 && d.Call.Args[0] == base {
						released = true
					}
				})
				if cl, ok := base.(*ssa.Call); ok && callName(cl) == "time.NewTimer" {
					released = true // not pooled
				}
				c.check(own && released, "threshold-timer-owned-by-its-waiter@"+funcName(sec), instrPos(secSels[i].sel),
					"the timer waited on is taken from the pool and released (deferred) by the waiting goroutine itself",
					"the secondary waits on a timer ("+exprStr(base)+") that it did not take from the pool itself or does not release itself: when the call ends first the timer goes back to the pool armed, the next call re-arms it and this waiter takes its tick — that call's secondary is not started / released at the threshold")
			}
		}
		if n == 0 {
			c.anchorMissing("a select case on the threshold timer in the secondary worker")
		}
	}

	// ---------------------------------------------------------------- R6
	c.rule("R6", "workers run on their own copies of the query context taken before the goroutine starts, with a deadline context from the caller; the threshold is the configured number of milliseconds", 6)
	for _, w := range workers {
		ci, which := execOf(w)
		if ci == nil {
			continue
		}
		args := callArgs(ci) // recv, ctx, qCtx
		tr := p.newTracer()
		tr.throughParams = false
		tr.throughFields = false
		tr.throughCalls = false
		// a worker that is a function of its own gets what the closure used to capture as arguments of its `go` statement
		viaGo := func(vs []ssa.Value) []ssa.Value {
			var out []ssa.Value
			for _, v := range vs {
				if prm, isP := v.(*ssa.Parameter); isP && prm.Parent() == w {
					if a := uniqueGoArg(prm); a != nil {
						out = append(out, tr.origins(a)...)
						continue
					}
				}
				out = append(out, v)
			}
			return out
		}
		roots := viaGo(tr.origins(args[2]))
		good := len(roots) > 0
		for _, r := range roots {
			cl, ok := r.(*ssa.Call)
			if !ok || callName(cl) != "(*pkg/query_context.Context).Copy" || cl.Parent() != df || !instrDominates(cl, goInstr[w]) || cl.Call.Args[0] != ssa.Value(df.Params[2]) {
				good = false
			}
		}
		c.check(good, "worker-copy:"+which, instrPos(ci), "runs on qCtx.Copy() made before the goroutine starts",
			"the "+which+" worker does not run on a private copy of the query context taken before it starts: it writes into the caller's context (or races with it) after the call returned")
		roots = tr.origins(args[1])
		good = len(roots) > 0
		for _, r := range roots {
			ex, ok := r.(*ssa.Extract)
			if !ok {
				good = false
				continue
			}
			cl, ok := ex.Tuple.(*ssa.Call)
			if !ok || callName(cl) != relFallback+".makeDdlCtx" {
				good = false
				continue
			}
			pr := viaGo(tr.origins(cl.Call.Args[0]))
			if len(pr) != 1 || pr[0] != ssa.Value(df.Params[1]) {
				good = false
			}
		}
		c.check(good, "worker-deadline:"+which, instrPos(ci), "context from makeDdlCtx(caller ctx)", "the "+which+" worker's context is not derived from the caller's deadline")
		// that context stays live for the whole worker: its cancel function is only deferred (the standby wait
		// selects on its Done(); cancelling right after Exec opens that wait at once)
		for _, r := range roots {
			ex, ok := r.(*ssa.Extract)
			if !ok {
				continue
			}
			for _, r2 := range referrers(ex.Tuple.(ssa.Value)) {
				e2, ok := r2.(*ssa.Extract)
				if !ok || e2.Index != 1 {
					continue
				}
				onlyDeferred := true
				for _, u := range referrers(e2) {
					switch y := u.(type) {
					case *ssa.Defer:
					case *ssa.DebugRef:
					case *ssa.Call:
						// a plain cancel() after the worker's Exec has returned is harmless since D50: nothing in the worker
						// waits on that context any more (C20-R3 forbids a case on it in the hold); during or before Exec it
						// would cut the worker short
						if y.Call.Value != ssa.Value(e2) || !instrDominates(ci, y) {
							onlyDeferred = false
						}
					case *ssa.Store:
						// spilled into a cell: its loads must be deferred calls too
						for _, u2 := range referrers(y.Addr) {
							if ld, ok := u2.(*ssa.UnOp); ok {
								for _, u3 := range referrers(ld) {
									if _, isD := u3.(*ssa.Defer); !isD {
										if _, isDbg := u3.(*ssa.DebugRef); !isDbg {
											onlyDeferred = false
										}
									}
								}
							}
						}
					default:
						onlyDeferred = false
					}
				}
				c.check(onlyDeferred, "worker-ctx-live:"+which, instrPos(ci), "the worker's context is cancelled only after its Exec returned (deferred, or called behind the Exec)", "the "+which+" worker's context can be cancelled before its Exec has returned: the worker is cut short and reports a failure although it was within its time")
			}
		}
	}
	// the workers do not share a copy: each worker's context originates from its own Copy() call
	{
		seen := map[ssa.Value]string{}
		shared := ""
		seenCtx := map[ssa.Value]string{}
		sharedCtx := ""
		foreignCancel := ""
		for _, w := range workers {
			ci, which := execOf(w)
			if ci == nil {
				continue
			}
			tr := p.newTracer()
			tr.throughParams, tr.throughFields, tr.throughCalls = false, false, false
			for _, r := range tr.origins(callArgs(ci)[2]) {
				if other, dup := seen[r]; dup && other != which {
					shared = other + " and " + which
				}
				seen[r] = which
			}
			// ... nor a deadline context, and a worker's context is cancelled by that worker alone
			for _, r := range tr.origins(callArgs(ci)[1]) {
				if other, dup := seenCtx[r]; dup && other != which {
					sharedCtx = other + " and " + which
				}
				seenCtx[r] = which
				ex, ok := r.(*ssa.Extract)
				if !ok {
					continue
				}
				tup, ok := ex.Tuple.(*ssa.Call)
				if !ok {
					continue
				}
				for _, r2 := range referrers(tup) {
					e2, ok := r2.(*ssa.Extract)
					if !ok || e2.Index != 1 {
						continue
					}
					// every function that gets hold of the cancel function (directly or through a captured cell)
					var holders []*ssa.Function
					for _, u := range referrers(e2) {
						switch y := u.(type) {
						case *ssa.Store:
							for _, u2 := range referrers(y.Addr) {
								if mc, ok := u2.(*ssa.MakeClosure); ok {
									holders = append(holders, mc.Fn.(*ssa.Function))
								}
								if ld, ok := u2.(*ssa.UnOp); ok && len(*ld.Referrers()) > 0 {
									holders = append(holders, ld.Parent())
								}
							}
						case *ssa.MakeClosure:
							holders = append(holders, y.Fn.(*ssa.Function))
						case *ssa.DebugRef:
						default:
							holders = append(holders, u.Parent())
						}
					}
					for _, h := range holders {
						if h != w && h != tup.Parent() {
							foreignCancel = which + " worker's context can be cancelled by " + funcName(h)
						} else if h == tup.Parent() && h != w {
							// made outside the worker (hoisted): fine only if the maker does not call it itself
							for _, u := range referrers(e2) {
								if _, isDefer := u.(*ssa.Defer); isDefer {
									foreignCancel = which + " worker's context is cancelled when " + funcName(h) + " returns"
								}
							}
						}
					}
				}
			}
		}
		if sharedCtx != "" && foreignCancel != "" {
			sharedCtx += "; "
		}
		// the two sequences run nowhere else: a path around doFallback (a "fast path" that runs the primary in place)
		// has no secondary, no failover
		outside := ""
		for _, fn := range p.funcsIn(relFallback) {
			isWorker := false
			for _, w := range workers {
				for _, h := range withAnon(w) {
					if fn == h {
						isWorker = true
					}
				}
			}
			if isWorker {
				continue
			}
			eachInstr(fn, func(in ssa.Instruction) {
				ci, ok := in.(ssa.CallInstruction)
				if !ok || !ci.Common().IsInvoke() || ci.Common().Method.Name() != "Exec" {
					return
				}
				if k, ok := loadedField(ci.Common().Value); ok && (k == relFallback+".fallback.primary" || k == relFallback+".fallback.secondary") {
					outside = p.pos(instrPos(in)) + " in " + funcName(fn)
				}
			})
		}
		c.check(outside == "", "sequences-run-only-in-workers", df.Pos(), "the primary and the secondary sequence are executed by the two workers of doFallback only",
			"a sequence is executed outside the workers of doFallback ("+outside+"): on that path a failed or slow primary is not covered by the secondary")
		if ex := c.fn(relFallback, "fallback", "Exec"); ex != nil {
			good := true
			n := 0
			for _, r := range returnsOf(ex) {
				n++
				cl, ok := returnedValues(r)[0].(*ssa.Call)
				if !ok || staticCallee(cl) != df {
					good = false
				}
			}
			c.check(good && n > 0, "exec-is-fallback", ex.Pos(), "Exec returns doFallback's result on every path", "fallback.Exec has a path that does not go through doFallback")
		}
		c.check(sharedCtx == "" && foreignCancel == "", "worker-contexts-own", df.Pos(), "each worker runs under its own deadline context and only that worker cancels it",
			"the deadline contexts of the workers are not independent ("+sharedCtx+foreignCancel+"): when one worker leaves, the other's Exec is cancelled — a secondary that fails while the primary is still running kills the primary, and the call fails although only one side failed")
		c.check(shared == "" && len(seen) >= 2, "worker-copies-distinct", df.Pos(), "each worker has its own copy of the query context", "the "+shared+" workers run on the same context copy: they race on it and the primary can hand the caller the answer the secondary stored")
	}
	// the threshold: milliseconds from the configuration, default when not positive
	if np := c.fn(relFallback, "", "newFallbackPlugin"); np != nil {
		c.see(np)
		good, why := false, "fastFallbackDuration is not set from the configured threshold"
		for _, w := range p.whoWrites().byField[relFallback+".fallback.fastFallbackDuration"] {
			if w.Fn != np {
				why = "written outside the constructor"
				continue
			}
			okAll, n := true, 0
			for _, lf := range expandCases(w.Val, nil, 0) {
				n++
				if k, isC := constInt(lf.val); isC {
					if k != 500*1000000 {
						okAll, why = false, fmt.Sprintf("default threshold is %d ns, not 500 ms", k)
					}
					continue
				}
				bo, ok := lf.val.(*ssa.BinOp)
				if !ok || bo.Op != token.MUL {
					okAll, why = false, "the configured threshold is used as "+exprStr(lf.val)+" (not multiplied by time.Millisecond): the gate opens after nanoseconds and the secondary always starts"
					continue
				}
				x, y := bo.X, bo.Y
				if k, isC := constInt(x); isC && k == 1000000 {
					x, y = y, x
				}
				if k, isC := constInt(y); !isC || k != 1000000 {
					okAll, why = false, "the configured threshold is not scaled by time.Millisecond"
					continue
				}
				cv, ok := x.(*ssa.Convert)
				if !ok {
					okAll, why = false, "unexpected threshold expression "+exprStr(x)
					continue
				}
				if k, _ := loadedField(cv.X); !strings.HasSuffix(k, ".Args.Threshold") {
					okAll, why = false, "the threshold is taken from "+exprStr(cv.X)
				}
			}
			good = okAll && n >= 2
		}
		c.check(good, "threshold-unit", np.Pos(), "threshold = args.Threshold ms, default 500 ms", why)
	}
}

// checkPooledTimers (C20-R7): a pooled timer whose Stop() reports it already fired is drained before reuse.
func checkPooledTimers(c *Ctx) {
	for _, name := range []string{"ReleaseTimer", "ResetAndDrainTimer"} {
		f := c.fn(relPool, "", name)
		if f == nil {
			continue
		}
		good := false
		eachInstrDeep(f, func(g *ssa.Function, in ssa.Instruction) {
			sel, ok := in.(*ssa.Select)
			if !ok || sel.Blocking {
				return
			}
			drains := false
			for _, st := range sel.States {
				if k, ok := loadedField(st.Chan); ok && k == "time.Timer.C" && st.Dir == types.RecvOnly {
					drains = true
				}
			}
			if !drains {
				return
			}
			for _, gd := range guardsOfInstr(in) {
				v, truth := gd.asBool()
				if cl, ok := v.(*ssa.Call); ok && !truth && callName(cl) == "(*time.Timer).Stop" {
					good = true
				}
			}
		})
		// helpers: follow one level
		if !good {
			eachInstr(f, func(in ssa.Instruction) {
				if ci, ok := in.(*ssa.Call); ok {
					if sc := staticCallee(ci); sc != nil && inMosdns(sc) {
						eachInstr(sc, func(x ssa.Instruction) {
							sel, ok := x.(*ssa.Select)
							if !ok || sel.Blocking {
								return
							}
							for _, gd := range guardsOfInstr(x) {
								v, truth := gd.asBool()
								if cl, ok := v.(*ssa.Call); ok && !truth && callName(cl) == "(*time.Timer).Stop" {
									good = true
								}
							}
						})
					}
				}
			})
		}
		if name == "ReleaseTimer" {
			// D24: a non-blocking drain is not enough — when Stop() returns false the tick may still be on its way into
			// the channel (go.mod says go 1.22: Reset does not clear it). Only a timer that was stopped before it fired goes
			// back into the pool: every Put is on the Stop() == true edge.
			nPut, okPut := 0, true
			eachInstr(f, func(in ssa.Instruction) {
				ci, ok := in.(*ssa.Call)
				if !ok || callName(ci) != "(*sync.Pool).Put" {
					return
				}
				nPut++
				stopped := false
				for _, gd := range guardsOfInstr(in) {
					v, truth := gd.asBool()
					if cl, ok := v.(*ssa.Call); ok && truth && callName(cl) == "(*time.Timer).Stop" {
						stopped = true
					}
				}
				if !stopped {
					okPut = false
				}
			})
			c.check(nPut > 0 && okPut, "timer-pooled-only-if-stopped@"+name, f.Pos(), "a timer goes back into the pool only when Stop() reports that it had not fired",
				"a timer whose Stop() returned false (fired, or firing right now) is put back into the pool: its tick can arrive after the drain attempt, and the next user — fallback's threshold timer — sees the threshold as expired at once: the secondary is started (or its standby answer released) while the primary is within the threshold")
			continue
		}
		c.check(good, "timer-drained@"+name, f.Pos(), "the channel is drained exactly when Stop() reports the timer already fired",
			"a timer that already fired is returned to the pool (or reset) without draining its channel: the next user sees the threshold as expired immediately")
	}
}

// isParamValue: v is parameter prm itself, possibly through the cell it was spilled to for closures.
func isParamValue(p *Prog, v ssa.Value, prm *ssa.Parameter) bool {
	if v == ssa.Value(prm) {
		return true
	}
	tr := p.newTracer()
	tr.throughParams = false
	tr.throughFields = false
	tr.throughCalls = false
	r := tr.origins(v)
	return len(r) == 1 && r[0] == ssa.Value(prm)
}

// constIntOrChanCap: a constant, or cap(ch) of a channel made in this function with a constant buffer size.
func constIntOrChanCap(v ssa.Value) (int64, bool) {
	if n, ok := constInt(v); ok {
		return n, true
	}
	cl, ok := v.(*ssa.Call)
	if !ok || callName(cl) != "builtin:cap" || len(cl.Call.Args) != 1 {
		return 0, false
	}
	ch := chanID(cl.Call.Args[0])
	var size int64 = -1
	collect := func(x ssa.Value) {
		if mk, ok := x.(*ssa.MakeChan); ok {
			if n, ok := constInt(mk.Size); ok {
				size = n
			}
		}
	}
	collect(ch)
	if al, ok := ch.(*ssa.Alloc); ok {
		for _, r := range referrers(al) {
			if st, ok := r.(*ssa.Store); ok && st.Addr == ssa.Value(al) {
				collect(st.Val)
			}
		}
	}
	return size, size >= 0
}

// waitHelperCases: cl calls a NEW helper of the module whose body is one blocking select over channels that are its own
// parameters, and that does nothing else (no call, send, store, go, defer). The select is presented as if it stood at the
// call: each case's channel is the actual argument; a case's body is the caller's branch taken for the constant the
// helper returns on that case (when the helper returns a bool that the caller branches on directly), else nil.
func waitHelperCases(cl *ssa.Call) ([]selCase, bool) {
	h := staticCallee(cl)
	if h == nil || !isNewHelper(h) || len(h.Blocks) == 0 {
		return nil, false
	}
	var sel *ssa.Select
	pure := true
	eachInstr(h, func(in ssa.Instruction) {
		switch x := in.(type) {
		case *ssa.Select:
			if sel != nil || !x.Blocking {
				pure = false
			}
			sel = x
		case *ssa.Call, *ssa.Send, *ssa.Store, *ssa.Go, *ssa.Defer, *ssa.MapUpdate:
			pure = false
		case *ssa.Panic:
			if !isSelectPanic(in) {
				pure = false
			}
		}
	})
	if sel == nil || !pure {
		return nil, false
	}
	inner, _, ok := decodeSelect(sel)
	if !ok {
		return nil, false
	}
	// the caller's branch on the helper's result
	var iff *ssa.If
	if h.Signature.Results().Len() == 1 {
		for _, r := range referrers(cl) {
			if x, ok := r.(*ssa.If); ok && x.Cond == ssa.Value(cl) {
				iff = x
			}
		}
	}
	var out []selCase
	for _, cs := range inner {
		idx := -1
		for i, prm := range h.Params {
			if stripChanConv(cs.State.Chan) == ssa.Value(prm) {
				idx = i
			}
		}
		if idx < 0 || idx >= len(cl.Call.Args) {
			return nil, false
		}
		st := *cs.State
		st.Chan = stripChanConv(cl.Call.Args[idx])
		nc := selCase{Idx: cs.Idx, State: &st}
		if iff != nil && cs.Body != nil {
			if ret, found := reachFromBlock(cs.Body, isReturn, nil); found {
				if rv := returnedValues(ret.(*ssa.Return)); len(rv) == 1 {
					if b, isB := constBool(rv[0]); isB {
						nc.Body = succOnTruth(iff, b)
					}
				}
			}
		}
		out = append(out, nc)
	}
	return out, len(out) > 0
}
