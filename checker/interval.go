package main

import (
	"fmt"
	"go/token"
	"math"

	"golang.org/x/tools/go/ssa"
)

// A7: path-enumerating interval analysis for int values and for int memory cells (struct fields,
// pointer-parameter targets). Paths of one function are enumerated (each block at most twice per
// path; values changed around a back edge are widened to ⊤). Static callees that receive the
// address of a tracked cell are inlined (depth 2).

type ival struct{ lo, hi int64 }

var top = ival{math.MinInt64, math.MaxInt64}

func (a ival) String() string {
	l, h := "-inf", "+inf"
	if a.lo != math.MinInt64 {
		l = fmt.Sprint(a.lo)
	}
	if a.hi != math.MaxInt64 {
		h = fmt.Sprint(a.hi)
	}
	return "[" + l + "," + h + "]"
}
func (a ival) join(b ival) ival {
	if b.lo < a.lo {
		a.lo = b.lo
	}
	if b.hi > a.hi {
		a.hi = b.hi
	}
	return a
}
func (a ival) meet(b ival) ival {
	if b.lo > a.lo {
		a.lo = b.lo
	}
	if b.hi < a.hi {
		a.hi = b.hi
	}
	return a
}
func (a ival) empty() bool { return a.lo > a.hi }

func addSat(a, b int64) int64 {
	if a == math.MinInt64 || b == math.MinInt64 {
		if a == math.MaxInt64 || b == math.MaxInt64 {
			return 0
		}
		return math.MinInt64
	}
	if a == math.MaxInt64 || b == math.MaxInt64 {
		return math.MaxInt64
	}
	s := a + b
	if (b > 0 && s < a) || (b < 0 && s > a) {
		if b > 0 {
			return math.MaxInt64
		}
		return math.MinInt64
	}
	return s
}

type ivState struct {
	vals  map[ssa.Value]ival
	cells map[string]ival
	// alias: SSA value -> cell it was loaded from, valid while the cell's version is unchanged
	alias   map[ssa.Value]string
	aliasV  map[ssa.Value]int
	version map[string]int
}

func newIvState() *ivState {
	return &ivState{vals: map[ssa.Value]ival{}, cells: map[string]ival{}, alias: map[ssa.Value]string{}, aliasV: map[ssa.Value]int{}, version: map[string]int{}}
}

func (s *ivState) clone() *ivState {
	n := newIvState()
	for k, v := range s.vals {
		n.vals[k] = v
	}
	for k, v := range s.cells {
		n.cells[k] = v
	}
	for k, v := range s.alias {
		n.alias[k] = v
	}
	for k, v := range s.aliasV {
		n.aliasV[k] = v
	}
	for k, v := range s.version {
		n.version[k] = v
	}
	return n
}

type ivAnalysis struct {
	// cellOf maps an address value to a tracked cell name ("" if not tracked)
	cellOf func(addr ssa.Value) string
	// observe is called for every instruction reached on every path with the state before it
	observe func(in ssa.Instruction, st *ivState, a *ivAnalysis)
	// maxPaths bounds the enumeration
	maxPaths int
	paths    int
	aborted  bool
	stopAt   ssa.Instruction // optional: stop a path once this (loop-free) instruction was observed
	depth    int
	// param bindings when inlining: callee parameter -> caller value
	bind map[ssa.Value]ssa.Value
}

func (a *ivAnalysis) get(st *ivState, v ssa.Value) ival {
	if b, ok := a.bind[v]; ok {
		v = b
	}
	if n, ok := constInt(v); ok {
		return ival{n, n}
	}
	if iv, ok := st.vals[v]; ok {
		return iv
	}
	switch x := v.(type) {
	case *ssa.Convert:
		src := a.get(st, x.X)
		sw, ssigned := widthOf(x.X.Type())
		dw, dsigned := widthOf(x.Type())
		if sw == 0 || dw == 0 {
			return top
		}
		// value-preserving iff the source range fits the destination type
		var lo, hi int64 = math.MinInt64, math.MaxInt64
		if !dsigned {
			lo = 0
			if dw < 64 {
				hi = int64(1)<<uint(dw) - 1
			}
		} else if dw < 64 {
			lo, hi = -(int64(1) << uint(dw-1)), int64(1)<<uint(dw-1)-1
		}
		if !ssigned && sw == 64 && src.hi == math.MaxInt64 {
			// unsigned 64-bit value with unknown upper bound may exceed MaxInt64: wraps when made signed
			if dsigned {
				return ival{lo, hi}
			}
			return ival{0, hi}
		}
		if src.lo >= lo && src.hi <= hi {
			return src
		}
		return ival{lo, hi}
	case *ssa.ChangeType:
		return a.get(st, x.X)
	case *ssa.Call:
		n := callName(x)
		if n == "builtin:len" || n == "builtin:cap" {
			return ival{0, math.MaxInt64}
		}
		if n == "builtin:min" || n == "builtin:max" {
			r := a.get(st, x.Call.Args[0])
			for _, ar := range x.Call.Args[1:] {
				o := a.get(st, ar)
				if n == "builtin:min" {
					r = ival{min64(r.lo, o.lo), min64(r.hi, o.hi)}
				} else {
					r = ival{max64(r.lo, o.lo), max64(r.hi, o.hi)}
				}
			}
			return r
		}
	}
	if w, signed := widthOf(v.Type()); w > 0 && !signed {
		if w < 64 {
			return ival{0, int64(1)<<uint(w) - 1}
		}
		return ival{0, math.MaxInt64}
	}
	return top
}

func min64(a, b int64) int64 {
	if a < b {
		return a
	}
	return b
}
func max64(a, b int64) int64 {
	if a > b {
		return a
	}
	return b
}

func (a *ivAnalysis) addrCell(addr ssa.Value) string {
	if b, ok := a.bind[addr]; ok {
		addr = b
	}
	return a.cellOf(addr)
}

// step executes one non-terminator instruction.
func (a *ivAnalysis) step(in ssa.Instruction, st *ivState) {
	switch x := in.(type) {
	case *ssa.UnOp:
		if x.Op == token.MUL {
			if c := a.addrCell(x.X); c != "" {
				iv, ok := st.cells[c]
				if !ok {
					iv = top
				}
				st.vals[x] = iv
				st.alias[x] = c
				st.aliasV[x] = st.version[c]
			}
		} else if x.Op == token.SUB {
			iv := a.get(st, x.X)
			st.vals[x] = ival{negSat(iv.hi), negSat(iv.lo)}
		}
	case *ssa.Store:
		if c := a.addrCell(x.Addr); c != "" {
			st.cells[c] = a.get(st, x.Val)
			st.version[c]++
		}
	case *ssa.BinOp:
		l, r := a.get(st, x.X), a.get(st, x.Y)
		switch x.Op {
		case token.ADD:
			st.vals[x] = ival{addSat(l.lo, r.lo), addSat(l.hi, r.hi)}
		case token.SUB:
			st.vals[x] = ival{addSat(l.lo, negSat(r.hi)), addSat(l.hi, negSat(r.lo))}
		case token.QUO:
			if r.lo == r.hi && r.lo > 0 {
				st.vals[x] = ival{divSat(l.lo, r.lo), divSat(l.hi, r.lo)}
			}
		case token.MUL:
			if r.lo == r.hi && r.lo >= 0 && l.lo != math.MinInt64 && l.hi != math.MaxInt64 {
				st.vals[x] = ival{l.lo * r.lo, l.hi * r.lo}
			}
		case token.REM:
			if r.lo == r.hi && r.lo > 0 && l.lo >= 0 {
				st.vals[x] = ival{0, r.lo - 1}
			}
		}
	case *ssa.Call:
		a.call(x, st)
	}
}

func negSat(v int64) int64 {
	if v == math.MinInt64 {
		return math.MaxInt64
	}
	if v == math.MaxInt64 {
		return math.MinInt64
	}
	return -v
}

func divSat(v, d int64) int64 {
	if v == math.MinInt64 || v == math.MaxInt64 {
		return v
	}
	return v / d
}

// call: inline static callees that receive a tracked cell address or whose int result we need.
func (a *ivAnalysis) call(x *ssa.Call, st *ivState) {
	callee := staticCallee(x)
	passesCell := false
	for _, ar := range x.Call.Args {
		if a.addrCell(ar) != "" {
			passesCell = true
		}
		// receiver whose field is a tracked cell: cellOf decides on FieldAddr of it, handled below
	}
	if callee == nil || callee.Blocks == nil || a.depth >= 3 {
		if passesCell {
			for _, ar := range x.Call.Args {
				if c := a.addrCell(ar); c != "" {
					st.cells[c] = top
					st.version[c]++
				}
			}
		}
		return
	}
	if !inMosdns(callee) {
		if passesCell {
			for _, ar := range x.Call.Args {
				if c := a.addrCell(ar); c != "" {
					st.cells[c] = top
					st.version[c]++
				}
			}
		}
		return
	}
	// inline: enumerate callee paths, join the resulting states
	sub := &ivAnalysis{cellOf: a.cellOf, observe: a.observe, maxPaths: a.maxPaths, depth: a.depth + 1, bind: map[ssa.Value]ssa.Value{}}
	for k, v := range a.bind {
		sub.bind[k] = v
	}
	for i, p := range callee.Params {
		if i < len(x.Call.Args) {
			arg := x.Call.Args[i]
			if b, ok := a.bind[arg]; ok {
				arg = b
			}
			sub.bind[p] = arg
		}
	}
	var joined *ivState
	var retIv *ival
	sub.runFrom(callee.Blocks[0], st.clone(), map[*ssa.BasicBlock]int{}, func(ret *ssa.Return, s *ivState) {
		if len(ret.Results) == 1 {
			iv := sub.get(s, returnedValues(ret)[0])
			if retIv == nil {
				retIv = &iv
			} else {
				j := retIv.join(iv)
				retIv = &j
			}
		}
		if joined == nil {
			joined = s.clone()
		} else {
			for c, iv := range joined.cells {
				o, ok := s.cells[c]
				if !ok {
					o = top
				}
				joined.cells[c] = iv.join(o)
			}
			for c, iv := range s.cells {
				if _, ok := joined.cells[c]; !ok {
					_ = iv
					joined.cells[c] = top
				}
			}
		}
	})
	a.paths += sub.paths
	if sub.aborted {
		a.aborted = true
	}
	if joined != nil {
		for c, iv := range joined.cells {
			if old, ok := st.cells[c]; !ok || old != iv {
				st.cells[c] = iv
				st.version[c]++
			}
		}
	}
	if retIv != nil {
		st.vals[x] = *retIv
	}
}

func inMosdns(f *ssa.Function) bool {
	return f != nil && f.Pkg != nil && len(f.Pkg.Pkg.Path()) >= len(modPath) && f.Pkg.Pkg.Path()[:len(modPath)] == modPath
}

// refine applies a branch condition to the state; returns false if the branch is infeasible.
func (a *ivAnalysis) refine(st *ivState, cond ssa.Value, truth bool) bool {
	g := guard{Cond: cond, Truth: truth}
	cm, ok := g.asCmp()
	if !ok {
		return true
	}
	apply := func(v ssa.Value, op token.Token, other ival) bool {
		if b, ok := a.bind[v]; ok {
			v = b
		}
		if _, isC := constInt(v); isC {
			return true
		}
		cur := a.get(st, v)
		switch op {
		case token.LSS:
			cur = cur.meet(ival{math.MinInt64, addSat(other.hi, -1)})
		case token.LEQ:
			cur = cur.meet(ival{math.MinInt64, other.hi})
		case token.GTR:
			cur = cur.meet(ival{addSat(other.lo, 1), math.MaxInt64})
		case token.GEQ:
			cur = cur.meet(ival{other.lo, math.MaxInt64})
		case token.EQL:
			cur = cur.meet(other)
		case token.NEQ:
			if other.lo == other.hi {
				if cur.lo == other.lo {
					cur.lo++
				}
				if cur.hi == other.lo {
					cur.hi--
				}
			}
		}
		if cur.empty() {
			return false
		}
		st.vals[v] = cur
		if c, ok := st.alias[v]; ok && st.aliasV[v] == st.version[c] {
			st.cells[c] = cur
		}
		return true
	}
	l, r := a.get(st, cm.X), a.get(st, cm.Y)
	if !apply(cm.X, cm.Op, r) {
		return false
	}
	if !apply(cm.Y, flipOp(cm.Op), l) {
		return false
	}
	return true
}

// runFrom enumerates paths from block b.
func (a *ivAnalysis) runFrom(b *ssa.BasicBlock, st *ivState, visits map[*ssa.BasicBlock]int, onReturn func(*ssa.Return, *ivState)) {
	if a.aborted {
		return
	}
	if a.maxPaths == 0 {
		a.maxPaths = 4000
	}
	for {
		visits[b]++
		var next *ssa.BasicBlock
		for _, in := range b.Instrs {
			if a.observe != nil {
				a.observe(in, st, a)
			}
			if a.stopAt != nil && in == a.stopAt && a.depth == 0 {
				// the observed instruction is not inside a loop: nothing after it can change what was observed
				return
			}
			switch x := in.(type) {
			case *ssa.Phi:
				// handled on edge entry (see enter)
				_ = x
			case *ssa.If:
				for i, s := range b.Succs {
					if visits[s] >= 2 {
						continue
					}
					ns := st.clone()
					if !a.refine(ns, x.Cond, i == 0) {
						continue
					}
					a.enter(b, s, ns, visits)
					v2 := map[*ssa.BasicBlock]int{}
					for k, v := range visits {
						v2[k] = v
					}
					a.runFrom(s, ns, v2, onReturn)
				}
				return
			case *ssa.Jump:
				s := b.Succs[0]
				if visits[s] >= 2 {
					return
				}
				a.enter(b, s, st, visits)
				next = s
			case *ssa.Return:
				a.paths++
				if a.paths > a.maxPaths {
					a.aborted = true
				}
				if onReturn != nil {
					onReturn(x, st)
				}
				return
			case *ssa.Panic:
				return
			default:
				a.step(in, st)
			}
		}
		if next == nil {
			return
		}
		b = next
	}
}

// enter evaluates the phis of succ for the edge pred->succ; on a back edge (succ already visited)
// loop-varying phis are widened to ⊤.
func (a *ivAnalysis) enter(pred, succ *ssa.BasicBlock, st *ivState, visits map[*ssa.BasicBlock]int) {
	idx := -1
	for i, p := range succ.Preds {
		if p == pred {
			idx = i
		}
	}
	back := visits[succ] > 0
	newVals := map[ssa.Value]ival{}
	for _, in := range succ.Instrs {
		phi, ok := in.(*ssa.Phi)
		if !ok {
			break
		}
		if idx < 0 || idx >= len(phi.Edges) {
			newVals[phi] = top
			continue
		}
		iv := a.get(st, phi.Edges[idx])
		if back {
			if old, ok := st.vals[phi]; ok && old != iv {
				iv = top
			}
		}
		newVals[phi] = iv
	}
	for k, v := range newVals {
		st.vals[k] = v
		delete(st.alias, k)
	}
	if back {
		// cells written anywhere in the function may change around the loop: widen them
		for c := range st.cells {
			if st.version[c] > 0 {
				st.cells[c] = top
				st.version[c]++
			}
		}
	}
}

// rangeAt computes the join, over all paths of f reaching instruction `at`, of the interval of value v
// (or of cell `cell` if v is nil) just before `at`.
func rangeAt(f *ssa.Function, at ssa.Instruction, v ssa.Value, cell string, cellOf func(ssa.Value) string) (ival, bool) {
	var res *ival
	a := &ivAnalysis{cellOf: cellOf}
	if a.cellOf == nil {
		a.cellOf = func(ssa.Value) string { return "" }
	}
	a.observe = func(in ssa.Instruction, st *ivState, an *ivAnalysis) {
		if in != at || an.depth != 0 {
			return
		}
		var iv ival
		if v != nil {
			iv = an.get(st, v)
		} else {
			var ok bool
			iv, ok = st.cells[cell]
			if !ok {
				iv = top
			}
		}
		if res == nil {
			res = &iv
		} else {
			j := res.join(iv)
			res = &j
		}
	}
	if at != nil && at.Parent() == f && innermostLoopHeader(at.Block()) == nil {
		a.stopAt = at
	}
	a.runFrom(f.Blocks[0], newIvState(), map[*ssa.BasicBlock]int{}, nil)
	if res == nil || a.aborted {
		return top, false
	}
	return *res, true
}
