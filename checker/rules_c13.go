package main

import (
	"fmt"
	"go/token"
	"strings"

	"golang.org/x/tools/go/ssa"
)

const relNetlist = "pkg/matcher/netlist"

func init() {
	register(&propDef{
		ID: "C13",
		Explanation: "The 'if and only if' of IP-set membership over all prefix multisets and addresses (sort comparator, merge of covered prefixes, binary search) quantifies over inputs and is NOT " +
			"decided. Decided are its structural necessary conditions: (R1) every list created in mosdns is sorted after its last load on every path before it is published (stored, returned, " +
			"matched) — a typestate over all paths of the creating functions; (R2) the prefix slice and the sorted flag are written only by the constructor, Append, Sort and Swap; the flag " +
			"becomes true only after the sort-and-merge pass replaced the slice, and false on every Append; (R3) rule side and query side map addresses through the same to6 conversion, the " +
			"prefix length grows by exactly 96 exactly for IPv4 addresses, and the stored prefix is masked; (R4) Contains refuses unsorted lists and invalid addresses; (R5) single addresses " +
			"load as full-length prefixes.",
		Assumptions: []string{"net/netip semantics (Masked, Contains, As16)"},
		Run:         runC13,
	})
}

type listState struct {
	alias   map[ssa.Value]bool
	dirty   bool
	everPub bool
}

func (s *listState) Clone() pathState {
	n := &listState{alias: map[ssa.Value]bool{}, dirty: s.dirty, everPub: s.everPub}
	for k := range s.alias {
		n.alias[k] = true
	}
	return n
}

func runC13(c *Ctx) {
	p := c.P
	N := relNetlist + "."
	c.see(p.funcsIn(relNetlist)...)

	// ---------------------------------------------------------------- R1
	c.rule("R1", "every created list is sorted after its last load before it is published, on every path", 2)
	for _, f := range p.Funcs {
		if f.Pkg == nil || f.Pkg.Pkg.Path() == pkgPath(relNetlist) {
			continue
		}
		fn := f
		eachInstr(f, func(in ssa.Instruction) {
			ci, ok := in.(*ssa.Call)
			if !ok || callName(ci) != relNetlist+".NewList" {
				return
			}
			c.see(fn)
			key := "list@" + funcName(fn)
			var bad []string
			// a list is published exactly when it is non-empty (a stricter test drops small sets)
			pubChecked := map[ssa.Instruction]bool{}
			pubGuard := func(x ssa.Instruction) {
				if pubChecked[x] {
					return
				}
				pubChecked[x] = true
				for _, g := range guardsOfInstr(x) {
					if cm, ok := g.asCmp(); ok {
						if cl, ok := cm.X.(*ssa.Call); ok && callName(cl) == "(*"+N+"List).Len" {
							if k, isC := constInt(cm.Y); !isC || k != 0 || cm.Op != token.GTR {
								bad = append(bad, "published only under Len() "+cm.Op.String()+" "+exprStr(cm.Y)+" (a one-prefix set vanishes) at "+p.pos(instrPos(x)))
							}
						}
					}
				}
			}
			w := &pathWalker{SkipPanics: true}
			w.Instr = func(x ssa.Instruction, st pathState) {
				s := st.(*listState)
				switch y := x.(type) {
				case *ssa.Call:
					n := callName(y)
					uses := false
					for _, a := range callArgs(y) {
						if s.alias[a] {
							uses = true
						}
					}
					if !uses {
						return
					}
					switch {
					case n == "(*"+N+"List).Sort":
						s.dirty = false
					case n == "(*"+N+"List).Len":
					case n == "(*"+N+"List).Contains" || n == "(*"+N+"List).Match":
						if s.dirty {
							bad = append(bad, "matched while unsorted at "+p.pos(instrPos(x)))
						}
					case n == "builtin:append":
						pubGuard(x)
						if s.dirty {
							bad = append(bad, "published (appended to a matcher group) while unsorted at "+p.pos(instrPos(x)))
						}
						s.everPub = true
					default:
						// any other call receiving the list may load into it
						if s.everPub {
							bad = append(bad, "handed to "+n+" (which may load into it) after it was published, at "+p.pos(instrPos(x)))
						}
						s.dirty = true
					}
				case *ssa.MakeInterface:
					if s.alias[y.X] {
						s.alias[y] = true
					}
				case *ssa.Store:
					if s.alias[y.Val] {
						if _, local := y.Addr.(*ssa.Alloc); local {
							s.alias[y.Addr] = true
						} else {
							pubGuard(x)
							if s.dirty {
								bad = append(bad, "stored while unsorted at "+p.pos(instrPos(x)))
							}
							s.everPub = true
						}
					}
				case *ssa.UnOp:
					if y.Op == token.MUL && s.alias[y.X] {
						s.alias[y] = true
					}
				case *ssa.Return:
					for _, rv := range returnedValues(y) {
						if s.alias[rv] {
							if s.dirty {
								bad = append(bad, "returned while unsorted at "+p.pos(instrPos(x)))
							}
							s.everPub = true
						}
					}
				}
			}
			w.Edge = func(from, to *ssa.BasicBlock, st pathState) bool {
				s := st.(*listState)
				idx := -1
				for i, pb := range to.Preds {
					if pb == from {
						idx = i
					}
				}
				for _, x := range to.Instrs {
					phi, ok := x.(*ssa.Phi)
					if !ok {
						break
					}
					if idx >= 0 && s.alias[phi.Edges[idx]] {
						s.alias[phi] = true
					}
				}
				return true
			}
			w.run(ci, false, &listState{alias: map[ssa.Value]bool{ci: true}, dirty: true})
			if w.Aborted {
				c.undecided(key, instrPos(in), "too many paths")
			} else if len(bad) > 0 {
				c.fail(key, instrPos(in), "a list is %s: Contains panics on it, or (if the flag is stale) the binary search runs over unsorted, unmerged prefixes", bad[0])
			} else {
				c.ok(key, instrPos(in), "sorted after the last load before every publication")
			}
		})
	}

	// ---------------------------------------------------------------- R2
	c.rule("R2", "List.e / List.sorted are written only by NewList, Append, Sort, Swap; sorted=true only after the merge replaced the slice", 5)
	allowed := map[string]bool{"NewList": true, "Append": true, "Sort": true, "Swap": true}
	for _, fld := range []string{"e", "sorted"} {
		for _, w := range p.whoWrites().byField[N+"List."+fld] {
			if w.Kind == "structstore" {
				continue
			}
			c.check(allowed[w.Fn.Name()] && w.Fn.Pkg.Pkg.Path() == pkgPath(relNetlist), "write:List."+fld+"@"+funcName(w.Fn), instrPos(w.Instr),
				"written by "+w.Fn.Name(), "List."+fld+" is written by "+funcName(w.Fn)+": the sorted/merged invariant can be broken behind Contains' back")
		}
	}
	if srt := c.fn(relNetlist, "List", "Sort"); srt != nil {
		var sortCall, eStore ssa.Instruction
		eachInstr(srt, func(in ssa.Instruction) {
			if ci, ok := in.(*ssa.Call); ok && (callName(ci) == "sort.Sort" || callName(ci) == "sort.Stable" || strings.HasPrefix(callName(ci), "slices.Sort")) {
				sortCall = in
			}
			if st, ok := in.(*ssa.Store); ok {
				if k, _ := fieldKey(st.Addr); k == N+"List.e" {
					eStore = in
				}
			}
		})
		eachInstr(srt, func(in ssa.Instruction) {
			st, ok := in.(*ssa.Store)
			if !ok {
				return
			}
			if k, _ := fieldKey(st.Addr); k != N+"List.sorted" {
				return
			}
			b, _ := constBool(st.Val)
			if !b {
				return
			}
			good := sortCall != nil && eStore != nil && instrDominates(sortCall, in) && instrDominates(eStore, in) && instrDominates(sortCall, eStore)
			c.check(good, "sorted-flag@Sort", instrPos(in), "sorted = true only after sort.Sort and after the merged slice replaced List.e",
				"the sorted flag is set on a path that skipped the sort or the merge of covered prefixes: Contains then searches a list with nested prefixes and misses covered addresses")
		})
	}
	if ap := c.fn(relNetlist, "List", "Append"); ap != nil {
		good := false
		eachInstr(ap, func(in ssa.Instruction) {
			if st, ok := in.(*ssa.Store); ok {
				if k, _ := fieldKey(st.Addr); k == N+"List.sorted" {
					if b, ok := constBool(st.Val); ok && !b {
						// on every path to return
						okAll := true
						for _, r := range returnsOf(ap) {
							if !instrDominates(in, r) {
								okAll = false
							}
						}
						good = okAll
					}
				}
			}
		})
		c.check(good, "unsorted-after-append", ap.Pos(), "every Append clears the sorted flag", "Append does not clear the sorted flag: a list modified after sorting is searched as if sorted")
	}

	// ---------------------------------------------------------------- R3
	c.rule("R3", "same address mapping on rule and query side; +96 bits exactly for IPv4; stored prefixes are masked", 4)
	to6 := c.fn(relNetlist, "", "to6")
	if ap := c.fn(relNetlist, "List", "Append"); ap != nil && to6 != nil {
		var stored ssa.Value
		eachInstr(ap, func(in ssa.Instruction) {
			if st, ok := in.(*ssa.Store); ok {
				if ia, ok := st.Addr.(*ssa.IndexAddr); ok && ia.X == ssa.Value(ap.Params[1]) {
					stored = st.Val
				}
			}
		})
		masked, mapped, bitsOK := false, false, false
		if cl, ok := stored.(*ssa.Call); ok && callName(cl) == "(net/netip.Prefix).Masked" {
			masked = true
			if pf, ok := cl.Call.Args[0].(*ssa.Call); ok && callName(pf) == "net/netip.PrefixFrom" {
				if a, ok := pf.Call.Args[0].(*ssa.Call); ok && staticCallee(a) == to6 {
					mapped = true
				}
				// bits: phi [n.Bits(), n.Bits()+96] with the +96 edge guarded by Is4()
				if phi, ok := pf.Call.Args[1].(*ssa.Phi); ok && len(phi.Edges) == 2 {
					for i, e := range phi.Edges {
						bo, ok := e.(*ssa.BinOp)
						if !ok || bo.Op != token.ADD {
							continue
						}
						k, isC := constInt(bo.Y)
						if !isC || k != 96 || bo.X != phi.Edges[1-i] {
							continue
						}
						if cb, ok := bo.X.(*ssa.Call); !ok || callName(cb) != "(net/netip.Prefix).Bits" {
							continue
						}
						for _, g := range guardsOf(phi.Block().Preds[i]) {
							v, truth := g.asBool()
							if c4, ok := v.(*ssa.Call); ok && truth && callName(c4) == "(net/netip.Addr).Is4" {
								bitsOK = true
							}
						}
					}
				}
			}
		}
		c.check(masked, "masked@Append", ap.Pos(), "stored prefixes are Masked()", "prefixes are stored without masking: sorting and the binary search use the written host address instead of the network base, so addresses below it are not found")
		c.check(mapped, "to6@Append", ap.Pos(), "rule addresses go through to6", "rule addresses are not mapped through to6")
		c.check(bitsOK, "bits+96-iff-v4@Append", ap.Pos(), "prefix length + 96 exactly for IPv4 rules", "the prefix length is not increased by exactly 96 exactly for IPv4 addresses")
	}
	if ct := c.fn(relNetlist, "List", "Contains"); ct != nil && to6 != nil {
		// every Compare / Contains on list elements uses to6(addr)
		good := true
		zoneOK := true
		n := 0
		eachInstrDeep(ct, func(_ *ssa.Function, in ssa.Instruction) {
			ci, ok := in.(*ssa.Call)
			if !ok {
				return
			}
			nm := callName(ci)
			if nm != "(net/netip.Addr).Compare" && nm != "(net/netip.Prefix).Contains" {
				return
			}
			n++
			// the address may live in a variable cell (it is reassigned and captured by a sort.Search closure): what the
			// use sees is the value of the last assignment in Contains
			a := lastAssigned(ct, ci.Call.Args[1])
			// D19: … and has its zone dropped: to6(addr).WithZone("") — the rule side has no zones (netip.PrefixFrom drops
			// them) and netip.Prefix.Contains never contains a zoned address
			if wz, ok := a.(*ssa.Call); ok && callName(wz) == "(net/netip.Addr).WithZone" {
				if z, isC := wz.Call.Args[1].(*ssa.Const); isC && z.Value != nil && z.Value.ExactString() == `""` {
					a = wz.Call.Args[0]
				} else {
					zoneOK = false
				}
			} else {
				zoneOK = false
			}
			if cl, ok := a.(*ssa.Call); !ok || staticCallee(cl) != to6 || !isParamOrItsSpill(cl.Call.Args[0], ct.Params[1], cl) {
				good = false
			}
		})
		c.check(good && n >= 2, "to6@Contains", ct.Pos(), "the queried address goes through to6 before search and containment test", "the queried address is not mapped through to6: IPv4 addresses never match the IPv6-form prefixes")
		c.check(zoneOK && n >= 2, "zone-dropped@Contains", ct.Pos(), "the queried address is looked up without its zone",
			"the queried address keeps its zone: a link-local client (fe80::1%eth0 — what the servers hand to client_ip) is contained in no prefix, not even ::/0 or its own address, although the rule side stores the same address without zone")
	}

	if t6 := c.fn(relNetlist, "", "to6"); t6 != nil {
		good, n := true, 0
		for _, r := range returnsOf(t6) {
			n++
			v := returnedValues(r)[0]
			if v == ssa.Value(t6.Params[0]) {
				is6 := false
				for _, g := range guardsOfInstr(r) {
					if b, truth := g.asBool(); b != nil && truth {
						if cl, ok := b.(*ssa.Call); ok && callName(cl) == "(net/netip.Addr).Is6" && cl.Call.Args[0] == ssa.Value(t6.Params[0]) {
							is6 = true
						}
					}
				}
				if !is6 {
					good = false
				}
				continue
			}
			cl, ok := v.(*ssa.Call)
			if !ok || callName(cl) != "net/netip.AddrFrom16" {
				good = false
				continue
			}
			a, ok := cl.Call.Args[0].(*ssa.Call)
			if !ok || callName(a) != "(net/netip.Addr).As16" || a.Call.Args[0] != ssa.Value(t6.Params[0]) {
				good = false
			}
		}
		c.check(good && n == 2, "to6-is-the-mapped-form", t6.Pos(), "to6 = addr if Is6, else AddrFrom16(addr.As16()) (the ::ffff:a.b.c.d form)",
			"to6 is not {addr under Is6, AddrFrom16(addr.As16()) otherwise}: an IPv4 address and its IPv4-mapped IPv6 form are no longer the same address")
	}

	// ---------------------------------------------------------------- R4
	c.rule("R4", "Contains refuses unsorted lists and invalid addresses; every verdict comes from the search", 3)
	if ct := c.fn(relNetlist, "List", "Contains"); ct != nil {
		panics, invalid := false, false
		for _, b := range ct.Blocks {
			if _, ok := terminator(b).(*ssa.Panic); ok {
				for _, g := range guardsOf(b) {
					v, truth := g.asBool()
					if k, _ := loadedField(v); k == N+"List.sorted" && !truth {
						panics = true
					}
				}
			}
		}
		for _, r := range returnsOf(ct) {
			if bv, ok := constBool(returnedValues(r)[0]); ok && !bv {
				for _, g := range guardsOfInstr(r) {
					v, truth := g.asBool()
					if cl, ok := v.(*ssa.Call); ok && !truth && callName(cl) == "(net/netip.Addr).IsValid" {
						invalid = true
					}
				}
			}
		}
		// every verdict comes from the search: false only for an invalid address or an empty prefix range, else Prefix.Contains
		shapeOK := true
		why := ""
		for _, r := range returnsOf(ct) {
			v := returnedValues(r)[0]
			if cl, ok := v.(*ssa.Call); ok && callName(cl) == "(net/netip.Prefix).Contains" {
				continue
			}
			if bv, ok := constBool(v); ok && !bv {
				okG := false
				for _, g := range guardsOfInstr(r) {
					if vv, truth := g.asBool(); !truth {
						if cl, ok := vv.(*ssa.Call); ok && callName(cl) == "(net/netip.Addr).IsValid" {
							okG = true
						}
					}
					if cm, ok := g.asCmp(); ok && cm.Op == token.EQL {
						if n, ok := constInt(cm.Y); ok && n == 0 {
							if _, isPhi := cm.X.(*ssa.Phi); isPhi {
								okG = true
							}
							if sc, isC := cm.X.(*ssa.Call); isC && callName(sc) == "sort.Search" {
								okG = true // the index found by the library's binary search
							}
						}
					}
				}
				// no other guard may lead to a false verdict
				extra := 0
				for _, g := range guardsOfInstr(r) {
					if vv, _ := g.asBool(); vv != nil {
						if cl, ok := vv.(*ssa.Call); ok && callName(cl) != "(net/netip.Addr).IsValid" {
							extra++
						}
					}
				}
				if !okG || extra > 0 {
					shapeOK, why = false, "a 'false' verdict is returned without searching (guarded by something other than 'invalid address' / 'no prefix starts at or before it')"
				}
				continue
			}
			shapeOK, why = false, "returns "+exprStr(v)
		}
		c.check(shapeOK, "verdict-from-search@Contains", ct.Pos(), "every verdict comes from the search or from the invalid-address check", why+": e.g. a shortcut for IPv4 queries ignores IPv6-form prefixes that cover the mapped range")
		c.check(panics, "refuse-unsorted@Contains", ct.Pos(), "an unsorted list is refused", "Contains searches lists that are not sorted")
		c.check(invalid, "invalid-addr@Contains", ct.Pos(), "the zero address matches nothing", "an invalid address is searched for")
	}

	// ---------------------------------------------------------------- R5
	c.rule("R5", "single addresses load as full-length prefixes", 2)
	if f := c.fn(relNetlist, "", "LoadFromText"); f != nil {
		good := false
		eachInstrDeep(f, func(_ *ssa.Function, in ssa.Instruction) {
			ci, ok := in.(*ssa.Call)
			if !ok || callName(ci) != "net/netip.PrefixFrom" {
				return
			}
			if phi, ok := ci.Call.Args[1].(*ssa.Phi); ok {
				vals := map[int64]bool{}
				v6 := false
				for i, e := range phi.Edges {
					n, _ := constInt(e)
					vals[n] = true
					if n == 128 {
						for _, g := range guardsOf(phi.Block().Preds[i]) {
							v, truth := g.asBool()
							if cl, ok := v.(*ssa.Call); ok && truth && callName(cl) == "(net/netip.Addr).Is6" {
								v6 = true
							}
						}
					}
				}
				good = vals[32] && vals[128] && len(vals) == 2 && v6
				// exactly the family decides: no further condition on any edge (e.g. "&& !Is4In6()")
				base := map[string]bool{}
				for _, g := range guardsOfInstr(ci) {
					base[guardKey(g)] = true
				}
				if len(phi.Edges) != 2 {
					good = false
				}
				for i := range phi.Edges {
					for _, g := range guardsOf(phi.Block().Preds[i]) {
						if base[guardKey(g)] || phi.Block().Preds[i] == nil {
							continue
						}
						if g.If != nil && instrDominates(g.If, ci) && len(phi.Block().Preds) > 0 && g.If.Block().Dominates(phi.Block()) && !g.If.Block().Dominates(phi.Block().Preds[i]) {
							continue
						}
						v, _ := g.asBool()
						if cl, ok := v.(*ssa.Call); ok && callName(cl) == "(net/netip.Addr).Is6" {
							continue
						}
						// guards that dominate the whole diamond are preconditions, not part of the decision
						if g.If.Block().Dominates(phi.Block()) && guardHoldsAt(g, phi.Block()) {
							continue
						}
						good = false
					}
				}
				// the address stored is the very address whose family decided the length
				for i := range phi.Edges {
					for _, g := range guardsOf(phi.Block().Preds[i]) {
						if v, _ := g.asBool(); v != nil {
							if cl, ok := v.(*ssa.Call); ok && callName(cl) == "(net/netip.Addr).Is6" && cl.Call.Args[0] != ci.Call.Args[0] {
								good = false
							}
						}
					}
				}
			}
		})
		c.check(good, "full-length@LoadFromText", f.Pos(), "a bare address becomes /32 or /128 by family", "a bare address is not loaded as a /32 (IPv4) or /128 (IPv6) prefix")
	}
	// the ip_set plugin's own parser — if it was removed in favour of the package's loader (checked above), nothing of
	// the plugin parses addresses any more and there is nothing to check here
	ipSetParser := c.P.Func("plugin/data_provider/ip_set", "", "parseNetipPrefix")
	if ipSetParser == nil || len(ipSetParser.Blocks) == 0 {
		parses := false
		for _, g := range c.P.funcsIn("plugin/data_provider/ip_set") {
			eachInstr(g, func(in ssa.Instruction) {
				if cl, ok := in.(*ssa.Call); ok && (callName(cl) == "net/netip.ParsePrefix" || callName(cl) == "net/netip.ParseAddr") {
					parses = true
				}
			})
		}
		if !parses {
			c.ok("full-length@parseNetipPrefix", 0, "the ip_set plugin has no parser of its own (it loads through netlist.LoadFromText)")
		} else {
			// the parser inlined into its caller: same obligations on what is appended to the list
			decided := false
			for _, g := range c.P.funcsIn("plugin/data_provider/ip_set") {
				hasParse, fullLen := false, false
				var appends []*ssa.Call
				eachInstr(g, func(in ssa.Instruction) {
					ci, ok := in.(*ssa.Call)
					if !ok {
						return
					}
					switch cn := callName(ci); {
					case cn == "net/netip.ParseAddr":
						hasParse = true
					case cn == "(net/netip.Addr).Prefix":
						if b, ok := ci.Call.Args[1].(*ssa.Call); ok && callName(b) == "(net/netip.Addr).BitLen" && sameLoadedPlace(b.Call.Args[0], ci.Call.Args[0]) {
							fullLen = true
						}
					case strings.HasSuffix(cn, "netlist.List).Append"):
						appends = append(appends, ci)
					}
				})
				if !hasParse {
					continue
				}
				decided = true
				good := fullLen && len(appends) > 0
				tr := c.P.newTracer()
				tr.throughCalls, tr.throughParams, tr.throughFields = false, false, false
				for _, ap := range appends {
					var vals []ssa.Value
					for _, a := range ap.Call.Args[1:] {
						// the variadic argument: the elements stored into the implicit array
						if sl, isSl := a.(*ssa.Slice); isSl {
							if al, isAl := sl.X.(*ssa.Alloc); isAl {
								for _, r := range referrers(al) {
									if ia, ok := r.(*ssa.IndexAddr); ok {
										for _, r2 := range referrers(ia) {
											if st, ok := r2.(*ssa.Store); ok && st.Addr == ssa.Value(ia) {
												vals = append(vals, st.Val)
											}
										}
									}
								}
								continue
							}
						}
						vals = append(vals, a)
					}
					if len(vals) == 0 {
						good = false
					}
					for _, a := range vals {
						for _, o := range tr.origins(a) {
							okO := false
							if ex, isE := o.(*ssa.Extract); isE && ex.Index == 0 {
								if cl, isC := ex.Tuple.(*ssa.Call); isC {
									if cn := callName(cl); cn == "net/netip.ParsePrefix" || cn == "(net/netip.Addr).Prefix" {
										okO = true
									}
								}
							}
							if _, isZero := o.(*ssa.Const); isZero {
								okO = true
							}
							if _, isAl := o.(*ssa.Alloc); isAl {
								okO = true // the zero value of the declared variable
							}
							if !okO {
								good = false
							}
						}
					}
				}
				c.check(good, "full-length@parseNetipPrefix", g.Pos(), "what is appended is ParsePrefix(s) as parsed or addr.Prefix(addr.BitLen()) (parser inlined in "+g.Name()+")", "the inlined ip_set parser re-assembles a prefix from an address and a length of different families, or does not load a bare address with its full length")
			}
			if !decided {
				c.anchorMissing("plugin/data_provider/ip_set.parseNetipPrefix")
			}
		}
	}
	if f := ipSetParser; f != nil && len(f.Blocks) > 0 {
		good := false
		eachInstr(f, func(in ssa.Instruction) {
			if ci, ok := in.(*ssa.Call); ok && (callName(ci) == "(net/netip.Addr).Prefix" || callName(ci) == "net/netip.PrefixFrom") {
				if b, ok := ci.Call.Args[1].(*ssa.Call); ok && callName(b) == "(net/netip.Addr).BitLen" && b.Call.Args[0] == ci.Call.Args[0] {
					good = true
				}
			}
		})
		// PrefixFrom(a, a.BitLen()) is a.Prefix(a.BitLen()): address and length of one value
		sameFamilyFrom := func(cl *ssa.Call) bool {
			if callName(cl) != "net/netip.PrefixFrom" {
				return false
			}
			b, ok := cl.Call.Args[1].(*ssa.Call)
			return ok && callName(b) == "(net/netip.Addr).BitLen" && b.Call.Args[0] == cl.Call.Args[0]
		}
		// every result is netip.ParsePrefix(s) as parsed, or addr.Prefix(addr.BitLen()) of the parsed address — nothing
		// re-assembles a prefix from an address and a length that belong to different families
		for _, r := range returnsOf(f) {
			rv := returnedValues(r)
			if len(rv) == 0 {
				continue
			}
			okRet := false
			switch x := rv[0].(type) {
			case *ssa.Extract:
				if cl, ok := x.Tuple.(*ssa.Call); ok {
					cn := callName(cl)
					if (cn == "net/netip.ParsePrefix" && cl.Call.Args[0] == ssa.Value(f.Params[0])) || cn == "(net/netip.Addr).Prefix" {
						okRet = true
					}
				}
			case *ssa.Call:
				cn := callName(x)
				if (cn == "net/netip.ParsePrefix" && x.Call.Args[0] == ssa.Value(f.Params[0])) || cn == "(net/netip.Addr).Prefix" || sameFamilyFrom(x) {
					okRet = true
				}
			default:
				if _, isZero := rv[0].(*ssa.Const); isZero {
					okRet = true
				}
				if ld, ok := rv[0].(*ssa.UnOp); ok {
					if _, isAl := ld.X.(*ssa.Alloc); isAl {
						okRet = true // the zero Prefix{} literal on the error path
					}
				}
			}
			if !okRet {
				good = false
			}
		}
		c.check(good, "full-length@parseNetipPrefix", f.Pos(), "results are ParsePrefix(s) as parsed or addr.Prefix(addr.BitLen())", "parseNetipPrefix re-assembles its result (e.g. PrefixFrom(unmapped address, original length)): address and length of different families give an invalid prefix that Append then turns into a huge valid one")
	}
	_ = fmt.Sprint

	// ---------------------------------------------------------------- R6
	c.rule("R6", "text loading: each line is cleaned by recognised steps only (leading blanks stripped before any cut at a blank, '#' comments), parsed iff non-empty, errors reported", 1)
	if f := c.fn(relNetlist, "", "LoadFromReader"); f != nil {
		checkLineLoader(c, f, func(ci *ssa.Call) bool { return callName(ci) == relNetlist+".LoadFromText" }, "the prefix")
	}

}

// guardHoldsAt: guard g (an edge of g.If) holds on every path into block b.
func guardHoldsAt(g guard, b *ssa.BasicBlock) bool {
	for _, h := range guardsOf(b) {
		if h.If == g.If && h.Truth == g.Truth {
			return true
		}
	}
	return false
}

// lastAssigned: v is a load of a local variable cell of top (directly, or through a closure's free variable): the value
// of the last store to the cell in top (the one every other store of top dominates), with the initial spill of a
// parameter skipped when the variable is reassigned; v itself otherwise.
func lastAssigned(top *ssa.Function, v ssa.Value) ssa.Value {
	ld, ok := v.(*ssa.UnOp)
	if !ok || ld.Op != token.MUL {
		return v
	}
	cell := resolveAddr(ld.X)
	al, ok := cell.(*ssa.Alloc)
	if !ok || al.Parent() != top {
		return v
	}
	var stores []*ssa.Store
	for _, r := range referrers(al) {
		if st, ok := r.(*ssa.Store); ok && st.Addr == ssa.Value(al) {
			stores = append(stores, st)
		}
	}
	var last *ssa.Store
	for _, st := range stores {
		isLast := true
		for _, o := range stores {
			if o != st && !instrDominates(o, st) {
				isLast = false
			}
		}
		if isLast {
			last = st
		}
	}
	if last == nil {
		return v
	}
	return last.Val
}

// isParamOrItsSpill: v is the parameter itself, or a load of the parameter's variable cell at a point (at) that only the
// initial spill of the parameter reaches (no other store to the cell dominates or can precede it).
func isParamOrItsSpill(v ssa.Value, prm *ssa.Parameter, at ssa.Instruction) bool {
	if v == ssa.Value(prm) {
		return true
	}
	ld, ok := v.(*ssa.UnOp)
	if !ok || ld.Op != token.MUL {
		return false
	}
	al, ok := ld.X.(*ssa.Alloc)
	if !ok {
		return false
	}
	spill := false
	for _, r := range referrers(al) {
		st, ok := r.(*ssa.Store)
		if !ok || st.Addr != ssa.Value(al) {
			continue
		}
		if st.Val == ssa.Value(prm) {
			spill = true
			continue
		}
		// another assignment: it must not be able to run before the load
		if _, before := reachAvoiding(st, func(x ssa.Instruction) bool { return x == ssa.Instruction(ld) }, nil); before {
			return false
		}
	}
	return spill
}
