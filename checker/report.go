package main

import (
	"bufio"
	"encoding/json"
	"fmt"
	"go/token"
	"os"
	"path/filepath"
	"sort"
	"strings"
	"time"

	"golang.org/x/tools/go/ssa"
)

// Obligation is one evaluated rule instance.
type Obligation struct {
	Rule      string `json:"rule"`
	Construct string `json:"construct"`
	Pos       string `json:"pos"`
	Verdict   string `json:"verdict"` // ok | violation | undecided | known
	Detail    string `json:"detail,omitempty"`
	Config    string `json:"config,omitempty"`
}

type ruleInfo struct {
	ID    string `json:"rule"`
	Doc   string `json:"what"`
	Min   int    `json:"min_instances"`
	Count int    `json:"instances"`
}

// Ctx collects the obligations of one property on one loaded program.
type Ctx struct {
	P     *Prog
	Prop  string
	Obs   []Obligation
	rules map[string]*ruleInfo
	order []string
	cur   string // current rule id

	funcsSeen  map[*ssa.Function]bool
	callsSeen  int
	blocksSeen int
}

func newCtx(p *Prog, prop string) *Ctx {
	return &Ctx{P: p, Prop: prop, rules: map[string]*ruleInfo{}, funcsSeen: map[*ssa.Function]bool{}}
}

// rule declares the rule being evaluated next with its hand-confirmed instance minimum.
func (c *Ctx) rule(id, doc string, min int) {
	id = c.Prop + "-" + id
	c.cur = id
	if _, ok := c.rules[id]; !ok {
		c.rules[id] = &ruleInfo{ID: id, Doc: doc, Min: min}
		c.order = append(c.order, id)
	}
}

func (c *Ctx) add(verdict, construct string, pos token.Pos, format string, args ...any) {
	ri := c.rules[c.cur]
	ri.Count++
	c.Obs = append(c.Obs, Obligation{Rule: c.cur, Construct: construct, Pos: c.P.pos(pos), Verdict: verdict,
		Detail: fmt.Sprintf(format, args...), Config: c.P.Config})
}

func (c *Ctx) ok(construct string, pos token.Pos, format string, args ...any) {
	c.add("ok", construct, pos, format, args...)
}
func (c *Ctx) fail(construct string, pos token.Pos, format string, args ...any) {
	c.add("violation", construct, pos, format, args...)
}
func (c *Ctx) undecided(construct string, pos token.Pos, format string, args ...any) {
	c.add("undecided", construct, pos, format, args...)
}

// check records ok/violation by a boolean.
func (c *Ctx) check(cond bool, construct string, pos token.Pos, okMsg, failMsg string) bool {
	if cond {
		c.ok(construct, pos, "%s", okMsg)
	} else {
		c.fail(construct, pos, "%s", failMsg)
	}
	return cond
}

// anchor reports an unresolved anchor (always a failure: a rule that matches nothing passes forever).
func (c *Ctx) anchorMissing(what string) {
	c.add("violation", "anchor:"+what, token.NoPos, "anchor %q does not resolve in the current tree; the rule cannot be evaluated", what)
}

// need returns f and reports a missing anchor if it is nil.
func (c *Ctx) fn(relPkg, recv, name string) *ssa.Function {
	f := c.P.Func(relPkg, recv, name)
	key := relPkg + "."
	if recv != "" {
		key += recv + "."
	}
	key += name
	if f == nil || f.Blocks == nil {
		c.anchorMissing(key)
		return nil
	}
	c.see(f)
	return f
}

func (c *Ctx) see(fs ...*ssa.Function) {
	for _, f := range fs {
		for _, g := range withAnon(f) {
			if g != nil && !c.funcsSeen[g] {
				c.funcsSeen[g] = true
				c.blocksSeen += len(g.Blocks)
				for _, b := range g.Blocks {
					for _, in := range b.Instrs {
						if _, ok := in.(ssa.CallInstruction); ok {
							c.callsSeen++
						}
					}
				}
			}
		}
	}
}

// finish applies the instance minimums.
func (c *Ctx) finish() {
	for _, id := range c.order {
		ri := c.rules[id]
		if ri.Count < ri.Min {
			c.cur = id
			c.Obs = append(c.Obs, Obligation{Rule: id, Construct: "instance-count", Pos: "-", Verdict: "violation",
				Detail: fmt.Sprintf("rule matched %d instance(s), hand-confirmed minimum is %d: the anchored mechanism was removed or is no longer recognised", ri.Count, ri.Min), Config: c.P.Config})
		}
	}
}

// ---------------------------------------------------------------- known findings

type knownFinding struct {
	Prop, Rule, Construct, Text string
}

func loadKnown(path string) ([]knownFinding, error) {
	f, err := os.Open(path)
	if err != nil {
		if os.IsNotExist(err) {
			return nil, nil
		}
		return nil, err
	}
	defer f.Close()
	var out []knownFinding
	sc := bufio.NewScanner(f)
	for sc.Scan() {
		line := strings.TrimSpace(sc.Text())
		if !strings.HasPrefix(line, "finding:") {
			continue
		}
		k := knownFinding{Text: strings.TrimSpace(strings.TrimPrefix(line, "finding:"))}
		for _, w := range strings.Fields(k.Text) {
			switch {
			case strings.HasPrefix(w, "property="):
				k.Prop = w[len("property="):]
			case strings.HasPrefix(w, "rule="):
				k.Rule = w[len("rule="):]
			case strings.HasPrefix(w, "construct="):
				k.Construct = w[len("construct="):]
			}
		}
		if k.Prop != "" && k.Rule != "" && k.Construct != "" {
			out = append(out, k)
		}
	}
	return out, sc.Err()
}

// ---------------------------------------------------------------- evidence

type evidence struct {
	PropertyID  string         `json:"property_id"`
	Tier        string         `json:"tier"`
	Seed        int            `json:"seed"`
	Level       string         `json:"level"`
	Coverage    map[string]any `json:"coverage"`
	Assumptions []string       `json:"assumptions"`
	WallS       float64        `json:"wall_s"`
	Violations  int            `json:"violations"`
}

type propResult struct {
	prop        string
	obs         []Obligation
	rules       []*ruleInfo
	configs     []string
	funcs       int
	blocks      int
	calls       int
	packages    int
	extra       map[string]any
	assumptions []string
	explanation string
}

func verifDir() string {
	if d := os.Getenv("VERIF_DIR"); d != "" {
		return d
	}
	return "/verif"
}

// emit writes evidence + replay files, prints KNOWN-FINDING/VIOLATION lines, returns exit code.
func emit(res *propResult, tier string, seed int, start time.Time, writeEvidence bool) int {
	known, err := loadKnown(filepath.Join(verifDir(), "known_findings.txt"))
	if err != nil {
		fmt.Printf("error reading known findings: %v\n", err)
	}
	nViol := 0
	discharged := 0
	var bad []Obligation
	knownPrinted := map[string]bool{}
	for i := range res.obs {
		o := &res.obs[i]
		if o.Verdict == "ok" {
			discharged++
			continue
		}
		matched := false
		for _, k := range known {
			if k.Prop == res.prop && k.Rule == o.Rule && k.Construct == o.Construct {
				matched = true
				if !knownPrinted[k.Text] {
					knownPrinted[k.Text] = true
					fmt.Printf("KNOWN-FINDING: %s\n", k.Text)
				}
			}
		}
		if matched {
			o.Verdict = "known"
			continue
		}
		nViol++
		bad = append(bad, *o)
	}
	sort.SliceStable(bad, func(i, j int) bool { return bad[i].Rule < bad[j].Rule })

	replayDir := filepath.Join(verifDir(), "replay")
	replayPath := filepath.Join(replayDir, res.prop+".json")
	if nViol > 0 {
		os.MkdirAll(replayDir, 0o755)
		b, _ := json.MarshalIndent(map[string]any{"property": res.prop, "tier": tier, "violations": bad,
			"how_to_replay": "mosverif check " + res.prop + " re-evaluates every obligation on /repo's current tree; the entries below name rule, construct and position"}, "", " ")
		os.WriteFile(replayPath, b, 0o644)
		for _, o := range bad {
			fmt.Printf("  %s [%s] %s %s: %s (%s)\n", o.Verdict, o.Rule, o.Pos, o.Construct, o.Detail, o.Config)
		}
		fmt.Printf("VIOLATION property=%s replay=%s\n", res.prop, replayPath)
	} else {
		os.Remove(replayPath)
	}

	// samples: a few ok obligations per rule, plus every non-ok
	var samples []Obligation
	perRule := map[string]int{}
	for _, o := range res.obs {
		if o.Verdict != "ok" {
			samples = append(samples, o)
			continue
		}
		if perRule[o.Rule] < 3 {
			perRule[o.Rule]++
			samples = append(samples, o)
		}
	}
	cov := map[string]any{
		"obligations":        len(res.obs),
		"discharged":         discharged,
		"exhaustive":         true,
		"explanation":        res.explanation,
		"rules":              res.rules,
		"samples":            samples,
		"configs":            res.configs,
		"packages_loaded":    res.packages,
		"functions_analysed": res.funcs,
		"blocks_analysed":    res.blocks,
		"call_sites_seen":    res.calls,
		"checker_cmd":        "/verif/check.sh " + res.prop + " " + tier,
		"trusted_base":       []string{"go/types type checker", "golang.org/x/tools/go/ssa v0.29.0", "the hand-confirmed instance minimums and idiom tables in /verif/checker/rules_*.go"},
	}
	for k, v := range res.extra {
		cov[k] = v
	}
	ev := evidence{PropertyID: res.prop, Tier: tier, Seed: seed, Level: "other", Coverage: cov,
		Assumptions: res.assumptions, WallS: time.Since(start).Seconds(), Violations: nViol}
	if writeEvidence {
		dir := filepath.Join(verifDir(), "evidence")
		os.MkdirAll(dir, 0o755)
		b, _ := json.MarshalIndent(ev, "", " ")
		if err := os.WriteFile(filepath.Join(dir, res.prop+".json"), append(b, '\n'), 0o644); err != nil {
			fmt.Printf("cannot write evidence: %v\n", err)
			return 2
		}
	}
	fmt.Printf("%s tier=%s configs=%v rules=%d obligations=%d discharged=%d violations=%d wall=%.1fs\n",
		res.prop, tier, res.configs, len(res.rules), len(res.obs), discharged, nViol, time.Since(start).Seconds())
	if nViol > 0 {
		return 1
	}
	return 0
}
