package main

import (
	"go/token"
	"go/types"
	"strings"

	"golang.org/x/tools/go/ssa"
)

func init() {
	register(&propDef{
		ID: "C10",
		Explanation: "Decides that the cache's private message never shares mutable state with anything a caller sees: (R1) every load of the stored message is used only as the receiver of Copy or " +
			"Pack, and every value stored there is fresh (result of the deep-copy helper or a new message filled by Unpack); (R2) the deep-copy helper builds its result from a new message, " +
			"freshly made slices and dns.Copy of every record — no record or slice of the source is stored into the result; (R3) the served hit gets the query's id before it becomes the " +
			"response; (R4) messages returned by the lookup are results of Copy on every path; (R5) the background refresh runs on a context copy made before the goroutine starts. " +
			"With no sharing, mutation by callers cannot reach the store; that consequence is by construction, not by testing.",
		Assumptions: []string{"dns.Msg.Copy and dns.Copy are deep copies (miekg/dns)", "dns.MsgHdr and dns.Question contain only scalars and strings"},
		Run:         runC10,
	})
}

func runC10(c *Ctx) {
	p := c.P
	fns := p.funcsIn(relCachePlugin)
	c.see(fns...)
	respF := relCachePlugin + ".item.resp"
	cno := c.fn(relCachePlugin, "", "copyNoOpt")

	// ---------------------------------------------------------------- R7
	c.rule("R7", "a stored message never contains an OPT record (dns.Copy shares the data of some EDNS0 options, and Pack writes into the OPT): the copy helper filters every section and loaded dump entries pass through it", 2)
	checkCacheNeverStoresOpt(c)
	if rd := c.fn(relCachePlugin, "Cache", "readDump"); rd != nil {
		checkDumpReaderFields(c, rd)
	}

	// ---------------------------------------------------------------- R1
	c.rule("R1", "the stored message is only ever Copy()'d or Pack()'d; only fresh messages are stored", 4)
	for _, f := range fns {
		eachInstr(f, func(in ssa.Instruction) {
			u, ok := in.(*ssa.UnOp)
			if !ok || u.Op != token.MUL {
				return
			}
			if k, ok := fieldKey(u.X); !ok || k != respF {
				return
			}
			key := "stored-msg-use@" + funcName(f)
			bad := ""
			for _, r := range referrers(u) {
				ci, isCall := r.(ssa.CallInstruction)
				if isCall {
					n := callName(ci)
					if (n == "(*github.com/miekg/dns.Msg).Copy" || n == "(*github.com/miekg/dns.Msg).Pack") && ci.Common().Args[0] == ssa.Value(u) {
						continue
					}
					bad = "is passed to " + n
					continue
				}
				if _, isDbg := r.(*ssa.DebugRef); isDbg {
					continue
				}
				// D45: `m := *stored; m.Compress = true; m.Pack()` — a by-value copy (it shares the record slices) that
				// is only packed: nothing is written through it but its own Compress flag
				if ld, isLd := r.(*ssa.UnOp); isLd && ld.Op == token.MUL && packOnlyLocalCopy(ld) {
					continue
				}
				bad = "flows into " + strings.TrimSpace(r.String())
			}
			c.check(bad == "", key, instrPos(in), "stored message used only as receiver of Copy/Pack",
				"the cache's private message "+bad+": it escapes to callers, whose later mutations (TTL rewrite, id, truncation, OPT) change what other queries are served")
		})
	}
	for _, w := range p.whoWrites().byField[respF] {
		if w.Kind != "store" {
			continue
		}
		key := "stored-msg-value@" + funcName(w.Fn)
		good, what := false, exprStr(w.Val)
		if cl, ok := w.Val.(*ssa.Call); ok && cno != nil && staticCallee(cl) == cno {
			good = true
			// the private copy has no other use than being stored (nobody else keeps a handle on it or on parts of it)
			for _, r := range referrers(cl) {
				switch x := r.(type) {
				case *ssa.Store:
					if x.Val == ssa.Value(cl) && x == w.Instr {
						continue
					}
					good, what = false, "a copy that is also used by "+strings.TrimSpace(r.String())
				case *ssa.DebugRef:
				default:
					good, what = false, "a copy that is also used by "+strings.TrimSpace(r.String())
				}
			}
		}
		// one fresh message per store: the value is created in the innermost loop that contains the store
		if good {
			if vi, ok := w.Val.(ssa.Instruction); ok {
				if lh := innermostLoopHeader(w.Instr.Block()); lh != nil && !lh.Dominates(vi.Block()) {
					good, what = false, "a message created once outside the loop that stores it for every entry"
				}
			}
		}
		if al, ok := w.Val.(*ssa.Alloc); ok && al.Heap {
			// a new message filled by Unpack only
			onlyUnpack := true
			for _, r := range referrers(al) {
				switch x := r.(type) {
				case *ssa.Call:
					if callName(x) != "(*github.com/miekg/dns.Msg).Unpack" {
						onlyUnpack = false
					}
				case *ssa.Store:
					if x.Val != ssa.Value(al) {
						onlyUnpack = false
					}
				case *ssa.DebugRef:
				default:
					onlyUnpack = false
				}
			}
			good = onlyUnpack
			if good {
				if lh := innermostLoopHeader(w.Instr.Block()); lh != nil && !lh.Dominates(al.Block()) {
					good, what = false, "one message allocated outside the loop and stored for every entry (each Unpack rewrites the entries stored before)"
				}
			}
		}
		c.check(good, key, instrPos(w.Instr), "a fresh private message is stored", "the message stored in the cache is "+what+", not a private deep copy: the caller keeps a reference to the cached message")
	}

	// ---------------------------------------------------------------- R2
	c.rule("R2", "the deep-copy helper copies every record with dns.Copy into freshly made slices of a new message", 5)
	checkCopyHelperDeep(c)

	// ---------------------------------------------------------------- R3
	c.rule("R3", "a cache hit gets the id of the query it answers before it becomes the response", 1)
	get := c.fn(relCachePlugin, "", "getRespFromCache")
	checkHitID(c)

	// ---------------------------------------------------------------- R4
	c.rule("R4", "every message returned by the lookup is a Copy() of the stored message", 2)
	if get != nil {
		for _, r := range returnsOf(get) {
			v := returnedValues(r)[0]
			if isNilConst(v) {
				continue
			}
			good := false
			if cl, ok := v.(*ssa.Call); ok && callName(cl) == "(*github.com/miekg/dns.Msg).Copy" {
				if k, ok := loadedField(cl.Call.Args[0]); ok && k == respF {
					good = true
				}
			}
			c.check(good, "lookup-returns-copy@"+funcName(get), instrPos(r), "returns stored.Copy()", "the lookup returns "+exprStr(v)+" which is not a fresh Copy() of the stored message on this path")
		}
	}

	// ---------------------------------------------------------------- R5
	c.rule("R5", "the background refresh runs on a context copy made before the goroutine can start", 1)
	checkRefreshOnEarlyCopy(c)

	// ---------------------------------------------------------------- R6
	c.rule("R6", "the private copy is taken before the caller gets the response back: saveRespToCache is never called from a goroutine started for it", 2)
	if save := c.fn(relCachePlugin, "", "saveRespToCache"); save != nil {
		for _, f := range fns {
			fn := f
			eachInstr(f, func(in ssa.Instruction) {
				ci, ok := in.(ssa.CallInstruction)
				if !ok || staticCallee(ci) != save {
					return
				}
				key := "store-synchronous@" + funcName(fn)
				_, isGo := in.(*ssa.Go)
				_, isDefer := in.(*ssa.Defer)
				if sites, asValue := callSitesOf(fn); isNewHelper(fn) && !asValue && len(sites) > 0 && !isGo && !isDefer {
					// a store helper: what matters is how each of its callers runs it
					for _, st := range sites {
						sf := st.Parent()
						_, g1 := st.(*ssa.Go)
						_, d1 := st.(*ssa.Defer)
						sp := false
						if par := sf.Parent(); par != nil {
							eachInstr(par, func(y ssa.Instruction) {
								if g, ok := y.(*ssa.Go); ok {
									if mc, ok := g.Call.Value.(*ssa.MakeClosure); ok && mc.Fn == ssa.Value(sf) {
										sp = true
									}
								}
							})
						}
						c.check(!g1 && !d1 && !sp, "store-synchronous@"+funcName(sf), instrPos(st), "the response is copied into the cache synchronously (through "+fn.Name()+")", "the response is copied into the cache from a goroutine (or deferred): by then the caller and later plugins may already have rewritten it, and what they wrote is what other queries are served")
					}
					return
				}
				spawned := false
				if par := fn.Parent(); par != nil {
					eachInstr(par, func(y ssa.Instruction) {
						if g, ok := y.(*ssa.Go); ok {
							if mc, ok := g.Call.Value.(*ssa.MakeClosure); ok && mc.Fn == ssa.Value(fn) {
								spawned = true
							}
						}
					})
				}
				c.check(!isGo && !isDefer && !spawned, key, instrPos(in), "the response is copied into the cache synchronously", "the response is copied into the cache from a goroutine (or deferred): by then the caller and later plugins may already have rewritten it, and what they wrote is what other queries are served")
			})
		}
	}

}

// checkHitID (C10-R3, C03-R5): every cached message that becomes the response carries the id of the current query.
// Accepted: the id is set in Exec on the hit path (before SetResponse, or right after it before the next chain step),
// or the lookup itself sets it on every non-nil return from a query message it was handed.
func checkHitID(c *Ctx) {
	get := c.fn(relCachePlugin, "", "getRespFromCache")
	// lookup-side form
	lookupSets := get != nil
	if get != nil {
		n := 0
		for _, r := range returnsOf(get) {
			v := returnedValues(r)[0]
			if isNilConst(v) {
				continue
			}
			n++
			okR := false
			eachInstr(get, func(x ssa.Instruction) {
				st, ok := x.(*ssa.Store)
				if !ok || !instrDominates(x, r) {
					return
				}
				if k, ok := fieldKey(st.Addr); ok && k == "github.com/miekg/dns.MsgHdr.Id" && fieldBase(st.Addr) == v {
					if k2, ok := loadedField(st.Val); ok && k2 == "github.com/miekg/dns.MsgHdr.Id" {
						if ld, ok := st.Val.(*ssa.UnOp); ok {
							if _, isParam := fieldBase(ld.X).(*ssa.Parameter); isParam {
								okR = true
							}
						}
					}
				}
			})
			if !okR {
				lookupSets = false
			}
		}
		if n == 0 {
			lookupSets = false
		}
	}
	if ex := c.fn(relCachePlugin, "Cache", "Exec"); ex != nil && get != nil {
		eachInstr(ex, func(in ssa.Instruction) {
			ci, ok := in.(*ssa.Call)
			if !ok || callName(ci) != "(*pkg/query_context.Context).SetResponse" {
				return
			}
			resp := ci.Call.Args[1]
			// resp comes from the lookup
			fromGet := false
			if e, ok := resp.(*ssa.Extract); ok {
				if cl, ok := e.Tuple.(*ssa.Call); ok && staticCallee(cl) == get {
					fromGet = true
				}
			}
			idSet := false
			eachInstr(ex, func(x ssa.Instruction) {
				st, ok := x.(*ssa.Store)
				if !ok {
					return
				}
				// either before SetResponse, or right after it on every path to the next chain step / exit
				if !instrDominates(x, in) {
					if !instrDominates(in, x) {
						return
					}
					if _, leak := reachAvoiding(in, func(y ssa.Instruction) bool {
						if isReturn(y) {
							return true
						}
						cc, ok := y.(*ssa.Call)
						return ok && strings.HasSuffix(callName(cc), ".ExecNext")
					}, func(y ssa.Instruction) bool { return y == x }); leak {
						return
					}
				}
				if k, ok := fieldKey(st.Addr); ok && k == "github.com/miekg/dns.MsgHdr.Id" && fieldBase(st.Addr) == resp {
					if k2, ok := loadedField(st.Val); ok && k2 == "github.com/miekg/dns.MsgHdr.Id" {
						if ld, ok := st.Val.(*ssa.UnOp); ok {
							if cl, ok := fieldBase(ld.X).(*ssa.Call); ok && callName(cl) == "(*pkg/query_context.Context).Q" {
								idSet = true
							}
						}
					}
				}
			})
			c.check(fromGet && (idSet || lookupSets), "hit-id@"+funcName(ex), instrPos(in), "cached.Id = q.Id is executed on the hit path before the response is visible to the next chain step",
				"the cached answer becomes the response without receiving the id of the current query")
		})
	}

}

// checkCopyHelperDeep (C10-R2, C03-R12): the cache's copy helper builds a new message whose slices are freshly made and
// whose records are dns.Copy'd — nothing of the stored message shares memory with the live response.
func checkCopyHelperDeep(c *Ctx) {
	p := c.P
	_ = p
	cno := c.fn(relCachePlugin, "", "copyNoOpt")
	if cno != nil {
		src := cno.Params[0]
		// result is a new message
		var res *ssa.Alloc
		for _, r := range returnsOf(cno) {
			v := returnedValues(r)[0]
			if isNilConst(v) {
				continue
			}
			if al, ok := v.(*ssa.Alloc); ok && al.Heap {
				res = al
			} else {
				c.fail("copy-result", instrPos(r), "copyNoOpt returns %s, not a new message", exprStr(v))
			}
		}
		if res == nil {
			c.undecided("copy-result", cno.Pos(), "no new message is returned")
		} else {
			c.ok("copy-result", res.Pos(), "result is a new dns.Msg")
			// values derived from the source's slices
			fromSrc := map[ssa.Value]bool{}
			eachInstr(cno, func(in ssa.Instruction) {
				if u, ok := in.(*ssa.UnOp); ok && u.Op == token.MUL {
					if fa, ok := u.X.(*ssa.FieldAddr); ok && fa.X == ssa.Value(src) {
						if _, isSl := u.Type().Underlying().(*types.Slice); isSl {
							fromSrc[u] = true
						}
					}
				}
			})
			var propagate func(fn *ssa.Function, depth int)
			propagate = func(fn *ssa.Function, depth int) {
				changed := true
				for changed {
					changed = false
					eachInstr(fn, func(in ssa.Instruction) {
						v, ok := in.(ssa.Value)
						if !ok || fromSrc[v] {
							return
						}
						switch x := in.(type) {
						case *ssa.Slice:
							if fromSrc[x.X] {
								fromSrc[v], changed = true, true
							}
						case *ssa.Phi:
							for _, e := range x.Edges {
								if fromSrc[e] {
									fromSrc[v], changed = true, true
								}
							}
						case *ssa.Call:
							if callName(x) == "builtin:append" && (fromSrc[x.Call.Args[0]] || fromSrc[x.Call.Args[1]]) {
								fromSrc[v], changed = true, true
							}
							// a new helper of the copy function that is handed a source slice: its result is source-derived
							// when the helper can return (a slice of) that parameter
							if h := x.Call.StaticCallee(); h != nil && isNewHelper(h) && depth < 2 && len(h.Params) == len(x.Call.Args) {
								seeded := false
								for i, a := range x.Call.Args {
									if fromSrc[a] && !fromSrc[h.Params[i]] {
										fromSrc[h.Params[i]], seeded = true, true
									}
								}
								if seeded {
									propagate(h, depth+1)
								}
								for _, r := range returnsOf(h) {
									for _, rv := range returnedValues(r) {
										if fromSrc[rv] {
											fromSrc[v], changed = true, true
										}
									}
								}
							}
						}
					})
				}
			}
			propagate(cno, 0)
			// (a) slice fields of the result never receive a source-derived slice
			eachInstr(cno, func(in ssa.Instruction) {
				st, ok := in.(*ssa.Store)
				if !ok {
					return
				}
				fa, ok := st.Addr.(*ssa.FieldAddr)
				if !ok || fa.X != ssa.Value(res) {
					return
				}
				if _, isSl := st.Val.Type().Underlying().(*types.Slice); !isSl {
					return
				}
				k, _ := fieldKey(fa)
				c.check(!fromSrc[st.Val], "copy-slice:"+fieldTail(k), instrPos(in), "section slice is freshly allocated",
					"the copy's "+fieldTail(k)+" section aliases the source message's slice")
			})
			// (a') a whole-struct copy of the source into the result shares every slice that is not replaced afterwards
			eachInstr(cno, func(in ssa.Instruction) {
				st, ok := in.(*ssa.Store)
				if !ok || st.Addr != ssa.Value(res) {
					return
				}
				ld, ok := st.Val.(*ssa.UnOp)
				if !ok || ld.X != ssa.Value(src) {
					return
				}
				mt := structOf(res.Type())
				for i := 0; i < mt.NumFields(); i++ {
					if _, isSl := mt.Field(i).Type().Underlying().(*types.Slice); !isSl {
						continue
					}
					name := mt.Field(i).Name()
					replaced := false
					eachInstr(cno, func(y ssa.Instruction) {
						s2, ok := y.(*ssa.Store)
						if !ok || !instrDominates(in, y) {
							return
						}
						fa, ok := s2.Addr.(*ssa.FieldAddr)
						if !ok || fa.X != ssa.Value(res) || mt.Field(fa.Field).Name() != name || fromSrc[s2.Val] {
							return
						}
						okAll := true
						for _, r := range returnsOf(cno) {
							if returnedValues(r)[0] == ssa.Value(res) && !instrDominates(y, r) {
								okAll = false
							}
						}
						if okAll {
							replaced = true
						}
					})
					c.check(replaced, "copy-slice:"+name, instrPos(in), "section slice replaced by a fresh one after the struct copy",
						"the message is copied as a whole struct and its "+name+" slice is not replaced by a fresh one on every path: the cached copy shares that section's backing array with the caller's message")
				}
			})
			// (b) every record stored anywhere is a dns.Copy result
			n := 0
			eachInstrDeep(cno, func(g *ssa.Function, in ssa.Instruction) {
				st, ok := in.(*ssa.Store)
				if !ok {
					return
				}
				if nm := namedOf(st.Val.Type()); nm == nil || nm.Obj().Name() != "RR" {
					return
				}
				n += bodyWeight(cno, g)
				cl, isCall := st.Val.(*ssa.Call)
				c.check(isCall && callName(cl) == "github.com/miekg/dns.Copy", "copy-record", instrPos(in), "record stored is dns.Copy(rr)",
					"a record of the source message is stored into the copy without dns.Copy: the cached answer and the caller's answer share that record")
			})
			if n < 3 {
				c.fail("copy-record", cno.Pos(), "expected record copies for answer, authority and additional sections, found %d", n)
			}
		}
	}
}

// checkRefreshOnEarlyCopy (C10-R5, C04-R4, C05-R11): the lazy refresh runs on a copy of the query context that was taken
// in doLazyUpdate itself, before the singleflight goroutine can start (the live context goes on through the chain:
// its question may be rewritten and the stale answer is attached to it).
func checkRefreshOnEarlyCopy(c *Ctx) {
	p := c.P
	if dl := c.fn(relCachePlugin, "Cache", "doLazyUpdate"); dl != nil {
		var doChan *ssa.Call
		eachInstr(dl, func(in ssa.Instruction) {
			if ci, ok := in.(*ssa.Call); ok && callName(ci) == "(*golang.org/x/sync/singleflight.Group).DoChan" {
				doChan = ci
			}
		})
		if doChan == nil {
			c.anchorMissing("singleflight DoChan in doLazyUpdate")
		} else {
			good := false
			var why = "no ExecNext found in the refresh function"
			if mc, ok := doChan.Call.Args[2].(*ssa.MakeClosure); ok {
				fn := mc.Fn.(*ssa.Function)
				eachInstrDeep(fn, func(g *ssa.Function, in ssa.Instruction) {
					ci, ok := in.(*ssa.Call)
					if !ok || !strings.HasSuffix(callName(ci), ".ExecNext") {
						return
					}
					tr := p.newTracer()
					// inside a new helper of the refresh function the context is a parameter: follow it to the helper's
					// only call site
					tr.throughParams, tr.throughFields, tr.throughCalls = g != fn && g.Parent() == nil, false, false
					args := callArgs(ci)
					roots := tr.origins(args[len(args)-1])
					good = len(roots) > 0
					for _, r := range roots {
						cl, ok := r.(*ssa.Call)
						if !ok || callName(cl) != "(*pkg/query_context.Context).Copy" || cl.Parent() != dl || !instrDominates(cl, doChan) {
							good = false
							why = "the refresh executes on " + exprStr(r) + ", not on a Copy() taken before DoChan"
						}
					}
				})
			}
			c.check(good, "refresh-on-copy@"+funcName(dl), instrPos(doChan), "refresh runs on qCtx.Copy() taken before the goroutine starts", why+": the refresh writes into the context of the query being answered")
		}
	}
}

// bodyWeight: how many times the code of g occurs in the body of root: 1 for root and its closures, the number of call
// sites for a new helper that eachInstrDeep(root) looked into (one helper replacing three identical loops counts 3).
func bodyWeight(root, g *ssa.Function) int {
	r := g
	for r.Parent() != nil {
		r = r.Parent()
	}
	if r == root {
		return 1
	}
	sites, _ := callSitesOf(r)
	if len(sites) == 0 {
		return 1
	}
	return len(sites)
}
