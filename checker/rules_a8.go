package main

// Rules added after the audit round A8 (defects D14-D36 found on the clean tree and repaired). Each function decides
// the structural necessary condition that the repair established; the reverse of every repair is a mutant.

import (
	"go/token"
	"go/types"
	"strings"

	"golang.org/x/tools/go/ssa"
)

// checkReuseIdMatch (D21; C01-R12, C17-R6): a non-pipelined connection matches replies to queries by a per-connection
// wire id: (a) exchange registers an id under the connection lock and writes that very id at the id offset (2, behind
// the length header) of its private query copy, (b) it restores the caller's id — read before the overwrite — on every
// reply it returns, (c) the reader drops the waiter (and so closes the connection) when the id of the message it read
// is not the registered one.
func checkReuseIdMatch(c *Ctx, lf *lockFacts) {
	checkReuseQueryBufferPerAttempt(c)
	T := relTransport + "."
	ex := c.fn(relTransport, "reusableConn", "exchange")
	rl := c.fn(relTransport, "reusableConn", "readLoop")
	if ex == nil || rl == nil {
		return
	}
	c.see(ex, rl)
	const put16 = "(encoding/binary.bigEndian).PutUint16"
	const get16 = "(encoding/binary.bigEndian).Uint16"
	// (a)
	var reg ssa.Value
	regLocked := false
	eachInstr(ex, func(in ssa.Instruction) {
		if st, ok := in.(*ssa.Store); ok {
			if k, _ := fieldKey(st.Addr); k == T+"reusableConn.waitingQid" {
				reg = st.Val
				regLocked = lf.held(in)[T+"reusableConn.m"] == lockW
			}
		}
	})
	sliceOfQ := func(v ssa.Value, low int64) bool {
		sl, ok := v.(*ssa.Slice)
		if !ok {
			return false
		}
		if n, isC := constInt(sl.Low); !isC || n != low {
			return false
		}
		ld, ok := sl.X.(*ssa.UnOp)
		return ok && ld.Op == token.MUL && len(ex.Params) >= 3 && ld.X == ssa.Value(ex.Params[2])
	}
	var overwrite, orgRead *ssa.Call
	eachInstr(ex, func(in ssa.Instruction) {
		ci, ok := in.(*ssa.Call)
		if !ok {
			return
		}
		switch callName(ci) {
		case put16:
			if len(ci.Call.Args) == 3 && sliceOfQ(ci.Call.Args[1], 2) {
				overwrite = ci
			}
		case get16:
			if len(ci.Call.Args) == 2 && sliceOfQ(ci.Call.Args[1], 2) {
				orgRead = ci
			}
		}
	})
	switch {
	case reg == nil:
		c.fail("reuse-wire-id@exchange", ex.Pos(), "the exchange registers no wire id for its query: the reader cannot tell this query's reply from a surplus (duplicated or late) reply of an earlier one, which is then delivered to this caller")
	case !regLocked:
		c.fail("reuse-wire-id@exchange", ex.Pos(), "the wire id is registered outside the connection lock")
	case overwrite == nil || overwrite.Call.Args[2] != reg:
		c.fail("reuse-wire-id@exchange", ex.Pos(), "the id written into the query (offset 2 of the framed copy) is not the id registered for it: the reader's comparison fails for every reply, or passes for the wrong one")
	default:
		c.ok("reuse-wire-id@exchange", instrPos(overwrite), "registered id == id written at offset 2 of the private query copy")
	}
	// (b)
	if orgRead == nil || overwrite == nil || !instrDominates(orgRead, overwrite) {
		c.fail("reuse-id-restored@exchange", ex.Pos(), "the caller's id is not read from the query before the wire id overwrites it")
	} else {
		bad := ""
		for _, r := range returnsOf(ex) {
			rv := returnedValues(r)
			if len(rv) != 2 || isNilConst(rv[0]) {
				continue
			}
			restored := false
			for _, x := range r.Block().Instrs {
				if ci, ok := x.(*ssa.Call); ok && callName(ci) == put16 && len(ci.Call.Args) == 3 && ci.Call.Args[2] == ssa.Value(orgRead) {
					if ld, ok := ci.Call.Args[1].(*ssa.UnOp); ok && ld.X == rv[0] {
						restored = true
					}
				}
			}
			// the reply comes out of a poll helper that is handed the caller's id and writes it back
			if hc, sum := pollHelperCall(rv[0]); hc != nil && sum.restores && sum.idIdx >= 0 && sum.idIdx < len(hc.Call.Args) && hc.Call.Args[sum.idIdx] == ssa.Value(orgRead) {
				restored = true
			}
			if !restored {
				bad = c.P.pos(instrPos(r))
			}
		}
		c.check(bad == "", "reuse-id-restored@exchange", ex.Pos(), "every returned reply gets the caller's id back", "a reply is returned at "+bad+" with the wire id instead of the caller's id")
	}
	// (c)
	var cmp *ssa.BinOp
	eachInstr(rl, func(in ssa.Instruction) {
		bo, ok := in.(*ssa.BinOp)
		if !ok || (bo.Op != token.NEQ && bo.Op != token.EQL) {
			return
		}
		isGet := func(v ssa.Value) bool { cl, ok := v.(*ssa.Call); return ok && callName(cl) == get16 }
		isReg := func(v ssa.Value) bool { k, ok := loadedField(v); return ok && k == T+"reusableConn.waitingQid" }
		if (isGet(bo.X) && isReg(bo.Y)) || (isGet(bo.Y) && isReg(bo.X)) {
			cmp = bo
		}
	})
	if cmp == nil {
		c.fail("reuse-reply-id-checked@readLoop", rl.Pos(), "the reader hands a message to the waiting caller without comparing its id with the registered wire id: a surplus reply read while the connection was idle is delivered to the next caller that took the connection in the meantime, the connection goes idle with the real reply still on its way, and every later caller gets the previous one's reply")
		return
	}
	// the mismatch edge leads to the nil edge of the value the reply is sent on
	good := false
	eachInstr(rl, func(in ssa.Instruction) {
		sel, ok := in.(*ssa.Select)
		if !ok {
			return
		}
		for _, st := range sel.States {
			ph, isPhi := st.Chan.(*ssa.Phi)
			if st.Dir != types.SendOnly || !isPhi {
				continue
			}
			for i, e := range ph.Edges {
				if !isNilConst(e) {
					continue
				}
				pred := ph.Block().Preds[i]
				for _, g := range guardsOf(pred) {
					if g.Cond == ssa.Value(cmp) && g.Truth == (cmp.Op == token.NEQ) {
						good = true
					}
				}
				// the nil edge may come straight from the comparison's block
				if iff, ok := terminator(pred).(*ssa.If); ok && iff.Cond == ssa.Value(cmp) {
					good = true
				}
			}
		}
	})
	// the same, whatever the shape: every hand-over of the message (a send in readLoop) runs only when the comparison
	// said "equal" (guards, including those derived through named booleans and nil-phis)
	if !good {
		nSend, allGuarded := 0, true
		eachInstr(rl, func(in ssa.Instruction) {
			isSend := false
			if sel, ok := in.(*ssa.Select); ok {
				for _, st := range sel.States {
					if st.Dir == types.SendOnly {
						isSend = true
					}
				}
			}
			if _, ok := in.(*ssa.Send); ok {
				isSend = true
			}
			if !isSend {
				return
			}
			nSend++
			guarded := false
			for _, g := range guardsOfInstr(in) {
				v, truth := g.asBool()
				if v == ssa.Value(cmp) && truth == (cmp.Op == token.EQL) {
					guarded = true
				}
			}
			if !guarded {
				allGuarded = false
			}
		})
		good = nSend > 0 && allGuarded
	}
	// the registered id is read under the connection lock (the id of the message itself is the reader's own data)
	regReadLocked := false
	for _, side := range []ssa.Value{cmp.X, cmp.Y} {
		if k, ok := loadedField(side); ok && k == T+"reusableConn.waitingQid" {
			if ld, isLd := side.(*ssa.UnOp); isLd && lf.held(ld)[T+"reusableConn.m"] == lockW {
				regReadLocked = true
			}
		}
	}
	c.check(good && (lf.held(cmp)[T+"reusableConn.m"] == lockW || regReadLocked), "reuse-reply-id-checked@readLoop", instrPos(cmp), "a message whose id is not the registered one finds no waiter (the connection is closed)",
		"the id comparison does not decide whether the waiter gets the message (or runs outside the connection lock)")
}

// checkDeliveredReplyWins (D22; C02-R14): once the query may have been sent, every error exit of the two exchange
// functions gives a reply that is already in the reply channel precedence: the error return is the "nothing there" edge
// of a non-blocking receive on the reply channel, with no blocking operation in between.
func checkDeliveredReplyWins(c *Ctx) {
	for _, an := range []struct{ recv, name string }{{"TraditionalDnsConn", "exchange"}, {"reusableConn", "exchange"}} {
		f := c.fn(relTransport, an.recv, an.name)
		if f == nil {
			continue
		}
		c.see(f)
		// first write
		var firstWrite ssa.Instruction
		eachInstr(f, func(in ssa.Instruction) {
			ci, ok := in.(*ssa.Call)
			if !ok || firstWrite != nil {
				return
			}
			if sc := staticCallee(ci); sc != nil && sc.Name() == "writeQuery" {
				firstWrite = in
			}
			if ci.Call.IsInvoke() && ci.Call.Method.Name() == "Write" {
				firstWrite = in
			}
		})
		if firstWrite == nil {
			c.anchorMissing("write of the query in " + funcName(f))
			continue
		}
		isPoll := func(x ssa.Instruction) bool {
			if cl, ok := x.(*ssa.Call); ok {
				// a reply poll helper whose last operation before every return is the poll
				if sum := replyPollSummary(cl.Call.StaticCallee()); sum != nil && sum.pollsLast {
					return true
				}
			}
			sel, ok := x.(*ssa.Select)
			if !ok || sel.Blocking {
				return false
			}
			for _, st := range sel.States {
				if st.Dir == types.RecvOnly && isReplyChanType(st.Chan.Type()) {
					return true
				}
			}
			return false
		}
		isBlocking := func(x ssa.Instruction) bool {
			if sel, ok := x.(*ssa.Select); ok && sel.Blocking {
				return true
			}
			if ci, ok := x.(*ssa.Call); ok {
				if sc := staticCallee(ci); sc != nil && sc.Name() == "writeQuery" {
					return true
				}
				if ci.Call.IsInvoke() && ci.Call.Method.Name() == "Write" {
					return true
				}
			}
			return false
		}
		bad := ""
		n := 0
		for _, r := range returnsOf(f) {
			rv := returnedValues(r)
			if len(rv) != 2 || !isNilConst(rv[0]) {
				continue
			}
			if _, after := reachAvoiding(firstWrite, func(x ssa.Instruction) bool { return x == ssa.Instruction(r) }, nil); !after {
				continue
			}
			n++
			// walk the dominator chain upwards: a poll must be met before any blocking operation
			polled := false
			b := r.Block()
			idx := idxInBlock(r) - 1
		up:
			for b != nil {
				for i := idx; i >= 0; i-- {
					x := b.Instrs[i]
					if isPoll(x) {
						polled = true
						break up
					}
					if isBlocking(x) {
						break up
					}
				}
				b = b.Idom()
				if b != nil {
					idx = len(b.Instrs) - 1
				}
			}
			if !polled {
				bad = c.P.pos(instrPos(r))
			}
		}
		c.check(bad == "" && n > 0, "delivered-reply-wins@"+funcName(f), f.Pos(), "every error exit after the send polls the reply channel first",
			"the error return at "+bad+" does not look into the reply channel first: when the reply was delivered before the caller's context ended (or while a (re)transmission write failed) and the caller only reaches its select afterwards, both cases are ready and about half of such exchanges return the error although their reply arrived in time")
	}
}

// checkReaderDoneWakesWaiters (D30; C02-R3, C08-R7): the "connection is gone" case of the reply wait watches a channel
// that is closed when the reader has RETURNED (deferred close at the top of readLoop), not the close notification: the
// reader may have read the reply already and be about to hand it over when another query's failed write closes the
// connection.
func checkReaderDoneWakesWaiters(c *Ctx) {
	for _, an := range []struct{ recv string }{{"TraditionalDnsConn"}, {"reusableConn"}} {
		ex := c.fn(relTransport, an.recv, "exchange")
		rl := c.fn(relTransport, an.recv, "readLoop")
		if ex == nil || rl == nil {
			continue
		}
		c.see(ex, rl)
		// channels that readLoop closes by a defer in its entry block
		done := map[string]bool{}
		for _, in := range rl.Blocks[0].Instrs {
			d, ok := in.(*ssa.Defer)
			if !ok || callNameCommon(&d.Call) != "builtin:close" || len(d.Call.Args) != 1 {
				continue
			}
			if k, ok := loadedField(d.Call.Args[0]); ok {
				done[k] = true
			}
		}
		// and nobody else closes them
		for k := range done {
			eachInstrDeep2(c.P.funcsIn(relTransport), func(f *ssa.Function, in ssa.Instruction) {
				if f == rl {
					return
				}
				if ci, ok := in.(ssa.CallInstruction); ok && callNameCommon(ci.Common()) == "builtin:close" && len(ci.Common().Args) == 1 {
					if k2, ok := loadedField(ci.Common().Args[0]); ok && k2 == k {
						delete(done, k)
					}
				}
			})
		}
		good, n := true, 0
		why := ""
		eachInstr(ex, func(in ssa.Instruction) {
			sel, ok := in.(*ssa.Select)
			if !ok || !sel.Blocking {
				return
			}
			isWait := false
			for _, st := range sel.States {
				if st.Dir == types.RecvOnly && isReplyChanType(st.Chan.Type()) {
					isWait = true
				}
			}
			if !isWait {
				return
			}
			n++
			watchesDone := false
			for _, st := range sel.States {
				if st.Dir != types.RecvOnly {
					continue
				}
				if k, ok := loadedField(st.Chan); ok {
					if done[k] {
						watchesDone = true
					} else if strings.HasSuffix(k, ".closeNotify") {
						good, why = false, "the reply wait gives up on the close notification"
					}
				}
			}
			if !watchesDone {
				good = false
				if why == "" {
					why = "the reply wait does not watch the reader's exit"
				}
			}
		})
		c.check(good && n > 0, "wait-until-reader-done@"+funcName(ex), ex.Pos(), "the reply wait ends when the reader has returned (it delivered everything it read)",
			why+": the reader may have read this query's reply and be about to hand it over (it has to take a lock first) when another query's failed write closes the connection; the exchange then returns that other query's write error — on a connection opened for it the error is reported although the server answered")
	}
}

func callNameCommon(cc *ssa.CallCommon) string {
	if b, ok := cc.Value.(*ssa.Builtin); ok {
		return "builtin:" + b.Name()
	}
	if f := cc.StaticCallee(); f != nil {
		return funcName(f)
	}
	return ""
}

func eachInstrDeep2(fs []*ssa.Function, fn func(f *ssa.Function, in ssa.Instruction)) {
	for _, f := range fs {
		ff := f
		eachInstr(f, func(in ssa.Instruction) { fn(ff, in) })
	}
}

// checkWaitingDeadlineUnconditional (D23; C07-R7, C02): while a query waits, the reader arms the waiting-reply deadline
// whatever the idle timeout is: the re-arm is guarded by the waiting flag alone.
func checkWaitingDeadlineUnconditional(c *Ctx) {
	T := relTransport + "."
	rl := c.fn(relTransport, "TraditionalDnsConn", "readLoop")
	if rl == nil {
		return
	}
	n := 0
	eachInstr(rl, func(in ssa.Instruction) {
		ci, ok := in.(*ssa.Call)
		if !ok || !ci.Call.IsInvoke() || ci.Call.Method.Name() != "SetReadDeadline" {
			return
		}
		flag := false
		extra := ""
		for _, g := range guardsOfInstr(in) {
			v, truth := g.asBool()
			if cl, ok := v.(*ssa.Call); ok && truth && callName(cl) == "(*sync/atomic.Bool).Load" {
				if k, _ := fieldKey(cl.Call.Args[0]); k == T+"TraditionalDnsConn.waitingResp" {
					flag = true
					continue
				}
			}
			if g.Derived {
				continue
			}
			extra = guardText(g)
		}
		if !flag {
			return
		}
		n++
		c.check(extra == "", "waiting-deadline-whatever-idle@readLoop", instrPos(in), "the waiting-reply deadline is re-armed whenever a query waits",
			"the reader re-arms the waiting-reply deadline only under the extra condition "+extra+": with an idle timeout shorter than the waiting-reply timeout a query that is still unanswered after another query's reply keeps only the idle deadline — the healthy connection is closed at the idle timeout and the query fails long before its reply and its own deadline")
	})
	if n == 0 {
		c.fail("waiting-deadline-whatever-idle@readLoop", rl.Pos(), "the reader never re-arms the waiting-reply deadline under the waiting flag")
	}
}

// checkExtRcodeSendable (D20; C03-R2, C15-R5): a reply whose rcode needs an OPT record (> 15) is never packed for a
// client that gets no OPT: the handler has a synthesised-SERVFAIL site under {Rcode > 15, RespOpt() == nil} that
// dominates packing.
func checkExtRcodeSendable(c *Ctx) {
	h := c.fn(relHandler, "EntryHandler", "Handle")
	if h == nil {
		return
	}
	found := false
	eachInstr(h, func(in ssa.Instruction) {
		iff, ok := in.(*ssa.If)
		if !ok {
			return
		}
		g := guard{Cond: iff.Cond, Truth: true, If: iff}
		cm, ok := g.asCmp()
		if !ok || cm.Op != token.GTR {
			return
		}
		if k, isF := loadedField(cm.X); !isF || k != "github.com/miekg/dns.MsgHdr.Rcode" {
			return
		}
		if n, isC := constInt(cm.Y); isC && n == 15 {
			found = true
		}
	})
	c.check(found, "ext-rcode-needs-opt", h.Pos(), "an rcode > 15 is only packed when the reply gets an OPT",
		"the handler packs whatever rcode the plugins produced: an extended rcode (BADVERS, BADCOOKIE from an upstream; reject 16..) for a client that sent no OPT cannot be packed (dns: bad extended rcode) — the client gets no reply at all")
}

// checkCacheNeverStoresOpt (D16; C10-R1, C11, C15-R8): copyNoOpt filters OPT records out of EVERY section — each loop
// that appends dns.Copy(r) to a section of the copy skips records whose type is OPT.
func checkCacheNeverStoresOpt(c *Ctx) {
	f := c.P.Func(relCachePlugin, "", "copyNoOpt")
	if f == nil {
		c.anchorMissing("copyNoOpt")
		return
	}
	c.see(f)
	n, bad := 0, ""
	eachInstrDeep(f, func(g *ssa.Function, in ssa.Instruction) {
		ci, ok := in.(*ssa.Call)
		if !ok || callName(ci) != "github.com/miekg/dns.Copy" {
			return
		}
		n += bodyWeight(f, g)
		skipsOpt := false
		for _, gd := range guardsOfInstr(in) {
			cm, ok := gd.asCmp()
			if !ok {
				continue
			}
			if k, isF := loadedField(cm.X); isF && strings.HasSuffix(k, "dns.RR_Header.Rrtype") && cm.Op == token.NEQ {
				if v, isC := constInt(cm.Y); isC && v == 41 {
					skipsOpt = true
				}
			}
			if _, isTA := cm.X.(*ssa.TypeAssert); isTA {
				skipsOpt = true
			}
		}
		// a helper predicate (isOpt(r)) false
		for _, gd := range guardsOfInstr(in) {
			v, truth := gd.asBool()
			if cl, ok := v.(*ssa.Call); ok && !truth {
				if sc := staticCallee(cl); sc != nil && strings.Contains(strings.ToLower(sc.Name()), "opt") {
					skipsOpt = true
				}
			}
		}
		if !skipsOpt {
			bad = c.P.pos(instrPos(in))
		}
	})
	c.check(n >= 3 && bad == "", "stored-copy-has-no-opt", f.Pos(), "every section of the stored copy is built without OPT records",
		"the copy kept in the cache can contain an OPT record (dns.Copy at "+bad+" is not guarded by 'not an OPT'): dns.Copy does not deep-copy all EDNS0 options, so the stored message, the response it was copied from and every hit share option data, and cached answers carry an OPT")
}

// checkStoreAnswersQuestion (D35; C03-R8, C04-R3): the cache stores a response only under the key of the question it
// answers — every saveRespToCache call of the plugin is guarded by answersQuestion(r, <question captured when the key
// was built>).
func checkStoreAnswersQuestion(c *Ctx) {
	checkQuestionSnapshotBeforeChain(c)
	n, bad := 0, ""
	for _, f := range c.P.funcsIn(relCachePlugin) {
		fn := f
		if fn.Name() == "saveRespToCache" {
			continue
		}
		eachInstr(f, func(in ssa.Instruction) {
			ci, ok := in.(*ssa.Call)
			if !ok {
				return
			}
			if sc := staticCallee(ci); sc == nil || sc.Name() != "saveRespToCache" {
				return
			}
			c.see(fn)
			n++
			if isNewHelper(fn) {
				// a store helper shared by the plugin's store sites counts once per call
				if sites, _ := callSitesOf(fn); len(sites) > 1 {
					n += len(sites) - 1
				}
			}
			guarded := false
			for _, gd := range guardsOfInstr(in) {
				v, truth := gd.asBool()
				cl, ok := v.(*ssa.Call)
				if !ok || !truth {
					continue
				}
				if sc := staticCallee(cl); sc != nil && sc.Name() == "answersQuestion" && len(cl.Call.Args) == 2 && cl.Call.Args[0] == ci.Call.Args[1] {
					guarded = true
				}
			}
			if !guarded {
				bad = c.P.pos(instrPos(in))
			}
		})
	}
	c.check(n >= 2 && bad == "", "store-only-own-answer", 0, "every store is guarded by 'the response's question is the key's question'",
		"the cache stores whatever response is in the context under the key of the (possibly rewritten) question (store at "+bad+"): when a response was already there before redirect rewrote the name / prefer_ipv4 the type and the rest of the chain kept it, the answer for the original question is stored under the rewritten question's key, and later queries for that question get a reply with another question")
	// the predicate itself
	if aq := c.P.Func(relCachePlugin, "", "answersQuestion"); aq != nil {
		cmpQ, one := false, false
		eachInstr(aq, func(in ssa.Instruction) {
			if bo, ok := in.(*ssa.BinOp); ok && bo.Op == token.EQL {
				if strings.HasSuffix(bo.X.Type().String(), "dns.Question") && (bo.Y == ssa.Value(aq.Params[1]) || bo.X == ssa.Value(aq.Params[1])) {
					cmpQ = true
				}
				if n, isC := constInt(bo.Y); isC && n == 1 {
					one = true
				}
			}
		})
		c.check(cmpQ && one, "store-only-own-answer:predicate", aq.Pos(), "answersQuestion = exactly one question, equal to the key's", "answersQuestion does not compare the response's single question with the question the key was built from")
	} else if n > 0 {
		c.anchorMissing("answersQuestion")
	}
}

// checkDumpSkipsBadEntries (D28, D29, D32; C19-R11): one entry that cannot be packed / unpacked / is too big never
// costs the others: on the error edge of item.resp.Pack() the range callback returns nil (not the error), on the error
// edge of Unpack(GetMsg()) the entry loop goes on; before an append that would make the block exceed the reader's
// limit the pending block is written.
func checkDumpSkipsBadEntries(c *Ctx, limit int64) {
	wd := c.fn(relCachePlugin, "Cache", "writeDump")
	rd := c.fn(relCachePlugin, "Cache", "readDump")
	if wd == nil || rd == nil {
		return
	}
	// writer: Pack error -> return nil
	okPack, nPack := true, 0
	eachInstrDeep(wd, func(f *ssa.Function, in ssa.Instruction) {
		ci, ok := in.(*ssa.Call)
		if !ok || callName(ci) != "(*github.com/miekg/dns.Msg).Pack" {
			return
		}
		nPack++
		for _, r := range returnsOf(f) {
			rv := returnedValues(r)
			if len(rv) == 0 {
				continue
			}
			onErr := false
			for _, g := range guardsOfInstr(r) {
				if cm, ok := g.asCmp(); ok && cm.Op == token.NEQ && isNilConst(cm.Y) {
					if ex, isE := cm.X.(*ssa.Extract); isE && ex.Tuple == ssa.Value(ci) {
						onErr = true
					}
				}
			}
			if onErr && !isNilConst(rv[len(rv)-1]) {
				okPack = false
			}
		}
	})
	c.check(okPack && nPack > 0, "dump-skips-unpackable-entry", wd.Pos(), "an entry that cannot be packed is left out, the dump goes on",
		"a pack error of one entry aborts the whole dump: dns.Msg.Unpack accepts messages that Pack refuses (an HTTPS record with an empty alpn-id); as long as such an entry lives every dump fails after the file was truncated, and a restart loses the whole cache")
	// reader: Unpack error -> no error return
	okUnpack, nUnpack := true, 0
	eachInstrDeep(rd, func(f *ssa.Function, in ssa.Instruction) {
		ci, ok := in.(*ssa.Call)
		if !ok || callName(ci) != "(*github.com/miekg/dns.Msg).Unpack" {
			return
		}
		nUnpack++
		if !unpackErrorSkipsEntry(ci) {
			okUnpack = false
		}
		// ... and goes on with the next entry: no return on the error edge before the loop head
		hdr := innermostLoopHeader(ci.Block())
		if hdr == nil && helperLoopHeader(ci) != nil && ci.Parent().Signature.Results().Len() == 0 {
			return // the loop body is a result-less helper of the loop: returning from it is going on with the next entry
		}
		for _, r := range referrers(ci) {
			bo, ok := r.(*ssa.BinOp)
			if !ok || !isNilConst(bo.Y) || (bo.Op != token.NEQ && bo.Op != token.EQL) {
				continue
			}
			for _, r2 := range referrers(bo) {
				iff, ok := r2.(*ssa.If)
				if !ok {
					continue
				}
				errBlk := succOnTruth(iff, bo.Op == token.NEQ)
				if _, ret := reachFromBlock(errBlk, func(x ssa.Instruction) bool { return isReturn(x) }, func(x ssa.Instruction) bool { return hdr != nil && x.Block() == hdr }); ret {
					okUnpack = false
				}
			}
		}
	})
	c.check(okUnpack && nUnpack > 0, "load-skips-undecodable-entry", rd.Pos(), "an entry whose bytes do not unpack is skipped, the load goes on",
		"an entry that does not unpack aborts the load of an intact dump (or is stored): dns.Msg.Pack can emit what Unpack refuses (a record received with cut-short rdata), and every entry after it is lost")
	// writer: flush before an append that would exceed the limit; skip an entry that is too big on its own
	flushBefore, skipBig := false, false
	eachInstrDeep(wd, func(f *ssa.Function, in ssa.Instruction) {
		iff, ok := in.(*ssa.If)
		if !ok {
			return
		}
		for _, truth := range []bool{true, false} {
			g := guard{Cond: iff.Cond, Truth: truth, If: iff}
			cm, ok := g.asCmp()
			if !ok || cm.Op != token.GTR {
				continue
			}
			if n, isC := constInt(cm.Y); !isC || n != limit {
				continue
			}
			blk := succOnTruth(iff, truth)
			isAppend := func(x ssa.Instruction) bool {
				st, ok := x.(*ssa.Store)
				if !ok {
					return false
				}
				k, _ := fieldKey(st.Addr)
				return strings.HasSuffix(k, ".CacheDumpBlock.Entries")
			}
			isBlockWriter := func(x ssa.Instruction) bool {
				cl, ok := x.(*ssa.Call)
				if !ok {
					return false
				}
				if sc := staticCallee(cl); sc != nil {
					return sc.Parent() == wd
				}
				// the block writer is a local closure variable of writeDump: a call through a captured func() error value
				if cl.Call.IsInvoke() {
					return false
				}
				sig, isSig := cl.Call.Value.Type().Underlying().(*types.Signature)
				return isSig && sig.Params().Len() == 0 && sig.Results().Len() == 1 && sig.Results().At(0).Type().String() == "error"
			}
			// "<pending> + <entry> > limit" -> the block writer runs before the append
			if _, w := reachFromBlock(blk, isBlockWriter, isAppend); w {
				flushBefore = true
				continue
			}
			// "<entry> > limit" -> the callback returns (nil) without appending
			if _, r := reachFromBlock(blk, func(x ssa.Instruction) bool { return isReturn(x) }, func(x ssa.Instruction) bool { return isAppend(x) || isBlockWriter(x) }); r {
				skipBig = true
			}
		}
	})
	// D45: when the writer bounds every message (compressed, <= 65535 bytes) a block cannot overflow either, as long as it
	// is written once it holds `limit - one maximal entry` bytes: the order of test and append does not matter then
	boundedEntries := false
	{
		var pack *ssa.Call
		eachInstrDeep(wd, func(f *ssa.Function, in ssa.Instruction) {
			if cl, ok := in.(*ssa.Call); ok && callName(cl) == "(*github.com/miekg/dns.Msg).Pack" {
				pack = cl
			}
		})
		if pack != nil {
			if wl := dumpWriterMsgLimit(pack); wl >= 0 && wl <= 65535 {
				const maxEntry = 65535 + 1024 // a maximal message plus key and protobuf overhead
				eachInstr(pack.Parent(), func(in ssa.Instruction) {
					iff, ok := in.(*ssa.If)
					if !ok {
						return
					}
					for _, truth := range []bool{true, false} {
						g := guard{Cond: iff.Cond, Truth: truth, If: iff}
						cm, ok := g.asCmp()
						if !ok || cm.Op != token.GEQ {
							continue
						}
						if lc, isLen := cm.X.(*ssa.Call); isLen && callName(lc) == "builtin:len" {
							continue // a number of entries, not of bytes
						}
						if k, isC := constInt(cm.Y); isC && k+maxEntry <= limit {
							boundedEntries = true
						}
					}
				})
			}
		}
	}
	c.check((flushBefore && skipBig) || boundedEntries, "block-never-exceeds-reader-limit", wd.Pos(), "a pending block is written before an entry that would overflow it; an entry bigger than a block is left out (or: every message is bounded and the block is written with room for one more entry)",
		"a block can exceed the length readDump accepts (the size test runs only after the entry was appended, or a single oversized entry is written anyway): a 64k response that used name compression is packed without it and can take more than a block; the intact dump then fails to load with 'block length is big'")
}

// checkCloseStopsDumpLoopFirst (D31; C19-R11): Close stops the periodic dump loop and waits for it before it writes the
// final dump — two dumps never write the file at once.
func checkCloseStopsDumpLoopFirst(c *Ctx) {
	checkFinalDumpSeesLiveBackend(c)
	cl := c.fn(relCachePlugin, "Cache", "Close")
	sl := c.fn(relCachePlugin, "Cache", "startDumpLoop")
	if cl == nil || sl == nil {
		return
	}
	c.see(cl, sl)
	CT := relCachePlugin + ".Cache."
	var dump, once, wait ssa.Instruction
	eachInstr(cl, func(in ssa.Instruction) {
		switch x := in.(type) {
		case *ssa.Call:
			if sc := staticCallee(x); sc != nil && sc.Name() == "dumpCache" {
				dump = in
			}
			if callName(x) == "(*sync.Once).Do" {
				once = in
			}
		case *ssa.UnOp:
			if x.Op == token.ARROW {
				if k, ok := loadedField(x.X); ok && k == CT+"dumpLoopDone" {
					wait = in
				}
			}
		}
	})
	good := dump != nil && once != nil && wait != nil && instrDominates(once, dump)
	if good {
		// the wait lies on every path to the dump on which a loop exists: no path once -> dump avoiding the wait except the
		// "no loop" (nil channel) edge
		if _, skip := reachAvoiding(once, func(x ssa.Instruction) bool { return x == dump }, func(x ssa.Instruction) bool { return x == wait }); skip {
			nilEdge := false
			for _, g := range guardsOfInstr(wait) {
				if cm, ok := g.asCmp(); ok && isNilConst(cm.Y) && cm.Op == token.NEQ {
					if k, ok := loadedField(cm.X); ok && k == CT+"dumpLoopDone" {
						nilEdge = true
					}
				}
			}
			good = nilEdge
		}
	}
	// the loop closes dumpLoopDone by defer and re-checks closeNotify after a tick
	loopCloses := false
	eachInstrDeep(sl, func(f *ssa.Function, in ssa.Instruction) {
		if d, ok := in.(*ssa.Defer); ok && callNameCommon(&d.Call) == "builtin:close" && len(d.Call.Args) == 1 {
			if k, ok := loadedField(d.Call.Args[0]); ok && k == CT+"dumpLoopDone" {
				loopCloses = true
			}
		}
	})
	c.check(good && loopCloses, "close-stops-dump-loop-first", cl.Pos(), "Close: stop the loop, wait for it, then dump",
		"Close writes the final dump while the periodic dump loop can still start (or be in) a dump of its own: both truncate and write the same file, and after a clean shutdown the dump is a mix of two streams — a restart loses part of the cache")
}

// checkQuicSocketsClosed (D33; C07-R14): every UDP socket NewUpstream opens for a QUIC transport is handed to a `closers`
// value (closed with the upstream) — quic.Transport.Close() does not close a Conn it did not create, and the DoQ branch
// used to return its PipelineTransport bare.
func checkQuicSocketsClosed(c *Ctx) {
	nu := c.P.Func(relUpstream, "", "NewUpstream")
	if nu == nil {
		c.anchorMissing("NewUpstream")
		return
	}
	n, bad := 0, ""
	eachInstrDeep(nu, func(f *ssa.Function, in ssa.Instruction) {
		if f != nu {
			return // sockets opened per dial inside closures belong to the connection they become
		}
		ci, ok := in.(*ssa.Call)
		if !ok {
			return
		}
		nm := callName(ci)
		if !(strings.HasSuffix(nm, ".ListenPacket") || strings.HasSuffix(nm, ".ListenUDP")) {
			return
		}
		n++
		var sock ssa.Value
		for _, r := range referrers(ci) {
			if ex, ok := r.(*ssa.Extract); ok && ex.Index == 0 {
				sock = ex
			}
		}
		inClosers := false
		var follow func(v ssa.Value, d int)
		follow = func(v ssa.Value, d int) {
			if v == nil || d > 4 {
				return
			}
			for _, r := range referrers(v) {
				switch x := r.(type) {
				case *ssa.MakeInterface:
					follow(x, d+1)
				case *ssa.ChangeInterface:
					follow(x, d+1)
				case *ssa.TypeAssert:
					follow(x, d+1)
				case *ssa.Extract:
					follow(x, d+1)
				case *ssa.Store:
					if ia, ok := x.Addr.(*ssa.IndexAddr); ok {
						if strings.HasSuffix(typeKey(ia.X.Type()), "io.Closer") || strings.Contains(ia.X.Type().String(), "io.Closer") {
							inClosers = true
						}
					}
				}
			}
		}
		follow(sock, 0)
		if !inClosers {
			bad = c.P.pos(instrPos(in))
		}
	})
	c.check(n >= 2 && bad == "", "quic-sockets-closed-with-upstream", nu.Pos(), "the UDP sockets of the doq / h3 upstreams are closed with the upstream",
		"the UDP socket opened at "+bad+" for a QUIC transport is not among the things the upstream's Close() closes: quic.Transport.Close() does not close a Conn that it did not create, so every doq / h3 upstream leaks its socket (and the doq one its quic.Transport goroutines) after Close")
}

// checkHTTPHeaderLimit (D36; C03-R14): the DoH server accepts GET requests of ordinary size: MaxHeaderBytes — from which
// http2.ConfigureServer derives the header list limit for the whole request, base64 query included — is at least 4096.
func checkHTTPHeaderLimit(c *Ctx) {
	found := false
	var val int64 = -1
	for _, f := range c.P.funcsIn("plugin/server/http_server") {
		eachInstr(f, func(in ssa.Instruction) {
			st, ok := in.(*ssa.Store)
			if !ok {
				return
			}
			if k, _ := fieldKey(st.Addr); k == "net/http.Server.MaxHeaderBytes" {
				found = true
				if n, isC := constInt(st.Val); isC {
					val = n
				}
			}
		})
	}
	if !found {
		c.ok("doh-get-header-limit", 0, "MaxHeaderBytes is left at the net/http default (1 MiB)")
		return
	}
	c.check(val >= 4096, "doh-get-header-limit", 0, "MaxHeaderBytes >= 4096",
		"the DoH server limits request headers to "+itoa(val)+" bytes: over HTTP/2 that is a header list limit of "+itoa(val+320)+" bytes for the whole request incl. the base64 query in :path — a GET of a 255-octet-name query with a padded OPT cannot be asked at all")
}

// checkIdSearchNotBoundedByProbes (D37; C09-R12): the id allocator refuses ("too many queries") only when the id space is
// exhausted — every return of a nil channel is guarded by len(queue) > 65535 — never after a fixed number of probes: a
// connection far below its limit must admit a query even when the wrapped id counter meets a run of ids still in use.
func checkIdSearchNotBoundedByProbes(c *Ctx) {
	T := relTransport + "."
	f := c.fn(relTransport, "TraditionalDnsConn", "addQueueC")
	if f == nil {
		return
	}
	c.see(f)
	bad := ""
	n := 0
	for _, r := range returnsOf(f) {
		rv := returnedValues(r)
		if len(rv) != 2 || !isNilConst(rv[1]) {
			continue
		}
		n++
		full := false
		for _, g := range guardsOfInstr(r) {
			cm, ok := g.asCmp()
			if !ok || (cm.Op != token.GTR && cm.Op != token.GEQ) {
				continue
			}
			cl, isC := cm.X.(*ssa.Call)
			if !isC || callName(cl) != "builtin:len" {
				continue
			}
			if k, okk := loadedField(cl.Call.Args[0]); !okk || k != T+"TraditionalDnsConn.queue" {
				continue
			}
			if v, okv := constInt(cm.Y); okv && ((cm.Op == token.GTR && v >= 65535) || (cm.Op == token.GEQ && v >= 65536)) {
				full = true
			}
		}
		if !full {
			bad = c.P.pos(instrPos(r))
		}
	}
	if n == 0 {
		c.ok("id-refused-only-when-id-space-full", f.Pos(), "the allocator never refuses")
		return
	}
	c.check(bad == "", "id-refused-only-when-id-space-full", f.Pos(), "a query is refused only when all 65536 ids are in use",
		"the id allocator gives up (return at "+bad+") although ids are free — e.g. after a fixed number of probes: once the 16-bit counter wraps onto a run of ids of queries that are still waiting (a burst of lost replies on a busy UDP upstream), a connection far below its limit refuses every new query with 'too many queries' without sending it")
}

// checkClientDoInKey (C04-R5, a recorded finding): the DO bit that the key builder reads is the DO bit of the query's own
// OPT — which NewContext replaces with a fresh OPT whose DO is never set. Unless the key builder is given the client's
// OPT, or the context copies the client's DO onto the query's OPT, two client queries that differ only in DO share an
// entry.
func checkClientDoInKey(c *Ctx) {
	p := c.P
	ex := c.fn(relCachePlugin, "Cache", "Exec")
	if ex == nil {
		return
	}
	usesClientOpt := false
	eachInstr(ex, func(in ssa.Instruction) {
		ci, ok := in.(*ssa.Call)
		if !ok {
			return
		}
		if sc := staticCallee(ci); sc == nil || sc.Name() != "getMsgKey" {
			return
		}
		tr := p.newTracer()
		tr.throughCalls, tr.throughFields, tr.throughParams = false, false, false
		for _, a := range ci.Call.Args {
			for _, o := range tr.origins(a) {
				if cl, ok := o.(*ssa.Call); ok && callName(cl) == "(*"+relQctx+".Context).ClientOpt" {
					usesClientOpt = true
				}
			}
		}
	})
	queryOptGetsDo := false
	for _, f := range p.funcsIn(relQctx) {
		eachInstr(f, func(in ssa.Instruction) {
			ci, ok := in.(*ssa.Call)
			if !ok || len(ci.Call.Args) == 0 {
				return
			}
			n := callName(ci)
			if !(strings.HasSuffix(n, ".setDo") || n == "(*github.com/miekg/dns.OPT).SetDo") {
				return
			}
			if k, isF := loadedField(ci.Call.Args[0]); isF && strings.HasSuffix(k, ".Context.respOpt") {
				return // the reply's OPT
			}
			// ... also while it is still a local of the function that builds it: a fresh newOpt() value that is
			// returned / stored as the response OPT, not the query's own OPT (which lives in the query's Extra)
			if cl, isCall := ci.Call.Args[0].(*ssa.Call); isCall {
				if sc := staticCallee(cl); sc != nil && sc.Name() == "newOpt" {
					toQuery := false
					for _, r := range referrers(cl) {
						if mi, ok := r.(*ssa.MakeInterface); ok {
							_ = mi
							toQuery = true // appended to a section as dns.RR
						}
					}
					if !toQuery {
						return
					}
				}
			}
			if f.Name() == "setDo" {
				return // the helper itself
			}
			queryOptGetsDo = true
		})
	}
	c.check(usesClientOpt || queryOptGetsDo, "client-do-in-key", ex.Pos(), "the client's DO bit reaches the cache key",
		"the DO bit in the cache key is read from the query's own OPT, which NewContext replaced with a fresh OPT whose DO is never set: the client's DO bit (kept only in clientOpt / mirrored into the reply OPT) is not part of the key, so a DO=1 and a DO=0 query for the same question share one cache entry")
}

// checkStreamServerAnswersInflight (C03-R15, a recorded finding): the TCP/DoT server answers the queries it has already
// read before it closes the connection: the per-connection goroutine waits for its handler goroutines (sync.WaitGroup)
// before the deferred Close / context cancel run.
func checkStreamServerAnswersInflight(c *Ctx) {
	st := c.P.Func(relServer, "", "ServeTCP")
	if st == nil {
		c.anchorMissing("ServeTCP")
		return
	}
	var connFn *ssa.Function
	for _, a := range st.AnonFuncs {
		reads := false
		eachInstr(a, func(in ssa.Instruction) {
			if ci, ok := in.(*ssa.Call); ok && (strings.HasSuffix(callName(ci), "dnsutils.ReadMsgFromTCP") || strings.HasSuffix(callName(ci), "server.readQueryFromStream")) {
				reads = true
			}
		})
		if reads {
			connFn = a
		}
	}
	if connFn == nil {
		c.anchorMissing("per-connection goroutine of ServeTCP")
		return
	}
	c.see(connFn)
	spawns, waits := false, false
	eachInstr(connFn, func(in ssa.Instruction) {
		if _, ok := in.(*ssa.Go); ok {
			spawns = true
		}
		if ci, ok := in.(ssa.CallInstruction); ok && callNameCommon(ci.Common()) == "(*sync.WaitGroup).Wait" {
			waits = true
		}
	})
	c.check(!spawns || waits, "stream-server-answers-in-flight-queries@ServeTCP", connFn.Pos(), "the connection is closed only after its handlers finished",
		"when the read loop of a TCP/DoT connection ends (idle timer — it runs while a query is being processed —, client half-close, or a malformed neighbouring message) the deferred Close and context cancel run at once: queries that were already read and are still being processed are cancelled and get no reply")
}
